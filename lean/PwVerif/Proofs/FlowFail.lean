import PwVerif.Model.FlowFail
import PwVerif.Proofs.Signal
/-! Lemmas for `FlowFail`: invariants of the child runs lifted to `Signal.compositeRun` for every signal graph and fuel. -/
namespace PwVerif.FlowFail
open PwVerif PwVerif.Signal
variable {E : Type} {σ : Type}

/-! ### generic: what every `run()` preserves, the whole composite run preserves -/

theorem callRun_store (sem : Sem σ) (g : Graph) (s : S σ) (i : Nat) :
    (callRun sem g s i).store = (sem.react s.store i).1 := by
  unfold callRun; rfl

theorem store_inv_callRun (sem : Sem σ) (Q : σ → Prop) (hQ : ∀ st i, Q st → Q (sem.react st i).1) (g : Graph)
    (s : S σ) (i : Nat) (h : Q s.store) : Q (callRun sem g s i).store := by
  rw [callRun_store]; exact hQ _ _ h

theorem store_inv_startAll (sem : Sem σ) (Q : σ → Prop) (hQ : ∀ st i, Q st → Q (sem.react st i).1) (g : Graph)
    (l : List Nat) : ∀ s : S σ, Q s.store → Q (startAll sem g s l).store := by
  induction l with
  | nil => intro s h; exact h
  | cons i rest ih => intro s h; exact ih _ (store_inv_callRun sem Q hQ g s i h)

theorem store_inv_deliver (sem : Sem σ) (Q : σ → Prop) (hQ : ∀ st i, Q st → Q (sem.react st i).1) (g : Graph)
    (s : S σ) (e : Sig) (r : Recv) (h : Q s.store) : Q (deliver sem g s e r).store := by
  unfold deliver
  split
  · split
    rename_i a fire _
    dsimp only
    split
    · exact store_inv_callRun sem Q hQ g _ _ h
    · exact h
  · exact store_inv_callRun sem Q hQ g _ _ h

theorem store_inv_drain (sem : Sem σ) (Q : σ → Prop) (hQ : ∀ st i, Q st → Q (sem.react st i).1) (g : Graph)
    (n : Nat) : ∀ s : S σ, Q s.store → Q (drain sem g n s).store := by
  induction n with
  | zero => intro s h; exact h
  | succ n ih =>
    intro s h
    simp only [drain]
    split
    · exact h
    · exact ih _ (store_inv_deliver sem Q hQ g _ _ _ h)

/-- an invariant of the child runs is an invariant of `compositeRun`, for every graph and every fuel -/
theorem store_inv (sem : Sem σ) (Q : σ → Prop) (hQ : ∀ st i, Q st → Q (sem.react st i).1) (g : Graph) (fuel : Nat)
    (s0 : S σ) (h : Q s0.store) : Q (compositeRun sem g fuel s0).store := by
  unfold compositeRun compositeRunFrom
  exact store_inv_drain sem Q hQ g fuel _ (store_inv_startAll sem Q hQ g _ _ h)

/-! ### facts about one `run()` -/

theorem sig_ne (i : Nat) : sigFailed i ≠ sigRan i ∧ sigFailed i ≠ sigTrue i ∧ sigFailed i ≠ sigFalse i := by
  refine ⟨?_, ?_, ?_⟩ <;> simp [sigFailed, sigRan, sigTrue, sigFalse]

/-- `emitting_channels` of a child that is not failed: `ran` (+ branch), never `failed` -/
theorem emitting_ok (nodes : Nat → Node) (st : Store) (i : Nat) (h : st.failed i = false) :
    sigRan i ∈ emitting nodes st i ∧ sigFailed i ∉ emitting nodes st i := by
  obtain ⟨h1, h2, h3⟩ := sig_ne i
  unfold emitting
  simp only [h, Bool.false_eq_true, if_false]
  cases hk : (nodes i).kind <;> simp only [List.mem_singleton, true_and] <;> try exact h1
  cases ho : st.out i <;> simp only [List.mem_append, List.mem_singleton, true_or, true_and] <;>
    first
      | exact h1
      | (intro hc
         rcases hc with hc | hc
         · exact h1 hc
         · split at hc
           · exact h2 hc
           · exact h3 hc)

/-- `emitting_channels` of a failed child: `failed` and nothing else (69a7122 for `If`) -/
theorem emitting_failed (nodes : Nat → Node) (st : Store) (i : Nat) (h : st.failed i = true) :
    emitting nodes st i = [sigFailed i] := by
  unfold emitting
  simp only [h, if_true]
  cases (nodes i).kind <;> rfl

theorem ite_ind {α : Type} {P : α → Prop} (c : Prop) [Decidable c] (a b : α) (ha : c → P a) (hb : ¬ c → P b) :
    P (if c then a else b) := by
  split
  · exact ha ‹_›
  · exact hb ‹_›

/-- the three things a `run()` of child `i` can be -/
inductive Outcome (nodes : Nat → Node) (st : Store) (i : Nat) : Store × Bool × List Sig → Prop
  | refused (h : st.failed i = true ∨ (fetchArgs nodes st.out i).any Val.isNd = true) :
      Outcome nodes st i (st, true, [])
  | completed (st' : Store) (hf : st.failed i = false) (hlog : st.execLog.length < st'.execLog.length)
      (hfail : st'.failed = st.failed) (hatt : ∀ j, j ≠ i → st'.attempts j = st.attempts j) :
      Outcome nodes st i (st', false, emitting nodes st' i)
  | raised (st' : Store) (hf : st.failed i = false) (hlog : st.execLog.length < st'.execLog.length)
      (hfail : st'.failed = updF st.failed i true) (hout : st'.out = st.out)
      (hatt : ∀ j, j ≠ i → st'.attempts j = st.attempts j) :
      Outcome nodes st i (st', true, emitting nodes st' i)

theorem runNode_outcome (nodes : Nat → Node) (st : Store) (i : Nat) : Outcome nodes st i (runNode nodes st i) := by
  unfold runNode
  dsimp only
  apply ite_ind
  · intro hhit
    have hf : st.failed i = false := by
      simp only [Bool.and_eq_true, Bool.not_eq_true'] at hhit
      exact hhit.1.2.1
    exact Outcome.completed _ hf (by simp) rfl (fun j _ => rfl)
  · intro _
    apply ite_ind
    · intro hnr
      simp only [Bool.not_eq_true', Bool.and_eq_false_imp, Bool.not_eq_true'] at hnr
      refine Outcome.refused ?_
      by_cases hf : st.failed i = true
      · exact Or.inl hf
      · right
        have hf' : st.failed i = false := by simpa using hf
        have := hnr (by simp [hf'])
        simpa using this
    · intro hr
      have hf : st.failed i = false := by
        simp only [Bool.not_eq_true', Bool.not_eq_false, Bool.and_eq_true, Bool.not_eq_true'] at hr
        exact hr.1
      cases hm : (if (nodes i).failAt.contains (st.attempts i + 1) then none
          else eval (nodes i).kind (fetchArgs nodes st.out i)) with
      | some v => exact Outcome.completed _ hf (by simp) rfl (fun j hj => by simp [updF, hj])
      | none => exact Outcome.raised _ hf (by simp) rfl rfl (fun j hj => by simp [updF, hj])

/-! ### the dict -/

theorem dget_dset_same (l : List (Nat × E)) (k : Nat) (v : E) : dget (dset l k v) k = some v := by
  induction l with
  | nil => simp [dset, dget]
  | cons p rest ih =>
    obtain ⟨k', v'⟩ := p
    by_cases h : k' = k
    · simp [dset, dget, h]
    · simp [dset, dget, h, ih]

theorem dget_dset_other (l : List (Nat × E)) (k j : Nat) (v : E) (h : j ≠ k) : dget (dset l k v) j = dget l j := by
  induction l with
  | nil => simp [dset, dget, Ne.symm h]
  | cons p rest ih =>
    obtain ⟨k', v'⟩ := p
    by_cases hk : k' = k
    · subst hk; simp [dset, dget, Ne.symm h]
    · by_cases hj : k' = j
      · subst hj; simp [dset, dget, hk]
      · simp [dset, dget, hk, hj, ih]

theorem dget_some_of_ne_nil (l : List (Nat × E)) (h : l ≠ []) : ∃ k, (dget l k).isSome = true := by
  cases l with
  | nil => exact absurd rfl h
  | cons p rest => exact ⟨p.1, by obtain ⟨k, v⟩ := p; simp [dget]⟩

theorem dget_nil (k : Nat) : dget ([] : List (Nat × E)) k = none := rfl

/-- keys stay distinct -/
theorem dset_keys_nodup (l : List (Nat × E)) (k : Nat) (v : E) (h : (l.map (·.1)).Nodup) :
    ((dset l k v).map (·.1)).Nodup := by
  induction l with
  | nil => simp [dset]
  | cons p rest ih =>
    obtain ⟨k', v'⟩ := p
    simp only [List.map_cons, List.nodup_cons] at h
    by_cases hk : k' = k
    · subst hk; simpa [dset] using h
    · simp only [dset, hk, if_false, List.map_cons, List.nodup_cons]
      refine ⟨?_, ih h.2⟩
      intro hm
      have : ∀ (r : List (Nat × E)), k' ∈ (dset r k v).map (·.1) → k' ∈ r.map (·.1) := by
        intro r
        induction r with
        | nil => intro hx; simp [dset] at hx; exact absurd hx hk
        | cons q r' ih' =>
          obtain ⟨a, b⟩ := q
          by_cases ha : a = k
          · subst ha; intro hx; simpa [dset] using hx
          · intro hx
            simp only [dset, ha, if_false, List.map_cons, List.mem_cons] at hx
            rcases hx with hx | hx
            · simp [hx]
            · simp [ih' hx]
      exact h.1 (this rest hm)

/-! ### what `collect` does to one key -/

theorem collect_other (b : Book E) (c : Nat) (e : E) (r : Bool) (j : Nat) (h : j ≠ c) :
    dget (collect b c e r).errors j = dget b.errors j := by
  unfold collect
  cases r
  · simp [dget_dset_other _ _ _ _ h]
  · simp only [if_true]
    split
    · rfl
    · simp [dget_dset_other _ _ _ _ h]

theorem collectPinned_other (b : Book E) (c : Nat) (e : E) (r : Bool) (j : Nat) (h : j ≠ c) :
    dget (collectPinned b c e r).errors j = dget b.errors j := by
  simp [collectPinned, dget_dset_other _ _ _ _ h]

theorem collect_started (b : Book E) (c : Nat) (e : E) :
    dget (collect b c e false).errors c = some e ∧ c ∈ (collect b c e false).accounted := by
  simp [collect, dget_dset_same, mem_insertL]

theorem collect_refused_keeps (b : Book E) (c : Nat) (e x : E) (h : dget b.errors c = some x) :
    collect b c e true = b := by
  simp [collect, h]

theorem collect_isSome (b : Book E) (c : Nat) (e : E) (r : Bool) : (dget (collect b c e r).errors c).isSome = true := by
  unfold collect
  cases r
  · simp [dget_dset_same]
  · simp only [if_true]
    split
    · rename_i x hx; simp [hx]
    · simp [dget_dset_same]

theorem collect_accounted_mono (b : Book E) (c : Nat) (e : E) (r : Bool) (j : Nat) (h : j ∈ b.accounted) :
    j ∈ (collect b c e r).accounted := by
  unfold collect
  cases r
  · simp [mem_insertL, h]
  · simp only [if_true]; split <;> exact h

theorem collect_keys_nodup (b : Book E) (c : Nat) (e : E) (r : Bool) (h : (b.errors.map (·.1)).Nodup) :
    ((collect b c e r).errors.map (·.1)).Nodup := by
  unfold collect
  cases r
  · exact dset_keys_nodup _ _ _ h
  · simp only [if_true]; split
    · exact h
    · exact dset_keys_nodup _ _ _ h

/-! ### invariants of the child runs -/

/-- every logged run is of one of the three kinds, and emits accordingly: refused — nothing; completed — `ran`
(+ branch), never `failed`; raised — `failed` and nothing else -/
def EntryOK (en : Entry) : Prop :=
  (en.raised = true → en.started = true → en.sigs = [sigFailed en.child]) ∧
  (en.raised = true → en.started = false → en.sigs = []) ∧
  (en.raised = false → en.started = true ∧ sigRan en.child ∈ en.sigs ∧ sigFailed en.child ∉ en.sigs)

def LogOK (fs : FStore E) : Prop := ∀ en ∈ fs.log, EntryOK en

theorem react_entry (rep : Bool) (nodes : Nat → Node) (exc : Nat → Nat → E) (refusal : Nat → E) (fs : FStore E) (i : Nat) :
    ∃ en, (react rep nodes exc refusal fs i).1.log = fs.log ++ [en] ∧ en.child = i ∧ EntryOK en ∧
      en.raised = (react rep nodes exc refusal fs i).2.1 ∧ en.sigs = (react rep nodes exc refusal fs i).2.2 := by
  refine ⟨_, rfl, rfl, ?_, rfl, rfl⟩
  have ho := runNode_outcome nodes fs.st i
  generalize runNode nodes fs.st i = r at ho
  cases ho with
  | refused h => simp [EntryOK]
  | completed st' hf hlog hfail hatt =>
    have hf' : st'.failed i = false := by rw [hfail]; exact hf
    simp [EntryOK, hlog, emitting_ok nodes st' i hf']
  | raised st' hf hlog hfail hout hatt =>
    have hf' : st'.failed i = true := by rw [hfail]; simp [updF]
    simp [EntryOK, hlog, emitting_failed nodes st' i hf']

theorem react_logOK (rep : Bool) (nodes : Nat → Node) (exc : Nat → Nat → E) (refusal : Nat → E) (fs : FStore E) (i : Nat)
    (h : LogOK fs) : LogOK (react rep nodes exc refusal fs i).1 := by
  obtain ⟨en, hl, _, hok, _, _⟩ := react_entry rep nodes exc refusal fs i
  intro x hx
  rw [hl] at hx
  rcases List.mem_append.mp hx with hx | hx
  · exact h x hx
  · simp at hx; subst hx; exact hok

/-- the child's function has raised in this composite run -/
def RaisedIn (fs : FStore E) (i : Nat) : Prop := ∃ en ∈ fs.log, en.child = i ∧ en.raised = true ∧ en.started = true

/-- ORIGINAL KEPT (repaired book-keeping): a child whose function has raised is failed, and what is recorded for it is
what that invocation raised — whatever happened to it before and however often it was asked again -/
def OrigKept (exc : Nat → Nat → E) (fs : FStore E) : Prop :=
  ∀ i, RaisedIn fs i → fs.st.failed i = true ∧ dget fs.book.errors i = some (exc i (fs.st.attempts i)) ∧
    i ∈ fs.book.accounted

theorem react_origKept (nodes : Nat → Node) (exc : Nat → Nat → E) (refusal : Nat → E) (fs : FStore E) (i : Nat)
    (h : OrigKept exc fs) : OrigKept exc (react true nodes exc refusal fs i).1 := by
  intro j hj
  obtain ⟨en, hen, hc, hr, hs⟩ := hj
  have ho := runNode_outcome nodes fs.st i
  simp only [react] at hen ⊢
  generalize runNode nodes fs.st i = r at ho hen ⊢
  cases ho with
  | refused hrf =>
    -- nothing changes but possibly a refusal being recorded — never over an existing record
    simp only [List.mem_append, List.mem_singleton, Nat.lt_irrefl, decide_false] at hen
    have hold : RaisedIn fs j := by
      rcases hen with hen | hen
      · exact ⟨en, hen, hc, hr, hs⟩
      · subst hen; simp at hs
    obtain ⟨h1, h2, h3⟩ := h j hold
    refine ⟨h1, ?_, ?_⟩
    · simp only [Nat.lt_irrefl, decide_false, Bool.not_false, if_true, Bool.false_eq_true, if_false]
      by_cases hji : j = i
      · subst hji; rw [collect_refused_keeps _ _ _ _ h2]; exact h2
      · rw [collect_other _ _ _ _ _ hji]; exact h2
    · simp only [if_true]
      exact collect_accounted_mono _ _ _ _ _ h3
  | completed st' hf hlog hfail hatt =>
    simp only [List.mem_append, List.mem_singleton] at hen
    have hold : RaisedIn fs j := by
      rcases hen with hen | hen
      · exact ⟨en, hen, hc, hr, hs⟩
      · subst hen; simp at hr
    obtain ⟨h1, h2, h3⟩ := h j hold
    have hji : j ≠ i := by rintro rfl; rw [hf] at h1; cases h1
    simp only [Bool.false_eq_true, if_false]
    exact ⟨by rw [hfail]; exact h1, by rw [hatt j hji]; exact h2, h3⟩
  | raised st' hf hlog hfail hout hatt =>
    simp only [List.mem_append, List.mem_singleton] at hen
    simp only [if_true, hlog, decide_true, Bool.not_true]
    by_cases hji : j = i
    · subst hji
      refine ⟨by rw [hfail]; simp [updF], ?_, ?_⟩
      · exact (collect_started _ _ _).1
      · exact (collect_started _ _ _).2
    · have hold : RaisedIn fs j := by
        rcases hen with hen | hen
        · exact ⟨en, hen, hc, hr, hs⟩
        · subst hen; exact absurd hc.symm (by simpa using hji)
      obtain ⟨h1, h2, h3⟩ := h j hold
      refine ⟨by rw [hfail]; simp [updF, hji, h1], ?_, collect_accounted_mono _ _ _ _ _ h3⟩
      rw [collect_other _ _ _ _ _ hji, hatt j hji]; exact h2

/-- ONE ERROR PER CHILD: the keys of the dict are distinct and are exactly the children one of whose `run()`s raised -/
def KeysOK (fs : FStore E) : Prop :=
  (fs.book.errors.map (·.1)).Nodup ∧
  ∀ i, (dget fs.book.errors i).isSome = true ↔ ∃ en ∈ fs.log, en.child = i ∧ en.raised = true

theorem react_keysOK (nodes : Nat → Node) (exc : Nat → Nat → E) (refusal : Nat → E) (fs : FStore E) (i : Nat)
    (h : KeysOK fs) : KeysOK (react true nodes exc refusal fs i).1 := by
  obtain ⟨hn, hk⟩ := h
  simp only [react]
  cases hr : (runNode nodes fs.st i).2.1
  · -- not raised: book unchanged, new entry not raised
    refine ⟨by simpa using hn, ?_⟩
    intro j
    simp only [Bool.false_eq_true, if_false, List.mem_append, List.mem_singleton]
    rw [hk j]
    constructor
    · rintro ⟨en, hen, h1, h2⟩; exact ⟨en, Or.inl hen, h1, h2⟩
    · rintro ⟨en, hen | hen, h1, h2⟩
      · exact ⟨en, hen, h1, h2⟩
      · subst hen; simp at h2
  · refine ⟨by simpa using collect_keys_nodup _ _ _ _ hn, ?_⟩
    intro j
    simp only [if_true, List.mem_append, List.mem_singleton]
    by_cases hji : j = i
    · subst hji
      constructor
      · intro _; exact ⟨_, Or.inr rfl, rfl, rfl⟩
      · intro _; exact collect_isSome _ _ _ _
    · rw [collect_other _ _ _ _ _ hji, hk j]
      constructor
      · rintro ⟨en, hen, h1, h2⟩; exact ⟨en, Or.inl hen, h1, h2⟩
      · rintro ⟨en, hen | hen, h1, h2⟩
        · exact ⟨en, hen, h1, h2⟩
        · subst hen; exact absurd h1.symm (by simpa using hji)

/-! ### the composite's own lists against the log; every run has a cause -/

/-- `j` was run because it is a starting node, or because a signal that somebody emitted is wired to it -/
def Caused (g : Graph) (fs : FStore E) (j : Nat) : Prop :=
  j ∈ g.starters ∨ ∃ e r, Emitted fs e ∧ r ∈ g.conns e ∧ r.node = j

structure SInv (g : Graph) (s : S (FStore E)) : Prop where
  errs : s.errs = (s.store.log.filter (·.raised)).map (·.child)
  fired : s.fired = s.store.log.map (·.child)
  queue : ∀ p ∈ s.queue, Emitted s.store p.1 ∧ p.2 ∈ g.conns p.1
  caused : ∀ j ∈ s.fired, Caused g s.store j

theorem emitted_mono (fs fs' : FStore E) (en : Entry) (h : fs'.log = fs.log ++ [en]) (e : Sig) (he : Emitted fs e) :
    Emitted fs' e := by
  obtain ⟨x, hx, hm⟩ := he
  exact ⟨x, by rw [h]; exact List.mem_append_left _ hx, hm⟩

theorem caused_mono (g : Graph) (fs fs' : FStore E) (en : Entry) (h : fs'.log = fs.log ++ [en]) (j : Nat)
    (hc : Caused g fs j) : Caused g fs' j := by
  rcases hc with hc | ⟨e, r, he, hr, hn⟩
  · exact Or.inl hc
  · exact Or.inr ⟨e, r, emitted_mono fs fs' en h e he, hr, hn⟩

theorem callRun_sinv (rep : Bool) (nodes : Nat → Node) (exc : Nat → Nat → E) (refusal : Nat → E) (g : Graph)
    (s : S (FStore E)) (j : Nat) (h : SInv g s) (hc : Caused g s.store j) :
    SInv g (callRun (flowSem rep nodes exc refusal) g s j) := by
  obtain ⟨en, hl, hch, _, hr, hs⟩ := react_entry rep nodes exc refusal s.store j
  obtain ⟨he, hf, hq, hcs⟩ := h
  have hstore : (callRun (flowSem rep nodes exc refusal) g s j).store = (react rep nodes exc refusal s.store j).1 := rfl
  have hqueue : (callRun (flowSem rep nodes exc refusal) g s j).queue =
      s.queue ++ pairs g (react rep nodes exc refusal s.store j).2.2 := rfl
  have herrs : (callRun (flowSem rep nodes exc refusal) g s j).errs =
      if (react rep nodes exc refusal s.store j).2.1 then s.errs ++ [j] else s.errs := rfl
  have hfired : (callRun (flowSem rep nodes exc refusal) g s j).fired = s.fired ++ [j] := rfl
  refine ⟨?_, ?_, ?_, ?_⟩
  · rw [herrs, hstore, hl, ← hr, he]
    cases hrr : en.raised <;> simp [hrr, hch]
  · rw [hfired, hstore, hl, hf]; simp [hch]
  · intro p hp
    rw [hqueue] at hp
    rw [hstore]
    rcases List.mem_append.mp hp with hp | hp
    · exact ⟨emitted_mono _ _ en hl _ (hq p hp).1, (hq p hp).2⟩
    · refine ⟨⟨en, by rw [hl]; simp, ?_⟩, mem_pairs hp⟩
      rw [hs]
      -- the first component of a pair comes from the emitted list
      have : ∀ (l : List Sig) (p : Sig × Recv), p ∈ pairs g l → p.1 ∈ l := by
        intro l
        induction l with
        | nil => intro p hp; simp [pairs] at hp
        | cons a rest ih =>
          intro p hp
          simp only [pairs, List.mem_append, List.mem_map] at hp
          rcases hp with ⟨r, _, rfl⟩ | hp
          · simp
          · simp [ih p hp]
      exact this _ p hp
  · intro x hx
    rw [hfired] at hx
    rw [hstore]
    rcases List.mem_append.mp hx with hx | hx
    · exact caused_mono g _ _ en hl x (hcs x hx)
    · simp at hx; subst hx; exact caused_mono g _ _ en hl x hc

theorem startAll_sinv (rep : Bool) (nodes : Nat → Node) (exc : Nat → Nat → E) (refusal : Nat → E) (g : Graph)
    (l : List Nat) : ∀ s : S (FStore E), (∀ i ∈ l, i ∈ g.starters) → SInv g s →
    SInv g (startAll (flowSem rep nodes exc refusal) g s l) := by
  induction l with
  | nil => intro s _ h; exact h
  | cons i rest ih =>
    intro s hl h
    exact ih _ (fun x hx => hl x (by simp [hx])) (callRun_sinv rep nodes exc refusal g s i h (Or.inl (hl i (by simp))))

theorem deliver_sinv (rep : Bool) (nodes : Nat → Node) (exc : Nat → Nat → E) (refusal : Nat → E) (g : Graph)
    (s : S (FStore E)) (e : Sig) (r : Recv) (q : List (Sig × Recv)) (hq : s.queue = (e, r) :: q) (h : SInv g s) :
    SInv g (deliver (flowSem rep nodes exc refusal) g { s with queue := q } e r) := by
  have hhead := h.queue (e, r) (by rw [hq]; simp)
  have hc : Caused g s.store r.node := Or.inr ⟨e, r, hhead.1, hhead.2, rfl⟩
  have h0 : SInv g { s with queue := q } :=
    ⟨h.errs, h.fired, fun p hp => h.queue p (by rw [hq]; exact List.mem_cons_of_mem _ hp), h.caused⟩
  unfold deliver
  split
  · split
    rename_i a fire _
    dsimp only
    have h1 : SInv g { s with queue := q, received := updF s.received r.node a.received } :=
      ⟨h0.errs, h0.fired, h0.queue, h0.caused⟩
    split
    · exact callRun_sinv rep nodes exc refusal g _ _ h1 hc
    · exact h1
  · exact callRun_sinv rep nodes exc refusal g _ _ h0 hc

theorem drain_sinv (rep : Bool) (nodes : Nat → Node) (exc : Nat → Nat → E) (refusal : Nat → E) (g : Graph)
    (n : Nat) : ∀ s : S (FStore E), SInv g s → SInv g (drain (flowSem rep nodes exc refusal) g n s) := by
  induction n with
  | zero => intro s h; exact h
  | succ n ih =>
    intro s h
    simp only [drain]
    split
    · exact h
    · rename_i e r q hq
      exact ih _ (deliver_sinv rep nodes exc refusal g s e r q hq h)

theorem compositeRun_sinv (rep : Bool) (nodes : Nat → Node) (exc : Nat → Nat → E) (refusal : Nat → E) (g : Graph)
    (fuel : Nat) (st : Store) (rec : Nat → List Label) :
    SInv g (compositeRun (flowSem rep nodes exc refusal) g fuel (S.init (FStore.init st) rec)) := by
  unfold compositeRun compositeRunFrom
  apply drain_sinv
  apply startAll_sinv _ _ _ _ _ _ _ (fun i hi => hi)
  exact ⟨rfl, rfl, fun p hp => by simp [S.init] at hp, fun j hj => by simp [S.init] at hj⟩

/-- a child emits its own channels only -/
theorem emitting_own (nodes : Nat → Node) (st : Store) (i : Nat) : ∀ e ∈ emitting nodes st i, e / 4 = i := by
  have h0 : sigRan i / 4 = i := by simp [sigRan]
  have h1 : sigFailed i / 4 = i := by show (4 * i + 1) / 4 = i; omega
  have h2 : sigTrue i / 4 = i := by show (4 * i + 2) / 4 = i; omega
  have h3 : sigFalse i / 4 = i := by show (4 * i + 3) / 4 = i; omega
  intro e he
  unfold emitting at he
  cases hk : (nodes i).kind <;> simp only [hk] at he <;>
    first
      | (split at he <;> simp at he <;> subst he <;> assumption)
      | skip
  -- the `If` case
  split at he
  · simp at he; subst he; exact h1
  · cases ho : st.out i <;> simp only [ho] at he <;> simp at he <;>
      first
        | (subst he; exact h0)
        | (rcases he with he | he
           · subst he; exact h0
           · split at he <;> (subst he; first | exact h2 | exact h3))

def LogOwn (fs : FStore E) : Prop := ∀ en ∈ fs.log, ∀ e ∈ en.sigs, e / 4 = en.child

theorem react_logOwn (rep : Bool) (nodes : Nat → Node) (exc : Nat → Nat → E) (refusal : Nat → E) (fs : FStore E) (i : Nat)
    (h : LogOwn fs) : LogOwn (react rep nodes exc refusal fs i).1 := by
  intro en hen e he
  simp only [react, List.mem_append, List.mem_singleton] at hen
  rcases hen with hen | hen
  · exact h en hen e he
  · subst hen
    simp only at he ⊢
    have ho := runNode_outcome nodes fs.st i
    generalize runNode nodes fs.st i = r at ho he
    cases ho with
    | refused _ => simp at he
    | completed st' _ _ _ _ => exact emitting_own nodes st' i e he
    | raised st' _ _ _ _ _ => exact emitting_own nodes st' i e he

/-- keys distinct, all equal to `i`, not empty: a singleton -/
theorem single_key (l : List (Nat × E)) (i : Nat) (hn : (l.map (·.1)).Nodup) (hall : ∀ p ∈ l, p.1 = i) (hne : l ≠ []) :
    ∃ e, l = [(i, e)] := by
  cases l with
  | nil => exact absurd rfl hne
  | cons p rest =>
    obtain ⟨k, v⟩ := p
    have hk : k = i := hall (k, v) (by simp)
    subst hk
    cases rest with
    | nil => exact ⟨v, rfl⟩
    | cons q rest' =>
      have hq : q.1 = k := hall q (by simp)
      simp only [List.map_cons, List.nodup_cons, List.mem_cons, List.mem_map, not_or] at hn
      exact absurd hq.symm hn.1.1

theorem dget_mem (l : List (Nat × E)) (p : Nat × E) (hp : p ∈ l) : (dget l p.1).isSome = true := by
  induction l with
  | nil => cases hp
  | cons q rest ih =>
    obtain ⟨k, v⟩ := q
    by_cases hk : k = p.1
    · simp [dget, hk]
    · rcases List.mem_cons.mp hp with h | h
      · subst h; simp at hk
      · simp [dget, hk, ih h]

theorem dget_single (i : Nat) (e : E) : dget [(i, e)] i = some e := by simp [dget]


/-- a `run()` emits the child's own channels only, and changes `failed` at most at that child -/
theorem react_sigs_own (rep : Bool) (nodes : Nat → Node) (exc : Nat → Nat → E) (refusal : Nat → E) (fs : FStore E)
    (i : Nat) : (∀ e ∈ (react rep nodes exc refusal fs i).2.2, e / 4 = i) ∧
      (∀ j, j ≠ i → (react rep nodes exc refusal fs i).1.st.failed j = fs.st.failed j) ∧
      (∀ j, j ≠ i → (react rep nodes exc refusal fs i).1.st.attempts j = fs.st.attempts j) := by
  simp only [react]
  have ho := runNode_outcome nodes fs.st i
  generalize runNode nodes fs.st i = r at ho
  cases ho with
  | refused _ => exact ⟨fun e he => by simp at he, fun _ _ => rfl, fun _ _ => rfl⟩
  | completed st' _ _ hfail hatt => exact ⟨emitting_own nodes st' i, fun j _ => by rw [hfail], hatt⟩
  | raised st' _ _ hfail _ hatt =>
    exact ⟨emitting_own nodes st' i, fun j hj => by rw [hfail]; simp [updF, hj], hatt⟩

/-- the completion log only grows -/
theorem runNode_doneLog (nodes : Nat → Node) (st : Store) (i : Nat) :
    ∃ l, (runNode nodes st i).1.doneLog = st.doneLog ++ l := by
  unfold runNode
  dsimp only
  apply ite_ind (P := fun r : Store × Bool × List Sig => ∃ l, r.1.doneLog = st.doneLog ++ l)
  · intro _; exact ⟨[i], rfl⟩
  · intro _
    apply ite_ind (P := fun r : Store × Bool × List Sig => ∃ l, r.1.doneLog = st.doneLog ++ l)
    · intro _; exact ⟨[], by simp⟩
    · intro _
      cases (if (nodes i).failAt.contains (st.attempts i + 1) then none
          else eval (nodes i).kind (fetchArgs nodes st.out i)) with
      | some v => exact ⟨[i], rfl⟩
      | none => exact ⟨[i], rfl⟩

theorem react_doneLog (rep : Bool) (nodes : Nat → Node) (exc : Nat → Nat → E) (refusal : Nat → E) (fs : FStore E)
    (i : Nat) : ∃ l, (react rep nodes exc refusal fs i).1.st.doneLog = fs.st.doneLog ++ l := by
  simp only [react]; exact runNode_doneLog nodes fs.st i

/-! ### parentless pushes -/

/-- an exception that a run of `c` can have produced -/
def FromChild (exc : Nat → Nat → E) (refusal : Nat → E) (c : Nat) (e : E) : Prop := (∃ k, e = exc c k) ∨ e = refusal c

/-- what a nested call did: it only appended to the log; no exception ⇒ no appended run raised; an exception ⇒ it is
the exception of an appended run that raised -/
def CallSpec (exc : Nat → Nat → E) (refusal : Nat → E) (ps : PState) (res : PState × Option E) : Prop :=
  ∃ added, res.1.log = ps.log ++ added ∧
    (res.2 = none → ∀ en ∈ added, en.raised = false) ∧
    (∀ e, res.2 = some e → ∃ en ∈ added, en.raised = true ∧ FromChild exc refusal en.child e)

theorem callAll_spec (exc : Nat → Nat → E) (refusal : Nat → E) (f : PState → Nat → PState × Option E)
    (hf : ∀ ps j, CallSpec exc refusal ps (f ps j)) (l : List Nat) : ∀ ps, CallSpec exc refusal ps (callAll f ps l) := by
  induction l with
  | nil =>
    intro ps
    refine ⟨[], by simp [callAll], ?_, ?_⟩
    · intro _ en h; cases h
    · intro e h; simp [callAll] at h
  | cons j rest ih =>
    intro ps
    obtain ⟨a1, h1, hn1, hs1⟩ := hf ps j
    simp only [callAll]
    cases hr : (f ps j).2 with
    | some e =>
      have : f ps j = ((f ps j).1, some e) := by rw [← hr]
      rw [this]
      refine ⟨a1, h1, ?_, ?_⟩
      · intro h; cases h
      · intro e' he'; simp only [Option.some.injEq] at he'; subst he'; exact hs1 e hr
    | none =>
      have : f ps j = ((f ps j).1, none) := by rw [← hr]
      rw [this]
      obtain ⟨a2, h2, hn2, hs2⟩ := ih (f ps j).1
      refine ⟨a1 ++ a2, by rw [h2, h1, List.append_assoc], ?_, ?_⟩
      · intro hnone en hen
        rcases List.mem_append.mp hen with h | h
        · exact hn1 hr en h
        · exact hn2 hnone en h
      · intro e he
        obtain ⟨en, hen, hr2, hfc⟩ := hs2 e he
        exact ⟨en, List.mem_append_right _ hen, hr2, hfc⟩

/-- PROPAGATION: a push from any parentless node, through any hand-made signal graph, to any depth: nothing raised is
lost on the way up, and nothing is invented -/
theorem push_spec (nodes : Nat → Node) (g : Graph) (exc : Nat → Nat → E) (refusal : Nat → E) (fuel : Nat) :
    ∀ ps i, CallSpec exc refusal ps (push false nodes g exc refusal fuel ps i) := by
  induction fuel with
  | zero =>
    intro ps i
    refine ⟨[], by simp [push], ?_, ?_⟩
    · intro _ en h; cases h
    · intro e h; simp [push] at h
  | succ fuel ih =>
    intro ps i
    simp only [push, Bool.false_eq_true, if_false]
    generalize hr : runNode nodes ps.st i = r
    generalize hen0 : Entry.mk i r.2.1 (decide (ps.st.execLog.length < r.1.execLog.length)) r.2.2 = en0
    have hspec := callAll_spec exc refusal (push false nodes g exc refusal fuel) ih
      (((pairs g r.2.2).filter (fun p => !p.2.acc)).map (fun p => p.2.node)) { st := r.1, log := ps.log ++ [en0] }
    generalize callAll (push false nodes g exc refusal fuel) { st := r.1, log := ps.log ++ [en0] }
      (((pairs g r.2.2).filter (fun p => !p.2.acc)).map (fun p => p.2.node)) = res at hspec
    obtain ⟨added, hlog, hnone, hsome⟩ := hspec
    obtain ⟨p, o⟩ := res
    simp only at hlog hnone hsome
    cases hraised : r.2.1 with
    | false =>
      simp only [Bool.false_eq_true, if_false]
      refine ⟨en0 :: added, by rw [hlog]; simp, ?_, ?_⟩
      · intro h en hen
        rcases List.mem_cons.mp hen with h1 | h1
        · subst h1; rw [← hen0]; exact hraised
        · exact hnone h en h1
      · intro e he
        obtain ⟨en, hen, h1, h2⟩ := hsome e he
        exact ⟨en, List.mem_cons_of_mem _ hen, h1, h2⟩
    | true =>
      simp only [if_true]
      cases o with
      | some e2 =>
        refine ⟨en0 :: added, by simp only; rw [hlog]; simp, ?_, ?_⟩
        · intro h; cases h
        · intro e he
          simp only [Option.some.injEq] at he; subst he
          obtain ⟨en, hen, h1, h2⟩ := hsome e2 rfl
          exact ⟨en, List.mem_cons_of_mem _ hen, h1, h2⟩
      | none =>
        refine ⟨en0 :: added, by simp only; rw [hlog]; simp, ?_, ?_⟩
        · intro h; cases h
        · intro e he
          simp only [Option.some.injEq] at he
          refine ⟨en0, by simp, by rw [← hen0]; exact hraised, ?_⟩
          rw [← hen0, ← he]
          simp only
          split
          · exact Or.inl ⟨_, rfl⟩
          · exact Or.inr rfl

end PwVerif.FlowFail
