import PwVerif.Model.FlowExec
import PwVerif.Proofs.FlowFail
/-! Invariants of hand-wired flows with executor children (`FlowExec`), for every signal graph and every schedule. -/
namespace PwVerif.FlowExec
open PwVerif PwVerif.Signal PwVerif.FlowFail
variable {E : Type}

/-! ### emission discipline -/

/-- a `run()` made by the composite: refused — nothing emitted; raised (a local function) — `failed` only; otherwise
(completed locally, or submitted) never `failed`; own channels only -/
def XEntryOK (en : Entry) : Prop :=
  (en.raised = true → en.started = true → en.sigs = [sigFailed en.child]) ∧
  (en.raised = true → en.started = false → en.sigs = []) ∧
  (en.raised = false → en.started = true ∧ sigFailed en.child ∉ en.sigs) ∧
  (∀ e ∈ en.sigs, e / 4 = en.child)

/-- a landed job: raised — `failed` only; completed — `ran` (+ branch), never `failed`; own channels only -/
def LandOK (ld : Landing) : Prop :=
  (ld.raised = true → ld.sigs = [sigFailed ld.child]) ∧
  (ld.raised = false → sigRan ld.child ∈ ld.sigs ∧ sigFailed ld.child ∉ ld.sigs) ∧
  (∀ e ∈ ld.sigs, e / 4 = ld.child)

/-- the children that are out are executor children and not failed -/
def Disc (onExec : Nat → Bool) (x : XSt E) : Prop :=
  (∀ en ∈ x.fs.log, XEntryOK en) ∧ (∀ ld ∈ x.landed, LandOK ld) ∧
  (∀ k ∈ x.inflight, x.fs.st.failed k = false ∧ onExec k = true)

theorem xreact_disc (nodes : Nat → Node) (onExec : Nat → Bool) (exc : Nat → Nat → E) (refusal : Nat → E)
    (x : XSt E) (i : Nat) (h : Disc onExec x) : Disc onExec (xreact nodes onExec exc refusal x i).1 := by
  obtain ⟨hl, hd, hi⟩ := h
  unfold xreact
  by_cases hx : onExec i = true
  · simp only [hx, if_true]
    by_cases ha : admitted nodes x i = true
    · simp only [ha, if_true]
      refine ⟨?_, hd, ?_⟩
      · intro en hen
        simp only [List.mem_append, List.mem_singleton] at hen
        rcases hen with hen | hen
        · exact hl en hen
        · subst hen; simp [XEntryOK]
      · intro k hk
        simp only [List.mem_append, List.mem_singleton] at hk
        simp only [submitStore]
        rcases hk with hk | hk
        · exact hi k hk
        · subst hk
          simp only [admitted, Bool.and_eq_true, Bool.not_eq_true'] at ha
          exact ⟨ha.1.1, hx⟩
    · simp only [ha, if_false, Bool.false_eq_true]
      refine ⟨?_, hd, hi⟩
      intro en hen
      simp only [List.mem_append, List.mem_singleton] at hen
      rcases hen with hen | hen
      · exact hl en hen
      · subst hen; simp [XEntryOK]
  · simp only [hx, if_false, Bool.false_eq_true]
    obtain ⟨en, hlog, hch, hok, _, hsig⟩ := react_entry true nodes exc refusal x.fs i
    obtain ⟨hown, hfail, _⟩ := react_sigs_own true nodes exc refusal x.fs i
    refine ⟨?_, hd, ?_⟩
    · intro y hy
      simp only at hy
      rw [hlog] at hy
      rcases List.mem_append.mp hy with hy | hy
      · exact hl y hy
      · simp only [List.mem_singleton] at hy
        rw [hy]
        exact ⟨hok.1, hok.2.1, fun hr => ⟨(hok.2.2 hr).1, (hok.2.2 hr).2.2⟩, by rw [hsig, hch]; exact hown⟩
    · intro k hk
      obtain ⟨h1, h2⟩ := hi k hk
      have hki : k ≠ i := by rintro rfl; rw [h2] at hx; exact hx rfl
      exact ⟨by simp only; rw [hfail k hki]; exact h1, h2⟩

theorem land_ok (nodes : Nat → Node) (st : Store) (k : Nat) (args : List Val) (a : Nat) (hf : st.failed k = false) :
    LandOK { child := k, raised := (landStore nodes st k args a).2,
             sigs := emitting nodes (landStore nodes st k args a).1 k } := by
  unfold landStore
  cases (if (nodes k).failAt.contains a then none else eval (nodes k).kind args) with
  | some v =>
    exact ⟨by simp, fun _ => emitting_ok nodes _ k (by simpa using hf), fun e he => emitting_own nodes _ k e he⟩
  | none =>
    exact ⟨fun _ => emitting_failed nodes _ k (by simp [updF]), by simp, fun e he => emitting_own nodes _ k e he⟩

/-! ### the sweep -/

theorem sweep_keeps (exc : Nat → Nat → E) (x : XSt E) (l : List Nat) : ∀ (b : Book E) (i : Nat), i ∈ b.accounted →
    dget (sweep exc x l b).errors i = dget b.errors i ∧ i ∈ (sweep exc x l b).accounted := by
  induction l with
  | nil => intro b i h; exact ⟨rfl, h⟩
  | cons k rest ih =>
    intro b i h
    simp only [sweep]
    split
    · rename_i hc
      have hki : i ≠ k := by
        rintro rfl
        simp only [Bool.and_eq_true, Bool.not_eq_true', List.contains_eq_mem, decide_eq_false_iff_not] at hc
        exact hc.2 h
      obtain ⟨h1, h2⟩ := ih { errors := dset b.errors k (exc k (x.pend k).2), accounted := insertL k b.accounted } i
        (by simp [mem_insertL, h])
      exact ⟨by rw [h1]; exact dget_dset_other _ _ _ _ hki, h2⟩
    · exact ih b i h

theorem sweep_sets (exc : Nat → Nat → E) (x : XSt E) (l : List Nat) : ∀ (b : Book E) (k : Nat), k ∈ l →
    x.fs.st.failed k = true → k ∉ b.accounted →
    dget (sweep exc x l b).errors k = some (exc k (x.pend k).2) := by
  induction l with
  | nil => intro b k h; cases h
  | cons h rest ih =>
    intro b k hk hf hna
    simp only [sweep]
    by_cases hhk : h = k
    · subst hhk
      have hc : (x.fs.st.failed h && !b.accounted.contains h) = true := by
        simp [hf, hna]
      simp only [hc, if_true]
      have := sweep_keeps exc x rest { errors := dset b.errors h (exc h (x.pend h).2), accounted := insertL h b.accounted }
        h (by simp [mem_insertL])
      rw [this.1]; exact dget_dset_same _ _ _
    · have hk' : k ∈ rest := by
        rcases List.mem_cons.mp hk with e | e
        · exact absurd e.symm hhk
        · exact e
      split
      · exact ih _ k hk' hf (by
          simp only [mem_insertL, not_or]; exact ⟨fun e => hhk e.symm, hna⟩)
      · exact ih b k hk' hf hna

theorem collect_refused_accounted (b : Book E) (c : Nat) (e : E) : (collect b c e true).accounted = b.accounted := by
  unfold collect
  simp only [if_true]
  split <;> rfl

theorem collect_accounted_sub (b : Book E) (c : Nat) (e : E) (r : Bool) (j : Nat)
    (h : j ∈ (collect b c e r).accounted) : j ∈ b.accounted ∨ j = c := by
  unfold collect at h
  cases r
  · simp only [Bool.false_eq_true, if_false, mem_insertL] at h
    rcases h with h | h
    · exact Or.inr h
    · exact Or.inl h
  · simp only [if_true] at h
    split at h <;> exact Or.inl h

theorem react_accounted_sub (nodes : Nat → Node) (exc : Nat → Nat → E) (refusal : Nat → E) (fs : FStore E) (i j : Nat)
    (h : j ∈ (react true nodes exc refusal fs i).1.book.accounted) : j ∈ fs.book.accounted ∨ j = i := by
  simp only [react] at h
  split at h
  · exact collect_accounted_sub _ _ _ _ _ h
  · exact Or.inl h

/-- everything the loop maintains about its children, executor-run ones included -/
structure Good (onExec : Nat → Bool) (exc : Nat → Nat → E) (x : XSt E) : Prop where
  disc : Disc onExec x
  nodup : x.inflight.Nodup
  localRaise : ∀ en ∈ x.fs.log, en.raised = true → en.started = true → onExec en.child = false
  orig : OrigKept exc x.fs
  execUnacc : ∀ k, onExec k = true → k ∉ x.fs.book.accounted
  pendOK : ∀ k ∈ x.inflight, (x.pend k).2 = x.fs.st.attempts k
  landedOK : ∀ ld ∈ x.landed, ld.raised = true → x.fs.st.failed ld.child = true ∧ onExec ld.child = true ∧
    (x.pend ld.child).2 = x.fs.st.attempts ld.child ∧ ld.child ∈ x.fs.st.doneLog.drop x.doneFrom
  doneFrom : x.doneFrom ≤ x.fs.st.doneLog.length

theorem good_init (onExec : Nat → Bool) (exc : Nat → Nat → E) (st : Store) : Good onExec exc (XSt.init st : XSt E) :=
  ⟨⟨by intro en h; simp [XSt.init, FStore.init] at h, by intro ld h; simp [XSt.init] at h,
    by intro k h; simp [XSt.init] at h⟩, by simp [XSt.init],
   by intro en h; simp [XSt.init, FStore.init] at h,
   by intro i ⟨en, h, _⟩; simp [XSt.init, FStore.init] at h,
   by intro k _ h; simp [XSt.init, FStore.init, Book.empty] at h,
   by intro k h; simp [XSt.init] at h, by intro ld h; simp [XSt.init] at h, by simp [XSt.init, FStore.init]⟩

theorem raisedIn_mono_nonraised (fs : FStore E) (en : Entry) (hr : en.raised = false ∨ en.started = false) (i : Nat) :
    RaisedIn { fs with log := fs.log ++ [en] } i ↔ RaisedIn fs i := by
  constructor
  · rintro ⟨y, hy, h1, h2, h3⟩
    simp only [List.mem_append, List.mem_singleton] at hy
    rcases hy with hy | hy
    · exact ⟨y, hy, h1, h2, h3⟩
    · subst hy; rcases hr with hr | hr <;> simp_all
  · rintro ⟨y, hy, h1, h2, h3⟩
    exact ⟨y, List.mem_append_left _ hy, h1, h2, h3⟩

theorem xreact_good (nodes : Nat → Node) (onExec : Nat → Bool) (exc : Nat → Nat → E) (refusal : Nat → E)
    (x : XSt E) (i : Nat) (h : Good onExec exc x) : Good onExec exc (xreact nodes onExec exc refusal x i).1 := by
  have hdisc := xreact_disc nodes onExec exc refusal x i h.disc
  unfold xreact at hdisc ⊢
  by_cases hx : onExec i = true
  · simp only [hx, if_true] at hdisc ⊢
    by_cases ha : admitted nodes x i = true
    · simp only [ha, if_true] at hdisc ⊢
      have hadm := ha
      simp only [admitted, Bool.and_eq_true, Bool.not_eq_true', List.contains_eq_mem, decide_eq_false_iff_not] at hadm
      obtain ⟨⟨hnf, hni⟩, _⟩ := hadm
      refine ⟨hdisc, ?_, ?_, ?_, h.execUnacc, ?_, ?_, h.doneFrom⟩
      · exact List.nodup_append.mpr ⟨h.nodup, by simp, by intro a hain b hb; simp at hb; subst hb; rintro rfl; exact hni hain⟩
      · intro en hen hr hs
        simp only [List.mem_append, List.mem_singleton] at hen
        rcases hen with hen | hen
        · exact h.localRaise en hen hr hs
        · subst hen; simp at hr
      · intro j hj
        have hj' : RaisedIn x.fs j := by
          obtain ⟨y, hy, h1, h2, h3⟩ := hj
          simp only [List.mem_append, List.mem_singleton] at hy
          rcases hy with hy | hy
          · exact ⟨y, hy, h1, h2, h3⟩
          · subst hy; simp at h2
        obtain ⟨o1, o2, o3⟩ := h.orig j hj'
        have hji : j ≠ i := by rintro rfl; rw [hnf] at o1; cases o1
        exact ⟨o1, by simpa [submitStore, updF, hji] using o2, o3⟩
      · intro k hk
        simp only [List.mem_append, List.mem_singleton] at hk
        rcases hk with hk | hk
        · have hki : k ≠ i := by rintro rfl; exact hni hk
          simpa [submitStore, updF, hki] using h.pendOK k hk
        · subst hk; simp [submitStore, updF]
      · intro ld hld hr
        obtain ⟨l1, l2, l3, l4⟩ := h.landedOK ld hld hr
        have hci : ld.child ≠ i := by rintro e; rw [e, hnf] at l1; cases l1
        exact ⟨l1, l2, by simpa [submitStore, updF, hci] using l3, l4⟩
    · simp only [ha, if_false, Bool.false_eq_true] at hdisc ⊢
      refine ⟨hdisc, h.nodup, ?_, ?_, ?_, h.pendOK, h.landedOK, h.doneFrom⟩
      · intro en hen hr hs
        simp only [List.mem_append, List.mem_singleton] at hen
        rcases hen with hen | hen
        · exact h.localRaise en hen hr hs
        · subst hen; simp at hs
      · intro j hj
        have hj' : RaisedIn x.fs j := by
          obtain ⟨y, hy, h1, h2, h3⟩ := hj
          simp only [List.mem_append, List.mem_singleton] at hy
          rcases hy with hy | hy
          · exact ⟨y, hy, h1, h2, h3⟩
          · subst hy; simp at h3
        obtain ⟨o1, o2, o3⟩ := h.orig j hj'
        have hji : j ≠ i := by
          rintro rfl
          obtain ⟨y, hy, h1, h2, h3⟩ := hj'
          have := h.localRaise y hy h2 h3
          rw [h1, hx] at this; cases this
        exact ⟨o1, by simp only; rw [collect_other _ _ _ _ _ hji]; exact o2,
          by simp only; exact collect_accounted_mono _ _ _ _ _ o3⟩
      · intro k hk
        simp only
        rw [collect_refused_accounted]
        exact h.execUnacc k hk
  · simp only [hx, if_false, Bool.false_eq_true] at hdisc ⊢
    have hx' : onExec i = false := by simpa using hx
    obtain ⟨en, hlog, hch, _, hrr, _⟩ := react_entry true nodes exc refusal x.fs i
    obtain ⟨_, hfail, hatt⟩ := react_sigs_own true nodes exc refusal x.fs i
    obtain ⟨l, hdone⟩ := react_doneLog true nodes exc refusal x.fs i
    refine ⟨hdisc, h.nodup, ?_, react_origKept nodes exc refusal x.fs i h.orig, ?_, ?_, ?_, ?_⟩
    · intro y hy hr hs
      simp only at hy
      rw [hlog] at hy
      rcases List.mem_append.mp hy with hy | hy
      · exact h.localRaise y hy hr hs
      · simp only [List.mem_singleton] at hy; rw [hy, hch]; exact hx'
    · intro k hk hacc
      rcases react_accounted_sub nodes exc refusal x.fs i k hacc with hacc | rfl
      · exact h.execUnacc k hk hacc
      · rw [hx'] at hk; cases hk
    · intro k hk
      have hki : k ≠ i := by rintro rfl; rw [(h.disc.2.2 k hk).2] at hx'; cases hx'
      simp only; rw [hatt k hki]; exact h.pendOK k hk
    · intro ld hld hr
      obtain ⟨l1, l2, l3, l4⟩ := h.landedOK ld hld hr
      have hci : ld.child ≠ i := by rintro e; rw [e, hx'] at l2; cases l2
      refine ⟨by simp only; rw [hfail _ hci]; exact l1, l2, by simp only; rw [hatt _ hci]; exact l3, ?_⟩
      simp only; rw [hdone, List.drop_append_of_le_length h.doneFrom]
      exact List.mem_append_left _ l4
    · simp only; rw [hdone]; simp; have := h.doneFrom; omega

theorem complete_good (nodes : Nat → Node) (onExec : Nat → Bool) (exc : Nat → Nat → E) (x : XSt E) (k : Nat)
    (hk : k ∈ x.inflight) (h : Good onExec exc x) :
    let ld := landStore nodes x.fs.st k (x.pend k).1 (x.pend k).2
    Good onExec exc { x with fs := { x.fs with st := ld.1 }, inflight := x.inflight.erase k,
                             landed := x.landed ++ [{ child := k, raised := ld.2, sigs := emitting nodes ld.1 k }] } := by
  intro ld
  obtain ⟨hkf, hkx⟩ := h.disc.2.2 k hk
  -- what landing changes: `failed` at k at most, attempts not at all, the completion log grows by k
  have hfail : ∀ j, j ≠ k → ld.1.failed j = x.fs.st.failed j := by
    intro j hj
    simp only [ld, landStore]
    split <;> simp [updF, hj]
  have hatt : ld.1.attempts = x.fs.st.attempts := by
    simp only [ld, landStore]; split <;> rfl
  have hdone : ld.1.doneLog = x.fs.st.doneLog ++ [k] := by
    simp only [ld, landStore]; split <;> rfl
  have hraised : ld.2 = true → ld.1.failed k = true := by
    simp only [ld, landStore]; split <;> simp [updF]
  refine ⟨⟨h.disc.1, ?_, ?_⟩, h.nodup.erase k, h.localRaise, ?_, h.execUnacc, ?_, ?_, ?_⟩
  · intro y hy
    simp only [List.mem_append, List.mem_singleton] at hy
    rcases hy with hy | hy
    · exact h.disc.2.1 y hy
    · subst hy; exact land_ok nodes x.fs.st k _ _ hkf
  · intro j hj
    have hjk : j ≠ k := fun e => by subst e; exact (List.Nodup.mem_erase_iff h.nodup).mp hj |>.1 rfl
    have hj' := List.mem_of_mem_erase hj
    exact ⟨by simp only; rw [hfail j hjk]; exact (h.disc.2.2 j hj').1, (h.disc.2.2 j hj').2⟩
  · intro j hj
    obtain ⟨o1, o2, o3⟩ := h.orig j hj
    have hjk : j ≠ k := by rintro rfl; rw [hkf] at o1; cases o1
    exact ⟨by simp only; rw [hfail j hjk]; exact o1, by simp only; rw [hatt]; exact o2, o3⟩
  · intro j hj
    simp only; rw [hatt]
    exact h.pendOK j (List.mem_of_mem_erase hj)
  · intro y hy hr
    simp only [List.mem_append, List.mem_singleton] at hy
    simp only
    rw [hatt, hdone, List.drop_append_of_le_length h.doneFrom]
    rcases hy with hy | hy
    · obtain ⟨l1, l2, l3, l4⟩ := h.landedOK y hy hr
      have hck : y.child ≠ k := by rintro e; rw [e, hkf] at l1; cases l1
      exact ⟨by rw [hfail _ hck]; exact l1, l2, l3, List.mem_append_left _ l4⟩
    · subst hy
      exact ⟨hraised hr, hkx, h.pendOK k hk, by simp⟩
  · simp only; rw [hdone]; simp; have := h.doneFrom; omega

/-- what holds when the loop has ended and the sweep is done -/
structure Final (onExec : Nat → Bool) (exc : Nat → Nat → E) (x : X E) : Prop where
  quiet : x.s.queue = [] ∧ x.s.store.inflight = []
  disc : Disc onExec x.s.store
  origLocal : ∀ i, RaisedIn x.s.store.fs i →
    x.s.store.fs.st.failed i = true ∧ dget x.s.store.fs.book.errors i = some (exc i (x.s.store.fs.st.attempts i))
  origExec : ∀ ld ∈ x.s.store.landed, ld.raised = true →
    x.s.store.fs.st.failed ld.child = true ∧
    dget x.s.store.fs.book.errors ld.child = some (exc ld.child (x.s.store.fs.st.attempts ld.child))

theorem xstep_good (nodes : Nat → Node) (onExec : Nat → Bool) (exc : Nat → Nat → E) (refusal : Nat → E) (g : Graph)
    (x x' : X E) (a : XAct) (hp : x.phase ≤ 1) (h : Good onExec exc x.s.store)
    (hs : xstep nodes onExec exc refusal g x a = some x') :
    (x'.phase ≤ 1 ∧ Good onExec exc x'.s.store) ∨ (x'.phase = 2 ∧ Final onExec exc x') := by
  have hQ : ∀ st i, Good onExec exc st → Good onExec exc ((xsem nodes onExec exc refusal).react st i).1 :=
    fun st i hg => xreact_good nodes onExec exc refusal st i hg
  cases a with
  | begin =>
    simp only [xstep] at hs
    split at hs
    · simp only [Option.some.injEq] at hs; subst hs
      exact Or.inl ⟨by simp, h⟩
    · cases hs
  | start =>
    simp only [xstep] at hs
    split at hs
    · split at hs
      · simp only [Option.some.injEq] at hs; subst hs
        exact Or.inl ⟨hp, store_inv_callRun _ _ hQ g _ _ h⟩
      · cases hs
    · cases hs
  | deliver =>
    simp only [xstep] at hs
    split at hs
    · split at hs
      · simp only [Option.some.injEq] at hs; subst hs
        exact Or.inl ⟨hp, store_inv_deliver _ _ hQ g _ _ _ h⟩
      · cases hs
    · cases hs
  | complete k =>
    simp only [xstep] at hs
    split at hs
    · rename_i hc
      simp only [Option.some.injEq] at hs; subst hs
      have hk : k ∈ x.s.store.inflight := by simpa using hc.2
      exact Or.inl ⟨hp, complete_good nodes onExec exc x.s.store k hk h⟩
    · cases hs
  | finish =>
    simp only [xstep] at hs
    split at hs
    · rename_i hc
      simp only [Option.some.injEq] at hs; subst hs
      refine Or.inr ⟨rfl, ⟨hc.2.2.1, hc.2.2.2⟩, ⟨h.disc.1, h.disc.2.1, h.disc.2.2⟩, ?_, ?_⟩
      · intro i hi
        obtain ⟨o1, o2, o3⟩ := h.orig i hi
        exact ⟨o1, by simp only; rw [(sweep_keeps exc _ _ _ i o3).1]; exact o2⟩
      · intro ld hld hr
        obtain ⟨l1, l2, l3, l4⟩ := h.landedOK ld hld hr
        refine ⟨l1, ?_⟩
        simp only
        rw [sweep_sets exc _ _ _ ld.child l4 l1 (h.execUnacc _ l2), l3]
    · cases hs

/-- from the start of a run, along any schedule: the loop invariant, or — once ended — the final facts -/
theorem xrun_good (nodes : Nat → Node) (onExec : Nat → Bool) (exc : Nat → Nat → E) (refusal : Nat → E) (g : Graph)
    (acts : List XAct) : ∀ (x x' : X E), x.phase ≤ 1 → Good onExec exc x.s.store →
    xrun nodes onExec exc refusal g x acts = some x' →
    (x'.phase ≤ 1 ∧ Good onExec exc x'.s.store) ∨ (x'.phase = 2 ∧ Final onExec exc x') := by
  induction acts with
  | nil => intro x x' hp h hr; simp only [xrun, Option.some.injEq] at hr; subst hr; exact Or.inl ⟨hp, h⟩
  | cons a rest ih =>
    intro x x' hp h hr
    simp only [xrun] at hr
    cases hs : xstep nodes onExec exc refusal g x a with
    | none => simp [hs] at hr
    | some x1 =>
      simp only [hs] at hr
      rcases xstep_good nodes onExec exc refusal g x x1 a hp h hs with ⟨hp1, h1⟩ | ⟨hp2, hf⟩
      · exact ih x1 x' hp1 h1 hr
      · -- ended: no action is enabled any more
        cases rest with
        | nil => simp only [xrun, Option.some.injEq] at hr; subst hr; exact Or.inr ⟨hp2, hf⟩
        | cons b rest' =>
          simp only [xrun] at hr
          have : xstep nodes onExec exc refusal g x1 b = none := by
            cases b <;> simp [xstep, hp2]
          simp [this] at hr

end PwVerif.FlowExec
