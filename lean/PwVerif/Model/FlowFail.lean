import PwVerif.Model.Signal
/-!
# Failures in hand-wired flows (C06 on C02's machine)

`Signal.compositeRun` is the transcribed loop of a composite with an ARBITRARY hand-made signal graph (cycles, any-of
`run` inputs, all-of triggers, `If` branches, children triggered again and again), generic in what running a child does
(`Sem σ`). Here the child semantics is `Signal.runNode` (readiness gate, `failAt`, `emitting_channels` of the tree after
69a7122) wrapped with the composite's error book-keeping of the tree after 5bc222d:

    n_started = len(self.provenance_by_execution)
    try: child.run()
    except Exception as e: self._collect_child_error(errors, accounted_for, child, e, n_started)

and a log of every `run()` the composite made (child, raised?, started?, what it emitted). Exceptions are values of an
arbitrary type `E`: `exc i k` is what the function of child `i` raises at its `k`-th invocation, `refusal i` the
`ReadinessError` of a child that did not start.
-/
namespace PwVerif.FlowFail
open PwVerif PwVerif.Signal

variable {E : Type}

/-- python `d[k] = v` on an insertion-ordered dict -/
def dset (l : List (Nat × E)) (k : Nat) (v : E) : List (Nat × E) :=
  match l with
  | [] => [(k, v)]
  | (k', v') :: rest => if k' = k then (k, v) :: rest else (k', v') :: dset rest k v

def dget (l : List (Nat × E)) (k : Nat) : Option E :=
  match l with
  | [] => none
  | (k', v') :: rest => if k' = k then some v' else dget rest k

/-- `errors` (keyed by child) and `accounted_for` of `Composite._on_run` -/
structure Book (E : Type) where
  errors : List (Nat × E)
  accounted : List Nat

def Book.empty : Book E := { errors := [], accounted := [] }

/-- `Composite._collect_child_error` (5bc222d): the error of a run that actually started is recorded and counts as
accounted for; a refusal is recorded only if nothing is recorded for that child yet -/
def collect (b : Book E) (child : Nat) (error : E) (refused : Bool) : Book E :=
  if refused then
    (match dget b.errors child with
     | some _ => b
     | none => { b with errors := dset b.errors child error })
  else { errors := dset b.errors child error, accounted := insertL child b.accounted }

/-- the tree before 5bc222d: `errors[key] = e`, whoever was there -/
def collectPinned (b : Book E) (child : Nat) (error : E) (_refused : Bool) : Book E :=
  { errors := dset b.errors child error, accounted := insertL child b.accounted }

/-- one `run()` of a child made by the composite -/
structure Entry where
  child : Nat
  raised : Bool
  started : Bool
  sigs : List Sig
  deriving Repr, DecidableEq

structure FStore (E : Type) where
  st : Store
  book : Book E
  log : List Entry

def FStore.init (st : Store) : FStore E := { st := st, book := Book.empty, log := [] }

/-- the child's run and the composite's `except` clause around it -/
def react (repaired : Bool) (nodes : Nat → Node) (exc : Nat → Nat → E) (refusal : Nat → E) (fs : FStore E) (i : Nat) :
    FStore E × Bool × List Sig :=
  let r := runNode nodes fs.st i
  let started := decide (fs.st.execLog.length < r.1.execLog.length)
  let err := if started then exc i (r.1.attempts i) else refusal i
  let book := if r.2.1 then (if repaired then collect else collectPinned) fs.book i err (!started) else fs.book
  ({ st := r.1, book := book, log := fs.log ++ [{ child := i, raised := r.2.1, started := started, sigs := r.2.2 }] },
   r.2.1, r.2.2)

def flowSem (repaired : Bool) (nodes : Nat → Node) (exc : Nat → Nat → E) (refusal : Nat → E) : Sem (FStore E) :=
  { react := react repaired nodes exc refusal }

/-! ### the variant in which a cache hit emits directly

`Node._before_run` on a cache hit inside a running parent registers start and finish and QUEUES the child's signals
(`register_child_emitting`): `react` above, through `Signal.runNode`'s hit branch. In the variant below the hit fires
its signals on the spot, inside the `run()` that found the hit: the receivers (any-of `run` inputs) run right there, and
what one of them raises comes out of the CACHED child's `run()` — the composite books it on that child. -/

def isHit (st : Store) (r : Store × Bool × List Sig) : Bool :=
  !r.2.1 && (r.1.callLog.length == st.callLog.length) && decide (st.execLog.length < r.1.execLog.length)

/-- run the receivers of a directly emitted signal list one after the other; stop at the first that raises -/
def fireNow (nodes : Nat → Node) : List Nat → Store → List Entry → List Sig → Store × List Entry × List Sig × Option (Nat × Nat)
  | [], st, lg, out => (st, lg, out, none)
  | j :: rest, st, lg, out =>
    let r := runNode nodes st j
    let started := decide (st.execLog.length < r.1.execLog.length)
    let lg' := lg ++ [{ child := j, raised := r.2.1, started := started, sigs := r.2.2 }]
    if r.2.1 && started then (r.1, lg', out ++ r.2.2, some (j, r.1.attempts j))
    else fireNow nodes rest r.1 lg' (out ++ r.2.2)

def reactDirect (g : Graph) (nodes : Nat → Node) (exc : Nat → Nat → E) (refusal : Nat → E) (fs : FStore E) (i : Nat) :
    FStore E × Bool × List Sig :=
  let r := runNode nodes fs.st i
  if isHit fs.st r then
    let recvs := ((pairs g r.2.2).filter (fun p => !p.2.acc)).map (fun p => p.2.node)
    let lg0 := fs.log ++ [{ child := i, raised := false, started := true, sigs := [] }]
    match fireNow nodes recvs r.1 lg0 [] with
    | (st', lg', out, some (j, k)) =>
      -- the receiver's exception leaves through the cached child's `run()`: booked on `i`, as a run that started
      ({ st := st', book := collect fs.book i (exc j k) false, log := lg' }, true, out)
    | (st', lg', out, none) => ({ st := st', book := fs.book, log := lg' }, false, out)
  else react true nodes exc refusal fs i

def flowSemDirect (g : Graph) (nodes : Nat → Node) (exc : Nat → Nat → E) (refusal : Nat → E) : Sem (FStore E) :=
  { react := reactDirect g nodes exc refusal }

/-! ### parentless nodes wired by hand: an emission is a nested call

A node without a running parent fires its signals itself (`Node._run_finally` → `emit()`): every receiver's `run()`
is called on the spot, depth first, inside the emitter's own `run()`; what a receiver raises propagates through the
emitter's epilogue to whoever called the outermost `run()` — unless the epilogue swallows it (`swallow`). Cycles are
possible: fuel. The log records every `run()` in the order it happened. -/

structure PState where
  st : Store
  log : List Entry

/-- call `f` on the receivers one after the other; the first exception ends it -/
def callAll (f : PState → Nat → PState × Option E) : PState → List Nat → PState × Option E
  | ps, [] => (ps, none)
  | ps, j :: rest =>
    match f ps j with
    | (ps', some e) => (ps', some e)
    | (ps', none) => callAll f ps' rest

def push (swallow : Bool) (nodes : Nat → Node) (g : Graph) (exc : Nat → Nat → E) (refusal : Nat → E) :
    Nat → PState → Nat → PState × Option E
  | 0, ps, _ => (ps, none)
  | fuel + 1, ps, i =>
    let r := runNode nodes ps.st i
    let started := decide (ps.st.execLog.length < r.1.execLog.length)
    let ps1 : PState := { st := r.1, log := ps.log ++ [{ child := i, raised := r.2.1, started := started, sigs := r.2.2 }] }
    -- the epilogue: the emitted signals (`ran` + branch, or `failed`) call their receivers right here
    let recvs := ((pairs g r.2.2).filter (fun p => !p.2.acc)).map (fun p => p.2.node)
    let res := callAll (push swallow nodes g exc refusal fuel) ps1 recvs
    let epi := if swallow then (res.1, none) else res
    if r.2.1 then
      -- the node's own run raised (its function, or a refusal): after the epilogue that exception goes on — unless the
      -- epilogue itself raised
      match epi with
      | (p, some e2) => (p, some e2)
      | (p, none) => (p, some (if started then exc i (r.1.attempts i) else refusal i))
    else epi

/-! ### an all-of trigger around a run that raises

`AccumulatingInputSignal.__call__`: when every connection has been heard, `self.reset(); self.callback()` — the
callback is the owner's `run()`, which (for a parentless owner) raises through the trigger into the emitter. The variant
`self.callback(); self.reset()` never reaches the reset when the callback raises: the trigger keeps the full set. -/

def accFire (resetFirst : Bool) (lab : Nat → Label) (a : Acc) (other : Option Nat) (callbackRaises : Bool) : Acc × Bool :=
  let r := match other with
    | some e => insertL (lab e) a.received
    | none => a.received
  if covered lab a.conns r then
    ({ a with received := if resetFirst || !callbackRaises then [] else r }, true)
  else ({ a with received := r }, false)

/-- a history of arrivals, each with "would the owner's run raise now"; returns the final trigger and how often it fired -/
def accHistory (resetFirst : Bool) (lab : Nat → Label) : Acc → List (Nat × Bool) → Acc × Nat
  | a, [] => (a, 0)
  | a, (e, raises) :: rest =>
    let r := accFire resetFirst lab a (some e) raises
    let h := accHistory resetFirst lab r.1 rest
    (h.1, h.2 + (if r.2 then 1 else 0))

/-- what the caller sees (local children): nothing; one error → `FailedChildError from` it; several → `from None` -/
inductive Seen (E : Type) where
  | nothing
  | failedChild (cause : Option E)
  deriving DecidableEq, Repr

def seen (b : Book E) : Seen E :=
  match b.errors with
  | [] => .nothing
  | [(_, e)] => .failedChild (some e)
  | _ => .failedChild none

/-- the signals emitted so far -/
def Emitted (fs : FStore E) (e : Sig) : Prop := ∃ en ∈ fs.log, e ∈ en.sigs

end PwVerif.FlowFail
