import PwVerif.Model.FlowFail
/-!
# Hand-wired flows with children on executors (C06 on C02's machine, with in-flight children)

`Signal.callRun / startAll / deliver` are generic in the child semantics `Sem σ`. Here `σ` carries, next to the store and
the composite's error book (`FlowFail.FStore`), the children that are out on an executor; a child handed to an executor
is only SUBMITTED by `run()` (admitted or refused — a child that is still out is refused), its job lands later, as an
action of its own (`complete k`: the done-callback processes the result — outputs or `failed` — and queues the child's
signals), interleaved anywhere with the deliveries of the parent's loop. When queue and running set are empty the loop
ends and the composite sweeps `provenance_by_completion` for failed children it has not accounted for (`finish`) —
`Composite._run_while_children_or_signals_exist` of the tree as it is.
-/
namespace PwVerif.FlowExec
open PwVerif PwVerif.Signal PwVerif.FlowFail

variable {E : Type}

/-- what a landed job did -/
structure Landing where
  child : Nat
  raised : Bool
  sigs : List Sig
  deriving Repr, DecidableEq

structure XSt (E : Type) where
  fs : FStore E
  inflight : List Nat                    -- `running_children` (executor children out)
  pend : Nat → List Val × Nat            -- arguments and attempt number of the job that is out
  landed : List Landing                  -- completions of executor jobs, in order
  doneFrom : Nat                         -- length of the store's completion log when this run began

def XSt.init (st : Store) : XSt E :=
  { fs := FStore.init st, inflight := [], pend := fun _ => ([], 0), landed := [], doneFrom := st.doneLog.length }

/-- is the child's `run()` admitted: not failed, not still out, all inputs data -/
def admitted (nodes : Nat → Node) (x : XSt E) (i : Nat) : Bool :=
  !(x.fs.st.failed i) && !(x.inflight.contains i) && !((fetchArgs nodes x.fs.st.out i).any Val.isNd)

/-- the part of `run()` before the job is handed over: cache forgotten, attempt counted, call and start logged -/
def submitStore (nodes : Nat → Node) (st : Store) (i : Nat) : Store :=
  { st with cached := updF st.cached i none, attempts := updF st.attempts i (st.attempts i + 1),
            callLog := st.callLog ++ [(i, fetchArgs nodes st.out i)], execLog := st.execLog ++ [i] }

/-- the done-callback: the job's result (computed from the arguments it was submitted with) is processed -/
def landStore (nodes : Nat → Node) (st : Store) (i : Nat) (args : List Val) (k : Nat) : Store × Bool :=
  match (if (nodes i).failAt.contains k then none else eval (nodes i).kind args) with
  | some v =>
    ({ st with out := updF st.out i v,
               cached := if (nodes i).useCache then updF st.cached i (some args) else st.cached,
               doneLog := st.doneLog ++ [i] }, false)
  | none => ({ st with failed := updF st.failed i true, doneLog := st.doneLog ++ [i] }, true)

/-- `child.run()` as the composite calls it, and the composite's `except` clause around it -/
def xreact (nodes : Nat → Node) (onExec : Nat → Bool) (exc : Nat → Nat → E) (refusal : Nat → E) (x : XSt E) (i : Nat) :
    XSt E × Bool × List Sig :=
  if onExec i then
    if admitted nodes x i then
      -- submitted: nothing raised, nothing emitted yet
      let st' := submitStore nodes x.fs.st i
      ({ x with fs := { x.fs with st := st', log := x.fs.log ++ [{ child := i, raised := false, started := true, sigs := [] }] },
                inflight := x.inflight ++ [i],
                pend := updF x.pend i (fetchArgs nodes x.fs.st.out i, x.fs.st.attempts i + 1) }, false, [])
    else
      -- refused (`ReadinessError`): recorded only if nothing is recorded for the child yet, not accounted for
      ({ x with fs := { x.fs with book := collect x.fs.book i (refusal i) true,
                                  log := x.fs.log ++ [{ child := i, raised := true, started := false, sigs := [] }] } },
       true, [])
  else
    let r := react true nodes exc refusal x.fs i
    ({ x with fs := r.1 }, r.2.1, r.2.2)

def xsem (nodes : Nat → Node) (onExec : Nat → Bool) (exc : Nat → Nat → E) (refusal : Nat → E) : Sem (XSt E) :=
  { react := xreact nodes onExec exc refusal }

inductive XAct
  | begin | start | deliver | complete (k : Nat) | finish
  deriving Repr, DecidableEq

structure X (E : Type) where
  s : Signal.S (XSt E)
  phase : Nat          -- 0 before the run, 1 running (starting loop, then drain loop), 2 ended
  rest : List Nat      -- starting nodes not yet started

def X.init (st : Store) : X E := { s := S.init (XSt.init st) (fun _ => []), phase := 0, rest := [] }

/-- the status sweep after the loop: a failed child among this run's completions that is not accounted for gets the
exception its future holds -/
def sweep (exc : Nat → Nat → E) (x : XSt E) : List Nat → Book E → Book E
  | [], b => b
  | k :: rest, b =>
    if x.fs.st.failed k && !(b.accounted.contains k) then
      sweep exc x rest { errors := dset b.errors k (exc k (x.pend k).2), accounted := insertL k b.accounted }
    else sweep exc x rest b

def xstep (nodes : Nat → Node) (onExec : Nat → Bool) (exc : Nat → Nat → E) (refusal : Nat → E) (g : Graph) (x : X E) :
    XAct → Option (X E)
  | .begin =>
    if x.phase = 0 then
      some { s := { x.s with received := fun _ => [] }, phase := 1, rest := g.starters }
    else none
  | .start =>
    if x.phase = 1 then
      match x.rest with
      | i :: r => some { x with s := callRun (xsem nodes onExec exc refusal) g x.s i, rest := r }
      | [] => none
    else none
  | .deliver =>
    if x.phase = 1 ∧ x.rest = [] then
      match x.s.queue with
      | (e, r) :: q => some { x with s := deliver (xsem nodes onExec exc refusal) g { x.s with queue := q } e r }
      | [] => none
    else none
  | .complete k =>
    if x.phase = 1 ∧ x.s.store.inflight.contains k = true then
      let xs := x.s.store
      let ld := landStore nodes xs.fs.st k (xs.pend k).1 (xs.pend k).2
      let sigs := emitting nodes ld.1 k
      some { x with s := { x.s with
        store := { xs with fs := { xs.fs with st := ld.1 }, inflight := xs.inflight.erase k,
                           landed := xs.landed ++ [{ child := k, raised := ld.2, sigs := sigs }] },
        queue := x.s.queue ++ pairs g sigs } }
    else none
  | .finish =>
    if x.phase = 1 ∧ x.rest = [] ∧ x.s.queue = [] ∧ x.s.store.inflight = [] then
      let xs := x.s.store
      some { s := { x.s with store := { xs with fs := { xs.fs with
                      book := sweep exc xs (xs.fs.st.doneLog.drop xs.doneFrom) xs.fs.book } } },
             phase := 2, rest := [] }
    else none

def xrun (nodes : Nat → Node) (onExec : Nat → Bool) (exc : Nat → Nat → E) (refusal : Nat → E) (g : Graph) :
    X E → List XAct → Option (X E)
  | x, [] => some x
  | x, a :: rest => match xstep nodes onExec exc refusal g x a with
    | some x' => xrun nodes onExec exc refusal g x' rest
    | none => none

end PwVerif.FlowExec
