/-!
# The cache key of a composite (transcription of `Composite._internal_cache_key`, `_write_cache`,
`cache_hit`) over nested trees of nodes

A node is a function node (`leaf`: its class and where each input comes from) or a composite
(`comp`: the child whose output it exposes, where each of its own inputs comes from, and its children
by label, in the order of the `children` dictionary).  An input channel is fed by a connection to a
sibling's output (`conn`), holds a plain value (`val`), or is value-linked to an input of the
enclosing composite (`link`, macros only; a workflow's inputs ARE its children's free inputs).

`key` is what `_internal_cache_key` records, regrouped per child: for every child its label, (only
with `KCfg.cls`: its class,) whether it is a composite, and the source of each input — a connection
(the code lists these in `_child_data_connections`), or the value of an unconnected channel (the
code's `(label, channel.value)` pairs; for a linked channel the model records the link instead of the
value last pushed through it) — and, recursively, the key of every composite child
(`KCfg.nested`; switching it off is the seeded change C05-2).  Signal connections and starting nodes
are not modelled: a run is dataflow evaluation (what the scheduler realises, property C01).

`evalKid` is the observable result of a cache-free run: the output of child `label` as a term over
the node functions `F`.  Fuel bounds the recursion (cyclic wiring runs out of fuel = NOT_DATA); all
theorems hold for every fuel.
-/
namespace PwVerif.CacheTree

inductive Src where
  | val (v : Nat)        -- unconnected channel holding the (atomic) value `v`
  | conn (sib : Nat)     -- connected to the output of sibling `sib`
  | link (i : Nat)       -- value-linked to input `i` of the enclosing composite
  | multi (sibs : List Nat)  -- several connections, in priority order (`connect` puts the newest first; `fetch` takes
                             -- the first one that holds data — every upstream node has run, so: the first)
  deriving Repr, DecidableEq

inductive T where
  | leaf (cls : Nat) (ins : List Src)
  | comp (ret : Nat) (ins : List Src) (kids : List (Nat × T))
  deriving Repr

/-- interpretation of values: node functions, atoms, NOT_DATA -/
structure Sem (ρ : Type) where
  F : Nat → List ρ → ρ
  atom : Nat → ρ
  nd : ρ

def lookup (l : Nat) : List (Nat × T) → Option T
  | [] => none
  | (k, t) :: rest => if k = l then some t else lookup l rest

/-- the value an input channel delivers, given the sibling outputs `ev` and the enclosing composite's inputs -/
def srcVal {ρ} (S : Sem ρ) (vals : List ρ) (ev : Nat → ρ) : Src → ρ
  | .val v => S.atom v
  | .conn sib => ev sib
  | .link i => vals.getD i S.nd
  | .multi [] => S.nd
  | .multi (sib :: _) => ev sib

/-- the output of child `label` of a composite with children `kids` whose own inputs hold `vals` -/
def evalKid {ρ} (S : Sem ρ) : Nat → List ρ → List (Nat × T) → Nat → ρ
  | 0, _, _, _ => S.nd
  | fuel + 1, vals, kids, label =>
    let src := srcVal S vals (fun sib => evalKid S fuel vals kids sib)
    match lookup label kids with
    | none => S.nd
    | some (.leaf cls ins) => S.F cls (ins.map src)
    | some (.comp ret ins kids') => evalKid S fuel (ins.map src) kids' ret

/-- what a run of the composite returns / leaves in its outputs: every child's output -/
def evalAll {ρ} (S : Sem ρ) (fuel : Nat) (vals : List ρ) (kids : List (Nat × T)) : List (Nat × ρ) :=
  kids.map (fun p => (p.1, evalKid S fuel vals kids p.1))

/-! ## the key -/

structure KCfg where
  /-- the class of every child is part of the key (9c2c165; before: no) -/
  cls : Bool
  /-- composite children contribute their own key, recursively (/repo: yes) -/
  nested : Bool
  deriving Repr, DecidableEq

/-- /repo before 9c2c165 ("current" when finding KF-C05-6 was made) -/
def KCfg.current : KCfg := { cls := false, nested := true }
/-- /repo as it is now -/
def KCfg.proposed : KCfg := { cls := true, nested := true }
/-- /repo as it is (9c2c165; c5dc777 takes the key after the run — the structure does not move in a run) -/
def KCfg.now : KCfg := KCfg.proposed
/-- the seeded change C05-2 -/
def KCfg.shallow : KCfg := { cls := false, nested := false }

structure KidK where
  label : Nat
  cls : Option Nat
  isComp : Bool
  ret : Nat                 -- composite child: which grandchild it exposes (0 for a function node)
  ins : List Src
  deriving Repr, DecidableEq

inductive K where
  | mk (kids : List KidK) (sub : List K)
  deriving Repr

mutual
def keyKids (c : KCfg) : List (Nat × T) → List KidK × List K
  | [] => ([], [])
  | p :: rest =>
    let e := keyPair c p
    let r := keyKids c rest
    (e.1 :: r.1, e.2 ++ r.2)
def keyPair (c : KCfg) : Nat × T → KidK × List K
  | (l, t) => keyNode c l t
def keyNode (c : KCfg) (l : Nat) : T → KidK × List K
  | .leaf cls ins =>
    ({ label := l, cls := if c.cls then some cls else none, isComp := false, ret := 0, ins := ins }, [])
  | .comp ret ins kids =>
    ({ label := l, cls := none, isComp := true, ret := ret, ins := ins },
     if c.nested then [K.mk (keyKids c kids).1 (keyKids c kids).2] else [])
end

def key (c : KCfg) (kids : List (Nat × T)) : K :=
  let k := keyKids c kids
  K.mk k.1 k.2

/-! equality test on keys (the derive handler does not do nested inductives) -/
mutual
def K.beq : K → K → Bool
  | .mk a s, .mk b t => decide (a = b) && K.beqL s t
def K.beqL : List K → List K → Bool
  | [], [] => true
  | x :: xs, y :: ys => K.beq x y && K.beqL xs ys
  | _, _ => false
end

/-! ## a composite with its cache, under edits -/

/-- `_cached_inputs` + `_cached_internals` -/
structure Entry (ρ : Type) where
  vals : List ρ
  k : K

structure St (ρ : Type) where
  vals : List ρ                  -- the composite's own input values
  kids : List (Nat × T)
  outs : List (Nat × ρ)          -- what its outputs hold
  cache : Option (Entry ρ)

inductive Op (ρ : Type) where
  | setVals (vs : List ρ)                    -- assign the composite's own inputs
  | edit (kids : List (Nat × T))             -- ANY change below: the children become `kids`
  | structural (kids : List (Nat × T))       -- …made through add_child / remove_child / replace_child of THIS composite
  | run

def hit {ρ} [DecidableEq ρ] (c : KCfg) (s : St ρ) : Bool :=
  match s.cache with
  | none => false
  | some e => decide (e.vals = s.vals) && K.beq e.k (key c s.kids)

/-- `useCache = false` is the cache-free twin -/
def step {ρ} [DecidableEq ρ] (S : Sem ρ) (c : KCfg) (fuel : Nat) (useCache : Bool) (s : St ρ) :
    Op ρ → St ρ × Option (List (Nat × ρ))
  | .setVals vs => ({ s with vals := vs }, none)
  | .edit kids => ({ s with kids := kids }, none)
  | .structural kids => ({ s with kids := kids, cache := none }, none)
  | .run =>
    if useCache && hit c s then (s, some s.outs)
    else
      let outs := evalAll S fuel s.vals s.kids
      ({ s with outs := outs,
                cache := if useCache then some { vals := s.vals, k := key c s.kids } else none },
       some outs)

def runOps {ρ} [DecidableEq ρ] (S : Sem ρ) (c : KCfg) (fuel : Nat) (useCache : Bool) (s : St ρ) :
    List (Op ρ) → St ρ × List (Option (List (Nat × ρ)))
  | [] => (s, [])
  | o :: os =>
    let r := step S c fuel useCache s o
    let rs := runOps S c fuel useCache r.1 os
    (rs.1, r.2 :: rs.2)

/-! ## executable edits at a path (used by the driver; every one of them is an `Op.edit`) -/

def setAt {α} (i : Nat) (x : α) : List α → List α
  | [] => []
  | y :: ys => match i with
    | 0 => x :: ys
    | i + 1 => y :: setAt i x ys

def T.setIn (i : Nat) (s : Src) : T → T
  | .leaf cls ins => .leaf cls (setAt i s ins)
  | .comp ret ins kids => .comp ret (setAt i s ins) kids

def mapKid (l : Nat) (f : T → T) : List (Nat × T) → List (Nat × T)
  | [] => []
  | (k, t) :: rest => if k = l then (k, f t) :: rest else (k, t) :: mapKid l f rest

def removeKid (l : Nat) : List (Nat × T) → List (Nat × T)
  | [] => []
  | (k, t) :: rest => if k = l then rest else (k, t) :: removeKid l rest

/-- apply `f` to the children list of the composite at `path` (labels from the root down) -/
def atPath (f : List (Nat × T) → List (Nat × T)) : List Nat → List (Nat × T) → List (Nat × T)
  | [], kids => f kids
  | l :: p, kids =>
    mapKid l (fun t => match t with
      | .comp ret ins ks => .comp ret ins (atPath f p ks)
      | t => t) kids

end PwVerif.CacheTree
