import PwVerif.Model.Util
/-!
# For-loop node (transcription of `pyiron_workflow/nodes/for_loop.py`)

* `indexMaps` / `indexMapsOf` — `dictionary_to_index_maps`, branch by branch, python `dict`s
  modelled as insertion-ordered association lists with in-place update (`dset`).
* `build` — the children `For._build_body` creates after `_clean_existing_subgraph`
  (body nodes, injected get-item nodes looked up by label, row / column collectors).
* `evalOuts` — what the built graph delivers to the for-node's outputs. Values are an
  arbitrary type `ν`; the body function is the uninterpreted `Spec.bodyFn`; `none` is
  `NOT_DATA`, which makes the receiving node fail its readiness check and propagates.
* `run` — one run of the for-node: input cache test, `_on_cache_miss` (build only when
  ready; `dictionary_to_index_maps` raises before anything is touched), cache write,
  readiness gate, evaluation.

Key type `κ` (labels) and value type `ν` are parameters; core Lean only.
-/
namespace PwVerif.ForLoop

/-- the exceptions of `dictionary_to_index_maps` -/
inductive Err
  | key      -- KeyError: a key is not in the data
  | type     -- TypeError: `len` of the data fails
  | noKeys   -- ValueError: both key lists are `None`
  | allZero  -- ValueError: "Received keys to iterate over, but all values had length 0."
  deriving DecidableEq, Repr

/-! ## python dicts with integer values -/

abbrev Dict (κ : Type) := List (κ × Nat)

section
variable {κ : Type} [DecidableEq κ]

/-- `d[k] = v` : update in place, else append -/
def dset : Dict κ → κ → Nat → Dict κ
  | [], k, v => [(k, v)]
  | (k', v') :: r, k, v => if k' = k then (k', v) :: r else (k', v') :: dset r k v

/-- `d1.update(d2)`; also the dict comprehension / `dict.fromkeys` when `d1 = {}` -/
def dupdate (d1 : Dict κ) (d2 : List (κ × Nat)) : Dict κ :=
  d2.foldl (fun d kv => dset d kv.1 kv.2) d1

def dget (d : Dict κ) (k : κ) : Option Nat := d.lookup k

/-- `math.prod` -/
def prodLens : List Nat → Nat
  | [] => 1
  | n :: r => n * prodLens r

/-- `min(...)` over a non-empty list (0 for the empty one, never used) -/
def minLens : List Nat → Nat
  | [] => 0
  | [a] => a
  | a :: b :: r => min a (minLens (b :: r))

/-- `itertools.product(*[range(n) for n in lens])`: the last position runs fastest -/
def product : List Nat → List (List Nat)
  | [] => [[]]
  | n :: rest => (List.range n).flatMap fun i => (product rest).map (i :: ·)

/-- `nested_index_map`: `{nested_keys[i]: idx for i, idx in enumerate(nested_indices)}` -/
def nestedMap (keys : List κ) (idx : List Nat) : Dict κ := dupdate [] (keys.zip idx)

/-- `zipped_index_map`: `dict.fromkeys(zipped_keys, z)` -/
def zippedMap (keys : List κ) (z : Nat) : Dict κ := dupdate [] (keys.map (·, z))

/-- the body of `dictionary_to_index_maps` once the lengths are known; arguments are the
key lists paired with `len(data[key])` -/
def indexMaps (nested zipped : List (κ × Nat)) : Except Err (List (Dict κ)) :=
  let nk := nested.map (·.1)
  let nl := nested.map (·.2)
  let zk := zipped.map (·.1)
  let nNest := if nl.length > 0 then prodLens nl else 0
  let nZip := if zipped.length = 0 then 0 else minLens (zipped.map (·.2))
  if nNest > 0 ∧ nZip > 0 then
    .ok ((product nl).flatMap fun idx =>
      (List.range nZip).map fun z => dupdate (nestedMap nk idx) (zippedMap zk z))
  else if nNest > 0 then .ok ((product nl).map (nestedMap nk))
  else if nZip > 0 then .ok ((List.range nZip).map (zippedMap zk))
  else .error .allZero

/-- what `data[key]` offers to `len` -/
inductive DLen | missing | nolen | len (n : Nat)
  deriving DecidableEq, Repr

/-- `[len(data[key]) for key in keys]`, raising at the first offending key -/
def lensOf (data : κ → DLen) : List κ → Except Err (List Nat)
  | [] => .ok []
  | k :: r =>
    match data k with
    | .missing => .error .key
    | .nolen => .error .type
    | .len n =>
      match lensOf data r with
      | .ok l => .ok (n :: l)
      | .error e => .error e

/-- `dictionary_to_index_maps(data, nested_keys, zipped_keys)`; `none` = `None` -/
def indexMapsOf (data : κ → DLen) (nested zipped : Option (List κ)) : Except Err (List (Dict κ)) :=
  match lensOf data (nested.getD []) with
  | .error e => .error e
  | .ok nl =>
    match lensOf data (zipped.getD []) with
    | .error e => .error e
    | .ok zl =>
      match indexMaps ((nested.getD []).zip nl) ((zipped.getD []).zip zl) with
      | .ok maps => .ok maps
      | .error _ => .error (if nested.isNone ∧ zipped.isNone then .noKeys else .allZero)

end

/-! ## the for-node -/

/-- the value held by an input channel of the for-node -/
inductive InVal (ν : Type)
  | nd                    -- NOT_DATA
  | one (v : ν)           -- anything that is not a list
  | many (vs : List ν)    -- a list
  deriving DecidableEq, Repr

/-- the class-level configuration made by `for_node_factory` -/
structure Spec (κ ν : Type) where
  /-- input labels of the body node class, in signature order -/
  bodyInputs : List κ
  /-- defaults of the body inputs (`none` = no default = `NOT_DATA`) -/
  bodyDefault : κ → Option ν
  /-- output labels of the body node class -/
  outputs : List κ
  iterOn : List κ
  zipOn : List κ
  asDf : Bool
  useCache : Bool
  /-- cache policy of `Node._before_run` (C05's subject; every theorem here holds for both
  values): `false` = as originally pinned (input cache written before the readiness gate, a hit
  is honoured even when a run would be refused); `true` = a hit and the cache write only for
  admitted runs -/
  gateCache : Bool
  /-- `true` = a failed run clears the input cache (`_run_exception`) -/
  clearOnFail : Bool
  /-- composite policy (C06's subject; theorems hold for both values): `true` = as originally
  pinned, the exception of a failing *starting* node escapes `Composite._on_run` at once;
  `false` = it is collected like any other child's failure and the rest of the graph runs -/
  startAbort : Bool
  /-- `output_column_map()`, total on the body outputs -/
  colmap : κ → κ
  /-- the keys of the `output_column_map` argument (only read by the class-creation checks `mk`) -/
  mapKeys : List κ
  /-- class creation refuses a layout whose column names (looped inputs + mapped outputs) are not
  pairwise distinct: `false` = as pinned (only *unmapped* clashes are refused; a map ONTO a looped
  label or onto another column is accepted), `true` = repaired (fixes/C16-unique-columns.patch) -/
  checkCols : Bool
  /-- the body function, one uninterpreted symbol per output: arguments in `bodyInputs` order -/
  bodyFn : κ → List ν → ν
  /-- a whole list used as one (broadcast) value -/
  listVal : List ν → ν
  /-- the LABEL of the injected get-item node that reads cell `i` of looped input `k`. The loop looks
  these nodes up by label (`self.children[k][i]`): cells whose labels coincide share ONE node — the
  one created first. The library derives the label from a digest of (input label, index); the rows
  hold their own cells exactly as far as this map is injective (`Valid.labels`) -/
  itemLabel : κ → Nat → κ × Nat := Prod.mk

inductive Child (κ : Type)
  | input (k : κ)            -- user-input node of a for-node input
  | item (k : κ) (i : Nat)   -- injected `GetItem` node  input_k[i]
  | body (n : Nat)           -- body_n
  | rowc (n : Nat)           -- row_collector_n
  | dataframe
  | colc (c : κ)             -- column_collector_c
  deriving DecidableEq, Repr

def Child.isInput {κ : Type} : Child κ → Bool
  | .input _ => true
  | _ => false

/-- a `DataFrame`, abstracted to its rows (association lists in column order) -/
abbrev Table (κ ν : Type) := List (List (κ × ν))

/-- the for-node's output channels -/
inductive Outs (κ ν : Type)
  | df (t : Option (Table κ ν))
  | lists (cols : List (κ × Option (List ν)))
  deriving Repr, DecidableEq

inductive Res
  | ok            -- run returned its outputs
  | readiness     -- ReadinessError of the for-node itself
  | failedChild   -- FailedChildError
  | raised (e : Err)  -- exception of `dictionary_to_index_maps` out of `_on_cache_miss`
  | labelClash        -- AttributeError out of `_collect_output_as_lists`: two column collectors with one label
  deriving DecidableEq, Repr

/-- refusals at class creation (`For.__init_subclass__`) -/
inductive MkErr
  | unmapped      -- UnmappedConflictError: a looped input label is also an output label and has no map entry
  | nonexistent   -- MapsToNonexistentOutputError: a map key is not an output label
  | columns       -- (repaired only) the column names are not pairwise distinct
  deriving DecidableEq, Repr

section
variable {κ ν : Type} [DecidableEq κ]

/-- `self.inputs.to_value_dict()` is an association list in input order -/
abbrev Cur (κ ν : Type) := List (κ × InVal ν)

def valOf (cur : Cur κ ν) (k : κ) : InVal ν := (cur.lookup k).getD .nd

/-- what `len(data[key])` sees -/
def dataOf (cur : Cur κ ν) (k : κ) : DLen :=
  match cur.lookup k with
  | none => .missing
  | some (.many vs) => .len vs.length
  | some _ => .nolen

/-- injection: `self.children[label][i]` returns the existing get-item child or creates it -/
def addChild (cs : List (Child κ)) (c : Child κ) : List (Child κ) :=
  if c ∈ cs then cs else cs ++ [c]

/-- one pass of `_create_and_connect_input_to_body_nodes` -/
def addBody (cs : List (Child κ)) (n : Nat) (m : Dict κ) : List (Child κ) :=
  m.foldl (fun cs kv => addChild cs (.item kv.1 kv.2)) (cs ++ [.body n])

def addBodies (cs : List (Child κ)) : Nat → List (Dict κ) → List (Child κ)
  | _, [] => cs
  | n, m :: ms => addBodies (addBody cs n m) (n + 1) ms

/-- `_collect_output_as_dataframe` / `_collect_output_as_lists` (get-item nodes are re-used) -/
def addCollectors (s : Spec κ ν) (cs : List (Child κ)) (nRows : Nat) : List (Child κ) :=
  if s.asDf then cs ++ [.dataframe] ++ (List.range nRows).map .rowc
  else cs ++ s.outputs.map (fun o => .colc (s.colmap o)) ++ (s.zipOn ++ s.iterOn).map .colc

/-- `_build_body` after the index maps are known: clean, bodies, collectors -/
def build (s : Spec κ ν) (maps : List (Dict κ)) (cs : List (Child κ)) : List (Child κ) :=
  addCollectors s (addBodies (cs.filter Child.isInput) 0 maps) maps.length

/-- all-or-nothing collection: a node with a `NOT_DATA` input does not deliver -/
def optAll {α : Type} : List (Option α) → Option (List α)
  | [] => some []
  | none :: _ => none
  | some a :: r =>
    match optAll r with
    | some l => some (a :: l)
    | none => none

/-- every looped cell the index maps mention, in the order the build first touches it -/
def cellsOf (maps : List (Dict κ)) : List (κ × Nat) := maps.flatten

/-- no two different cells carry the same get-item label -/
def labelsOk (s : Spec κ ν) (maps : List (Dict κ)) : Bool :=
  (cellsOf maps).all fun c => (cellsOf maps).all fun c' =>
    decide (s.itemLabel c.1 c.2 = s.itemLabel c'.1 c'.2 → c = c')

/-- the cell whose get-item node a lookup for cell `c` returns: the first one created under that label -/
def ownerOf (s : Spec κ ν) (maps : List (Dict κ)) (c : κ × Nat) : κ × Nat :=
  ((cellsOf maps).find? fun c' => decide (s.itemLabel c'.1 c'.2 = s.itemLabel c.1 c.2)).getD c

/-- output of the get-item node `input_k[i]` -/
def itemVal (cur : Cur κ ν) (k : κ) (i : Nat) : Option ν :=
  match valOf cur k with
  | .many vs => vs[i]?
  | _ => none

/-- the connections made for one index map: `consumer.inputs[k] = self.children[k][i]` for
`k, i in channel_map.items()` — label and the value the get-item node delivers -/
def wires (cur : Cur κ ν) (m : Dict κ) : List (κ × Option ν) :=
  m.map fun kv => (kv.1, itemVal cur kv.1 kv.2)

/-- the same when get-item nodes are shared between cells of one label: cell `(k, i)` reads what the
node of the label's OWNER delivers -/
def wiresA (s : Spec κ ν) (cur : Cur κ ν) (maps : List (Dict κ)) (m : Dict κ) : List (κ × Option ν) :=
  m.map fun kv => (kv.1, itemVal cur (ownerOf s maps kv).1 (ownerOf s maps kv).2)

/-- the looped-input cell of a row: connected only when the key is in the index map -/
def loopedCell (w : List (κ × Option ν)) (k : κ) : Option ν :=
  match w.lookup k with
  | some c => c
  | none => none

/-- the value a body node sees on its input `k` -/
def bodyArg (s : Spec κ ν) (cur : Cur κ ν) (w : List (κ × Option ν)) (k : κ) : Option ν :=
  match w.lookup k with
  | some c => c
  | none =>
    if k ∈ s.iterOn ++ s.zipOn then s.bodyDefault k   -- looped but not wired: stays at its default
    else
      match valOf cur k with                            -- broadcast through the value link
      | .nd => none
      | .one v => some v
      | .many vs => some (s.listVal vs)

def bodyOut (s : Spec κ ν) (cur : Cur κ ν) (w : List (κ × Option ν)) (o : κ) : Option ν :=
  match optAll (s.bodyInputs.map (bodyArg s cur w)) with
  | some args => some (s.bodyFn o args)
  | none => none

/-- body `n` has delivered iff it is in the observed completion order -/
def bodyOutAt (s : Spec κ ν) (cur : Cur κ ν) (order : List Nat) (n : Nat) (w : List (κ × Option ν))
    (o : κ) : Option ν :=
  if n ∈ order then bodyOut s cur w o else none

/-- `d[k] = v` on a python dict of values: update in place, else append -/
def rset : List (κ × ν) → κ → ν → List (κ × ν)
  | [], k, v => [(k, v)]
  | (k', v') :: r, k, v => if k' = k then (k', v) :: r else (k', v') :: rset r k v

/-- the channels of a row collector and what they deliver, given the connections in the order they
are made: `row_specification` is a python dict (a repeated column name keeps its first position)
and a later connection to the same channel takes precedence when the value is fetched -/
def rupdate (l : List (κ × ν)) : List (κ × ν) := l.foldl (fun d kv => rset d kv.1 kv.2) []

/-- the column names of the table: looped inputs, then mapped outputs -/
def columns (s : Spec κ ν) : List κ := s.iterOn ++ s.zipOn ++ s.outputs.map s.colmap

/-- the labels `column_collector_<c>` in the order `_collect_output_as_lists` creates them -/
def collectorLabels (s : Spec κ ν) : List κ := s.outputs.map s.colmap ++ (s.zipOn ++ s.iterOn)

/-- the longest prefix in which nothing is repeated (`seen` = what came before) -/
def freshPrefix : List κ → List κ → List κ
  | _, [] => []
  | seen, a :: r => if a ∈ seen then [] else a :: freshPrefix (a :: seen) r

/-- lists form: creating the column collectors stops with an `AttributeError` at the first label
that is already taken by an earlier collector -/
def listsClash (s : Spec κ ν) : Bool := !s.asDf && !decide (collectorLabels s).Nodup

/-- `_build_body` when `_collect_output_as_lists` dies on a label clash: the old sub-graph is
gone, the bodies and the collectors created so far stay -/
def buildClash (s : Spec κ ν) (maps : List (Dict κ)) (cs : List (Child κ)) : List (Child κ) :=
  addBodies (cs.filter Child.isInput) 0 maps ++ (freshPrefix [] (collectorLabels s)).map .colc

/-- row collector `n` (an `InputsToDict`): looped inputs, then mapped outputs -/
def rowAt (s : Spec κ ν) (cur : Cur κ ν) (order : List Nat) (n : Nat) (w : List (κ × Option ν)) :
    Option (List (κ × ν)) :=
  match optAll ((s.iterOn ++ s.zipOn).map fun k => (loopedCell w k).map (k, ·)) with
  | none => none
  | some l =>
    match optAll (s.outputs.map fun o => (bodyOutAt s cur order n w o).map (s.colmap o, ·)) with
    | none => none
    | some o => some (rupdate (l ++ o))

def enum {α : Type} : Nat → List α → List (Nat × α)
  | _, [] => []
  | n, a :: r => (n, a) :: enum (n + 1) r

/-- the looped for-node inputs in output-channel order (`_build_outputs_preview`) -/
def loopedInputs (s : Spec κ ν) : List κ := s.bodyInputs.filter (· ∈ s.zipOn ++ s.iterOn)

/-- what arrives at the for-node's outputs -/
def evalOuts (s : Spec κ ν) (cur : Cur κ ν) (maps : List (Dict κ)) (order : List Nat) : Outs κ ν :=
  if s.asDf then
    .df (optAll ((enum 0 maps).map fun nm => rowAt s cur order nm.1 (wires cur nm.2)))
  else
    .lists
      ((loopedInputs s).map
          (fun k => (k, optAll (maps.map fun m => loopedCell (wires cur m) k)))
        ++ s.outputs.map
          (fun o => (s.colmap o,
            optAll ((enum 0 maps).map fun nm => bodyOutAt s cur order nm.1 (wires cur nm.2) o))))

/-- `evalOuts` with shared get-item nodes (`wiresA`) -/
def evalOutsA (s : Spec κ ν) (cur : Cur κ ν) (maps : List (Dict κ)) (order : List Nat) : Outs κ ν :=
  if s.asDf then
    .df (optAll ((enum 0 maps).map fun nm => rowAt s cur order nm.1 (wiresA s cur maps nm.2)))
  else
    .lists
      ((loopedInputs s).map
          (fun k => (k, optAll (maps.map fun m => loopedCell (wiresA s cur maps m) k)))
        ++ s.outputs.map
          (fun o => (s.colmap o,
            optAll ((enum 0 maps).map fun nm => bodyOutAt s cur order nm.1 (wiresA s cur maps nm.2) o))))

/-- the children of a build with shared get-item nodes: one item child per LABEL (named by its owner) -/
def buildA (s : Spec κ ν) (maps : List (Dict κ)) (cs : List (Child κ)) : List (Child κ) :=
  build s (maps.map fun m => m.map (ownerOf s maps)) cs

def Outs.complete : Outs κ ν → Bool
  | .df t => t.isSome
  | .lists cols => cols.all (·.2.isSome)

/-- every output `NOT_DATA` (value links are (re)formed at build time from fresh collectors) -/
def ndOuts (s : Spec κ ν) : Outs κ ν :=
  if s.asDf then .df none
  else .lists ((loopedInputs s ++ s.outputs.map s.colmap).eraseDups.map (·, none))

/-- lists form only: the column collector of a looped key that no index map mentions has no
connection at all, so the DAG wiring makes it a *starting node*, which fails its readiness check -/
def strandedCollector (s : Spec κ ν) (maps : List (Dict κ)) : Bool :=
  !s.asDf && (s.zipOn ++ s.iterOn).any fun k => maps.all fun m => (dget m k).isNone

structure St (κ ν : Type) where
  children : List (Child κ)
  outs : Outs κ ν
  cached : Option (Cur κ ν)
  /-- the index maps of the last (attempted) build: what the present sub-graph is wired along -/
  maps : List (Dict κ) := []

def init (s : Spec κ ν) : St κ ν :=
  { children := s.bodyInputs.map .input, outs := ndOuts s, cached := none }

/-- `for_node_factory` / `For.__init_subclass__`: the checks made when the class is created -/
def mk (s : Spec κ ν) : Except MkErr (St κ ν) :=
  if s.bodyInputs.any (fun k => k ∈ s.iterOn ++ s.zipOn && k ∈ s.outputs && !(k ∈ s.mapKeys)) then
    .error .unmapped
  else if s.mapKeys.any (fun k => !(k ∈ s.outputs)) then .error .nonexistent
  else if s.checkCols && !decide (columns s).Nodup then .error .columns
  else .ok (init s)

def ready (cur : Cur κ ν) : Bool := cur.all fun kv => match kv.2 with | .nd => false | _ => true

variable [DecidableEq ν]

/-- `use_cache and cache_hit [and a run would be admitted]` -/
def isHit (s : Spec κ ν) (st : St κ ν) (cur : Cur κ ν) : Bool :=
  s.useCache && decide (st.cached = some cur) && (ready cur || !s.gateCache)

/-- one run of the for-node with the current input values `cur`; `order` is the completion
order of the body nodes (a schedule) -/
def run (s : Spec κ ν) (st : St κ ν) (cur : Cur κ ν) (order : List Nat) : St κ ν × Res :=
  if isHit s st cur then (st, .ok)                              -- cache hit: outputs as they are
  else if ready cur then
    match indexMapsOf (dataOf cur) (some s.iterOn) (some s.zipOn) with
    | .error e => (st, .raised e)                                -- raised before anything is touched
    | .ok maps =>
      if listsClash s then
        -- raised out of `_on_cache_miss` half-way through the build: nothing ran, nothing cached
        ({ st with children := buildClash s maps st.children, maps := maps }, .labelClash)
      else
      if !labelsOk s maps then
        -- two cells share a get-item label: the second lookup returns the first one's node
        let outs := evalOutsA s cur maps order
        ({ children := buildA s maps st.children, outs,
           cached := if s.useCache && (outs.complete || !s.clearOnFail) then some cur else none, maps := maps },
         if outs.complete then .ok else .failedChild)
      else
      if s.startAbort && strandedCollector s maps then
        -- the stranded collector's `ReadinessError` aborts the run before the signal loop
        ({ children := build s maps st.children, outs := ndOuts s,
           cached := if s.useCache && !s.clearOnFail then some cur else none, maps := maps }, .readiness)
      else
      -- (otherwise that failure is collected like any other child's and the rest still runs)
      let outs := evalOuts s cur maps order
      ({ children := build s maps st.children, outs,
         cached := if s.useCache && (outs.complete || !s.clearOnFail) then some cur else none, maps := maps },
       if outs.complete then .ok else .failedChild)
  else ({ st with cached := if s.useCache && !s.gateCache then some cur else st.cached }, .readiness)

/-- a pickle / save-load round trip of the node AT REST (between runs, also after a refused or failed
run): the restored copy has the same children in the same order with the same connections
(`Composite.__setstate__`), the same output values, the same input cache, and its value links are
re-forged without sending values (`For.__setstate__`); nothing the model observes changes -/
def reload (st : St κ ν) : St κ ν := st

/-- the state a copy is restored to when the node was pickled WHILE the run on `cur` was in flight
(every body node out on an executor, everything else that can run has run) and its `running` flags
are cleared by hand afterwards: the new sub-graph is already built, forming the output value links has
sent `NOT_DATA` to the outputs, what does not depend on a body has been delivered (lists form: the
columns of the looped inputs) — i.e. the outputs are `evalOuts` with NO body completed —, and the
input cache of the unfinished run is not carried (`Node.__getstate__`). `none`: no run is in flight
(cache hit, refusal, or the build raised) -/
def midRun (s : Spec κ ν) (st : St κ ν) (cur : Cur κ ν) : Option (St κ ν) :=
  if isHit s st cur then none
  else if ready cur then
    match indexMapsOf (dataOf cur) (some s.iterOn) (some s.zipOn) with
    | .error _ => none
    | .ok maps =>
      if listsClash s then none
      else some { children := build s maps st.children, outs := evalOuts s cur maps [], cached := none,
                  maps := maps }
  else none

/-- a run of the loop node ITSELF on a by-value executor (process-pool style): the node is pickled, the
copy runs, the copy comes back through pickle and is merged into the local node
(`Composite._parse_remotely_executed_self`: the children are replaced by the returned ones, the local
IO channels stay and have their value links re-forged to the NEW children, outputs and input cache
are the copy's) — observably a round trip, the run, and a round trip back -/
def runByValue (s : Spec κ ν) (st : St κ ν) (cur : Cur κ ν) (order : List Nat) : St κ ν × Res :=
  let r := run s (reload st) cur order
  (reload r.1, r.2)

/-- the generated sub-graph is edited BY HAND between two runs: a body copy is given another input value
and it and the collectors downstream of it are run by hand, which writes whatever results (`o`) through
to the loop's outputs. The composite's cache is keyed on its children, their wiring and their free
inputs as well, so the next run is no hit whatever its inputs -/
def tamper (st : St κ ν) (o : Outs κ ν) : St κ ν := { st with outs := o, cached := none }

/-- what can happen to a loop node between its creation and a later run -/
inductive Ev (κ ν : Type)
  | run (cur : Cur κ ν) (order : List Nat)   -- a run (any inputs, any completion order)
  | rrun (cur : Cur κ ν) (order : List Nat)  -- a run of the node itself on a by-value executor
  | tamper (o : Outs κ ν)                    -- hand edit of the sub-graph that leaves `o` in the outputs
  | reload                                   -- round trip at rest; the history continues on the copy
  | snap (cur : Cur κ ν)                     -- a run on `cur` is started, the node is pickled while its
                                             -- bodies are out, the history continues on THAT copy

def evs (s : Spec κ ν) (st : St κ ν) : List (Ev κ ν) → St κ ν
  | [] => st
  | .run cur order :: r => evs s (run s st cur order).1 r
  | .rrun cur order :: r => evs s (runByValue s st cur order).1 r
  | .tamper o :: r => evs s (tamper st o) r
  | .reload :: r => evs s (reload st) r
  | .snap cur :: r => evs s ((midRun s st cur).getD st) r

/-- a history of runs -/
def runs (s : Spec κ ν) (st : St κ ν) : List (Cur κ ν × List Nat) → St κ ν
  | [] => st
  | (cur, order) :: r => runs s (run s st cur order).1 r

end

/-! ## Reference (specification side): the plain nested-times-zipped table

Written on *values*, without indices, dictionaries or `NOT_DATA`: `itertools.product` of the
iterated lists outside, python `zip` of the zipped lists inside. -/
section
variable {κ ν : Type} [DecidableEq κ]

/-- `idx` is a valid index tuple for the lengths `lens`: same arity, every index in range -/
def Below : List Nat → List Nat → Prop
  | [], [] => True
  | i :: t, n :: r => i < n ∧ Below t r
  | _, _ => False

/-- lexicographic order on index tuples (first position most significant) -/
def lexLt : List Nat → List Nat → Prop
  | a :: r, b :: s => a < b ∨ (a = b ∧ lexLt r s)
  | _, _ => False

/-- the reference index maps: every combination of nested indices (last key fastest), each
followed by every common index of the zipped keys -/
def refNested (nested : List (κ × Nat)) : List (Dict κ) :=
  (product (nested.map (·.2))).map fun idx => (nested.map (·.1)).zip idx

def refZipped : List (κ × Nat) → List (Dict κ)
  | [] => [[]]
  | zipped => (List.range (minLens (zipped.map (·.2)))).map fun z => zipped.map fun kz => (kz.1, z)

/-- number of zipped steps: the shortest zipped list (1 when nothing is zipped) -/
def zipCount : List (κ × Nat) → Nat
  | [] => 1
  | zipped => minLens (zipped.map (·.2))

def refMaps (nested zipped : List (κ × Nat)) : List (Dict κ) :=
  (refNested nested).flatMap fun n => (refZipped zipped).map fun z => n ++ z

/-- the guard of the property: distinct keys, at least one of them, no empty list -/
structure Guard (nested zipped : List (κ × Nat)) : Prop where
  pos : ∀ p ∈ nested ++ zipped, 0 < p.2
  nodup : ((nested ++ zipped).map (·.1)).Nodup
  nonempty : nested ++ zipped ≠ []

/-- `itertools.product(*lists)` -/
def productV : List (List ν) → List (List ν)
  | [] => [[]]
  | l :: rest => l.flatMap fun v => (productV rest).map (v :: ·)

/-- `zip(*lists)`, truncated to the shortest; no list at all = one empty combination -/
def zipV : List (List ν) → List (List ν)
  | [] => [[]]
  | [l] => l.map ([·])
  | l :: l' :: rest => List.zipWith (· :: ·) l (zipV (l' :: rest))

/-- the list held by a looped input -/
def listOf (cur : Cur κ ν) (k : κ) : List ν :=
  match valOf cur k with
  | .many vs => vs
  | _ => []

/-- the value of a broadcast input as the body sees it (only meaningful when it holds data) -/
def bcastVal (s : Spec κ ν) (cur : Cur κ ν) (k : κ) : ν :=
  match valOf cur k with
  | .one v => v
  | .many vs => s.listVal vs
  | .nd => s.listVal []

/-- the rows' looped values, in row order: nested product outside, zip inside -/
def combos (s : Spec κ ν) (cur : Cur κ ν) : List (List (κ × ν)) :=
  (productV (s.iterOn.map (listOf cur))).flatMap fun nv =>
    (zipV (s.zipOn.map (listOf cur))).map fun zv => s.iterOn.zip nv ++ s.zipOn.zip zv

/-- what body input `k` receives in the row with looped values `vd` -/
def env (s : Spec κ ν) (cur : Cur κ ν) (vd : List (κ × ν)) (k : κ) : ν :=
  match vd.lookup k with
  | some v => v
  | none => bcastVal s cur k

def refBody (s : Spec κ ν) (cur : Cur κ ν) (vd : List (κ × ν)) (o : κ) : ν :=
  s.bodyFn o (s.bodyInputs.map (env s cur vd))

def refRow (s : Spec κ ν) (cur : Cur κ ν) (vd : List (κ × ν)) : List (κ × ν) :=
  vd ++ s.outputs.map fun o => (s.colmap o, refBody s cur vd o)

def refTable (s : Spec κ ν) (cur : Cur κ ν) : Table κ ν := (combos s cur).map (refRow s cur)

/-- the reference outputs in either form -/
def refOuts (s : Spec κ ν) (cur : Cur κ ν) : Outs κ ν :=
  if s.asDf then .df (some (refTable s cur))
  else .lists
    ((loopedInputs s).map (fun k => (k, some ((combos s cur).map fun vd => env s cur vd k)))
      ++ s.outputs.map (fun o => (s.colmap o, some ((combos s cur).map fun vd => refBody s cur vd o))))

/-- a loop layout the property talks about: every looped label is a body input, no label is
looped twice, something is looped -/
structure Layout (s : Spec κ ν) : Prop where
  nodup : (s.iterOn ++ s.zipOn).Nodup
  sub : ∀ k ∈ s.iterOn ++ s.zipOn, k ∈ s.bodyInputs
  nonempty : s.iterOn ++ s.zipOn ≠ []

/-- the column renaming really is a renaming: the column names of the table (looped inputs and
mapped outputs) are pairwise distinct -/
def ColsDistinct (s : Spec κ ν) : Prop := (columns s).Nodup

/-- layout + distinct column names -/
structure Valid (s : Spec κ ν) : Prop extends Layout s where
  cols : ColsDistinct s
  /-- different looped cells have different get-item labels -/
  labels : ∀ k i k' i', s.itemLabel k i = s.itemLabel k' i' → k = k' ∧ i = i'

/-- input values the property talks about: every input holds data, every looped input holds a
non-empty list (the guard: the code refuses empty ones) -/
structure Good (s : Spec κ ν) (cur : Cur κ ν) : Prop where
  keys : cur.map (·.1) = s.bodyInputs
  data : ∀ kv ∈ cur, kv.2 ≠ .nd
  lists : ∀ k ∈ s.iterOn ++ s.zipOn, ∃ vs, valOf cur k = .many vs ∧ vs ≠ []

/-- every body node has completed -/
def Covers (order : List Nat) (rows : Nat) : Prop := ∀ n, n < rows → n ∈ order

/-- the children a build creates, as a function of the index maps alone -/
def freshChildren (s : Spec κ ν) (maps : List (Dict κ)) : List (Child κ) :=
  addCollectors s (addBodies [] 0 maps) maps.length

/-- mixed-radix digits of a row number for the given lengths (first position most significant) -/
def digits : List Nat → Nat → List Nat
  | [], _ => []
  | _ :: rest, r => (r / prodLens rest) :: digits rest (r % prodLens rest)

/-- number of rows for given lengths -/
def rowCount (nested zipped : List (κ × Nat)) : Nat := prodLens (nested.map (·.2)) * zipCount zipped

/-- closed form of the number of children after a run: input nodes, one body per row, one
get-item node per used (key, index), and the collectors of the chosen output form -/
def childCount (s : Spec κ ν) (nested zipped : List (κ × Nat)) : Nat :=
  s.bodyInputs.length + rowCount nested zipped
    + ((nested.map (·.2)).sum + zipped.length * zipCount zipped)
    + (if s.asDf then rowCount nested zipped + 1
       else s.outputs.length + (s.zipOn.length + s.iterOn.length))

/-- the lengths `len(data[key])` of a key list -/
def lensOfCur (cur : Cur κ ν) (keys : List κ) : List (κ × Nat) :=
  keys.map fun k => (k, (listOf cur k).length)

end

end PwVerif.ForLoop
