import PwVerif.Model.Util
/-!
# Composite execution (transcription of `Composite._on_run`, `_run_while_children_or_signals_exist`,
`Node.run/_before_run/_run/_finish_run/_run_finally`, `AccumulatingInputSignal.__call__`)

A composite whose execution signals were derived from the data DAG
(`set_run_connections_according_to_dag`): every node's all-of trigger is connected to the `ran`
signal of each direct data upstream, the starting nodes are the nodes without upstream.

* `slots i`   – per input channel of node `i` its ordered connection list (head = fetch priority),
                each connection named by the upstream node (term nodes have one output);
* `down j`    – `ran.connections` of node `j` in list order = firing order (set-iteration dependent
                in the implementation, therefore an input of the model);
* `starters`  – `starting_nodes` in list order (likewise observed);
* `onExec i`  – the node is handed to an executor; its completion is a separate action `complete i`
                that may be interleaved anywhere (any schedule);
* `fails i`   – the node's function raises.

Values are free terms: `app i args` is "function `f_i` applied to `args`".
-/
namespace PwVerif.Exec
open PwVerif

inductive Val
  | nd                                   -- NOT_DATA
  | d                                    -- the default constant of an unconnected input
  | app (f : Nat) (args : List Val)
  deriving Repr, Inhabited

def Val.isNd : Val → Bool
  | .nd => true
  | _ => false

/-- behaviours that differ between the pinned code and the repaired code -/
structure Cfg where
  /-- a failure of an executor-run child inside the done-callback is reported to the composite
  (pinned: the exception is swallowed by `concurrent.futures` — "exception calling callback") -/
  reportExecFailure : Bool
  /-- a failing *starting* node aborts `_on_run` at once, leaving executor siblings out
  (pinned: true) -/
  startAborts : Bool
  deriving Repr, DecidableEq

def Cfg.pinned : Cfg := { reportExecFailure := false, startAborts := true }
def Cfg.repaired : Cfg := { reportExecFailure := true, startAborts := false }

structure Dag where
  slots    : Nat → List (List Nat)
  down     : Nat → List Nat
  starters : List Nat
  onExec   : Nat → Bool
  fails    : Nat → Bool
  /-- the value every child's output holds when the run starts: `NOT_DATA` for a fresh graph, the
  outputs left by the previous run for a re-run (see `restart`) -/
  out0     : Nat → Val := fun _ => .nd

def Dag.deps (d : Dag) (i : Nat) : List Nat := (d.slots i).flatten

inductive St | idle | out | done | failed
  deriving DecidableEq, Repr

inductive Phase
  | run (rest : List Nat)      -- `rest`: starting nodes not yet started; `run []` = the drain loop
  | exited                     -- the loop ended (normally or with collected child errors)
  | aborted                    -- a starting node raised out of `_on_run`
  deriving DecidableEq, Repr

structure S where
  phase    : Phase
  queue    : List (Nat × Nat)          -- signal_queue: (emitter, receiver)
  received : Nat → List Nat            -- received_signals of each all-of trigger
  st       : Nat → St
  calls    : Nat → Nat                 -- invocations of the wrapped function
  out      : Nat → Val                 -- output channel value
  args     : Nat → List Val            -- arguments of the (last) invocation
  running  : List Nat                  -- running_children
  errs     : List Nat                  -- children whose error the composite has collected
  execLog  : List Nat                  -- provenance_by_execution
  doneLog  : List Nat                  -- provenance_by_completion

def init (d : Dag) : S :=
  { phase := .run d.starters, queue := [], received := fun _ => [], st := fun _ => .idle,
    calls := fun _ => 0, out := d.out0, args := fun _ => [], running := [], errs := [],
    execLog := [], doneLog := [] }

/-- `InputData.fetch`: first connection holding data, else the channel's own value -/
def fetchSlot (out : Nat → Val) (own : Val) : List Nat → Val
  | [] => own
  | c :: cs => if (out c).isNd then fetchSlot out own cs else out c

def fetchArgs (d : Dag) (out : Nat → Val) (i : Nat) : List Val :=
  (d.slots i).map (fetchSlot out .d)

def emit (d : Dag) (k : Nat) : List (Nat × Nat) := (d.down k).map (fun r => (k, r))

inductive Outcome | ok | raised
  deriving DecidableEq, Repr

/-- `child.run()` as called by the composite (from `starting_nodes` or from a trigger callback):
fetch, readiness gate, then local execution to the end or submission to the executor.
Returns the new state and whether the call raised into the composite. -/
def runNode (d : Dag) (s : S) (i : Nat) : S × Outcome :=
  let a := fetchArgs d s.out i
  if s.st i ≠ .idle ∨ a.any Val.isNd then
    (s, .raised)                                              -- ReadinessError: function not called
  else
    let s1 := { s with calls := updF s.calls i (s.calls i + 1), args := updF s.args i a,
                       execLog := s.execLog ++ [i] }
    if d.onExec i then
      ({ s1 with st := updF s.st i .out, running := s.running ++ [i] }, .ok)
    else if d.fails i then
      ({ s1 with st := updF s.st i .failed, doneLog := s.doneLog ++ [i] }, .raised)
    else
      ({ s1 with st := updF s.st i .done, out := updF s.out i (.app i a),
                 doneLog := s.doneLog ++ [i], queue := s.queue ++ emit d i }, .ok)

inductive Act | start | deliver | complete (k : Nat) | exit
  deriving Repr, DecidableEq

def step (cfg : Cfg) (d : Dag) (s : S) : Act → Option S
  | .start =>
    match s.phase with
    | .run (i :: rest) =>
      match runNode d s i with
      | (s', .ok) => some { s' with phase := .run rest }
      | (s', .raised) =>
        if cfg.startAborts then some { s' with phase := .aborted }
        else some { s' with phase := .run rest, errs := s'.errs ++ [i] }
    | _ => none
  | .deliver =>
    match s.phase, s.queue with
    | .run [], (j, i) :: q =>
      let rec' := j :: s.received i
      if (d.deps i).all (fun x => rec'.contains x) then
        match runNode d { s with queue := q, received := updF s.received i [] } i with
        | (s', .ok) => some s'
        | (s', .raised) => some { s' with errs := s'.errs ++ [i] }
      else
        some { s with queue := q, received := updF s.received i rec' }
    | _, _ => none
  | .complete k =>
    match s.phase with
    | .run _ =>
      if s.st k = .out then
        let s1 := { s with running := s.running.erase k, doneLog := s.doneLog ++ [k] }
        if d.fails k then
          some { s1 with st := updF s.st k .failed,
                         errs := if cfg.reportExecFailure then s.errs ++ [k] else s.errs }
        else
          some { s1 with st := updF s.st k .done, out := updF s.out k (.app k (s.args k)),
                         queue := s.queue ++ emit d k }
      else none
    | _ => none
  | .exit =>
    match s.phase, s.queue, s.running with
    | .run [], [], [] => some { s with phase := .exited }
    | _, _, _ => none

/-- RE-RUN. The composite is run again after a run that ended (normally, with collected child errors,
or aborted): the user has cleared the `failed` flags, possibly removed the cause (`fails'`) and changed
executor assignments (`onExec'`); the wiring is the same (a workflow re-derives the same wiring from
the same data graph, a macro keeps its own). Outputs are what the previous run left. What the all-of
triggers had collected when the previous run stopped is either kept (`resetReceived = false`, pinned
`Composite._on_run`) or dropped at the fresh start (`true`, repaired). -/
def rerunDag (d : Dag) (s : S) (fails' onExec' : Nat → Bool) : Dag :=
  { d with fails := fails', onExec := onExec', out0 := s.out }

def restart (resetReceived : Bool) (d : Dag) (s : S) (fails' onExec' : Nat → Bool) : S :=
  { init (rerunDag d s fails' onExec') with
    received := if resetReceived then fun _ => [] else s.received }

/-- run a whole schedule; `none` if some action was not enabled -/
def runActs (cfg : Cfg) (d : Dag) (s : S) : List Act → Option S
  | [] => some s
  | a :: as => match step cfg d s a with
    | some s' => runActs cfg d s' as
    | none => none

/-- the canonical schedule: whatever is enabled first among start, deliver, complete head, exit -/
def nextAct (s : S) : Option Act :=
  match s.phase with
  | .run (_ :: _) => some .start
  | .run [] =>
    match s.queue, s.running with
    | _ :: _, _ => some .deliver
    | [], k :: _ => some (.complete k)
    | [], [] => some .exit
  | _ => none

end PwVerif.Exec
