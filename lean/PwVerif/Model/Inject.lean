import PwVerif.Model.Util
/-!
# Inject — operators on output channels create or re-use nodes (model slice of C18)

Transcribes `OutputDataWithInjection._other_label / _get_injection_label / _node_injection /
__getitem__` (pyiron_workflow/mixin/injection.py), the delegation of single-output nodes
(mixin/single_output.py: every operator is forwarded to `.channel`, so a node and its only output are
the same operand / the same owner here) and the operator table dunder → class of nodes/standard.py.

Python's `str()`, `repr()` and `type().__name__` of a raw operand are *inputs* of the model (the
harness reads them off the real object); `hash` is a parameter `H`.  Core Lean only.
-/
namespace PwVerif.Inject

/-- what an operator is applied with -/
inductive Operand where
  /-- a `HasChannel` object (an output channel or a single-output node): channel id and `scoped_label` -/
  | chan (id : Nat) (slabel : String)
  /-- any other python object: `type(x).__name__`, `str(x)`, `repr(x)` -/
  | raw (tag : String) (str : String) (repr : String)
  deriving DecidableEq, Repr

/-- an operator expression on an output channel -/
structure Expr where
  owner : Nat            -- id of the channel the operator is applied to
  slabel : String        -- its `scoped_label`  (`<owner label>__<channel label>`)
  cls : String           -- `injection_class.__name__`
  ops : List Operand     -- the `*args` of `_node_injection`
  deriving DecidableEq, Repr

/-- the two ways of printing the operands into the node label -/
inductive Printer where
  /-- pinned: `str(other)` / scoped label, joined with "_" into one string that is hashed -/
  | pinned
  /-- repaired: the tuple `(scoped, class, (scoped,) | (type name, repr), …)` is hashed -/
  | repaired
  deriving DecidableEq, Repr

inductive OpKey where
  | ch (slabel : String)
  | obj (tag : String) (repr : String)
  deriving DecidableEq, Repr

/-- what is handed to `hash` -/
inductive Key where
  | flat (s : String)
  | struct (slabel : String) (cls : String) (ops : List OpKey)
  deriving DecidableEq, Repr

/-- `_other_label` -/
def opLabel : Operand → String
  | .chan _ s => s
  | .raw _ s _ => s

def opKey : Operand → OpKey
  | .chan _ s => .ch s
  | .raw t _ r => .obj t r

/-- `nominal_label = f"{self.scoped_label}_{injection_class.__name__}{suffix}"` -/
def nominal (e : Expr) : String :=
  let suffix := if e.ops.isEmpty then "" else "_" ++ "_".intercalate (e.ops.map opLabel)
  e.slabel ++ "_" ++ e.cls ++ suffix

def key (p : Printer) (e : Expr) : Key :=
  match p with
  | .pinned => .flat (nominal e)
  | .repaired => .struct e.slabel e.cls (e.ops.map opKey)

/-- `f"injected_{injection_class.__name__}_{hashed}"`, `H k` = `str(hash(k)).replace("-", "m")` -/
def label (H : Key → String) (p : Printer) (e : Expr) : String :=
  "injected_" ++ e.cls ++ "_" ++ H (key p e)

/-- the children of every parent (label ↦ node id, insertion order) and the id of the next new node -/
structure St where
  children : Nat → List (String × Nat)
  next : Nat

/-- `_node_injection` for an arbitrary way `L` of naming expressions: `self.owner.parent.children[L e]`, on
`AttributeError` (no parent) or `KeyError` create the node with `parent=self.owner.parent, label=L e`.
Returns the state and the node. -/
def injectL {α : Type} (L : α → String) (st : St) (parent : Option Nat) (e : α) : St × Nat :=
  match parent with
  | none => ({ st with next := st.next + 1 }, st.next)
  | some par =>
    match (st.children par).lookup (L e) with
    | some n => (st, n)
    | none =>
      ({ children := updF st.children par (st.children par ++ [(L e, st.next)]), next := st.next + 1 },
       st.next)

/-- `_node_injection` with the label of `_get_injection_label` -/
def inject (H : Key → String) (p : Printer) (st : St) (parent : Option Nat) (e : Expr) : St × Nat :=
  injectL (label H p) st parent e

/-! ### the operand-printing function as a parameter

`_other_key` decides what of an operand enters the key.  `pr` is any such function (the one in /repo is `opKey`:
scoped label of a channel, type name + full `repr` of anything else; a size-bounded `reprlib.repr` is another). -/

def keyWith (pr : Operand → OpKey) (e : Expr) : Key := .struct e.slabel e.cls (e.ops.map pr)

def labelWith (H : Key → String) (pr : Operand → OpKey) (e : Expr) : String :=
  "injected_" ++ e.cls ++ "_" ++ H (keyWith pr e)

/-- a printer that keeps only the first `n` characters of the `repr` of a raw operand -/
def truncKey (n : Nat) : Operand → OpKey
  | .chan _ s => .ch s
  | .raw t _ r => .obj t (String.ofList (r.toList.take n))

/-- `x[a:b:c]` where some slice component is channel-like: first a `Slice` node made from the three
components *without* the owner's value (`inject_self=False`; its label is still derived from the owner),
then `GetItem` with that node as the operand.  `chanOf n` = id of node `n`'s output channel,
`scopedOf l` = scoped label of the output of a `Slice` node labelled `l`. -/
def getitemSlice (H : Key → String) (p : Printer) (st : St) (parent : Option Nat) (owner : Nat)
    (slabel : String) (start stop step : Operand) (chanOf : Nat → Nat) : St × Nat × Nat :=
  let es : Expr := { owner := owner, slabel := slabel, cls := "Slice", ops := [start, stop, step] }
  let r1 := inject H p st parent es
  let item := Operand.chan (chanOf r1.2) (label H p es ++ "__slice")
  let r2 := inject H p r1.1 parent { owner := owner, slabel := slabel, cls := "GetItem", ops := [item] }
  (r2.1, r1.2, r2.2)

/-! ## the operator table -/

/-- the operator methods of `OutputDataWithInjection` -/
inductive Dunder where
  | getattr | getitem | lt | le | eq | ne | gt | ge | bool | len | contains
  | add | sub | mul | rmul | matmul | truediv | floordiv | mod | pow | and | xor | or
  | neg | pos | abs | invert | int | float | round
  deriving DecidableEq, Repr

def Dunder.all : List Dunder :=
  [.getattr, .getitem, .lt, .le, .eq, .ne, .gt, .ge, .bool, .len, .contains, .add, .sub, .mul, .rmul,
   .matmul, .truediv, .floordiv, .mod, .pow, .and, .xor, .or, .neg, .pos, .abs, .invert, .int, .float, .round]

/-- injection.py: which standard node class each operator method injects -/
def dispatch : Dunder → String
  | .getattr => "GetAttr" | .getitem => "GetItem" | .lt => "LessThan" | .le => "LessThanEquals"
  | .eq => "Equals" | .ne => "NotEquals" | .gt => "GreaterThan" | .ge => "GreaterThanEquals"
  | .bool => "Bool" | .len => "Length" | .contains => "Contains" | .add => "Add" | .sub => "Subtract"
  | .mul => "Multiply" | .rmul => "RightMultiply" | .matmul => "MatrixMultiply" | .truediv => "Divide"
  | .floordiv => "FloorDivide" | .mod => "Modulo" | .pow => "Power" | .and => "And" | .xor => "XOr"
  | .or => "Or" | .neg => "Negative" | .pos => "Positive" | .abs => "Absolute" | .invert => "Invert"
  | .int => "Int" | .float => "Float" | .round => "Round"

/-- Python's operations (module `operator` / builtins) -/
inductive PyOp where
  | getattr | getitem | lt | le | eq | ne | gt | ge | truth | len | contains
  | add | sub | mul | matmul | truediv | floordiv | mod | pow | and_ | xor | or_
  | neg | pos | abs | inv | int | float | round
  deriving DecidableEq, Repr

/-- an operation together with where the owner's value goes: `true` = first argument -/
abbrev Sem := PyOp × Bool

/-- Python's data model: the operation a method implements when invoked on `self` with `other` -/
def meaning : Dunder → Sem
  | .getattr => (.getattr, true) | .getitem => (.getitem, true) | .lt => (.lt, true) | .le => (.le, true)
  | .eq => (.eq, true) | .ne => (.ne, true) | .gt => (.gt, true) | .ge => (.ge, true)
  | .bool => (.truth, true) | .len => (.len, true)
  | .contains => (.contains, true)          -- operator.contains(self, other) = `other in self`
  | .add => (.add, true) | .sub => (.sub, true) | .mul => (.mul, true)
  | .rmul => (.mul, false)                  -- `other * self`
  | .matmul => (.matmul, true) | .truediv => (.truediv, true) | .floordiv => (.floordiv, true)
  | .mod => (.mod, true) | .pow => (.pow, true) | .and => (.and_, true) | .xor => (.xor, true)
  | .or => (.or_, true) | .neg => (.neg, true) | .pos => (.pos, true) | .abs => (.abs, true)
  | .invert => (.inv, true) | .int => (.int, true) | .float => (.float, true) | .round => (.round, true)

/-- nodes/standard.py: what the node function of each class computes from `(obj, other)`;
`true` = `obj` is the first argument of the operation -/
def clsSem : String → Option Sem
  | "GetAttr" => some (.getattr, true)        -- getattr(obj, name)
  | "GetItem" => some (.getitem, true)        -- obj[item]
  | "LessThan" => some (.lt, true) | "LessThanEquals" => some (.le, true)
  | "Equals" => some (.eq, true) | "NotEquals" => some (.ne, true)
  | "GreaterThan" => some (.gt, true) | "GreaterThanEquals" => some (.ge, true)
  | "Bool" => some (.truth, true) | "Length" => some (.len, true)
  | "Contains" => some (.contains, true)      -- other in obj
  | "Add" => some (.add, true) | "Subtract" => some (.sub, true) | "Multiply" => some (.mul, true)
  | "RightMultiply" => some (.mul, false)     -- other * obj
  | "MatrixMultiply" => some (.matmul, true) | "Divide" => some (.truediv, true)
  | "FloorDivide" => some (.floordiv, true) | "Modulo" => some (.mod, true) | "Power" => some (.pow, true)
  | "And" => some (.and_, true) | "XOr" => some (.xor, true) | "Or" => some (.or_, true)
  | "Negative" => some (.neg, true) | "Positive" => some (.pos, true) | "Absolute" => some (.abs, true)
  | "Invert" => some (.inv, true) | "Int" => some (.int, true) | "Float" => some (.float, true)
  | "Round" => some (.round, true)
  | _ => none

/-- the label of the single output of each class (`@as_function_node("add")` …) -/
def outLabel : String → String
  | "GetAttr" => "getattr" | "GetItem" => "getitem" | "LessThan" => "lt" | "LessThanEquals" => "le"
  | "Equals" => "eq" | "NotEquals" => "neq" | "GreaterThan" => "gt" | "GreaterThanEquals" => "ge"
  | "Bool" => "bool" | "Length" => "len" | "Contains" => "in" | "Add" => "add" | "Subtract" => "sub"
  | "Multiply" => "mul" | "RightMultiply" => "rmul" | "MatrixMultiply" => "matmul" | "Divide" => "truediv"
  | "FloorDivide" => "floordiv" | "Modulo" => "mod" | "Power" => "pow" | "And" => "and" | "XOr" => "xor"
  | "Or" => "or" | "Negative" => "neg" | "Positive" => "pos" | "Absolute" => "abs" | "Invert" => "invert"
  | "Int" => "int" | "Float" => "float" | "Round" => "round" | "Slice" => "slice"
  | _ => "?"

/-- the input channels of each class, in positional order (the `*args` of `_node_injection` land on them in
this order, after the owner itself when `inject_self`) -/
def clsInputs : String → List String
  | "GetAttr" => ["obj", "name"] | "GetItem" => ["obj", "item"]
  | "Bool" => ["obj"] | "Length" => ["obj"] | "Negative" => ["obj"] | "Positive" => ["obj"]
  | "Absolute" => ["obj"] | "Invert" => ["obj"] | "Int" => ["obj"] | "Float" => ["obj"] | "Round" => ["obj"]
  | "Slice" => ["start", "stop", "step"]
  | c => if (clsSem c).isSome then ["obj", "other"] else []

/-- how many operands the user writes next to the owner -/
def arity : Dunder → Nat
  | .bool | .len | .neg | .pos | .abs | .invert | .int | .float | .round => 0
  | _ => 1

/-! ## values

Python's own semantics of the operations is a *parameter*: `ap op [v₁, …]` is whatever Python computes
(a value or a raised exception, `R` is arbitrary) for the operation `op` on the values in that order. -/

structure Py (V R : Type) where
  ap : PyOp → List V → R

/-- what the expression the user wrote means in Python on the underlying values:
`x + o` ↦ `add [x, o]`, `o * x` (reflected) ↦ `mul [o, x]`, `x.contains(o)` ↦ `contains [x, o]` (= `o in x`) … -/
def exprValue {V R} (py : Py V R) (d : Dunder) (self : V) (args : List V) : R :=
  match meaning d with
  | (op, true) => py.ap op (self :: args)
  | (op, false) => py.ap op (args ++ [self])

/-- `node_args = (self, *args) if inject_self else args` -/
def nodeArgs {V} (injectSelf : Bool) (self : V) (args : List V) : List V :=
  if injectSelf then self :: args else args

/-- what the node function of class `cls` (nodes/standard.py) returns on its inputs in channel order
(`obj` first) -/
def nodeFn {V R} (py : Py V R) (cls : String) (inputs : List V) : Option R :=
  match clsSem cls, inputs with
  | some (op, true), xs => some (py.ap op xs)
  | some (op, false), obj :: rest => some (py.ap op (rest ++ [obj]))
  | _, _ => none

/-! ## the `Slice` node -/

/-- the function of the `Slice` node -/
inductive SliceFn where
  /-- as in /repo now: refuses `x[a:]`, `x[:b:c]`, `x[::c]` with a ValueError -/
  | strict
  /-- repaired: `slice(start, stop, step)` -/
  | python
  deriving DecidableEq, Repr

/-- the components as far as the node function looks at them: `none` = the value is Python's `None`.
Result: the arguments `slice` is built from (`slice(stop)` is `slice(None, stop, None)`), or the ValueError -/
def sliceNode {V} (f : SliceFn) (start stop step : Option V) : Except String (Option V × Option V × Option V) :=
  match f with
  | .python => .ok (start, stop, step)
  | .strict =>
    match start, stop, step with
    | none, none, _ => .error "ValueError"
    | none, some _, some _ => .error "ValueError"
    | none, some b, none => .ok (none, some b, none)
    | some _, none, _ => .error "ValueError"
    | some a, some b, c => .ok (some a, some b, c)

def noneFlag (isNone : Bool) : Option Unit := if isNone then none else some ()

/-- the state of one slice component when the new `Slice` node auto-runs -/
inductive Comp where
  /-- the operand's value is `None` -/
  | isNone
  /-- any other value -/
  | val
  /-- a channel that holds no data yet (`NOT_DATA`) -/
  | noData
  deriving DecidableEq, Repr

/-- what the node sees (`InputData.fetch` keeps the input's own default when the connected output holds no
data; the defaults are `start=None, stop=NOT_DATA, step=None`): (ready, start is None, stop is None, step is None).
So only a data-less `stop` keeps the node from running. -/
def sliceView (a b c : Comp) : Bool × Bool × Bool × Bool :=
  (b != .noData, a != .val, b == .isNone, c != .val)

/-- does the freshly made `Slice` node raise out of its constructor (`autorun=True`)?  Only when it runs,
i.e. when it is ready: all three inputs hold data -/
def sliceRaises (f : SliceFn) (ready : Bool) (sN bN cN : Bool) : Bool :=
  ready && !(sliceNode f (noneFlag sN) (noneFlag bN) (noneFlag cN)).isOk

/-- `_node_injection` when the constructor of the new node raises (its auto-run failed, `raised`): `Node.__init__`
takes the half-built node out of the parent again and the exception leaves the expression — only the node id is
used up.  A node that is found is not constructed, so nothing can raise. -/
def injectX (L : Expr → String) (st : St) (parent : Option Nat) (e : Expr) (raised : Bool) : St × Nat :=
  let r := injectL L st parent e
  if raised && r.2 == st.next then ({ st with next := st.next + 1 }, st.next) else r

/-- `x[a:b:c]` with a channel-like component, as executed: when the new `Slice` node raises while auto-running,
the exception leaves `__getitem__` before `GetItem` is injected (and the `Slice` node is not kept as a child) -/
def getitemSliceRun (H : Key → String) (p : Printer) (f : SliceFn) (st : St) (parent : Option Nat) (owner : Nat)
    (slabel : String) (start stop step : Operand) (chanOf : Nat → Nat) (ready : Bool) (sN bN cN : Bool) :
    St × Nat × Option Nat :=
  let es : Expr := { owner := owner, slabel := slabel, cls := "Slice", ops := [start, stop, step] }
  let r1 := inject H p st parent es
  if r1.2 == st.next && sliceRaises f ready sN bN cN then ({ st with next := st.next + 1 }, st.next, none)
  else
    let item := Operand.chan (chanOf r1.2) (label H p es ++ "__slice")
    let r2 := inject H p r1.1 parent { owner := owner, slabel := slabel, cls := "GetItem", ops := [item] }
    (r2.1, r1.2, some r2.2)

/-- the same when the new `GetItem` node may raise while auto-running (`gRaised`, e.g. the owner's value cannot be
sliced): the `Slice` node stays, the `GetItem` node is not kept -/
def getitemSliceX (H : Key → String) (p : Printer) (f : SliceFn) (st : St) (parent : Option Nat) (owner : Nat)
    (slabel : String) (start stop step : Operand) (chanOf : Nat → Nat) (ready : Bool) (sN bN cN : Bool)
    (gRaised : Bool) (sliceOwner : Nat × String := (owner, slabel)) : St × Nat × Option Nat :=
  -- `sliceOwner`: what of the sliced channel enters the key of the helper node.  In /repo its scoped label does
  -- (although the helper is not wired to it); a lookup by wiring cannot and does not tell the owners apart
  let es : Expr := { owner := sliceOwner.1, slabel := sliceOwner.2, cls := "Slice", ops := [start, stop, step] }
  let r1 := inject H p st parent es
  if r1.2 == st.next && sliceRaises f ready sN bN cN then ({ st with next := st.next + 1 }, st.next, none)
  else
    let item := Operand.chan (chanOf r1.2) (label H p es ++ "__slice")
    let r2 := injectX (label H p) r1.1 parent { owner := owner, slabel := slabel, cls := "GetItem", ops := [item] }
      gRaised
    (r2.1, r1.2, some r2.2)

/-- the value of `x[a:b:c]` as the two injected nodes compute it: `GetItem(obj = x, item = Slice(a, b, c))`.
`mk` is Python's `slice(·, ·, ·)` on values (a parameter); a `none` component is the value `None` -/
def sliceExprValue {V R} (py : Py V R) (mk : Option V → Option V → Option V → V) (f : SliceFn)
    (x : V) (a b c : Option V) : Except String (Option R) :=
  match sliceNode f a b c with
  | .error e => .error e
  | .ok (a', b', c') => .ok (nodeFn py "GetItem" [x, mk a' b' c'])

/-! ## worlds: names and ownership can be edited between writing and re-writing an expression -/

/-- an operand as the user holds it: a channel (an object, identified by an id) or a raw value -/
inductive Operand0 where
  | chan (id : Nat)
  | raw (tag : String) (str : String) (repr : String)
  deriving DecidableEq, Repr

/-- an expression as the user writes it: on a channel object, an operator, operand objects -/
structure Expr0 where
  owner : Nat
  cls : String
  ops : List Operand0
  deriving DecidableEq, Repr

/-- what an edit can change -/
structure World where
  /-- the lexical path of the expression's parent: the labels of everything ABOVE the expression (ancestors) -/
  path : String
  /-- the scoped label (`<node label>__<channel label>`) of every channel -/
  name : Nat → String

def Expr0.chans (e : Expr0) : List Nat :=
  e.owner :: e.ops.filterMap fun | .chan i => some i | .raw _ _ _ => none

/-- the expression with the names the world currently gives to its channels -/
def render (w : World) (e : Expr0) : Expr :=
  { owner := e.owner, slabel := w.name e.owner, cls := e.cls,
    ops := e.ops.map fun | .chan i => Operand.chan i (w.name i) | .raw t s r => Operand.raw t s r }

/-- the label in /repo: scoped labels of the channels, class name, operand keys -/
def labelScoped (H : Key → String) (w : World) (e : Expr0) : String := label H .repaired (render w e)

/-- keyed on the FULL lexical path of the channels instead (`/wf/m/a.user_input`) -/
def labelFull (H : Key → String) (w : World) (e : Expr0) : String :=
  label H .repaired (render { w with name := fun i => w.path ++ "/" ++ w.name i } e)

/-- keyed on the channel objects themselves (what finding the node by its wiring amounts to) -/
def labelIdent (H : Key → String) (_w : World) (e : Expr0) : String :=
  label H .repaired (render { path := "", name := fun i => "#" ++ toString i } e)

/-- a history in one parent: expressions are written, the world is edited -/
inductive Step (α W : Type) where
  | write (e : α)
  | edit (f : W → W)

def runSteps {α W : Type} (L : W → α → String) (par : Nat) : W → St → List (Step α W) → W × St
  | w, st, [] => (w, st)
  | w, st, .write e :: r => runSteps L par w (injectL (L w) st (some par) e).1 r
  | w, st, .edit f :: r => runSteps L par (f w) st r

/-- every edit of the history leaves the label of `e` as it is -/
def Fixes {α W : Type} (L : W → α → String) (e : α) : W → List (Step α W) → Prop
  | _, [] => True
  | w, .write _ :: r => Fixes L e w r
  | w, .edit f :: r => L (f w) e = L w e ∧ Fixes L e (f w) r

/-- every edit of the history is of an allowed kind -/
def EditsIn {α W : Type} (ok : (W → W) → Prop) : List (Step α W) → Prop
  | [] => True
  | .write _ :: r => EditsIn ok r
  | .edit f :: r => ok f ∧ EditsIn ok r

/-! ## who the operator is applied to: channels, function nodes, single-output composites -/

/-- the kinds of objects an operator can be written on -/
inductive OwnerKind where
  | channel      -- an output channel
  | funcNode     -- a single-output node that is no composite (function node, transformer …)
  | composite    -- a single-output COMPOSITE (a macro)
  deriving DecidableEq, Repr

/-- where `owner <op> …` is answered, by the method resolution order of the classes:
`some d'` = handed over to the channel's operator `d'`, `none` = taken for child access (`LexicalParent.__getattr__`,
`Composite.__getitem__` come before `ExploitsSingleOutput` for composites).  `repaired` = the macro asks its
children first and hands everything else to its output. -/
def delegate (repaired : Bool) (k : OwnerKind) (d : Dunder) : Option Dunder :=
  match k, d with
  | .composite, .getattr => if repaired then some .getattr else none
  | .composite, .getitem => if repaired then some .getitem else none
  | _, d => some d

/-! ## arguments of a macro used inside its graph creator -/

/-- how `Macro._purge_single_use_ui_nodes` decides that the node standing for an argument is used once -/
inductive PurgeRule where
  | byConnections   -- /repo: the node's channel has at most one connection
  | byConsumers     -- at most one distinct consumer NODE
  deriving DecidableEq, Repr

/-- `cs` = the inputs (consumer node, input index) the argument's stand-in node is connected to, in order.
Result: the inputs that still receive the argument afterwards.  A "single-use" stand-in is removed and the macro
input is value-linked straight to `connections[0]` (the other connections die with the node); otherwise the
stand-in stays and feeds them all. -/
def purgeFed (r : PurgeRule) (cs : List (Nat × Nat)) : List (Nat × Nat) :=
  let single : Bool := match r with
    | .byConnections => cs.length ≤ 1
    | .byConsumers => (cs.map (·.1)).eraseDups.length ≤ 1
  if single then cs.take 1 else cs

end PwVerif.Inject
