import PwVerif.Model.WfIO
/-!
# Map objects with identity (C15, aliasing)

`Model/WfIO.lean` keeps the two stored maps as components of the world, so "the setter stores a
fresh copy" holds there by construction.  Here map objects live in a HEAP and everybody — the
workflow under study, a second workflow, the user — only holds REFERENCES:

* the setter (`Workflow.inputs_map = obj`, `_sanitize_map`): a plain `dict` argument is cleaned IN
  PLACE (`_deduplicate_nones(new_map)`: the caller's object changes, and stays changed when the
  `bidict(...)` that follows raises), a `bidict` argument is not touched; in both cases
  `bidict(new_map)` allocates a NEW object and that is what gets stored;
* the getter cleans the stored object in place and hands out the stored reference itself;
* an edit goes to whatever object the reference names (`dict` semantics for a plain dict,
  `bidict` semantics otherwise);
* a pickle round trip (`__getstate__` / `__setstate__`: the two map attributes travel as ordinary
  instance attributes) gives the workflow fresh copies; the old objects stay with whoever held them.
-/
namespace PwVerif.WfIO
open PwVerif

structure MObj where
  bidict : Bool
  items : KeyMap
  deriving Repr

/-- who stores a reference: the workflow under study and a second workflow -/
inductive Slot | wfIn | wfOut | otherIn | otherOut
  deriving DecidableEq, Repr

def Slot.ofSide : Side → Slot
  | .inputs => .wfIn
  | .outputs => .wfOut

structure HS where
  /-- children, connection graph, values of the workflow under study (its `imap`/`omap` are unused) -/
  base : W
  heap : List MObj
  slot : Slot → Option Nat

def HS.obj (h : HS) (r : Nat) : Option MObj := h.heap[r]?

def HS.deref (h : HS) (s : Slot) : Option KeyMap := (h.slot s).bind fun r => (h.obj r).map (·.items)

/-- the world of `Model/WfIO.lean` that the heap state stands for -/
def HS.world (h : HS) : W := { h.base with imap := h.deref .wfIn, omap := h.deref .wfOut }

def updSlot (f : Slot → Option Nat) (s : Slot) (v : Option Nat) : Slot → Option Nat :=
  fun x => if x = s then v else f x

/-- `_deduplicate_nones` on a plain `dict`: item assignment never fails there -/
def cleanDict (m : KeyMap) : KeyMap :=
  m.map fun e => (e.1, match e.2 with | .rawNone => Target.disabled e.1 | t => t)

/-- `d[k] = t` on a plain dict -/
def dput (m : KeyMap) (k : String) (t : Target) : KeyMap :=
  if (m.lookup k).isSome then setAt m k t else m ++ [(k, t)]

def dputAll : KeyMap → List (String × Target) → KeyMap
  | m, [] => m
  | m, kv :: rest => dputAll (dput m kv.1 kv.2) rest

/-- an in-place edit of a plain `dict` (no uniqueness of values, no `inverse`, no `forceput`) -/
def editDict (m : KeyMap) : Edit → KeyMap × Res
  | .put k v => (dput m k (.ofUser v), .ok)
  | .del k => if (m.lookup k).isSome then (eraseKey m k, .ok) else (m, .keyErr)
  | .pop k => if (m.lookup k).isSome then (eraseKey m k, .ok) else (m, .keyErr)
  | .popd k => (eraseKey m k, .ok)
  | .update kvs => (dputAll m (kvs.map fun kv => (kv.1, Target.ofUser kv.2)), .ok)
  | .force _ _ => (m, .refused)
  | .invPut _ _ => (m, .refused)
  | .invDel _ => (m, .refused)
  | .clear => ([], .ok)
  | .popitem => if m.isEmpty then (m, .keyErr) else (m.dropLast, .ok)
  | .setdefault k v => if (m.lookup k).isSome then (m, .ok) else (dput m k (.ofUser v), .ok)

def editObj (o : MObj) (e : Edit) : MObj × Res :=
  let r := if o.bidict then editMap o.items e else editDict o.items e
  ({ o with items := r.1 }, r.2)

/-- the user builds a `dict` / `bidict` (the latter refuses equal values itself) -/
def hnew (h : HS) (bidict : Bool) (m : UserMap) : HS × Res :=
  let items := m.map fun kv => (kv.1, Target.ofUser kv.2)
  if bidict && !bidictOk items then (h, .dupErr)
  else ({ h with heap := h.heap ++ [⟨bidict, items⟩] }, .ok)

/-- the setter given the object `r` (or `None`) -/
def hassign (h : HS) (s : Slot) (r : Option Nat) : HS × Res :=
  match r with
  | none => ({ h with slot := updSlot h.slot s none }, .ok)
  | some r =>
    match h.obj r with
    | none => (h, .refused)
    | some o =>
      -- `if isinstance(new_map, dict): self._deduplicate_nones(new_map)` — in place
      let items := if o.bidict then o.items else cleanDict o.items
      let heap1 := if o.bidict then h.heap else h.heap.set r { o with items := items }
      -- `new_map = bidict(new_map)` — a new object, or `ValueDuplicationError` before the attribute is written
      if bidictOk items then
        ({ h with heap := heap1 ++ [⟨true, items⟩], slot := updSlot h.slot s (some heap1.length) }, .ok)
      else ({ h with heap := heap1 }, .dupErr)

/-- the getter: cleans the stored object in place (its exception escapes) and returns the stored reference -/
def hget (h : HS) (s : Slot) : HS × Res :=
  match h.slot s with
  | none => (h, .ok)
  | some r =>
    match h.obj r with
    | none => (h, .refused)
    | some o =>
      let n := normalize o.items
      ({ h with heap := h.heap.set r { o with items := n.1 } }, n.2)

/-- an edit of the object behind a reference, whoever else holds it -/
def hedit (h : HS) (r : Nat) (e : Edit) : HS × Res :=
  match h.obj r with
  | none => (h, .refused)
  | some o => let x := editObj o e; ({ h with heap := h.heap.set r x.1 }, x.2)

def copySlot (h : HS) (s : Slot) : HS :=
  match h.deref s with
  | none => h
  | some m => { h with heap := h.heap ++ [⟨true, m⟩], slot := updSlot h.slot s (some h.heap.length) }

/-- `Composite.__getstate__` stores the connections among the composite's OWN children only (by
label); the unpickled copy has new children whose links to nodes outside are gone, and the nodes
outside keep pointing at the OLD children, which still exist but are no children of the copy.
The copy's children take over the channel ids; an old child's channel `c` lives on as `ghost c`. -/
def ghost (c : Nat) : Nat := c + 1000000

def cutOutside (w : W) : W :=
  let own : Nat → Bool := fun c => (w.children.flatMap Child.ids).contains c
  let conns : Nat → List Nat := fun c =>
    if own c then (w.g.conns c).filter own else (w.g.conns c).map fun x => if own x then ghost x else x
  { w with g := { w.g with conns := conns } }

/-- pickle round trip of the workflow under study: both map attributes come back as equal, new
objects; children, values and the links among the children survive, links to the outside do not -/
def hreload (h : HS) : HS :=
  let h' := copySlot (copySlot h .wfIn) .wfOut
  { h' with base := cutOutside h'.base }

def Op.isMapOp : Op → Bool
  | .setMap _ _ => true
  | .setMapB _ _ => true
  | .read _ => true
  | .edit _ _ => true
  | _ => false

inductive HOp
  | new (bidict : Bool) (m : UserMap)
  | assign (s : Slot) (r : Option Nat)
  | get (s : Slot)
  | edit (r : Nat) (e : Edit)
  | reload
  /-- any operation of `Model/WfIO.lean` that does not touch the maps, run on the world -/
  | base (op : Op)
  deriving Repr

def hstep (h : HS) : HOp → HS × Res
  | .new b m => hnew h b m
  | .assign s r => hassign h s r
  | .get s => hget h s
  | .edit r e => hedit h r e
  | .reload => (hreload h, .ok)
  | .base op =>
    if op.isMapOp then (h, .refused)
    else let r := step h.world op; ({ h with base := r.1 }, r.2)

def hrun (h : HS) (ops : List HOp) : HS := ops.foldl (fun h o => (hstep h o).1) h

def hempty (admits : Nat → Val → Bool) (valid : Nat → Nat → Bool) : HS :=
  { base := empty admits valid, heap := [], slot := fun _ => none }

end PwVerif.WfIO
