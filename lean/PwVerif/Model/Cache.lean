/-!
# Input caching of a node (transcription of `Node._before_run` cache logic + run cycle outcomes)

One node, deterministic function `F` (uninterpreted: the output after a successful run on input `v`
is recorded as `some v`, standing for `F v`).  Input `0` stands for NOT_DATA (not ready).
The same history is applied to a node with `useCache = true` and to its twin with `false`.
-/
namespace PwVerif.Cache

structure Cfg where
  /-- cache written after the readiness gate (pinned code: before it) -/
  writeAfterGate : Bool
  /-- a failed run clears the cache (pinned: keeps it) -/
  clearOnFail : Bool
  /-- a hit is only taken when the node is not running and the run would not be refused -/
  guardHit : Bool
  deriving Repr, DecidableEq

def Cfg.pinned : Cfg := { writeAfterGate := false, clearOnFail := false, guardHit := false }
def Cfg.repaired : Cfg := { writeAfterGate := true, clearOnFail := true, guardHit := true }

structure N where
  inp : Nat
  out : Option Nat
  running : Bool
  failed : Bool
  cached : Option Nat
  job : Option Nat                 -- in-flight executor job: the input it was submitted with
  deriving Repr, DecidableEq

def N.init : N := { inp := 0, out := none, running := false, failed := false, cached := none, job := none }

inductive Op
  | set (v : Nat)                  -- assign the input
  | run                            -- run locally
  | submit                         -- run on an executor
  | complete                       -- the executor job finishes (callback)
  | clearFailed                    -- `node.failed = False`
  deriving Repr, DecidableEq

inductive R
  | ret (o : Option Nat)           -- returned outputs
  | future | readiness | raised | locked | unit
  deriving Repr, DecidableEq

def N.ready (n : N) : Bool := !n.running && !n.failed && n.inp != 0

/-- `bad v`: the (deterministic) function raises on input `v` -/
def runLike (cfg : Cfg) (bad : Nat → Bool) (useCache : Bool) (n : N) (onExec : Bool) : N × R :=
  let hit := useCache && n.cached == some n.inp && (!cfg.guardHit || (!n.running && n.ready))
  if hit then (n, .ret n.out)
  else
    let n1 := if useCache && !cfg.writeAfterGate then { n with cached := some n.inp } else n
    if !n.ready then (n1, .readiness)
    else
      let n2 := if useCache && cfg.writeAfterGate then { n1 with cached := some n.inp } else n1
      if onExec then ({ n2 with running := true, job := some n.inp }, .future)
      else if bad n.inp then
        ({ n2 with failed := true, cached := if cfg.clearOnFail then none else n2.cached }, .raised)
      else ({ n2 with out := some n.inp }, .ret (some n.inp))

def step (cfg : Cfg) (bad : Nat → Bool) (useCache : Bool) (n : N) : Op → N × R
  | .set v => if n.running then (n, .locked) else ({ n with inp := v }, .unit)
  | .run => runLike cfg bad useCache n false
  | .submit => runLike cfg bad useCache n true
  | .complete =>
    match n.job with
    | none => (n, .unit)
    | some v =>
      if bad v then
        ({ n with running := false, failed := true, job := none,
                  cached := if cfg.clearOnFail then none else n.cached }, .unit)
      else ({ n with running := false, out := some v, job := none }, .unit)
  | .clearFailed => ({ n with failed := false }, .unit)

/-- apply a history, collecting what every operation returned -/
def runOps (cfg : Cfg) (bad : Nat → Bool) (useCache : Bool) (n : N) : List Op → N × List R
  | [] => (n, [])
  | o :: os =>
    let (n1, r) := step cfg bad useCache n o
    let (n2, rs) := runOps cfg bad useCache n1 os
    (n2, r :: rs)

/-- what a user can see of a node -/
def N.visible (n : N) : Nat × Option Nat × Bool × Bool := (n.inp, n.out, n.running, n.failed)

end PwVerif.Cache
