/-!
# Input caching of a node (transcription of `Node._before_run` cache logic + run cycle outcomes)

One node, deterministic function `F` (uninterpreted: the output after a successful run on input `v`
is recorded as `some v`, standing for `F v`).  Input `0` stands for NOT_DATA (not ready).
The same history is applied to a node with `useCache = true` and to its twin with `false`.

What the function does on an input is an `Outcome` (deterministic, `beh : Nat → Outcome`):
returns, raises an `Exception`, raises `KeyboardInterrupt`, raises some other `BaseException`, or
returns a value that `process_run_result` refuses (an exception in the done-callback path).
`Runnable._run` (local) catches `(Exception, KeyboardInterrupt)`; `Runnable._finish_run` (local tail
and future callback) catches `Exception` only — transcribed branch by branch below.

Executor jobs are a queue (oldest first) of the inputs they were submitted with: a job can complete,
be cancelled before it starts (`executor.shutdown(cancel_futures=True)` / `future.cancel()` — the
done-callback sees `CancelledError`, an `Exception`), or be lost (`drop`: the executor forgets it,
the future never resolves), after which the user resets the node by hand (`resetRunning`:
`node.running = False`); a lost-and-reset job may still complete late.
-/
namespace PwVerif.Cache

structure Cfg where
  /-- cache written after the readiness gate (pinned code: before it) -/
  writeAfterGate : Bool
  /-- a failed run clears the cache (pinned: keeps it) -/
  clearOnFail : Bool
  /-- a hit is only taken when the node is not running and the run would not be refused -/
  guardHit : Bool
  /-- proposed: an admitted run drops the cache, and the inputs it was admitted with are recorded only
  when the result of THAT run has been processed (current tree: recorded at admission) -/
  commitOnSuccess : Bool
  /-- `_finish_run` catches `(Exception, KeyboardInterrupt)` like `_run` does (f3b0474; before: `Exception` only) -/
  catchKbdInCallback : Bool
  /-- `_run` and `_finish_run` catch every `BaseException` (9a3aae7; before: `(Exception, KeyboardInterrupt)` at most) -/
  catchAllBase : Bool
  deriving Repr, DecidableEq

def Cfg.pinned : Cfg :=
  { writeAfterGate := false, clearOnFail := false, guardHit := false, commitOnSuccess := false,
    catchKbdInCallback := false, catchAllBase := false }
/-- /repo after fix 0699958 and before b54ba0f (the tree the findings KF-C05-3/4/5 were made on) -/
def Cfg.repaired : Cfg :=
  { writeAfterGate := true, clearOnFail := true, guardHit := true, commitOnSuccess := false,
    catchKbdInCallback := false, catchAllBase := false }
/-- the cache records a processed result (b54ba0f); `kbd`: the done-callback treats KeyboardInterrupt as a failure
(f3b0474); `all`: every BaseException ending the function fails the run, locally and in the callback (9a3aae7) -/
def Cfg.commit (kbd all : Bool) : Cfg :=
  { writeAfterGate := true, clearOnFail := true, guardHit := true, commitOnSuccess := true,
    catchKbdInCallback := kbd, catchAllBase := all }
/-- /repo after b54ba0f, before f3b0474 -/
def Cfg.proposed : Cfg := Cfg.commit false false
/-- /repo after f3b0474, before 9a3aae7 -/
def Cfg.kbdOnly : Cfg := Cfg.commit true false
/-- /repo as it is now (b54ba0f + f3b0474 + 9a3aae7) -/
def Cfg.now : Cfg := Cfg.commit true true

inductive Outcome
  | ok        -- returns a value
  | exc       -- raises an `Exception`
  | kbd       -- raises `KeyboardInterrupt`
  | fatal     -- raises another `BaseException` (SystemExit, …)
  | procbad   -- returns a value that `process_run_result` rejects (typed output channel)
  deriving Repr, DecidableEq

structure N where
  inp : Nat
  out : Option Nat
  running : Bool
  failed : Bool
  cached : Option Nat
  jobs : List Nat                  -- outstanding executor jobs, oldest first: the input each was submitted with
  deriving Repr, DecidableEq

def N.init : N := { inp := 0, out := none, running := false, failed := false, cached := none, jobs := [] }

inductive Op
  | set (v : Nat)                  -- assign the input
  | run                            -- run locally
  | submit                         -- run on an executor
  | complete                       -- the oldest executor job finishes (callback)
  | clearFailed                    -- `node.failed = False`
  | cancel                         -- every queued job is cancelled before it starts
  | drop                           -- the executor loses the oldest job (its future never resolves)
  | resetRunning                   -- `node.running = False` (manual reset after a lost job / a reload)
  deriving Repr, DecidableEq

inductive R
  | ret (o : Option Nat)           -- returned outputs
  | future | readiness | raised | interrupted | fatal | procraised | locked | unit
  | escaped                        -- a `BaseException` left the done-callback
  deriving Repr, DecidableEq

def N.ready (n : N) : Bool := !n.running && !n.failed && n.inp != 0

/-- `Runnable._run_exception` + `Node._run_exception` -/
def N.fail (cfg : Cfg) (n : N) : N :=
  { n with running := false, failed := true, cached := if cfg.clearOnFail then none else n.cached }

/-- a result has been processed for the run admitted with input `v` -/
def N.succeed (cfg : Cfg) (useCache : Bool) (n : N) (v : Nat) : N :=
  { n with running := false, out := some v,
           cached := if cfg.commitOnSuccess then (if useCache then some v else none) else n.cached }

def runLike (cfg : Cfg) (beh : Nat → Outcome) (useCache : Bool) (n : N) (onExec : Bool) : N × R :=
  let hit := useCache && n.cached == some n.inp && (!cfg.guardHit || (!n.running && n.ready))
  if hit then (n, .ret n.out)
  else
    let n1 := if useCache && !cfg.writeAfterGate && !cfg.commitOnSuccess then { n with cached := some n.inp } else n
    if !n.ready then (n1, .readiness)
    else
      let n2 :=
        if cfg.commitOnSuccess then { n1 with cached := none }
        else if useCache && cfg.writeAfterGate then { n1 with cached := some n.inp } else n1
      if onExec then ({ n2 with running := true, jobs := n2.jobs ++ [n.inp] }, .future)
      else
        match beh n.inp with
        | .ok => (N.succeed cfg useCache n2 n.inp, .ret (some n.inp))
        | .exc => (N.fail cfg n2, .raised)
        | .kbd => (N.fail cfg n2, .interrupted)
        | .fatal =>
          if cfg.catchAllBase then (N.fail cfg n2, .fatal)      -- caught, processed as a failure, re-raised
          else ({ n2 with running := true }, .fatal)            -- not caught: no status change after `running = True`
        | .procbad => (N.fail cfg n2, .procraised)

def step (cfg : Cfg) (beh : Nat → Outcome) (useCache : Bool) (n : N) : Op → N × R
  | .set v => if n.running then (n, .locked) else ({ n with inp := v }, .unit)
  | .run => runLike cfg beh useCache n false
  | .submit => runLike cfg beh useCache n true
  | .complete =>
    match n.jobs with
    | [] => (n, .unit)
    | v :: js =>
      let n1 := { n with jobs := js }
      match beh v with
      | .ok => (N.succeed cfg useCache n1 v, .unit)
      | .exc => (N.fail cfg n1, .unit)                           -- re-raised inside the callback, swallowed by the future
      | .procbad => (N.fail cfg n1, .unit)
      | .kbd =>                                                   -- re-raised either way: it leaves the callback
        if cfg.catchKbdInCallback || cfg.catchAllBase then (N.fail cfg n1, .escaped)
        else ({ n1 with running := false }, .escaped)             -- `except Exception` does not see it
      | .fatal =>
        if cfg.catchAllBase then (N.fail cfg n1, .escaped)
        else ({ n1 with running := false }, .escaped)
  | .clearFailed => ({ n with failed := false }, .unit)
  | .cancel =>
    match n.jobs with
    | [] => (n, .unit)
    | _ :: _ => (N.fail cfg { n with jobs := [] }, .unit)        -- CancelledError is an Exception
  | .drop => ({ n with jobs := n.jobs.tail }, .unit)
  | .resetRunning => ({ n with running := false }, .unit)

/-- apply a history, collecting what every operation returned -/
def runOps (cfg : Cfg) (beh : Nat → Outcome) (useCache : Bool) (n : N) : List Op → N × List R
  | [] => (n, [])
  | o :: os =>
    let (n1, r) := step cfg beh useCache n o
    let (n2, rs) := runOps cfg beh useCache n1 os
    (n2, r :: rs)

/-- what a user can see of a node -/
def N.visible (n : N) : Nat × Option Nat × Bool × Bool := (n.inp, n.out, n.running, n.failed)

end PwVerif.Cache
