/-!
# Storage model (property C19)

Transcription of `pyiron_workflow/storage.py` (`StorageInterface.save/load/delete`,
`PickleStorage._save/_load/_delete/_has_saved_content`) and of the storage entry points of
`pyiron_workflow/node.py` (`Node.save/load/delete_storage`, auto-load in `_after_node_setup`).

The file system of ONE graph is: does the graph directory exist + four file slots
(`<name>.pckl`, `<name>.cpckl` and the two temporary names used only by the repaired variant).
A file is `absent | empty | torn (= partially written) | good cls ver` (`cls` = class of the pickled node, `ver` =
version of the node state it holds).  A save is the exact list of file-system steps the code
performs; a crash is a prefix of that list (no exception handler, no `finally`).

A class (`Cls`) is what `Node.load` can tell apart: the identity of the class object, its
`(__module__, __qualname__)` and the identities of its ancestors; `classify` names how a loading
class is related to the saved one (`ClassRel`).  `hasSaved` (= `_has_saved_content`) and the
auto-load decision of `Node._after_node_setup` are functions of the file-system state.

Core Lean only.
-/
namespace PwVerif.Storage

/-- a node class, as far as `Node.load` could tell two classes apart -/
structure Cls where
  id    : Nat          -- identity of the class object (`is`)
  name  : Nat          -- `(__module__, __qualname__)`
  bases : List Nat     -- identities of its proper ancestors (`__mro__[1:]`, node classes only)
  deriving DecidableEq, Repr

/-- how the class of the loading node is related to the class of the saved node -/
inductive ClassRel
  | same          -- the very same class object
  | sameName      -- another class object with the same module and qualified name (two classes made by one
                  -- factory function, a class defined again later / module executed again), no inheritance
  | diffName      -- unrelated class with another name
  | subclass      -- the loading class derives from the saved class
  | superclass    -- the saved class derives from the loading class
  deriving DecidableEq, Repr

def classify (saved loader : Cls) : ClassRel :=
  if loader.id = saved.id then .same
  else if loader.bases.contains saved.id then .subclass
  else if saved.bases.contains loader.id then .superclass
  else if loader.name = saved.name then .sameName
  else .diffName

/-- the class of the graph of the driver / the examples, and one loading class per relation -/
def Cls.graph : Cls := ⟨0, 0, [5]⟩

def Cls.ofRel : ClassRel → Cls
  | .same => Cls.graph
  | .sameName => ⟨1, 0, [5]⟩
  | .diffName => ⟨2, 1, []⟩
  | .subclass => ⟨3, 2, [0, 5]⟩
  | .superclass => ⟨5, 3, []⟩

/-- content of one file -/
inductive FileSt
  | absent
  | empty                      -- exists, 0 bytes  (just after `open(p, "wb")`)
  | torn                       -- a strict, non-empty prefix of a pickle stream
  | good (cls : Cls) (ver : Nat)   -- a complete pickle of a node of class `cls` in state `ver`
  deriving DecidableEq, Repr

inductive Slot | pckl | cpckl | pcklTmp | cpcklTmp
  deriving DecidableEq, Repr

/-- pinned code: `open(target, "wb")` truncates in place.  Repaired code: write `target.tmp`,
`os.replace` onto the target, then remove the other suffix's file. -/
inductive SaveMode | inPlace | atomicReplace
  deriving DecidableEq, Repr

/-- `sweep`: `StorageInterface.delete` reaches `_delete` when `_has_saved_content` OR an interrupted save left
something behind (`_has_leftovers`, repair `fixes/C19-delete-sweeps-leftovers` = commit `1e4658d`); before that it
reached it only when a final-name file existed. -/
structure Cfg where
  saveMode : SaveMode
  sweep    : Bool
  deriving DecidableEq, Repr

/-- the code before `afb726d` -/
def Cfg.pinned : Cfg := ⟨.inPlace, false⟩
/-- the code between `afb726d` and `1e4658d`: atomic save, but `delete` ignores leftovers -/
def Cfg.unswept : Cfg := ⟨.atomicReplace, false⟩
/-- the tree as it is now -/
def Cfg.current : Cfg := ⟨.atomicReplace, true⟩

structure FS where
  dir      : Bool
  pckl     : FileSt
  cpckl    : FileSt
  pcklTmp  : FileSt
  cpcklTmp : FileSt
  deriving DecidableEq, Repr

def FS.init : FS := ⟨false, .absent, .absent, .absent, .absent⟩

def FS.get (fs : FS) : Slot → FileSt
  | .pckl => fs.pckl | .cpckl => fs.cpckl | .pcklTmp => fs.pcklTmp | .cpcklTmp => fs.cpcklTmp

def FS.set (fs : FS) (s : Slot) (x : FileSt) : FS :=
  match s with
  | .pckl => { fs with pckl := x } | .cpckl => { fs with cpckl := x }
  | .pcklTmp => { fs with pcklTmp := x } | .cpcklTmp => { fs with cpcklTmp := x }

/-- `not any(dir.iterdir())` -/
def FS.noFiles (fs : FS) : Bool :=
  fs.pckl == .absent && fs.cpckl == .absent && fs.pcklTmp == .absent && fs.cpcklTmp == .absent

/-- can the node state be serialised: by `pickle`, only by `cloudpickle`, by neither -/
inductive Content
  | ok | pickleFails | bothFail
  -- a save asked for with the PER-CALL flag `cloudpickle_fallback=False` (the back end's default is True): only the
  -- `pickle` attack is made.  Plainly picklable content behaves as `ok`; these are the two ways it fails:
  | nfPickleFails      -- `pickle` cannot serialise the content (whatever cloudpickle could do): one failed attempt
  | nfNotImportable    -- the node is not import-ready: `TypeNotFoundError` before anything is opened
  deriving DecidableEq, Repr

/-- the save raises (no attack succeeds) -/
def Content.fails : Content → Bool
  | .bothFail => true
  | .nfPickleFails => true
  | .nfNotImportable => true
  | _ => false

/-- one file-system call -/
inductive Step
  | mkdir                              -- `filename.parent.mkdir(parents=True, exist_ok=True)`
  | open (s : Slot)                    -- `open(p, "wb")`: create or TRUNCATE
  | write (s : Slot)                   -- some, not all, bytes have reached the file
  | close (s : Slot) (cls : Cls) (ver : Nat)   -- all bytes written, file closed
  | unlink (s : Slot)                  -- `p.unlink(missing_ok=True)`
  | replace (src dst : Slot)           -- `os.replace(src, dst)` (atomic)
  | rmdirIfEmpty                       -- `if not any(parent.iterdir()): parent.rmdir()`
  deriving DecidableEq, Repr

def Step.apply (fs : FS) : Step → FS
  | .mkdir => { fs with dir := true }
  | .open s => fs.set s .empty
  | .write s => fs.set s .torn
  | .close s c v => fs.set s (.good c v)
  | .unlink s => fs.set s .absent
  | .replace a b => (fs.set b (fs.get a)).set a .absent
  | .rmdirIfEmpty => if fs.noFiles then { fs with dir := false } else fs

def runSteps (fs : FS) : List Step → FS
  | [] => fs
  | st :: r => runSteps (st.apply fs) r

/-- one iteration of the `for suffix, save_method in attacks` loop of `PickleStorage._save`:
`target` is the file of this suffix, `other` the file of the other suffix, `tmp` the temporary
name (repaired variant only), `succeeds` whether this pickler can serialise the content.
A failing dump raises before a single byte is written (the picklers buffer); the handler
unlinks what `open` created. -/
def attempt (m : SaveMode) (target other tmp : Slot) (succeeds : Bool) (cls : Cls) (ver : Nat) : List Step :=
  match m, succeeds with
  | .inPlace, true => [.open target, .write target, .close target cls ver]
  | .inPlace, false => [.open target, .unlink target]
  | .atomicReplace, true =>
      [.open tmp, .write tmp, .close tmp cls ver, .replace tmp target, .unlink other]
  | .atomicReplace, false => [.open tmp, .unlink tmp]

/-- the steps of `StorageInterface.save` up to (not including) its `finally` clause -/
def saveSteps (m : SaveMode) (c : Content) (cls : Cls) (ver : Nat) : List Step :=
  .mkdir ::
    match c with
    | .ok => attempt m .pckl .cpckl .pcklTmp true cls ver
    | .pickleFails =>
        attempt m .pckl .cpckl .pcklTmp false cls ver ++ attempt m .cpckl .pckl .cpcklTmp true cls ver
    | .bothFail =>
        attempt m .pckl .cpckl .pcklTmp false cls ver ++ attempt m .cpckl .pckl .cpcklTmp false cls ver
    | .nfPickleFails => attempt m .pckl .cpckl .pcklTmp false cls ver
    | .nfNotImportable => []

/-- a save that runs to its end (normally or by raising): all steps, then the `finally` -/
def saveFS (cfg : Cfg) (fs : FS) (c : Content) (cls : Cls) (ver : Nat) : FS :=
  runSteps fs (saveSteps cfg.saveMode c cls ver ++ [.rmdirIfEmpty])

/-- the process dies after `k` file-system calls of the save: nothing else happens -/
def crashFS (cfg : Cfg) (fs : FS) (c : Content) (cls : Cls) (ver k : Nat) : FS :=
  runSteps fs ((saveSteps cfg.saveMode c cls ver).take k)

inductive LoadRes
  | ok (cls : Cls) (ver : Nat)
  | notFound                 -- `FileNotFoundError`
  | corrupt                  -- the selected file is empty / truncated (`EOFError`, `UnpicklingError`)
  deriving DecidableEq, Repr

/-- `PickleStorage._load`: the first existing of `.pckl`, `.cpckl` is unpickled -/
def storageLoad (fs : FS) : LoadRes :=
  match fs.pckl with
  | .good c v => .ok c v
  | .empty => .corrupt
  | .torn => .corrupt
  | .absent =>
    match fs.cpckl with
    | .good c v => .ok c v
    | .empty => .corrupt
    | .torn => .corrupt
    | .absent => .notFound

/-- `PickleStorage._load` called with the per-call flag `cloudpickle_fallback = fb` -/
def storageLoadF (fb : Bool) (fs : FS) : LoadRes :=
  match fs.pckl with
  | .good c v => .ok c v
  | .empty => .corrupt
  | .torn => .corrupt
  | .absent => if fb then storageLoad { fs with pckl := .absent } else .notFound

/-- `PickleStorage._has_saved_content` called with the per-call flag -/
def hasSavedF (fb : Bool) (fs : FS) : Bool := fs.pckl != .absent || (fb && fs.cpckl != .absent)

/-- `PickleStorage._has_saved_content`: a file exists under one of the two FINAL names (whatever it holds);
temporaries do not count -/
def hasSaved (fs : FS) : Bool := fs.pckl != .absent || fs.cpckl != .absent

/-- the decision of `Node._after_node_setup`: `if backend.has_saved_content(self): self.load(...)` -/
def autoAttempt (fs : FS) : Bool := hasSaved fs

/-- `_load` would find a complete pickle -/
def loadable (fs : FS) : Bool :=
  match storageLoad fs with
  | .ok _ _ => true
  | _ => false

/-- something an interrupted save left behind exists (`PickleStorage._has_leftovers`) -/
def hasLeftover (fs : FS) : Bool := fs.pcklTmp != .absent || fs.cpcklTmp != .absent

/-- NOT the code: a `_has_saved_content` that also counts what an interrupted save left behind -/
def hasSavedOrLeftover (fs : FS) : Bool := hasSaved fs || hasLeftover fs

/-- `StorageInterface.delete` (+ `PickleStorage._delete`; the repaired variant also removes
left-over temporaries): `_delete` is only reached when `_has_saved_content` (with `cfg.sweep`: or a leftover) -/
def deleteSteps (m : SaveMode) : List Step :=
  match m with
  | .inPlace => [.unlink .pckl, .unlink .cpckl]
  | .atomicReplace => [.unlink .pckl, .unlink .pcklTmp, .unlink .cpckl, .unlink .cpcklTmp]

def deleteFS (cfg : Cfg) (fs : FS) : FS :=
  let fs1 := if hasSaved fs || (cfg.sweep && hasLeftover fs) then runSteps fs (deleteSteps cfg.saveMode) else fs
  if fs1.dir && fs1.noFiles then { fs1 with dir := false } else fs1

/-- the live node: its class and the version of the state it holds -/
structure NodeSt where
  cls : Cls
  ver : Nat
  deriving DecidableEq, Repr

inductive NodeLoadRes
  | loaded (ver : Nat)
  | notFound
  | corrupt
  | classMismatch            -- `TypeError`, raised before `__setstate__`
  deriving DecidableEq, Repr

/-- ways to compare the class of the loaded instance with the class of the loading node; the code is
`inst.__class__ != self.__class__` = identity of the class objects -/
inductive ClassCheck | identity | byName | isInstance
  deriving DecidableEq, Repr

def ClassCheck.accepts : ClassCheck → (saved loader : Cls) → Bool
  | .identity, s, l => s.id == l.id
  | .byName, s, l => s.name == l.name
  | .isInstance, s, l => s.id == l.id || s.bases.contains l.id

/-- `Node.load` with a given class check: storage load, class check, only then adopt the state -/
def nodeLoadBy (chk : ClassCheck) (n : NodeSt) (fs : FS) : NodeSt × NodeLoadRes :=
  match storageLoad fs with
  | .ok c v => if chk.accepts c n.cls then (⟨n.cls, v⟩, .loaded v) else (n, .classMismatch)
  | .notFound => (n, .notFound)
  | .corrupt => (n, .corrupt)

/-- `Node.load` as it is -/
def nodeLoad (n : NodeSt) (fs : FS) : NodeSt × NodeLoadRes := nodeLoadBy .identity n fs

/-- a COMPOSITE node (Workflow / Macro, or a node sitting inside one): its state, and whether the children it has and
the connections around it are still what they were -/
structure Comp where
  node     : NodeSt
  attached : Bool
  deriving DecidableEq, Repr

/-- `Node.load` on a composite.  After reading the file the code (1) checks the class, (2) PREPARES the in-place load:
releases the current children (`child._parent = None`, `child.disconnect()`) and remembers the connections to hand over,
(3) `__setstate__`.  `lateCheck = false` is the code; `lateCheck = true` (NOT the code) does the check after (2). -/
def compLoad (lateCheck : Bool) (c : Comp) (fs : FS) : Comp × NodeLoadRes :=
  match storageLoad fs with
  | .ok cl v =>
    if cl.id == c.node.cls.id then (⟨⟨c.node.cls, v⟩, true⟩, .loaded v)
    else (⟨c.node, c.attached && !lateCheck⟩, .classMismatch)
  | .notFound => (c, .notFound)
  | .corrupt => (c, .corrupt)

structure World where
  fs   : FS
  node : NodeSt
  deriving DecidableEq, Repr

def World.init (cls : Cls) : World := ⟨FS.init, ⟨cls, 0⟩⟩

inductive Op
  | save (c : Content) (ver : Nat)          -- set the node to version `ver`, `node.save()`
  | crash (c : Content) (ver k : Nat)       -- the same, the process dies after `k` steps; new process
  | load                                    -- `node.load()`
  | delete                                  -- `node.delete_storage()`
  | reopen                                  -- a new node object with auto-load (`Workflow(label)`)
  | loadForeign (cls : Cls) (ver : Nat)     -- another node, of class `cls`, in state `ver`, loads this file
  deriving DecidableEq, Repr

inductive Res
  | saved | saveRaised | crashed | deleted | fresh
  | load (r : NodeLoadRes)
  | foreign (n : NodeSt) (r : NodeLoadRes)
  deriving DecidableEq, Repr

def step (cfg : Cfg) (w : World) : Op → World × Res
  | .save c v =>
    ({ fs := saveFS cfg w.fs c w.node.cls v, node := ⟨w.node.cls, v⟩ },
      if c.fails then .saveRaised else .saved)
  | .crash c v k =>
    ({ fs := crashFS cfg w.fs c w.node.cls v k, node := ⟨w.node.cls, 0⟩ }, .crashed)
  | .load =>
    let (n, r) := nodeLoad w.node w.fs
    ({ w with node := n }, .load r)
  | .delete => ({ w with fs := deleteFS cfg w.fs }, .deleted)
  | .reopen =>
    let n0 : NodeSt := ⟨w.node.cls, 0⟩
    if autoAttempt w.fs then
      let (n, r) := nodeLoad n0 w.fs
      ({ w with node := n }, .load r)
    else ({ w with node := n0 }, .fresh)
  | .loadForeign c v =>
    let (n, r) := nodeLoad ⟨c, v⟩ w.fs
    (w, .foreign n r)

def run (cfg : Cfg) (w : World) : List Op → World
  | [] => w
  | op :: r => run cfg (step cfg w op).1 r

/-! ### Specification side ("ghost" bookkeeping over the history) -/

/-- what the history promises: the newest completed save since the last delete, and the
versions of interrupted saves (of serialisable content) after it -/
structure Promise where
  last     : Option Nat
  inflight : List Nat
  deriving DecidableEq, Repr

def Promise.init : Promise := ⟨none, []⟩

def Promise.step (p : Promise) : Op → Promise
  | .save c v => if c.fails then p else ⟨some v, []⟩
  | .crash c v _ => if c.fails then p else { p with inflight := v :: p.inflight }
  | .delete => ⟨none, []⟩
  | _ => p

def promise (p : Promise) : List Op → Promise
  | [] => p
  | op :: r => promise (p.step op) r

/-- hypothesis of the partial theorem for the pinned code: once a save has completed, no save
fails or is interrupted until the storage is deleted -/
def noFaultAfterGood (p : Promise) : List Op → Bool
  | [] => true
  | op :: r =>
    (match op with
      | .save c _ => !c.fails || p.last.isNone
      | .crash _ _ _ => p.last.isNone
      | _ => true) && noFaultAfterGood (p.step op) r

/-- hypothesis of the second partial theorem for the pinned code: no save is interrupted -/
def noCrash : List Op → Bool
  | [] => true
  | .crash _ _ _ :: _ => false
  | _ :: r => noCrash r

end PwVerif.Storage
