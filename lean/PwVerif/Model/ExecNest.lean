import PwVerif.Model.Exec
import PwVerif.Model.ExecFine
/-!
# Nested composite execution (C06: failures inside nested macros, exception classes)

`Exec` is flat: every child of the composite is a function node. Here a child may itself be a
composite (a macro) with its own wired DAG, its own fault set and its own executor-run children; its
run is a nested run of the SAME machine (`Exec.step`), and its failure surfaces in the parent as the
failure of that child (`FailedChildError`).

* `Tree E` is program and state in one: `leaf` = a function child (its status lives in the parent's
  `S`), `comp d exc s kids` = a composite with wiring `d`, run state `s` and the sub-trees of its
  children (`kids i = leaf` for function children). `E` is the type of exception classes/objects:
  `exc i` is what the function of child `i` raises IF it raises (`d.fails i`). The machine never looks
  at `exc` — the control flow cannot depend on the class of an exception; only `raised` (what the
  caller of the run gets to see) reads it.
* From the parent's point of view a composite child behaves like a child handed to an executor: `run`
  registers it as running (`register_child_starting`), then the nested loop takes its steps — actions
  addressed by the path of child indices —, and when the nested loop has ended the child finishes
  (`_run_finally` → `register_child_emitting/finished`): the parent's action `complete k`. A macro run
  locally blocks the parent's own thread meanwhile; that only removes interleavings, so everything proved
  for all interleavings holds for local and executor-run macros alike. Completions of executor children
  of ANY level may be interleaved anywhere.
* Whether the composite child `k` "raises" is not a static datum: it is the outcome of its nested run,
  `compFailed` of its state at the moment it completes (`effDag`).
-/
namespace PwVerif.ExecNest
open PwVerif PwVerif.Exec

inductive Tree (E : Type) where
  | leaf
  | comp (d : Dag) (exc : Nat → E) (s : S) (kids : Nat → Tree E)

variable {E : Type}

/-- the composite's loop has ended: it returned, or raised `FailedChildError`/whatever aborted it -/
def phaseOver : Phase → Bool
  | .run _ => false
  | _ => true

/-- the composite's run raises to whoever ran it (and the composite ends marked failed) -/
def compFailed (s : S) : Bool := !s.errs.isEmpty || s.phase == .aborted

def Tree.over : Tree E → Bool
  | .leaf => true
  | .comp _ _ s _ => phaseOver s.phase

/-- the wiring of a composite as the flat machine sees it: a composite child counts as handed away,
and "its function raises" means "its own run has failed" -/
def effDag (d : Dag) (kids : Nat → Tree E) : Dag :=
  { d with
    fails := fun i => match kids i with
      | .leaf => d.fails i
      | .comp _ _ s _ => compFailed s
    onExec := fun i => match kids i with
      | .leaf => d.onExec i
      | .comp _ _ _ _ => true }

/-- a composite child finishes (`complete k`) only when its own loop has ended -/
def okAct (kids : Nat → Tree E) : Act → Bool
  | .complete k => (kids k).over
  | _ => true

/-- one action of the composite at `path` (child indices from the outermost composite down) -/
def nstep (cfg : Cfg) : Tree E → List Nat → Act → Option (Tree E)
  | .leaf, _, _ => none
  | .comp d exc s kids, [], a =>
    if okAct kids a then (step cfg (effDag d kids) s a).map (fun s' => .comp d exc s' kids) else none
  | .comp d exc s kids, k :: p, a =>
    if s.st k = .out then
      (nstep cfg (kids k) p a).map (fun t' => .comp d exc s (updF kids k t'))
    else none

def nrun (cfg : Cfg) (t : Tree E) : List (List Nat × Act) → Option (Tree E)
  | [] => some t
  | (p, a) :: rest => match nstep cfg t p a with
    | some t' => nrun cfg t' rest
    | none => none

/-- nothing has run yet, at any level -/
def Fresh : Tree E → Prop
  | .leaf => True
  | .comp d _ s kids => s = init d ∧ ∀ k, Fresh (kids k)

/-- the sub-tree at a path (`leaf` when the path leaves the tree) -/
def Tree.sub : Tree E → List Nat → Tree E
  | t, [] => t
  | .leaf, _ :: _ => .leaf
  | .comp _ _ _ kids, k :: p => (kids k).sub p

/-! ### what the caller of a run sees -/

/-- an exception as seen by a caller: the original one, or a `FailedChildError` with its `__cause__`
(`none` = raised `from None`: several children failed) -/
inductive Err (E : Type) where
  | orig (e : E)
  | failedChild (cause : Option (Err E))

/-- the bottom of the cause chain -/
def Err.root : Err E → Option E
  | .orig e => some e
  | .failedChild none => none
  | .failedChild (some c) => c.root

def Err.depth : Err E → Nat
  | .orig _ => 0
  | .failedChild none => 1
  | .failedChild (some c) => c.depth + 1

/-- the exception the run of this composite ends with: none if no child error was collected; the
errors are a dict keyed by child, so one child collected twice is one error; exactly one →
`FailedChildError(...) from <that child's exception>`, several → `from None` -/
def raised : Tree E → Option (Err E)
  | .leaf => none
  | .comp _ exc s kids =>
    match s.errs with
    | [] => none
    | k :: rest =>
      if rest.all (· == k) then
        let sub := raised (kids k)
        match kids k with
        | .leaf => some (.failedChild (some (.orig (exc k))))
        | .comp _ _ _ _ => some (.failedChild sub)
      else some (.failedChild none)

/-- renaming of exception classes -/
def Tree.mapExc {E' : Type} (f : E → E') : Tree E → Tree E'
  | .leaf => .leaf
  | .comp d exc s kids => .comp d (fun i => f (exc i)) s (fun k => (kids k).mapExc f)

def Err.map {E' : Type} (f : E → E') : Err E → Err E'
  | .orig e => .orig (f e)
  | .failedChild none => .failedChild none
  | .failedChild (some c) => .failedChild (some (c.map f))


/-! ### small pieces of the exception path that the tree machine abstracts from

Each has a switch: `pinned` = the code as found, `repaired` = with the proposed fix. -/

/-- (1) the composite's error book-keeping for ONE child over a run: the child is asked to run several
times (hand-wired flows trigger a node more than once); `ran e` = it started and its run raised `e`,
`refused r` = it did not start (`ReadinessError r`: not ready, still running, already failed) -/
inductive Ask (E : Type) where
  | ran (e : E)
  | refused (r : E)

/-- pinned: `errors[key] = e` — the last one wins -/
def collectPinned : Option E → Ask E → Option E
  | _, .ran e => some e
  | _, .refused r => some r

/-- repaired: a refusal never displaces what is recorded; the error of an actual run displaces anything -/
def collectRepaired : Option E → Ask E → Option E
  | _, .ran e => some e
  | some x, .refused _ => some x
  | none, .refused r => some r

def Ask.isRefusal : Ask E → Bool
  | .refused _ => true
  | .ran _ => false

/-- (2) the signals a finishing `If` node emits: `failed`/`ran`, plus the branch of its truth output — which, when
the run failed, is the value an EARLIER run left there -/
inductive Sig | ran | failed | branch (b : Bool)
  deriving DecidableEq, Repr

def ifEmits (repaired : Bool) (failed : Bool) (truth : Option Bool) : List Sig :=
  let base := if failed then [Sig.failed] else [Sig.ran]
  match truth with
  | none => base
  | some b => if repaired && failed then base else base ++ [Sig.branch b]

/-- (3) which raised objects the two exception paths of `Runnable` process as a failure of the run: the local path
(`_run`) names `Exception` and `KeyboardInterrupt`, the done-callback path (`_finish_run`) only `Exception` -/
inductive Kind | exception | keyboardInterrupt | otherBase
  deriving DecidableEq, Repr

def handledLocally : Kind → Bool
  | .exception => true
  | .keyboardInterrupt => true
  | .otherBase => false

def handledInCallback (repaired : Bool) : Kind → Bool
  | .exception => true
  | .keyboardInterrupt => repaired
  | .otherBase => false


/-! ### (3') a raised object that is NOT collected: how it travels up the tree

`Kind × path`: the local path (`Runnable._run`) and the done-callback path (`Runnable._finish_run`) each process some
kinds of raised objects as a failure of the run; the composite's loops collect `Exception`s only. `KCfg` says which
kinds the two paths process (`head` = the tree after f3b0474, `proposed` = both paths process every `BaseException`). -/

structure KCfg where
  kiCallback : Bool
  otherBase : Bool
  deriving DecidableEq, Repr

def KCfg.pinned : KCfg := { kiCallback := false, otherBase := false }
def KCfg.head : KCfg := { kiCallback := true, otherBase := false }
def KCfg.proposed : KCfg := { kiCallback := true, otherBase := true }

def KCfg.local (c : KCfg) : Kind → Bool
  | .exception => true
  | .keyboardInterrupt => true
  | .otherBase => c.otherBase

def KCfg.callback (c : KCfg) : Kind → Bool
  | .exception => true
  | .keyboardInterrupt => c.kiCallback
  | .otherBase => c.otherBase

/-- how a node on the path from the raising function up to the outermost composite ends -/
inductive LStat
  | failed        -- marked failed, not running, announced `failed`
  | leftRunning   -- still marked running, not failed, announced nothing
  | falselyDone   -- not running, not failed, announced `ran`: the raised object is gone
  | fine          -- a composite above the point where the object vanished: completes normally
  deriving DecidableEq, Repr

/-- how the error reaches the node's parent; `k` is the kind of the ORIGINAL object, `wraps` the number of
`FailedChildError`s around it so far (what is being raised is an `Exception` as soon as `wraps > 0`) -/
inductive Hand
  | collect (k : Kind) (wraps : Nat)   -- the parent's loop (or its status sweep) collects it and goes on draining
  | raw (k : Kind) (wraps : Nat)       -- it passes through the parent's loop at once: the loop is left as it is
  | gone
  deriving DecidableEq, Repr

def curKind (k : Kind) (w : Nat) : Kind := if w = 0 then k else .exception

/-- a node (function node or composite) whose own run raises `k` wrapped `w` times -/
def nodeOut (c : KCfg) (onExec : Bool) (k : Kind) (w : Nat) : LStat × Hand :=
  let cur := curKind k w
  if onExec then
    if c.callback cur then (.failed, .collect k w) else (.falselyDone, .gone)
  else if cur = .exception then (.failed, .collect k w)
  else if c.local cur then (.failed, .raw k w)
  else (.leftRunning, .raw k w)

/-- a composite receiving what its child hands up: collected → it drains and raises a `FailedChildError` (an
`Exception`) wrapping it; raw → its loop is left at once (`aborted`: children out on an executor stay out) and the
object is what its own run raises; gone → it carries on. Result: its status, whether its loop was aborted, what it
hands up. -/
def compOut (c : KCfg) (onExec : Bool) : Hand → LStat × Bool × Hand
  | .collect k w => ((nodeOut c onExec k (w + 1)).1, false, (nodeOut c onExec k (w + 1)).2)
  | .raw k w => ((nodeOut c onExec k w).1, true, (nodeOut c onExec k w).2)
  | .gone => (.fine, false, .gone)

structure KOut where
  stats : List LStat      -- the raising node first, then every composite up to the outermost
  aborted : List Bool     -- per composite: its loop was left while children may be out
  hand : Hand             -- what the outermost node hands to ... the caller of the run
  deriving DecidableEq, Repr

def climb (c : KCfg) : List Bool → KOut → KOut
  | [], o => o
  | e :: rest, o =>
    let r := compOut c e o.hand
    climb c rest { stats := o.stats ++ [r.1], aborted := o.aborted ++ [r.2.1], hand := r.2.2 }

/-- `execs`: is the raising node / each composite above it handed to an executor (innermost first; the outermost
composite is run by the caller) -/
def propagate (c : KCfg) (k : Kind) : List Bool → KOut
  | [] => { stats := [], aborted := [], hand := .gone }
  | e :: rest => climb c rest { stats := [(nodeOut c e k 0).1], aborted := [], hand := (nodeOut c e k 0).2 }

/-- what the caller of the outermost run gets -/
inductive Caller
  | raw (k : Kind)               -- the raised object itself
  | chain (k : Kind) (n : Nat)   -- `n` `FailedChildError`s with the raised object at the bottom
  | nothing
  deriving DecidableEq, Repr

def Hand.caller : Hand → Caller
  | .collect k 0 => .raw k
  | .collect k (w + 1) => .chain k (w + 1)
  | .raw k 0 => .raw k
  | .raw k (w + 1) => .chain k (w + 1)
  | .gone => .nothing


/-! ### re-run histories

The user clears the `failed` flags, changes what fails and what is handed to an executor (anywhere in the tree) and runs
the outermost composite again. `Edit p` is what holds for the composite at path `p` in the next run: the fault set of
its function children, the executor assignment, the exception table — and `reset`: whether the all-of triggers of ITS
children start empty. A workflow level re-derives its wiring on every run; a macro level is wired once and relies on
the fresh-start reset of `Composite._on_run` (bc0a763). Every level restarts as `Exec.restart` says (outputs as the last
run left them). -/

structure Edit (E : Type) where
  fails : Nat → Bool
  onExec : Nat → Bool
  exc : Nat → E
  reset : Bool

def nrestart : Tree E → (List Nat → Edit E) → Tree E
  | .leaf, _ => .leaf
  | .comp d _ s kids, ed =>
    .comp (rerunDag d s (ed []).fails (ed []).onExec) (ed []).exc
      (restart (ed []).reset d s (ed []).fails (ed []).onExec)
      (fun k => nrestart (kids k) (fun p => ed (k :: p)))

/-- a history: every run is an edit of the whole tree followed by a schedule (which may stop anywhere) -/
def nhistory (cfg : Cfg) : Tree E → List ((List Nat → Edit E) × List (List Nat × Act)) → Option (Tree E)
  | t, [] => some t
  | t, (ed, acts) :: rest =>
    match nrun cfg (nrestart t ed) acts with
    | some t' => nhistory cfg t' rest
    | none => none


/-! ### the run cycle of the OUTERMOST runnable, with and without `raise_run_exceptions`

Inside a composite every child is run with the default `raise_run_exceptions=True`; only the caller of the outermost
run can ask for suppression. `Runnable.run → _run → (_finish_run) → _run_exception / _run_finally` for a runnable whose
body (`on_run`: the wrapped function, or the whole nested run of a composite) returns or raises `e`:

* `suppress`   – the caller passed `raise_run_exceptions=False`;
* `onExec`     – the body runs on an executor: the caller gets the future, the rest happens in the done-callback;
* `emits`      – `emit_ran_signal` (a `Workflow` runs itself with `False`);
* `hasRecovery`– a recovery back end is configured (the runnable is the root of its graph: it is the outermost);
* `fallThrough`– the tree before bc92c66: a suppressed LOCAL failure went on into `_finish_run(None)`. -/

inductive Ret (E : Type) where
  | value                 -- the processed result
  | none                  -- `None`
  | raised (e : E)
  | future                -- the executor's future (whatever happens in the callback stays there)
  deriving DecidableEq, Repr

structure Cycle (E : Type) where
  running : Bool
  failed : Bool
  failedSignals : Nat       -- how often the `failed` signal was fired
  ranSignals : Nat
  outputsWritten : Bool     -- `process_run_result` touched the output channels
  recovery : Bool           -- a recovery file was written
  ret : Ret E
  deriving DecidableEq, Repr

def runCycle (fallThrough suppress onExec emits hasRecovery : Bool) : Option E → Cycle E
  | none =>     -- the body returned: `_finish_run` processes the result; `_run_finally`: emit `ran`
    { running := false, failed := false, failedSignals := 0, ranSignals := if emits then 1 else 0,
      outputsWritten := true, recovery := false, ret := if onExec then .future else .value }
  | some e =>
    if onExec then
      -- done-callback: `running = False`; `future.result()` raises; `_run_exception`; (raise, swallowed by the future
      -- machinery | return None); `finally: _run_finally`
      { running := false, failed := true, failedSignals := if emits then 1 else 0, ranSignals := 0,
        outputsWritten := false, recovery := hasRecovery && !suppress, ret := .future }
    else if suppress && fallThrough then
      -- before bc92c66: `_run_exception`, `_run_finally`, then `_finish_run(None)`: outputs overwritten, `_run_finally` again
      { running := false, failed := true, failedSignals := if emits then 2 else 0, ranSignals := 0,
        outputsWritten := true, recovery := false, ret := .none }
    else
      { running := false, failed := true, failedSignals := if emits then 1 else 0, ranSignals := 0,
        outputsWritten := false, recovery := hasRecovery && !suppress, ret := if suppress then .none else .raised e }


/-! ### the fine interleaving at every level of the tree

`ExecFine` splits the done-callback of an executor child of ONE composite into its two calls on the parent. Here every
composite of the tree has such a fine state (`F`: its coarse state, the children whose callback is half-way, late
signals); a fine action is addressed by a path like a coarse one. Tree order of the two calls: emitting first. -/

open PwVerif.ExecFine in
inductive TreeF (E : Type) where
  | leaf
  | comp (d : Dag) (exc : Nat → E) (f : F) (kids : Nat → TreeF E)

open PwVerif.ExecFine

/-- forget the half-way callbacks: the coarse tree -/
def TreeF.core : TreeF E → Tree E
  | .leaf => .leaf
  | .comp d exc f kids => .comp d exc f.core (fun k => (kids k).core)

def Tree.fine : Tree E → TreeF E
  | .leaf => .leaf
  | .comp d exc s kids => .comp d exc { core := s, mid := [], late := [] } (fun k => (kids k).fine)

/-- the first half of a composite child's callback can run only when that child's own loop has ended -/
def okActF (kids : Nat → TreeF E) : ActF → Bool
  | .cbFirst k => (kids k).core.over
  | _ => true

def nstepF (cfg : Cfg) : TreeF E → List Nat → ActF → Option (TreeF E)
  | .leaf, _, _ => none
  | .comp d exc f kids, [], a =>
    if okActF kids a then
      (stepF cfg FCfg.repaired (effDag d (fun k => (kids k).core)) f a).map (fun f' => .comp d exc f' kids)
    else none
  | .comp d exc f kids, k :: p, a =>
    if f.core.st k = .out then
      (nstepF cfg (kids k) p a).map (fun t' => .comp d exc f (updF kids k t'))
    else none

def nrunF (cfg : Cfg) (t : TreeF E) : List (List Nat × ActF) → Option (TreeF E)
  | [] => some t
  | (p, a) :: rest => match nstepF cfg t p a with
    | some t' => nrunF cfg t' rest
    | none => none

/-- the coarse action a fine action amounts to (the second half of a callback: none) -/
def coarseOf : ActF → Option Act
  | .start => some .start
  | .deliver => some .deliver
  | .exit => some .exit
  | .cbFirst k => some (.complete k)
  | .cbSecond _ => none

/-- some callback is half-way, somewhere in the tree -/
def TreeF.midAt (t : TreeF E) (p : List Nat) : List Nat :=
  match t, p with
  | .leaf, _ => []
  | .comp _ _ f _, [] => f.mid
  | .comp _ _ _ kids, k :: q => (kids k).midAt q

/-- the recovery save itself can fail (the graph holds something that cannot be stored, e.g. a lock). It is made in
`_run_finally`, on the way out with the run's own exception: unguarded (the tree before the fix) its error REPLACES that
exception for the caller; guarded it is logged and the run's exception goes on. No file either way. -/
def withSave (guarded saveFails : Bool) (saveErr : E) (c : Cycle E) : Cycle E :=
  if c.recovery && saveFails then
    { c with recovery := false,
             ret := if guarded then c.ret else (match c.ret with | .raised _ => .raised saveErr | r => r) }
  else c

/-! ### finite presentation (driver, witnesses) -/

/-- children given as an association list; everybody else is a function node -/
def kidsOf (l : List (Nat × Tree E)) : Nat → Tree E := fun i =>
  match l.find? (fun p => p.1 == i) with
  | some p => p.2
  | none => .leaf

def mkComp (d : Dag) (exc : Nat → E) (l : List (Nat × Tree E)) : Tree E :=
  .comp d exc (init d) (kidsOf l)

end PwVerif.ExecNest
