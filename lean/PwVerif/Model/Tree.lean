import PwVerif.Model.Util
/-!
# Ownership tree (transcription of `mixin/lexical.py`, `nodes/composite.py`, `workflow.py`)

Nodes are natural numbers.  `parent c` is `c._parent`; `children p` is the `bidict`
`p._children` in insertion order (label ↦ child, injective: inserting a value that is already
present under another key raises); `starting p` is `p.starting_nodes`.  Labels and lexical
paths are strings = lists of characters, because the cyclic-path check of the library is a
*string prefix* test on `lexical_path`.

The mutual protocol `LexicalParent.add_child` ↔ `Lexical._set_parent` is transcribed step by
step **including the state it leaves behind when it raises**: every function returns the tree
as the code leaves it together with the outcome (the exception class).  The recursion between
the two methods is bounded (the innermost `child.parent = self` is always the early return
`new_parent is self._parent`), so it is unrolled with a continuation instead of fuel; the
impossible branch is the outcome `unreachable` (proved never to occur in `Proofs/Tree.lean`).

`Cfg` switches between the behaviour of the pinned code (all `false`) and of the repairs
(`fixes/C13-*.patch`), one flag per changed statement; the harness sets the flags from
micro-probes of the tree under test.
-/
namespace PwVerif.Tree
open PwVerif

abbrev Str := List Char

inductive Kind | leaf | macro | workflow
  deriving DecidableEq, Repr, Inhabited

def Kind.isComposite : Kind → Bool
  | .leaf => false
  | _ => true

/-- the exception class an operation ends with (`ok` = returned normally) -/
inductive Outcome
  | ok | typeError | valueError | cyclicPathError | attributeError | parentMostError | keyError
  | duplicationError | recursionError | noMethod | unreachable
  /-- whatever a constructor's own set-up raised after `Lexical.__init__` (a graph creator that
  raises, an unknown input keyword, a failing autoload / autorun) -/
  | setupError
  /-- a refusal that depends on the node's run state (seeded variant C13-10) -/
  | runtimeError
  deriving DecidableEq, Repr, Inhabited

structure Cfg where
  /-- F1 `_set_parent` releases the child from the old parent when the old parent *lists* it
  (`self in self._parent.children.inv`); pinned: `self in self._parent.children` tests the
  bidict keys (labels) against a node and is never true -/
  releaseByValue : Bool
  /-- F2 `_set_parent` asks the new parent for a unique label *before* anything changes -/
  prevalidate : Bool
  /-- F3 `add_child` assigns (= validates) the new label before popping the old entry -/
  labelBeforePop : Bool
  /-- F4 `add_child` undoes the insertion when the reflexive `child.parent = self` raises -/
  rollbackAdopt : Bool
  /-- F5 `_ensure_path_is_not_cyclic` walks up from the prospective parent looking for the child
  object itself, instead of comparing lexical-path strings -/
  identityCheck : Bool
  /-- F6 `_this_child_is_already_at_a_different_label` tests membership in the children
  instead of `child.parent is self` -/
  relabelByMembership : Bool
  /-- F7 `replace_child` refuses up front the replacement that `add_child` would only refuse after
  the owned node is gone and the labels are swapped: this composite itself or one of its
  ancestors (`CyclicPathError`), a node that can never have a parent (`TypeError`) -/
  replacePrecheck : Bool
  /-- F8 a constructor that raises after `Lexical.__init__` lets go of everything it took: the
  parent releases the half-built object, a `Workflow(label, *nodes)` its nodes (labels restored) -/
  ctorRollback : Bool
  /-- F9 `Node.load()` in place keeps the owner of the live node (not an operation of the
  property's list; used by `loadInPlace` only) -/
  loadKeepsOwner : Bool
  /-- depth available to the recursion of `lexical_path` (Python's recursion limit) -/
  fuel : Nat
  deriving Repr

def Cfg.pinned (fuel : Nat := 64) : Cfg := ⟨false, false, false, false, false, false, false, false, false, fuel⟩
def Cfg.repaired (fuel : Nat := 64) : Cfg := ⟨true, true, true, true, true, true, true, true, true, fuel⟩
/-- /repo at 02da358 and later: F1–F7, without `fixes/C13-constructor-rollback.patch` (F8) -/
def Cfg.head (fuel : Nat := 64) : Cfg := ⟨true, true, true, true, true, true, true, false, false, fuel⟩
/-- the four `fix:` commits d3d68f8, c218405, 8702aee, 53801cf (F1–F6) without
`fixes/C13-replace-child-precheck.patch` (F7) -/
def Cfg.sixFixes (fuel : Nat := 64) : Cfg := ⟨true, true, true, true, true, true, false, false, false, fuel⟩

structure Tree where
  kind     : Nat → Kind
  /-- `strict_naming` of a composite -/
  strict   : Nat → Bool
  /-- `super().__dir__()` of a composite: class attributes and instance `__dict__` (static) -/
  reserved : Nat → List Str
  label    : Nat → Str
  parent   : Nat → Option Nat
  children : Nat → List (Str × Nat)
  starting : Nat → List Nat

/-! ## bidict -/

def keys (l : List (Str × Nat)) : List Str := l.map (·.1)
def vals (l : List (Str × Nat)) : List Nat := l.map (·.2)

def lookupKey : List (Str × Nat) → Str → Option Nat
  | [], _ => none
  | (k, v) :: r, x => if k = x then some v else lookupKey r x

/-- `bidict.inv.pop(v)` (caller has checked presence) -/
def popVal (l : List (Str × Nat)) (v : Nat) : List (Str × Nat) := l.filter (fun e => e.2 ≠ v)
/-- `bidict.pop(k)` -/
def popKey (l : List (Str × Nat)) (k : Str) : List (Str × Nat) := l.filter (fun e => e.1 ≠ k)

/-- `bidict[k] = v` with the default duplication policy: the same item is a no-op, a value
already present under another key raises (`none`), an existing key is overwritten in place -/
def bidictPut (l : List (Str × Nat)) (k : Str) (v : Nat) : Option (List (Str × Nat)) :=
  if (k, v) ∈ l then some l
  else if v ∈ vals l then none
  else if k ∈ keys l then some (l.map fun e => if e.1 = k then (k, v) else e)
  else some (l ++ [(k, v)])

/-! ## paths -/

/-- `lexical_path` with `n` levels of recursion available -/
def pathF (t : Tree) : Nat → Nat → Option Str
  | 0, _ => none
  | n + 1, c =>
    match t.parent c with
    | none => some ('/' :: t.label c)
    | some p => (pathF t n p).map (fun s => s ++ '/' :: t.label c)

/-- repaired `_ensure_path_is_not_cyclic`: `ancestor = parent; while ancestor is a Lexical:
if ancestor is child: raise; ancestor = ancestor.parent` (`n` iterations available) -/
def ancWalk (t : Tree) (c : Nat) : Nat → Nat → Outcome
  | 0, _ => .recursionError
  | n + 1, x =>
    if x = c then .cyclicPathError
    else
      match t.parent x with
      | none => .ok
      | some q => ancWalk t c n q

/-- the hardened walk of `fixes/C13-cycle-walk-visited.patch`: it also stops (raising) when it
meets a node for the second time, i.e. when the prospective parent already sits on a parent
cycle that does not contain the child -/
def ancWalkSeen (t : Tree) (c : Nat) : Nat → List Nat → Nat → Outcome
  | 0, _, _ => .recursionError
  | n + 1, seen, x =>
    if x = c then .cyclicPathError
    else if x ∈ seen then .cyclicPathError
    else
      match t.parent x with
      | none => .ok
      | some q => ancWalkSeen t c n (x :: seen) q

/-- `_ensure_path_is_not_cyclic(parent, child)`; pinned: `parent.lexical_path.startswith(
child.lexical_path + "/")` -/
def cyclicCheck (cfg : Cfg) (t : Tree) (p c : Nat) : Outcome :=
  if cfg.identityCheck then ancWalk t c cfg.fuel p
  else
    match pathF t cfg.fuel p with
    | none => .recursionError
    | some sp =>
      match pathF t cfg.fuel c with
      | none => .recursionError
      | some sc => if (sc ++ ['/']).isPrefixOf sp then .cyclicPathError else .ok

/-! ## labels -/

/-- `child_labels`: the labels of the child objects (not the keys) -/
def childLabels (t : Tree) (p : Nat) : List Str := (t.children p).map (fun e => t.label e.2)

/-- `LexicalParent.__dir__` -/
def dirOf (t : Tree) (p : Nat) : List Str := t.reserved p ++ keys (t.children p)

/-- the `while new_label in self.__dir__()` loop of `_add_suffix_to_label`, candidate `i` next -/
def suffixLoop (dir : List Str) (label : Str) : Nat → Nat → Option Str
  | 0, _ => none
  | n + 1, i =>
    let cand := label ++ Nat.toDigits 10 i
    if cand ∈ dir then suffixLoop dir label n (i + 1) else some cand

def addSuffix (dir : List Str) (label : Str) : Option Str :=
  if label ∈ dir then suffixLoop dir label (dir.length + 1) 0 else some label

/-- `_get_unique_label` -/
def uniqueLabel (t : Tree) (p : Nat) (label : Str) (strict : Bool) : Except Outcome Str :=
  if label ∈ dirOf t p then
    if label ∈ childLabels t p then
      if strict then .error .attributeError
      else
        match addSuffix (dirOf t p) label with
        | some l => .ok l
        | none => .error .unreachable
    else .error .attributeError
  else .ok label

/-- `_this_child_is_already_at_this_label`; `children[label]` may raise `KeyError` -/
def alreadyAtLabel (t : Tree) (p c : Nat) (label : Str) : Except Outcome Bool :=
  if label = t.label c ∧ label ∈ childLabels t p then
    match lookupKey (t.children p) label with
    | none => .error .keyError
    | some v => .ok (v = c)
  else .ok false

/-! ## `child.parent = None` and `remove_child` -/

/-- innermost `r.remove_child(c)` reached from a nested `_set_parent(None)`: pop, the nested
`c.parent = None` (its guard cannot fire again), `starting_nodes` -/
def removeCore0 (t : Tree) (r c : Nat) : Tree :=
  { t with children := updF t.children r (popVal (t.children r) c),
           parent := updF t.parent c none,
           starting := updF t.starting r ((t.starting r).erase c) }

/-- `c.parent = None` as called from inside `remove_child` -/
def setParentNone1 (cfg : Cfg) (t : Tree) (c : Nat) : Tree :=
  if t.kind c = .workflow then t
  else
    match t.parent c with
    | none => t
    | some r =>
      let t1 := if cfg.releaseByValue = true ∧ c ∈ vals (t.children r) then removeCore0 t r c else t
      { t1 with parent := updF t1.parent c none }

/-- `Composite.remove_child(c)` for a node `c` that `q` lists: pop; `c.parent = None`;
(disconnect); drop from `starting_nodes` (`list.remove`: first occurrence) -/
def removeListed (cfg : Cfg) (t : Tree) (q c : Nat) : Tree :=
  let t1 := { t with children := updF t.children q (popVal (t.children q) c) }
  let t2 := setParentNone1 cfg t1 c
  { t2 with starting := updF t2.starting q ((t2.starting q).erase c) }

/-- `q.remove_child(c)` by node -/
def removeChild (cfg : Cfg) (t : Tree) (q c : Nat) : Tree × Outcome :=
  if (t.kind q).isComposite = false then (t, .noMethod)
  else if c ∈ vals (t.children q) then (removeListed cfg t q c, .ok)
  else (t, .keyError)

/-- `q.remove_child("label")` -/
def removeChildLabel (cfg : Cfg) (t : Tree) (q : Nat) (l : Str) : Tree × Outcome :=
  if (t.kind q).isComposite = false then (t, .noMethod)
  else
    match lookupKey (t.children q) l with
    | none => (t, .keyError)
    | some c =>
      let t1 := { t with children := updF t.children q (popKey (t.children q) l) }
      let t2 := setParentNone1 cfg t1 c
      ({ t2 with starting := updF t2.starting q ((t2.starting q).erase c) }, .ok)

/-! ## `add_child` and `_set_parent` -/

/-- body of `LexicalParent.add_child(child, label, strict_naming)`; `k` is what the final
`child.parent = self` does -/
def addChildCore (cfg : Cfg) (t : Tree) (p c : Nat) (lbl : Option Str) (strictArg : Option Bool)
    (k : Tree → Tree × Outcome) : Tree × Outcome :=
  match cyclicCheck cfg t p c with
  | .ok =>
    -- _ensure_child_has_no_other_parent
    if t.parent c ≠ none ∧ t.parent c ≠ some p then (t, .valueError)
    else
      let label := lbl.getD (t.label c)
      let strict := strictArg.getD (t.strict p)
      match alreadyAtLabel t p c label with
      | .error e => (t, e)
      | .ok true => (t, .ok)
      | .ok false =>
        match uniqueLabel t p label strict with
        | .error e => (t, e)
        | .ok l' =>
          let old := t.label c
          let relabel : Bool :=
            (if cfg.relabelByMembership then decide (c ∈ vals (t.children p))
             else decide (t.parent c = some p)) && decide (l' ≠ t.label c)
          let listed : Bool := decide (c ∈ vals (t.children p))
          -- pop the old entry and assign the label, in the order of the variant
          let staged : Tree × Outcome :=
            if cfg.labelBeforePop then
              if '/' ∈ l' then (t, .valueError)
              else
                let t1 := { t with label := updF t.label c l' }
                if relabel then
                  if listed then ({ t1 with children := updF t1.children p (popVal (t1.children p) c) }, .ok)
                  else (t1, .keyError)
                else (t1, .ok)
            else
              if relabel then
                if listed then
                  let t1 := { t with children := updF t.children p (popVal (t.children p) c) }
                  if '/' ∈ l' then (t1, .valueError) else ({ t1 with label := updF t1.label c l' }, .ok)
                else (t, .keyError)
              else
                if '/' ∈ l' then (t, .valueError) else ({ t with label := updF t.label c l' }, .ok)
          match staged with
          | (t2, .ok) =>
            match bidictPut (t2.children p) l' c with
            | none => (t2, .duplicationError)
            | some ch =>
              let t3 := { t2 with children := updF t2.children p ch }
              match k t3 with
              | (t4, .ok) => (t4, .ok)
              | (t4, e) =>
                if cfg.rollbackAdopt then
                  ({ t4 with children := updF t4.children p (popKey (t4.children p) l'),
                             label := updF t4.label c old }, e)
                else (t4, e)
          | (t2, e) => (t2, e)
  | e => (t, e)

/-- the reflexive `child.parent = self` of the innermost `add_child` (called from
`_set_parent`, which has just assigned `_parent`): always the early return -/
def setParentEarly (p c : Nat) (t : Tree) : Tree × Outcome :=
  if t.parent c = some p then (t, .ok) else (t, .unreachable)

/-- the `parent` setter: `Workflow.parent` for workflows, `Lexical._set_parent` otherwise -/
def setParent (cfg : Cfg) (t : Tree) (c : Nat) (np : Option Nat) : Tree × Outcome :=
  if t.kind c = .workflow then (t, if np.isSome then .parentMostError else .ok)
  else if np = t.parent c then (t, .ok)
  else
    match np with
    | none =>
      -- no type / cyclic check for None; release; `_parent = None`
      let t1 :=
        match t.parent c with
        | some q => if cfg.releaseByValue = true ∧ c ∈ vals (t.children q) then removeListed cfg t q c else t
        | none => t
      ({ t1 with parent := updF t1.parent c none }, .ok)
    | some p =>
      if (t.kind p).isComposite = false then (t, .valueError)
      else
        match cyclicCheck cfg t p c with
        | .ok =>
          let pre : Except Outcome Str :=
            if cfg.prevalidate = true ∧ c ∉ vals (t.children p) then uniqueLabel t p (t.label c) (t.strict p)
            else .ok (t.label c)
          match pre with
          | .error e => (t, e)
          | .ok _ =>
            let t1 :=
              match t.parent c with
              | some q => if cfg.releaseByValue = true ∧ c ∈ vals (t.children q) then removeListed cfg t q c else t
              | none => t
            let t2 := { t1 with parent := updF t1.parent c (some p) }
            addChildCore cfg t2 p c none none (setParentEarly p c)
        | e => (t, e)

/-- `Composite.add_child` -/
def addChild (cfg : Cfg) (t : Tree) (p c : Nat) (lbl : Option Str) (strictArg : Option Bool) :
    Tree × Outcome :=
  if (t.kind p).isComposite = false then (t, .noMethod)
  else addChildCore cfg t p c lbl strictArg (fun t' => setParent cfg t' c (some p))

/-- the attribute names `parent` / `_parent` -/
def parentKey : Str := ['p', 'a', 'r', 'e', 'n', 't']
def privateParentKey : Str := ['_', 'p', 'a', 'r', 'e', 'n', 't']

/-- `c.parent = v` as Python dispatches it: `Composite.__setattr__` turns the assignment of a
non-composite node to the attribute `parent` of a composite into `add_child(v, label="parent")` -/
def assignParent (cfg : Cfg) (t : Tree) (c : Nat) (np : Option Nat) : Tree × Outcome :=
  match np with
  | some v =>
    if (t.kind c).isComposite = true ∧ (t.kind v).isComposite = false then
      addChild cfg t c v (some parentKey) none
    else setParent cfg t c np
  | none => setParent cfg t c none

/-- `p.key = c` (`Composite.__setattr__` with a node value) -/
def setAttr (cfg : Cfg) (t : Tree) (p : Nat) (key : Str) (c : Nat) : Tree × Outcome :=
  if (t.kind p).isComposite = false then (t, .noMethod)
  else if (t.kind c).isComposite = true ∧ (key = parentKey ∨ key = privateParentKey) then
    if key = parentKey then setParent cfg t p (some c)
    else (t, .noMethod)  -- raw write of the private attribute: not an operation of the protocol
  else addChild cfg t p c (some key) none

/-- `Cls(label=l, parent=np)`: `Lexical.__init__` on the fresh object `c`.  When the
constructor raises the object is never bound, and nothing that is reachable refers to it, so
the world is the one before. -/
def newNode (cfg : Cfg) (t : Tree) (c : Nat) (l : Str) (np : Option Nat) : Tree × Outcome :=
  if '/' ∈ l then (t, .valueError)
  else
    let t0 := { t with label := updF t.label c l, parent := updF t.parent c none }
    match setParent cfg t0 c np with
    | (t1, .ok) => (t1, .ok)
    | (_, e) => (t, e)

/-! ## constructors that raise after the object has been adopted / has adopted -/

/-- `Cls(label=l, parent=np, …)` whose set-up raises after `Lexical.__init__` went through
(`Node.__init__`: `_setup_node()` = a macro's graph creator, `_after_node_setup()` = autoload,
`set_input_values`, autorun).  Pinned: the half-built object stays a child of `np`.  F8: the
`except` branch does `self.parent.remove_child(self)`; the object is then unreachable, its own
label is nobody's business any more (last line). -/
def ctorRelease (cfg : Cfg) (t t1 : Tree) (c : Nat) : Tree :=
  let t2 := match t1.parent c with
    | some p => (removeChild cfg t1 p c).1
    | none => t1
  { t2 with label := updF t2.label c (t.label c) }

def newNodeFail (cfg : Cfg) (t : Tree) (c : Nat) (l : Str) (np : Option Nat) : Tree × Outcome :=
  match newNode cfg t c l np with
  | (t1, .ok) => (if cfg.ctorRollback then ctorRelease cfg t t1 c else t1, .setupError)
  | (_, e) => (t, e)

/-- the loop `for node in args: self.add_child(node)` of `Workflow._after_node_setup` with the undo
log of F8: (node, label before) of every node that was not ours already -/
def adoptAll (cfg : Cfg) (c : Nat) : Tree → List (Nat × Str) → List Nat → Tree × List (Nat × Str) × Outcome
  | t, log, [] => (t, log, .ok)
  | t, log, k :: r =>
    match addChild cfg t c k none none with
    | (t1, .ok) => adoptAll cfg c t1 (if t.parent k = some c then log else (k, t.label k) :: log) r
    | (t1, e) => (t1, log, e)

/-- the variant of seeded change C13-9: the undo log takes the label *after* `add_child` (which
may have suffixed it) and skips nodes that are ours already -/
def adoptAllLate (cfg : Cfg) (c : Nat) : Tree → List (Nat × Str) → List Nat → Tree × List (Nat × Str) × Outcome
  | t, log, [] => (t, log, .ok)
  | t, log, k :: r =>
    if t.parent k = some c then adoptAllLate cfg c t log r
    else
      match addChild cfg t c k none none with
      | (t1, .ok) => adoptAllLate cfg c t1 ((k, t1.label k) :: log) r
      | (t1, e) => (t1, log, e)

/-- F8 undo, most recent first: `LexicalParent.remove_child(self, node)` (no disconnect, no
starting nodes) and `node.label = old_label` -/
def undoAdopt (c : Nat) : Tree → List (Nat × Str) → Tree
  | t, [] => t
  | t, (k, old) :: r =>
    undoAdopt c { t with children := updF t.children c (popVal (t.children c) k),
                         parent := updF t.parent k none,
                         label := updF t.label k old } r

/-- `Workflow(l, *kids)`; `fails`: something after the adoption loop raises (autoload, autorun) -/
def newWorkflowWith (cfg : Cfg) (t : Tree) (c : Nat) (l : Str) (kids : List Nat) (fails : Bool) :
    Tree × Outcome :=
  match newNode cfg t c l none with
  | (t0, .ok) =>
    match adoptAll cfg c t0 [] kids with
    | (t1, log, e) =>
      if e = .ok ∧ fails = false then (t1, .ok)
      else
        let e' := if e = .ok then Outcome.setupError else e
        if cfg.ctorRollback then
          let t2 := undoAdopt c t1 log
          ({ t2 with label := updF t2.label c (t.label c) }, e')
        else (t1, e')
  | (_, e) => (t, e)

/-- F7: the ownership side of a replacement is validated before anything changes -/
def replacePre (cfg : Cfg) (t : Tree) (p new : Nat) : Outcome :=
  if cfg.replacePrecheck then
    match cyclicCheck cfg t p new with
    | .ok => if t.kind new = .workflow then .typeError else .ok
    | e => e
  else .ok

/-- `Composite.replace_child(old, new)` restricted to its ownership effects; `old` is assumed
unconnected and not value-linked to the IO of `p` (then `copy_io` and the link re-forging
cannot fail, whatever the IO of `new` looks like) -/
def replaceChild (cfg : Cfg) (t : Tree) (p old new : Nat) : Tree × Outcome :=
  if (t.kind p).isComposite = false then (t, .noMethod)
  else if t.parent old ≠ some p then (t, .valueError)
  else if t.parent new ≠ none then (t, .valueError)
  else if replacePre cfg t p new ≠ .ok then (t, replacePre cfg t p new)
  else
    let isStarting : Bool := decide (old ∈ t.starting p)
    match removeChild cfg t p old with
    | (t1, .ok) =>
      let lo := t1.label old
      let ln := t1.label new
      let t2 := { t1 with label := updF (updF t1.label new lo) old ln }
      match addChild cfg t2 p new none none with
      | (t3, .ok) =>
        (if isStarting then { t3 with starting := updF t3.starting p (t3.starting p ++ [new]) } else t3, .ok)
      | (t3, e) => (t3, e)
    | (t1, e) => (t1, e)

/-- `p.replace_child("label", new)`: `self.children[owned_node]` first -/
def replaceChildLabel (cfg : Cfg) (t : Tree) (p : Nat) (l : Str) (new : Nat) : Tree × Outcome :=
  if (t.kind p).isComposite = false then (t, .noMethod)
  else
    match lookupKey (t.children p) l with
    | none => (t, .keyError)
    | some old => replaceChild cfg t p old new

/-- `LexicalParent.__setstate__`: `for child in self: child.parent = self` — every listed child
(a freshly loaded object whose owner was purged by `__getstate__`) is told who owns it -/
def reownList (t : Tree) (c : Nat) : List (Str × Nat) → Tree
  | [] => t
  | (_, v) :: r => reownList { t with parent := updF t.parent v (some c) } c r

/-- … all the way down (`n` nesting levels) -/
def reown : Nat → Tree → Nat → Tree
  | 0, t, _ => t
  | n + 1, t, c => (t.children c).foldl (fun acc e => reown n acc e.2) (reownList t c (t.children c))

/-- `node.load()` in place, ownership side: `self.__setstate__(inst.__getstate__())` installs a
state whose owner `Lexical.__getstate__` has purged; the children of a composite are replaced by
equally labelled loaded ones (the same ids here: the user lets go of the discarded objects),
which `__setstate__` re-owns -/
def loadInPlace (cfg : Cfg) (t : Tree) (c : Nat) : Tree :=
  let t1 := if cfg.loadKeepsOwner then t else { t with parent := updF t.parent c none }
  reown cfg.fuel t1 c

/-! ## state-carrying operations: `copy.copy(composite)`, executor return -/

/-- the variant of seeded change C13-12: `child._parent = self` — nobody asks the previous owner -/
def copyRaw (t : Tree) (c c' : Nat) : Tree :=
  { t with label := updF t.label c' (t.label c),
           children := updF t.children c' (t.children c),
           starting := updF t.starting c' (t.starting c),
           parent := fun v => if v ∈ vals (t.children c) then some c' else if v = c' then none else t.parent v }

/-- `remove_child` of a node whose parent setter refuses to let go while it is `running` (seeded
variant C13-10).  `guardFirst`: the composite asks before it pops; otherwise the refusal arrives
after `children.inv.pop(child)` -/
def removeChildGuarded (cfg : Cfg) (guardFirst : Bool) (running : Nat → Bool) (t : Tree) (q c : Nat) :
    Tree × Outcome :=
  if (t.kind q).isComposite = false then (t, .noMethod)
  else if c ∉ vals (t.children q) then (t, .keyError)
  else if running c = false then removeChild cfg t q c
  else if guardFirst then (t, .runtimeError)
  else ({ t with children := updF t.children q (popVal (t.children q) c) }, .runtimeError)

inductive Op
  | new (c : Nat) (label : Str) (np : Option Nat)
  | add (p c : Nat) (lbl : Option Str) (strict : Option Bool)
  | setattr (p : Nat) (key : Str) (c : Nat)
  | setparent (c : Nat) (np : Option Nat)
  | remove (p c : Nat)
  | removeLabel (p : Nat) (l : Str)
  | replace (p old new : Nat)
  | replaceLabel (p : Nat) (l : Str) (new : Nat)
  | newFail (c : Nat) (label : Str) (np : Option Nat)
  | newWith (c : Nat) (label : Str) (kids : List Nat) (fails : Bool)
  | setStarting (p : Nat) (l : List Nat)
  deriving Repr

/-- `copy.copy(c)`: the copy `c'` gets `c.__getstate__()` — the *live* child objects — and
`LexicalParent.__setstate__` does `child.parent = self` for each: the parent setter asks the
previous live owner to release the child, so the children (and with them the starting nodes) move
from `c` to `c'`.  As a history of the operations above (the same happens to the spent copy a
by-value executor hands back, `_parse_remotely_executed_self`). -/
def copyOps (t : Tree) (c c' : Nat) : List Op :=
  [Op.new c' (t.label c) none] ++ (t.children c).map (fun e => Op.setparent e.2 (some c')) ++
    [Op.setStarting c' (t.starting c)]

def step (cfg : Cfg) (t : Tree) : Op → Tree × Outcome
  | .new c l np => newNode cfg t c l np
  | .add p c lbl s => addChild cfg t p c lbl s
  | .setattr p key c => setAttr cfg t p key c
  | .setparent c np => assignParent cfg t c np
  | .remove p c => removeChild cfg t p c
  | .removeLabel p l => removeChildLabel cfg t p l
  | .replace p o n => replaceChild cfg t p o n
  | .replaceLabel p l n => replaceChildLabel cfg t p l n
  | .newFail c l np => newNodeFail cfg t c l np
  | .newWith c l kids f => newWorkflowWith cfg t c l kids f
  | .setStarting p l => ({ t with starting := updF t.starting p l }, .ok)

def run (cfg : Cfg) (t : Tree) (ops : List Op) : Tree := ops.foldl (fun t o => (step cfg t o).1) t

/-- no node alive yet; kinds, naming policies and class attributes are parameters -/
def empty (kind : Nat → Kind) (strict : Nat → Bool) (reserved : Nat → List Str) : Tree :=
  { kind, strict, reserved, label := fun _ => [], parent := fun _ => none,
    children := fun _ => [], starting := fun _ => [] }

end PwVerif.Tree
