import PwVerif.Model.Recovery
import PwVerif.Model.ExecNest
/-!
# The file of a NESTED graph and the nested resumed run (C08 over `ExecNest`)

The first run of a graph with macros in macros is `ExecNest` (C06): every composite runs the machine
of `Exec` on its own level, composite children count as handed away, executor children of ANY level
complete whenever the schedule says.  A *cut* is any tree `ExecNest.nrun` can reach from a fresh one:
the end of a failed run as well as the moment after a checkpoint save of a node at any depth, with
children of any level in flight and the composites above it in the middle of their loops.

`resumeTree` is the loaded graph after the documented procedure: level by level `Recovery.resumeFromC`
on that level's part of the file (a composite child that cannot answer from its cache — `rerunSet` — is
run again, which means: its own loop runs).  `rnstep` is the nested resumed run: the scheduler
`Recovery.rstep` at every level, a composite child finishes (`complete k`) only when its own loop has
ended, a level below a child takes steps only while that child is out.
-/
namespace PwVerif.RecoveryNest
open PwVerif PwVerif.Exec PwVerif.Recovery PwVerif.ExecNest

inductive RTree where
  | leaf
  | comp (d : Dag) (rs : RS) (kids : Nat → RTree)

def RTree.over : RTree → Bool
  | .leaf => true
  | .comp _ rs _ => phaseOver rs.s.phase

def rokAct (kids : Nat → RTree) : Act → Bool
  | .complete k => (kids k).over
  | _ => true

/-- one action of the restored composite at `path` -/
def rnstep (cfg : Cfg) : RTree → List Nat → Act → Option RTree
  | .leaf, _, _ => none
  | .comp d rs kids, [], a =>
    if rokAct kids a then (rstep Fix.none cfg d rs a).map (fun rs' => .comp d rs' kids) else none
  | .comp d rs kids, k :: p, a =>
    if rs.s.st k = .out then
      (rnstep cfg (kids k) p a).map (fun t' => .comp d rs (updF kids k t'))
    else none

def rnrun (cfg : Cfg) (t : RTree) : List (List Nat × Act) → Option RTree
  | [] => some t
  | (p, a) :: rest => match rnstep cfg t p a with
    | some t' => rnrun cfg t' rest
    | none => none

def RTree.sub : RTree → List Nat → RTree
  | t, [] => t
  | .leaf, _ :: _ => .leaf
  | .comp _ _ kids, k :: p => (kids k).sub p

variable {E : Type}

/-- which children of a level are composites -/
def isComp (kids : Nat → Tree E) (i : Nat) : Bool :=
  match kids i with
  | .leaf => false
  | .comp _ _ _ _ => true

/-- the children of a level that are run again although they had completed (no input changed here) -/
def rerunOf (rc : RCfg) (kids : Nat → Tree E) : Nat → Bool := rerunSet rc (isComp kids) (fun _ => false)

/-- the whole file, loaded, flags cleared: every level starts from its own part of it; its wiring is
the effective one (a composite child is not a function call but a loop of its own) -/
def resumeTree (rc : RCfg) : Tree E → RTree
  | .leaf => .leaf
  | .comp d _ s kids =>
    .comp (effDag d kids) (resumeFromC rc (rerunOf rc kids) (effDag d kids) s) (fun k => resumeTree rc (kids k))

end PwVerif.RecoveryNest
