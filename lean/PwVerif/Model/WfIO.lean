import PwVerif.Model.Conn
/-!
# Workflow IO (transcription of `Workflow._build_io`, the `inputs_map`/`outputs_map`
setters with `_sanitize_map`/`_deduplicate_nones`, `IO.__setattr__`, `DataIO.to_value_dict`
and `Node._outputs_to_run_return`)

A channel is a natural number (object identity).  A child has a label and two ordered
lists of `(channel label, channel id)`.  Keys are *strings*, exactly as in the code:
`scoped_label = f"{owner.label}__{label}"`, the renaming maps are keyed by those strings and
an `IO` panel is an insertion-ordered string-keyed dictionary of channels.
-/
namespace PwVerif.WfIO
open PwVerif

/-! ## The renaming maps -/

/-- a value of the `bidict`: a name, or the marker `(None, f"{k} disabled")` that
`_deduplicate_nones` writes for the key `k` -/
inductive Target
  | name (s : String)
  | disabled (k : String)
  /-- a raw `None` written into the LIVE bidict by an in-place edit (`wf.inputs_map[k] = None`) or
  carried by an assigned `bidict`; the property getter replaces it by `disabled k` on the next read -/
  | rawNone
  deriving DecidableEq, Repr

/-- what the user assigns: a `dict` key ↦ `str | None` (in insertion order) -/
abbrev UserMap := List (String × Option String)
/-- what is stored: the `bidict` key ↦ `Target` (in insertion order) -/
abbrev KeyMap := List (String × Target)

/-- `_deduplicate_nones`: every `None` value becomes the marker of its own key -/
def dedupNones (m : UserMap) : KeyMap :=
  m.map fun kv => (kv.1, match kv.2 with | some s => Target.name s | none => Target.disabled kv.1)

inductive Res | ok | dupErr | typeErr | connErr | valueErr | refused
  /-- `KeyError` / `bidict.KeyAndValueDuplicationError` of an in-place edit of the live map -/
  | keyErr | kvDupErr
  deriving DecidableEq, Repr

def ofConn : Conn.Res → Res
  | .ok => .ok | .typeErr => .typeErr | .connErr => .connErr

/-- `bidict(new_map)`: raises `ValueDuplicationError` iff two keys carry the same value -/
def bidictOk (m : KeyMap) : Bool := decide (m.map Prod.snd).Nodup

/-- `_sanitize_map` followed by the assignment `self._inputs_map = …` of the setter: the
exception of `bidict(…)` is raised *before* the attribute is written, so the old map stays. -/
def setMap (old : Option KeyMap) (new : Option UserMap) : Option KeyMap × Res :=
  match new with
  | none => (none, .ok)
  | some m =>
    let m' := dedupNones m
    if bidictOk m' then (some m', .ok) else (old, .dupErr)

/-- the setter given a `bidict`: `isinstance(new_map, dict)` is false (a `bidict` is a
`MutableMapping`, not a `dict`), so nothing is de-duplicated at assignment time and
`bidict(new_map)` stores a fresh COPY that may carry (at most one) raw `None`.  A "bidict" with
two equal values cannot have been built by the user in the first place (`dupErr` there). -/
def Target.ofUser : Option String → Target
  | some s => .name s
  | none => .rawNone

def setMapB (old : Option KeyMap) (new : UserMap) : Option KeyMap × Res :=
  let m' := new.map fun kv => (kv.1, Target.ofUser kv.2)
  if bidictOk m' then (some m', .ok) else (old, .dupErr)

/-! ## The live map object

`Workflow.inputs_map` (the property getter) returns the STORED `bidict` itself, after
`_deduplicate_nones(self._inputs_map)` has replaced every raw `None` in it, in place.  The user
can therefore edit the map entry by entry; the operations below transcribe `bidict` 0.23
(`BidictBase._dedup` / `_write` / `_update`, `MutableBidict`) on an insertion-ordered list:
`on_dup = OnDup(key=DROP_OLD, val=RAISE)` for `m[k] = v`, `update`, `setdefault` and for
`m.inverse[v] = k` (where the roles of key and value are swapped), `ON_DUP_DROP_OLD` for
`forceput`. -/

/-- `m.inverse.get(t)`: the key that carries the value `t` -/
def keyOf (m : KeyMap) (t : Target) : Option String := (m.find? fun e => e.2 == t).map Prod.fst

/-- `fwdm[k] = t` for a key that is present: the entry keeps its position -/
def setAt (m : KeyMap) (k : String) (t : Target) : KeyMap :=
  m.map fun e => if e.1 == k then (e.1, t) else e

/-- `del fwdm[k]` -/
def eraseKey (m : KeyMap) (k : String) : KeyMap := m.filter fun e => !(e.1 == k)

/-- `m[k] = t` (`put` with key=DROP_OLD, val=RAISE): the same item again is a no-op; a value
that sits under another key raises (`KeyAndValueDuplicationError` if `k` is present too,
`ValueDuplicationError` otherwise) and nothing is written; a present key gets the new value in
place; a fresh key is appended. -/
def bput (m : KeyMap) (k : String) (t : Target) : KeyMap × Res :=
  match m.lookup k, keyOf m t with
  | some _, some k' => if k' = k then (m, .ok) else (m, .kvDupErr)
  | some _, none => (setAt m k t, .ok)
  | none, some _ => (m, .dupErr)
  | none, none => (m ++ [(k, t)], .ok)

/-- `m.forceput(k, t)` (DROP_OLD for both): whatever item holds `t` under another key is dropped.
(`_write` sets `fwdm[k] = t` first and deletes the old key afterwards; the resulting list is
the same.) -/
def bforce (m : KeyMap) (k : String) (t : Target) : KeyMap :=
  match m.lookup k, keyOf m t with
  | some _, some k' => if k' = k then m else setAt (eraseKey m k') k t
  | some _, none => setAt m k t
  | none, some k' => eraseKey m k' ++ [(k, t)]
  | none, none => m ++ [(k, t)]

/-- `m.inverse[t] = k`: on the inverse the *name* is the key (DROP_OLD: the item that carried
`t` so far is dropped, `k ↦ t` is appended) and the canonical key is the value (RAISE: a `k`
that is present with another value raises). -/
def binvPut (m : KeyMap) (t : Target) (k : String) : KeyMap × Res :=
  match keyOf m t, m.lookup k with
  | some k', some _ => if k' = k then (m, .ok) else (m, .kvDupErr)
  | some k', none => (eraseKey m k' ++ [(k, t)], .ok)
  | none, some _ => (m, .dupErr)
  | none, none => (m ++ [(k, t)], .ok)

/-- the item loop of `_update` -/
def bputAll : KeyMap → List (String × Target) → KeyMap × Res
  | m, [] => (m, .ok)
  | m, kv :: rest =>
    match bput m kv.1 kv.2 with
    | (m', .ok) => bputAll m' rest
    | (m', r) => (m', r)

/-- `m.update({...})`: all items or none (`rollback` is on because `RAISE ∈ on_dup`) -/
def bupdate (m : KeyMap) (kvs : List (String × Target)) : KeyMap × Res :=
  match bputAll m kvs with
  | (m', .ok) => (m', .ok)
  | (_, r) => (m, r)

/-- `_deduplicate_nones(some_map)` of the getter, run on the live `bidict`:
`for k, v in some_map.items(): if v is None: some_map[k] = (None, f"{k} disabled")`.
An exception of the item assignment escapes the getter (and the panel access). -/
def normalizeFrom (m : KeyMap) : List (String × Target) → KeyMap × Res
  | [] => (m, .ok)
  | (k, .rawNone) :: rest =>
    match bput m k (.disabled k) with
    | (m', .ok) => normalizeFrom m' rest
    | (m', r) => (m', r)
  | _ :: rest => normalizeFrom m rest

def normalize (m : KeyMap) : KeyMap × Res := normalizeFrom m m

/-- the getter `Workflow.inputs_map` / `.outputs_map` as a state change of the stored object -/
def readMap : Option KeyMap → Option KeyMap × Res
  | none => (none, .ok)
  | some m => let r := normalize m; (some r.1, r.2)

/-- in-place edits of the live object -/
inductive Edit
  /-- `m[k] = v` -/
  | put (k : String) (v : Option String)
  /-- `del m[k]` -/
  | del (k : String)
  /-- `m.pop(k)` -/
  | pop (k : String)
  /-- `m.pop(k, None)` -/
  | popd (k : String)
  /-- `m.update({...})` / `m |= {...}` -/
  | update (kvs : UserMap)
  /-- `m.forceput(k, v)` -/
  | force (k : String) (v : Option String)
  /-- `m.inverse[v] = k` -/
  | invPut (v : Option String) (k : String)
  /-- `del m.inverse[v]` -/
  | invDel (v : Option String)
  | clear
  | popitem
  /-- `m.setdefault(k, v)` -/
  | setdefault (k : String) (v : Option String)
  deriving Repr

def editMap (m : KeyMap) : Edit → KeyMap × Res
  | .put k v => bput m k (.ofUser v)
  | .del k => if (m.lookup k).isSome then (eraseKey m k, .ok) else (m, .keyErr)
  | .pop k => if (m.lookup k).isSome then (eraseKey m k, .ok) else (m, .keyErr)
  | .popd k => (eraseKey m k, .ok)
  | .update kvs => bupdate m (kvs.map fun kv => (kv.1, Target.ofUser kv.2))
  | .force k v => (bforce m k (.ofUser v), .ok)
  | .invPut v k => binvPut m (.ofUser v) k
  | .invDel v =>
    match keyOf m (.ofUser v) with
    | some k' => (eraseKey m k', .ok)
    | none => (m, .keyErr)
  | .clear => ([], .ok)
  | .popitem => if m.isEmpty then (m, .keyErr) else (m.dropLast, .ok)
  | .setdefault k v => if (m.lookup k).isSome then (m, .ok) else bput m k (.ofUser v)

/-- the edit applied to what the getter returned; for a stored `None` the getter returns `None`:
item assignment/deletion on it is a `TypeError`, a method call an `AttributeError` -/
def editStored (m : Option KeyMap) (e : Edit) : Option KeyMap × Res :=
  match m with
  | none => (none, match e with | .put _ _ => .typeErr | .del _ => .typeErr | _ => .refused)
  | some m => let r := editMap m e; (some r.1, r.2)

/-- what the user reads off a stored value: a name, or `None` = hidden -/
def Target.view : Target → Option String
  | .name s => some s
  | _ => none

/-- the map as the user sees it (`None` meaning hidden) -/
def userView (m : KeyMap) : UserMap := m.map fun e => (e.1, e.2.view)

/-! ## `_build_io` -/

/-- a panel: insertion-ordered `channel_dict` key ↦ channel -/
abbrev Panel := List (String × Nat)

/-- the flat channel list of one side in iteration order
`for node in self.children.values(): for channel in panel:` as `(scoped_label, channel)` -/
abbrev Chans := List (String × Nat)

/-- body of the loop up to the dictionary assignment: the key under which the channel gets
assigned, or `none` if nothing is assigned.
```
try:
    io_panel_key = key_map[channel.scoped_label]
    if isinstance(io_panel_key, str): io[io_panel_key] = channel
except KeyError:
    if not channel.connected: io[channel.scoped_label] = channel
``` -/
def stepKey (m : KeyMap) (connected : Nat → Bool) (ch : String × Nat) : Option String :=
  match m.lookup ch.1 with
  | some (.name n) => some n
  | some (.disabled _) => none
  | some .rawNone => none            -- `isinstance(None, str)` is false as well: nothing is assigned
  | none => if connected ch.2 then none else some ch.1

def hasKey (io : Panel) (k : String) : Bool := io.any (fun e => e.1 == k)

/-- `io[key] = channel` → `IO.__setattr__`: a *fresh* key is inserted at the end; for a key
that is already present the code calls `existing.connect(channel)` instead — both are
channels of the same side, never conjugate, so this raises `TypeError` (C12 typing) and the
whole panel construction fails (`none`). -/
def buildFrom (m : KeyMap) (connected : Nat → Bool) : Panel → Chans → Option Panel
  | io, [] => some io
  | io, ch :: rest =>
    match stepKey m connected ch with
    | none => buildFrom m connected io rest
    | some k => if hasKey io k then none else buildFrom m connected (io ++ [(k, ch.2)]) rest

/-- `_build_io(i_or_o, key_map)`; `key_map = None` is treated as `{}` -/
def buildIO (m : Option KeyMap) (connected : Nat → Bool) (chans : Chans) : Option Panel :=
  buildFrom (m.getD []) connected [] chans

/-! ## The specification vocabulary of the property (independent of the loop above) -/

/-- explicitly exposed: the map sends the channel's canonical key to a name -/
def exposedAs (m : KeyMap) (ch : String × Nat) : Option String :=
  match m.lookup ch.1 with
  | some (.name n) => some n
  | _ => none

/-- explicitly hidden: the map sends the channel's canonical key to `None` (stored as the
disabled marker, or still raw when the live map was edited in place and not read since) -/
def isHidden (m : KeyMap) (ch : String × Nat) : Bool :=
  match m.lookup ch.1 with
  | some (.disabled _) => true
  | some .rawNone => true
  | _ => false

/-- (open ∪ explicitly exposed) \ explicitly hidden -/
def inIO (m : KeyMap) (connected : Nat → Bool) (ch : String × Nat) : Bool :=
  (!connected ch.2 || (exposedAs m ch).isSome) && !isHidden m ch

/-- the key: the mapped name if there is one, else `child-label__channel-label` -/
def keyFor (m : KeyMap) (ch : String × Nat) : String := (exposedAs m ch).getD ch.1

/-- the stated set expression, in child/channel order -/
def spec (m : Option KeyMap) (connected : Nat → Bool) (chans : Chans) : Panel :=
  (chans.filter (inIO (m.getD []) connected)).map fun ch => (keyFor (m.getD []) ch, ch.2)

/-- the same set expression read off the map AS THE USER SEES IT (`userView`: key ↦ name, or
`None` = hidden), without any reference to how `None` is stored -/
def uInIO (u : UserMap) (connected : Nat → Bool) (ch : String × Nat) : Bool :=
  match u.lookup ch.1 with
  | some (some _) => true          -- explicitly exposed / renamed, connected or not
  | some none => false             -- explicitly hidden
  | none => !connected ch.2        -- not mentioned: iff it has no connection

def uKey (u : UserMap) (ch : String × Nat) : String :=
  match u.lookup ch.1 with
  | some (some n) => n
  | _ => ch.1

def uspec (u : UserMap) (connected : Nat → Bool) (chans : Chans) : Panel :=
  (chans.filter (uInIO u connected)).map fun ch => (uKey u ch, ch.2)

/-! ## Worlds -/

structure Child where
  label : String
  ins   : List (String × Nat)
  outs  : List (String × Nat)
  deriving Repr

inductive Side | inputs | outputs
  deriving DecidableEq, Repr

def Side.kind : Side → Conn.Kind
  | .inputs => .dataIn
  | .outputs => .dataOut

def Child.side (c : Child) : Side → List (String × Nat)
  | .inputs => c.ins
  | .outputs => c.outs

def scopedLabel (child chan : String) : String := child ++ "__" ++ chan

def Child.chans (c : Child) (s : Side) : Chans := (c.side s).map fun lc => (scopedLabel c.label lc.1, lc.2)

def Child.ids (c : Child) : List Nat := c.ins.map Prod.snd ++ c.outs.map Prod.snd

/-- values are opaque tokens (free terms printed canonically) -/
abbrev Val := String

structure W where
  children : List Child
  g        : Conn.G
  imap     : Option KeyMap
  omap     : Option KeyMap
  val      : Nat → Val
  /-- outcome of the hint check of the value setter (a parameter; C03's subject) -/
  admits   : Nat → Val → Bool

def W.connected (w : W) (c : Nat) : Bool := !(w.g.conns c).isEmpty

def W.map (w : W) : Side → Option KeyMap
  | .inputs => w.imap
  | .outputs => w.omap

def W.chans (w : W) (s : Side) : Chans := w.children.flatMap (·.chans s)

/-- `workflow.inputs` / `workflow.outputs`: rebuilt from the live structure on every access -/
def W.panel (w : W) (s : Side) : Option Panel := buildIO (w.map s) w.connected (w.chans s)

def W.spec (w : W) (s : Side) : Panel := WfIO.spec (w.map s) w.connected (w.chans s)

def panelGet (p : Panel) (k : String) : Option Nat := p.lookup k

/-- `channel.value = v` on a child's channel (refused by the hint check ⇒ unchanged) -/
def setValue (w : W) (c : Nat) (v : Val) : W × Res :=
  if w.admits c v then ({ w with val := updF w.val c v }, .ok) else (w, .typeErr)

/-- `workflow.inputs.<k> = v` (`v` not a channel): `IO.__setattr__` on the freshly built panel -/
def assignVia (w : W) (s : Side) (k : String) (v : Val) : W × Res :=
  match w.panel s with
  | none => (w, .typeErr)               -- building the panel raised
  | some p =>
    match panelGet p k with
    | some c => setValue w c v
    | none => (w, .typeErr)             -- "Can only set Channel object or connect to existing channels"

/-- the assignment loop of `set_input_values`: stops at the first refusal, earlier ones stay -/
def assignAll (w : W) : List (String × Val) → W × Res
  | [] => (w, .ok)
  | kv :: rest =>
    match assignVia w .inputs kv.1 kv.2 with
    | (w', .ok) => assignAll w' rest
    | (w', r) => (w', r)

/-- `workflow(**kwargs)` before the run proper: `set_input_values` builds the panel
(`self.inputs.labels`), refuses unknown keys with `ValueError` before assigning anything,
then assigns through the panel one by one -/
def setInputValues (w : W) (kw : List (String × Val)) : W × Res :=
  match w.panel .inputs with
  | none => (w, .typeErr)
  | some p =>
    if kw.all (fun kv => (panelGet p kv.1).isSome) then assignAll w kw else (w, .valueErr)

/-- `workflow.inputs.<k> = <output channel b>`: connects the *child* channel -/
def connectVia (w : W) (s : Side) (k : String) (b : Nat) : W × Res :=
  match w.panel s with
  | none => (w, .typeErr)
  | some p =>
    match panelGet p k with
    | some c =>
      let r := Conn.connect1 w.g c b
      ({ w with g := r.1 }, ofConn r.2)
    | none =>
      -- fresh key: a channel of the panel's own class is stored in the *temporary* panel
      -- (no lasting effect), anything else is a `TypeError`
      if w.g.kind b = s.kind then (w, .ok) else (w, .typeErr)

/-- `DataIO.to_value_dict` of the outputs panel = `Node._outputs_to_run_return` -/
def valueDict (w : W) (p : Panel) : List (String × Val) := p.map fun e => (e.1, w.val e.2)

/-- value returned by `workflow()` given the world as the run left it -/
def runReturn (w : W) : Option (List (String × Val)) := (w.panel .outputs).map (valueDict w)

/-! ## `Workflow._rebuild_data_io` (the last step of `Workflow.replace_child`) -/

/-- how `_rebuild_data_io` indexes the new panel for a connected entry of the old panel:
the pinned code uses the child channel's own label (`new[old_channel.label]`), the repaired
code the panel key -/
inductive RebuildKey | chanLabel | panelKey
  deriving DecidableEq, Repr

/-- the own label of channel `c` (`channel.label`) -/
def W.labelOf (w : W) (s : Side) (c : Nat) : String :=
  (((w.children.flatMap (fun ch => ch.side s)).find? (fun lc => lc.2 == c)).map Prod.fst).getD ""

/-- old and new panel are both built from the already swapped children; every *connected*
entry of the old panel is then looked up in the new one. A failed lookup (or a panel that
cannot be built) raises; `replace_child` answers by calling itself to revert, which fails
the same way, until the recursion limit. -/
def rebuildLookupOk (cfg : RebuildKey) (w : W) (s : Side) : Bool :=
  match w.panel s with
  | none => false
  | some p => p.all fun e => !w.connected e.2 ||
      (panelGet p (match cfg with | .chanLabel => w.labelOf s e.2 | .panelKey => e.1)).isSome

def rebuildOk (cfg : RebuildKey) (w : W) : Bool :=
  rebuildLookupOk cfg w .inputs && rebuildLookupOk cfg w .outputs

/-! ## Editing operations -/

def registerChans (g : Conn.G) (k : Conn.Kind) : List Nat → Conn.G
  | [] => g
  | c :: cs => registerChans { g with kind := updF g.kind c k } k cs

/-- `add_child` with the default strict naming: a label already in use is refused -/
def addChild (w : W) (c : Child) : W × Res :=
  if w.children.any (fun d => d.label == c.label) then (w, .refused)
  else
    let g1 := registerChans w.g .dataIn (c.ins.map Prod.snd)
    let g2 := registerChans g1 .dataOut (c.outs.map Prod.snd)
    ({ w with children := w.children ++ [c], g := g2 }, .ok)

/-- `remove_child`: dropped from `children`, then `child.disconnect()` -/
def removeChild (w : W) (label : String) : W × Res :=
  match w.children.find? (fun d => d.label == label) with
  | none => (w, .refused)
  | some c =>
    ({ w with children := w.children.filter (fun d => !(d.label == label)),
              g := Conn.disconnectChans w.g c.ids }, .ok)

/-! ## `Workflow.replace_child` (same-labelled replacement: the structure; values are C14's) -/

/-- the replacement's channel `cn` takes the place of `co` in the graph: it gets `co`'s
connections, every partner now lists `cn` where it listed `co`, `co` is left unconnected
(`copy_io` + `_seat_replacement` + the `disconnect()` of `remove_child`; the position inside
the partners' lists is kept, which is C14's subject and of no consequence here) -/
def moveConns (g : Conn.G) : List (Nat × Nat) → Conn.G
  | [] => g
  | (co, cn) :: rest =>
    let ps := g.conns co
    moveConns { g with conns := fun x =>
      if x = cn then ps.map (fun y => if y = co then cn else y)
      else if x = co then []
      else (g.conns x).map (fun y => if y = co then cn else y) } rest

/-- `Workflow.replace_child(label, new)` for an unconnected parentless `new` that has at least the
channels of the child it replaces (anything else is refused by `copy_io` before anything
changes — C14) and carries a label of its OWN.  In this order: both panels are read (value links
of the composite IO) — a panel that cannot be built raises `TypeError`; then
`_ensure_io_survives_replacement` works out the keys the IO WOULD have once the replacement sits
in under the OLD child's label with its connections (channels only the replacement has are
unconnected; the maps may mention them) and raises `ValueError` if two of them coincide — all
while nothing has changed; then the composite swaps the nodes (the replacement goes to the END
of `children` under the old label and takes the connections over, the replaced node is free) and
`_rebuild_data_io` finds nothing to move.
`ownLabelCheck = true` is the variant whose up-front check keys the replacement's channels by the
label it carries at that moment: a clash it overlooks surfaces after the swap, when it is too late. -/
def W.buildable (w : W) : Bool := (w.panel .inputs).isSome && (w.panel .outputs).isSome

/-- the replacement has (at least) the channels of the child it replaces -/
def superset (old new : Child) : Bool :=
  (old.ins.map Prod.fst).all (new.ins.map Prod.fst).contains && (old.outs.map Prod.fst).all (new.outs.map Prod.fst).contains

/-- the world after the composite-level swap, the replacement filed under `lab` -/
def replaceSwap (w : W) (old : Child) (label lab : String) (new : Child) : W :=
  let rest := w.children.filter (fun d => !(d.label == label))
  let pairs := old.ins.filterMap (fun lc => (new.ins.lookup lc.1).map fun cn => (lc.2, cn)) ++
    old.outs.filterMap (fun lc => (new.outs.lookup lc.1).map fun cn => (lc.2, cn))
  let g1 := registerChans (registerChans w.g .dataIn (new.ins.map Prod.snd)) .dataOut (new.outs.map Prod.snd)
  { w with children := rest ++ [{ new with label := lab }], g := moveConns g1 pairs }

def replaceChild (ownLabelCheck : Bool) (w : W) (label : String) (new : Child) : W × Res :=
  match w.children.find? (fun d => d.label == label) with
  | none => (w, .refused)
  | some old =>
    if !superset old new then (w, .refused)
    else if (w.panel .inputs).isNone || (!old.outs.isEmpty && (w.panel .outputs).isNone) then (w, .typeErr)
    else if !(replaceSwap w old label (if ownLabelCheck then new.label else label) new).buildable then (w, .valueErr)
    else if (replaceSwap w old label label new).buildable then (replaceSwap w old label label new, .ok)
    else (replaceSwap w old label label new, .typeErr)   -- only reachable with `ownLabelCheck`: half-replaced

/-! ## Re-labelling a held child (`wf.add_child(child, label=…)`, `wf[label] = child`, `wf.label = child`) -/

/-- the label argument: a string, a string that is an attribute or method of the workflow
(`label in self.__dir__()`, not a child), or something that is no string at all -/
inductive LabelArg
  | str (s : String)
  | attr (s : String)
  | nonStr
  deriving Repr, DecidableEq

def hasDelim (s : String) : Bool := s.toList.contains '/'

/-- `LexicalParent.add_child(child, label)` for a child the workflow already holds under `old`.
`popFirst = false` is the code as it is: the label setter of the child validates the new label
BEFORE the stale entry is popped from `children`; `popFirst = true` is the variant that pops
first (what a refused label then leaves behind).  An accepted re-label files the child at the
END of `children` (`children.inv.pop(child); children[label] = child`). -/
def relabelChild (popFirst : Bool) (w : W) (old : String) (new : LabelArg) : W × Res :=
  match w.children.find? (fun d => d.label == old) with
  | none => (w, .refused)
  | some c =>
    let rest := w.children.filter (fun d => !(d.label == old))
    match new with
    | .attr _ => (w, .refused)                       -- `_get_unique_label`: AttributeError
    | .nonStr => (if popFirst then { w with children := rest } else w, .typeErr)
    | .str s =>
      if s == old then (w, .ok)                      -- already at this label
      else if w.children.any (fun d => d.label == s) then (w, .refused)   -- strict naming: AttributeError
      else if hasDelim s then (if popFirst then { w with children := rest } else w, .valueErr)
      else ({ w with children := rest ++ [{ c with label := s }] }, .ok)

/-! ## A pull of a child (`child.pull()`, `child()`): `Node.run_data_tree` -/

/-- one step of the upstream closure: children with an output connected to an input of a listed child -/
def upstreamStep (w : W) (labs : List String) : List String :=
  let ins := (w.children.filter (fun c => labs.contains c.label)).flatMap (fun c => c.ins.map Prod.snd)
  let feeding := w.children.filter fun c => c.outs.any fun o => ins.any fun i => (w.g.conns i).contains o.2
  labs ++ (feeding.map (·.label)).filter (fun l => !labs.contains l)

def closeUp (w : W) : Nat → List String → List String
  | 0, labs => labs
  | n + 1, labs => closeUp w n (upstreamStep w labs)

/-- `get_nodes_in_data_tree(child)`, restricted to the children of the workflow -/
def dataTree (w : W) (l : String) : List String := closeUp w w.children.length [l]

/-- `node.label + str(id(node))` (the identity of a node is that of its first channel) -/
def tmpLabel (c : Child) : String := c.label ++ "#" ++ toString (c.ids.headD 0)

/-- the nodes of the data tree get their temporary unique labels … -/
def labelTemp (tree : List String) (cs : List Child) : List Child :=
  cs.map fun c => if tree.contains c.label then { c with label := tmpLabel c } else c

/-- … and every NODE gets the label it had before (`label_map`, by node) -/
def labelBack : List Child → List Child → List Child
  | o :: os, c :: cs => { c with label := o.label } :: labelBack os cs
  | _, cs => cs

/-- a pull on the child `l`: temporary labels, the upstream run (its effect on values and whether
it raised are observed: C01/C06), then — `restoreOnFailure = true` is the code as it is, a
`finally` — the labels are put back; connections and starting nodes likewise (C11).  Nothing of
the structure the workflow IO is built from has changed afterwards. -/
def pullChild (restoreOnFailure : Bool) (w : W) (l : String) (fails : Bool) : W :=
  if !(w.children.any fun c => c.label == l) then w else
  let tmp := labelTemp (dataTree w l) w.children
  if fails && !restoreOnFailure then { w with children := tmp }
  else { w with children := labelBack w.children tmp }

/-! ## In-place `child.load()` of a workflow child -/

/-- the data channels of a node keyed as `Node.load` keys them: (class of the channel, label) -/
def keyedChans (c : Child) : List ((Bool × String) × Nat) :=
  c.ins.map (fun lc => ((true, lc.1), lc.2)) ++ c.outs.map (fun lc => ((false, lc.1), lc.2))

/-- `new_channels.get(…)`: by (class, label) — the code as it is —, or by label only, where the
dict comprehension lets the LAST channel of that label win (an output over the same-named input) -/
def loadedChannel (byLabelOnly : Bool) (new : Child) (key : Bool × String) : Option Nat :=
  if byLabelOnly then ((keyedChans new).reverse.find? (fun e => e.1.2 == key.2)).map (·.2)
  else ((keyedChans new).find? (fun e => e.1 == key)).map (·.2)

/-- `child.load()` in place: `__setstate__` gives the node NEW channel objects (`new`: same labels,
fresh ids, stored values); every old channel hands its connections to the loaded channel found
for it (`new.connections = old.connections`, the partners list `new` where they listed `old`, the
old channel lets go).  The node stays where it is in `children`, under its label. -/
def loadChild (byLabelOnly : Bool) (w : W) (label : String) (new : Child) : W × Res :=
  match w.children.find? (fun d => d.label == label) with
  | none => (w, .refused)
  | some old =>
    let pairs := (keyedChans old).filterMap fun e => (loadedChannel byLabelOnly new e.1).map fun cn => (e.2, cn)
    let g1 := registerChans (registerChans w.g .dataIn (new.ins.map Prod.snd)) .dataOut (new.outs.map Prod.snd)
    ({ w with children := w.children.map (fun d => if d.label == label then { new with label := label } else d),
              g := moveConns g1 pairs }, .ok)

/-- what `panel[key]` would give if item access went through `getattr(panel, key)`: a name that
is an attribute or method of the panel class shadows the channel (NOT what the code does) -/
def itemViaGetattr (classAttrs : List String) (p : Panel) (k : String) : Option Nat :=
  if classAttrs.contains k then none else panelGet p k

/-- the run-return variant that leaves out outputs still holding the `NOT_DATA` placeholder
(NOT what the code does; see `C15_return_keys`) -/
def runReturnSkipND (w : W) : Option (List (String × Val)) :=
  (runReturn w).map fun r => r.filter fun e => e.2 != "ND"

inductive Op
  | add (c : Child)
  | remove (label : String)
  | connect (a b : Nat)
  | disconnect (a b : Nat)
  | disconnectAll (a : Nat)
  | setMap (s : Side) (m : Option UserMap)
  | assign (s : Side) (k : String) (v : Val)
  | connectVia (s : Side) (k : String) (b : Nat)
  /-- anything else that happens to values (running children, fetching, …) -/
  | setVal (c : Nat) (v : Val)
  /-- `wf.inputs_map = bidict(...)` (no clean-up at assignment time, a copy is stored) -/
  | setMapB (s : Side) (m : UserMap)
  /-- the property getter `wf.inputs_map` / `wf.outputs_map` (also called by every access of
  `wf.inputs` / `wf.outputs`): cleans the stored object in place -/
  | read (s : Side)
  /-- an in-place edit of the live object the getter returned (no clean-up before or after) -/
  | edit (s : Side) (e : Edit)
  /-- `wf.replace_child(label, new)` -/
  | replace (label : String) (new : Child)
  /-- re-labelling a held child through the workflow -/
  | relabel (old : String) (new : LabelArg)
  /-- `child.pull()` / `child()`; `fails` = the upstream run raised -/
  | pull (label : String) (fails : Bool)
  /-- `child.load()` in place -/
  | load (label : String) (new : Child)
  deriving Repr

def step (w : W) : Op → W × Res
  | .add c => addChild w c
  | .remove l => removeChild w l
  | .connect a b =>
    let r := Conn.connect1 w.g a b
    ({ w with g := r.1 }, ofConn r.2)
  | .disconnect a b => ({ w with g := Conn.disconnect1 w.g a b }, .ok)
  | .disconnectAll a => ({ w with g := Conn.disconnectAll w.g a }, .ok)
  | .setMap .inputs m => let r := setMap w.imap m; ({ w with imap := r.1 }, r.2)
  | .setMap .outputs m => let r := setMap w.omap m; ({ w with omap := r.1 }, r.2)
  | .assign s k v => assignVia w s k v
  | .connectVia s k b => connectVia w s k b
  | .setVal c v => ({ w with val := updF w.val c v }, .ok)
  | .setMapB .inputs m => let r := setMapB w.imap m; ({ w with imap := r.1 }, r.2)
  | .setMapB .outputs m => let r := setMapB w.omap m; ({ w with omap := r.1 }, r.2)
  | .read .inputs => let r := readMap w.imap; ({ w with imap := r.1 }, r.2)
  | .read .outputs => let r := readMap w.omap; ({ w with omap := r.1 }, r.2)
  | .edit .inputs e => let r := editStored w.imap e; ({ w with imap := r.1 }, r.2)
  | .edit .outputs e => let r := editStored w.omap e; ({ w with omap := r.1 }, r.2)
  | .replace l c => replaceChild false w l c
  | .relabel o n => relabelChild false w o n
  | .pull l f => (pullChild true w l f, .ok)
  | .load l c => loadChild false w l c

/-- `wf.inputs` / `wf.outputs` as the code runs it: the getter cleans the stored map (state
change; its exception escapes), then `_build_io` reads it -/
def W.access (w : W) (s : Side) : W × Option Panel :=
  let r := step w (.read s)
  (r.1, if r.2 = .ok then r.1.panel s else none)

def run (w : W) (ops : List Op) : W := ops.foldl (fun w o => (step w o).1) w

def empty (admits : Nat → Val → Bool) (valid : Nat → Nat → Bool) : W :=
  { children := [], imap := none, omap := none, val := fun _ => "ND", admits,
    g := { kind := fun _ => .dataIn, owner := fun _ => 0, valid, conns := fun _ => [] } }

end PwVerif.WfIO
