import PwVerif.Model.Conn
/-!
# Workflow IO (transcription of `Workflow._build_io`, the `inputs_map`/`outputs_map`
setters with `_sanitize_map`/`_deduplicate_nones`, `IO.__setattr__`, `DataIO.to_value_dict`
and `Node._outputs_to_run_return`)

A channel is a natural number (object identity).  A child has a label and two ordered
lists of `(channel label, channel id)`.  Keys are *strings*, exactly as in the code:
`scoped_label = f"{owner.label}__{label}"`, the renaming maps are keyed by those strings and
an `IO` panel is an insertion-ordered string-keyed dictionary of channels.
-/
namespace PwVerif.WfIO
open PwVerif

/-! ## The renaming maps -/

/-- a value of the `bidict`: a name, or the marker `(None, f"{k} disabled")` that
`_deduplicate_nones` writes for the key `k` -/
inductive Target
  | name (s : String)
  | disabled (k : String)
  deriving DecidableEq, Repr

/-- what the user assigns: a `dict` key ↦ `str | None` (in insertion order) -/
abbrev UserMap := List (String × Option String)
/-- what is stored: the `bidict` key ↦ `Target` (in insertion order) -/
abbrev KeyMap := List (String × Target)

/-- `_deduplicate_nones`: every `None` value becomes the marker of its own key -/
def dedupNones (m : UserMap) : KeyMap :=
  m.map fun kv => (kv.1, match kv.2 with | some s => Target.name s | none => Target.disabled kv.1)

inductive Res | ok | dupErr | typeErr | connErr | valueErr | refused
  deriving DecidableEq, Repr

def ofConn : Conn.Res → Res
  | .ok => .ok | .typeErr => .typeErr | .connErr => .connErr

/-- `bidict(new_map)`: raises `ValueDuplicationError` iff two keys carry the same value -/
def bidictOk (m : KeyMap) : Bool := decide (m.map Prod.snd).Nodup

/-- `_sanitize_map` followed by the assignment `self._inputs_map = …` of the setter: the
exception of `bidict(…)` is raised *before* the attribute is written, so the old map stays. -/
def setMap (old : Option KeyMap) (new : Option UserMap) : Option KeyMap × Res :=
  match new with
  | none => (none, .ok)
  | some m =>
    let m' := dedupNones m
    if bidictOk m' then (some m', .ok) else (old, .dupErr)

/-! ## `_build_io` -/

/-- a panel: insertion-ordered `channel_dict` key ↦ channel -/
abbrev Panel := List (String × Nat)

/-- the flat channel list of one side in iteration order
`for node in self.children.values(): for channel in panel:` as `(scoped_label, channel)` -/
abbrev Chans := List (String × Nat)

/-- body of the loop up to the dictionary assignment: the key under which the channel gets
assigned, or `none` if nothing is assigned.
```
try:
    io_panel_key = key_map[channel.scoped_label]
    if isinstance(io_panel_key, str): io[io_panel_key] = channel
except KeyError:
    if not channel.connected: io[channel.scoped_label] = channel
``` -/
def stepKey (m : KeyMap) (connected : Nat → Bool) (ch : String × Nat) : Option String :=
  match m.lookup ch.1 with
  | some (.name n) => some n
  | some (.disabled _) => none
  | none => if connected ch.2 then none else some ch.1

def hasKey (io : Panel) (k : String) : Bool := io.any (fun e => e.1 == k)

/-- `io[key] = channel` → `IO.__setattr__`: a *fresh* key is inserted at the end; for a key
that is already present the code calls `existing.connect(channel)` instead — both are
channels of the same side, never conjugate, so this raises `TypeError` (C12 typing) and the
whole panel construction fails (`none`). -/
def buildFrom (m : KeyMap) (connected : Nat → Bool) : Panel → Chans → Option Panel
  | io, [] => some io
  | io, ch :: rest =>
    match stepKey m connected ch with
    | none => buildFrom m connected io rest
    | some k => if hasKey io k then none else buildFrom m connected (io ++ [(k, ch.2)]) rest

/-- `_build_io(i_or_o, key_map)`; `key_map = None` is treated as `{}` -/
def buildIO (m : Option KeyMap) (connected : Nat → Bool) (chans : Chans) : Option Panel :=
  buildFrom (m.getD []) connected [] chans

/-! ## The specification vocabulary of the property (independent of the loop above) -/

/-- explicitly exposed: the map sends the channel's canonical key to a name -/
def exposedAs (m : KeyMap) (ch : String × Nat) : Option String :=
  match m.lookup ch.1 with
  | some (.name n) => some n
  | _ => none

/-- explicitly hidden: the map sends the channel's canonical key to the disabled marker -/
def isHidden (m : KeyMap) (ch : String × Nat) : Bool :=
  match m.lookup ch.1 with
  | some (.disabled _) => true
  | _ => false

/-- (open ∪ explicitly exposed) \ explicitly hidden -/
def inIO (m : KeyMap) (connected : Nat → Bool) (ch : String × Nat) : Bool :=
  (!connected ch.2 || (exposedAs m ch).isSome) && !isHidden m ch

/-- the key: the mapped name if there is one, else `child-label__channel-label` -/
def keyFor (m : KeyMap) (ch : String × Nat) : String := (exposedAs m ch).getD ch.1

/-- the stated set expression, in child/channel order -/
def spec (m : Option KeyMap) (connected : Nat → Bool) (chans : Chans) : Panel :=
  (chans.filter (inIO (m.getD []) connected)).map fun ch => (keyFor (m.getD []) ch, ch.2)

/-! ## Worlds -/

structure Child where
  label : String
  ins   : List (String × Nat)
  outs  : List (String × Nat)
  deriving Repr

inductive Side | inputs | outputs
  deriving DecidableEq, Repr

def Side.kind : Side → Conn.Kind
  | .inputs => .dataIn
  | .outputs => .dataOut

def Child.side (c : Child) : Side → List (String × Nat)
  | .inputs => c.ins
  | .outputs => c.outs

def scopedLabel (child chan : String) : String := child ++ "__" ++ chan

def Child.chans (c : Child) (s : Side) : Chans := (c.side s).map fun lc => (scopedLabel c.label lc.1, lc.2)

def Child.ids (c : Child) : List Nat := c.ins.map Prod.snd ++ c.outs.map Prod.snd

/-- values are opaque tokens (free terms printed canonically) -/
abbrev Val := String

structure W where
  children : List Child
  g        : Conn.G
  imap     : Option KeyMap
  omap     : Option KeyMap
  val      : Nat → Val
  /-- outcome of the hint check of the value setter (a parameter; C03's subject) -/
  admits   : Nat → Val → Bool

def W.connected (w : W) (c : Nat) : Bool := !(w.g.conns c).isEmpty

def W.map (w : W) : Side → Option KeyMap
  | .inputs => w.imap
  | .outputs => w.omap

def W.chans (w : W) (s : Side) : Chans := w.children.flatMap (·.chans s)

/-- `workflow.inputs` / `workflow.outputs`: rebuilt from the live structure on every access -/
def W.panel (w : W) (s : Side) : Option Panel := buildIO (w.map s) w.connected (w.chans s)

def W.spec (w : W) (s : Side) : Panel := WfIO.spec (w.map s) w.connected (w.chans s)

def panelGet (p : Panel) (k : String) : Option Nat := p.lookup k

/-- `channel.value = v` on a child's channel (refused by the hint check ⇒ unchanged) -/
def setValue (w : W) (c : Nat) (v : Val) : W × Res :=
  if w.admits c v then ({ w with val := updF w.val c v }, .ok) else (w, .typeErr)

/-- `workflow.inputs.<k> = v` (`v` not a channel): `IO.__setattr__` on the freshly built panel -/
def assignVia (w : W) (s : Side) (k : String) (v : Val) : W × Res :=
  match w.panel s with
  | none => (w, .typeErr)               -- building the panel raised
  | some p =>
    match panelGet p k with
    | some c => setValue w c v
    | none => (w, .typeErr)             -- "Can only set Channel object or connect to existing channels"

/-- the assignment loop of `set_input_values`: stops at the first refusal, earlier ones stay -/
def assignAll (w : W) : List (String × Val) → W × Res
  | [] => (w, .ok)
  | kv :: rest =>
    match assignVia w .inputs kv.1 kv.2 with
    | (w', .ok) => assignAll w' rest
    | (w', r) => (w', r)

/-- `workflow(**kwargs)` before the run proper: `set_input_values` builds the panel
(`self.inputs.labels`), refuses unknown keys with `ValueError` before assigning anything,
then assigns through the panel one by one -/
def setInputValues (w : W) (kw : List (String × Val)) : W × Res :=
  match w.panel .inputs with
  | none => (w, .typeErr)
  | some p =>
    if kw.all (fun kv => (panelGet p kv.1).isSome) then assignAll w kw else (w, .valueErr)

/-- `workflow.inputs.<k> = <output channel b>`: connects the *child* channel -/
def connectVia (w : W) (s : Side) (k : String) (b : Nat) : W × Res :=
  match w.panel s with
  | none => (w, .typeErr)
  | some p =>
    match panelGet p k with
    | some c =>
      let r := Conn.connect1 w.g c b
      ({ w with g := r.1 }, ofConn r.2)
    | none =>
      -- fresh key: a channel of the panel's own class is stored in the *temporary* panel
      -- (no lasting effect), anything else is a `TypeError`
      if w.g.kind b = s.kind then (w, .ok) else (w, .typeErr)

/-- `DataIO.to_value_dict` of the outputs panel = `Node._outputs_to_run_return` -/
def valueDict (w : W) (p : Panel) : List (String × Val) := p.map fun e => (e.1, w.val e.2)

/-- value returned by `workflow()` given the world as the run left it -/
def runReturn (w : W) : Option (List (String × Val)) := (w.panel .outputs).map (valueDict w)

/-! ## `Workflow._rebuild_data_io` (the last step of `Workflow.replace_child`) -/

/-- how `_rebuild_data_io` indexes the new panel for a connected entry of the old panel:
the pinned code uses the child channel's own label (`new[old_channel.label]`), the repaired
code the panel key -/
inductive RebuildKey | chanLabel | panelKey
  deriving DecidableEq, Repr

/-- the own label of channel `c` (`channel.label`) -/
def W.labelOf (w : W) (s : Side) (c : Nat) : String :=
  (((w.children.flatMap (fun ch => ch.side s)).find? (fun lc => lc.2 == c)).map Prod.fst).getD ""

/-- old and new panel are both built from the already swapped children; every *connected*
entry of the old panel is then looked up in the new one. A failed lookup (or a panel that
cannot be built) raises; `replace_child` answers by calling itself to revert, which fails
the same way, until the recursion limit. -/
def rebuildLookupOk (cfg : RebuildKey) (w : W) (s : Side) : Bool :=
  match w.panel s with
  | none => false
  | some p => p.all fun e => !w.connected e.2 ||
      (panelGet p (match cfg with | .chanLabel => w.labelOf s e.2 | .panelKey => e.1)).isSome

def rebuildOk (cfg : RebuildKey) (w : W) : Bool :=
  rebuildLookupOk cfg w .inputs && rebuildLookupOk cfg w .outputs

/-! ## Editing operations -/

def registerChans (g : Conn.G) (k : Conn.Kind) : List Nat → Conn.G
  | [] => g
  | c :: cs => registerChans { g with kind := updF g.kind c k } k cs

/-- `add_child` with the default strict naming: a label already in use is refused -/
def addChild (w : W) (c : Child) : W × Res :=
  if w.children.any (fun d => d.label == c.label) then (w, .refused)
  else
    let g1 := registerChans w.g .dataIn (c.ins.map Prod.snd)
    let g2 := registerChans g1 .dataOut (c.outs.map Prod.snd)
    ({ w with children := w.children ++ [c], g := g2 }, .ok)

/-- `remove_child`: dropped from `children`, then `child.disconnect()` -/
def removeChild (w : W) (label : String) : W × Res :=
  match w.children.find? (fun d => d.label == label) with
  | none => (w, .refused)
  | some c =>
    ({ w with children := w.children.filter (fun d => !(d.label == label)),
              g := Conn.disconnectChans w.g c.ids }, .ok)

inductive Op
  | add (c : Child)
  | remove (label : String)
  | connect (a b : Nat)
  | disconnect (a b : Nat)
  | disconnectAll (a : Nat)
  | setMap (s : Side) (m : Option UserMap)
  | assign (s : Side) (k : String) (v : Val)
  | connectVia (s : Side) (k : String) (b : Nat)
  /-- anything else that happens to values (running children, fetching, …) -/
  | setVal (c : Nat) (v : Val)
  deriving Repr

def step (w : W) : Op → W × Res
  | .add c => addChild w c
  | .remove l => removeChild w l
  | .connect a b =>
    let r := Conn.connect1 w.g a b
    ({ w with g := r.1 }, ofConn r.2)
  | .disconnect a b => ({ w with g := Conn.disconnect1 w.g a b }, .ok)
  | .disconnectAll a => ({ w with g := Conn.disconnectAll w.g a }, .ok)
  | .setMap .inputs m => let r := setMap w.imap m; ({ w with imap := r.1 }, r.2)
  | .setMap .outputs m => let r := setMap w.omap m; ({ w with omap := r.1 }, r.2)
  | .assign s k v => assignVia w s k v
  | .connectVia s k b => connectVia w s k b
  | .setVal c v => ({ w with val := updF w.val c v }, .ok)

def run (w : W) (ops : List Op) : W := ops.foldl (fun w o => (step w o).1) w

def empty (admits : Nat → Val → Bool) (valid : Nat → Nat → Bool) : W :=
  { children := [], imap := none, omap := none, val := fun _ => "ND", admits,
    g := { kind := fun _ => .dataIn, owner := fun _ => 0, valid, conns := fun _ => [] } }

end PwVerif.WfIO
