/-!
# Per-class IO preview of macro classes (C09, interface clause) — transcription of
`ScrapesIO._get_output_labels` (`pyiron_workflow/mixin/preview.py`) under class inheritance

A class table: class `c` may extend an earlier class (`parent c < c`), may define its own
`graph_creator` in its body (`ownFn`), may set `_output_labels` in its body (`declared`). Attribute
lookup walks the chain of parents (single inheritance MRO). Scraping a function's return statement is a
parameter (`scrape`). Labels are lists of numbers (tokens).

* pinned (before 3b85419): scraped labels are stored in the class attribute `_output_labels` of the class
  that was asked — where attribute lookup on every class extending it finds them;
* repaired: explicit `_output_labels` win (also inherited ones — ordinary attribute semantics); scraped
  labels are stored together with the function they were scraped from and are re-scraped when the
  defining function of the asking class is another one.
-/
namespace PwVerif.Preview

abbrev Labels := List Nat

structure Classes where
  parent : Nat → Option Nat
  ownFn : Nat → Option Nat
  declared : Nat → Option Labels
  /-- `scrape f`: what `ParseOutput` finds in function `f` -/
  scrape : Nat → Labels
  /-- the function of `Macro` itself (abstract), found when no class of the chain defines one -/
  rootFn : Nat

/-- attribute lookup along the chain of parents; `fuel` bounds the chain length -/
def lookup {α} (cs : Classes) (tbl : Nat → Option α) : Nat → Nat → Option α
  | 0, c => tbl c
  | fuel + 1, c =>
    match tbl c with
    | some x => some x
    | none =>
      match cs.parent c with
      | some p => lookup cs tbl fuel p
      | none => none

/-- `cls.graph_creator`: the function defined by the nearest class of the chain -/
def fnOf (cs : Classes) (fuel c : Nat) : Nat := (lookup cs cs.ownFn fuel c).getD cs.rootFn

/-- the lazily filled caches -/
structure Cache where
  /-- pinned: `_output_labels` written by `_get_output_labels` on the asking class -/
  attr : Nat → Option Labels
  /-- repaired: `_scraped_output_labels = (function, labels)` written on the asking class -/
  slot : Nat → Option (Nat × Labels)

def Cache.empty : Cache := { attr := fun _ => none, slot := fun _ => none }

def upd {α} (f : Nat → α) (a : Nat) (v : α) : Nat → α := fun x => if x = a then v else f x

/-- pinned `_get_output_labels(cls)`: returns the labels and the cache afterwards -/
def getPinned (cs : Classes) (fuel : Nat) (k : Cache) (c : Nat) : Labels × Cache :=
  -- `cls._output_labels` sees explicit values and lazily cached ones alike, own before inherited
  match lookup cs (fun x => match cs.declared x with | some l => some l | none => k.attr x) fuel c with
  | some l => (l, k)
  | none =>
    let l := cs.scrape (fnOf cs fuel c)
    (l, { k with attr := upd k.attr c (some l) })

/-- repaired `_get_output_labels(cls)` -/
def getRepaired (cs : Classes) (fuel : Nat) (k : Cache) (c : Nat) : Labels × Cache :=
  match lookup cs cs.declared fuel c with
  | some l => (l, k)
  | none =>
    let f := fnOf cs fuel c
    match lookup cs k.slot fuel c with
    | some (g, l) =>
      if g = f then (l, k)
      else (cs.scrape f, { k with slot := upd k.slot c (some (f, cs.scrape f)) })
    | none => (cs.scrape f, { k with slot := upd k.slot c (some (f, cs.scrape f)) })

/-- a history of preview requests -/
def runReqs (get : Cache → Nat → Labels × Cache) : Cache → List Nat → List Labels
  | _, [] => []
  | k, c :: cs => (get k c).1 :: runReqs get (get k c).2 cs

/-- what the property demands: the labels of the class's OWN defining function, unless labels were given
explicitly (in the class or a class it extends) -/
def spec (cs : Classes) (fuel c : Nat) : Labels :=
  match lookup cs cs.declared fuel c with
  | some l => l
  | none => cs.scrape (fnOf cs fuel c)


/-! ## the class factory behind `as_macro_node` / `macro_node`

`macro_node_factory` (a `classfactory`) keeps the classes it made in a registry keyed by the class name —
the creator's bare `__name__`. The decorator first evicts the entry ("force a fresh class") and then asks
the factory, which builds a class from the creator unless the registry still has one under that key.
A class is identified with the creator it was built from. -/

/-- `key c`: the registry key of creator `c` (its bare name); `evict c`: the key the wrapper clears first -/
def makeClass (evict key : Nat → Nat) (reg : Nat → Option Nat) (c : Nat) : Nat × (Nat → Option Nat) :=
  let reg1 := upd reg (evict c) none
  match reg1 (key c) with
  | some c' => (c', reg1)                           -- the factory hands back the class it already has
  | none => (c, upd reg1 (key c) (some c))

/-- a history of class creations: the creator each resulting class was built from -/
def runMakes (evict key : Nat → Nat) : (Nat → Option Nat) → List Nat → List Nat
  | _, [] => []
  | reg, c :: cs => (makeClass evict key reg c).1 :: runMakes evict key (makeClass evict key reg c).2 cs

end PwVerif.Preview
