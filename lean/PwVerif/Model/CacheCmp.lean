/-!
# What "the same input" means for a cache hit (one node, arbitrary values)

`Node.cache_hit` compares the current input values with the remembered ones by Python's `==`.  The values are
abstract here (`V`), the test is a parameter `same : V → V → Bool` (current input, remembered input), the node
function `F : V → O`.  `same` need not be an equivalence — for numpy arrays `==` is element-wise and its truth
value may be ambiguous (an exception, which the code reads as a miss: `same = false`), for `1`, `1.0`, `True` it
is true although the values differ in type.
-/
namespace PwVerif.CacheCmp

structure St (V O : Type) where
  inp : Option V
  out : Option O
  cached : Option V

inductive Op (V : Type) where
  | set (v : V)
  | run

def step {V O} (same : V → V → Bool) (F : V → O) (useCache : Bool) (s : St V O) : Op V → St V O × Option (Option O)
  | .set v => ({ s with inp := some v }, none)
  | .run =>
    match s.inp with
    | none => (s, some none)                                  -- not ready
    | some v =>
      let hit := useCache && (match s.cached with | none => false | some c => same v c)
      if hit then (s, some s.out)
      else ({ s with out := some (F v), cached := if useCache then some v else none }, some (some (F v)))

def runOps {V O} (same : V → V → Bool) (F : V → O) (uc : Bool) (s : St V O) : List (Op V) → St V O × List (Option (Option O))
  | [] => (s, [])
  | o :: os =>
    let r := step same F uc s o
    let rs := runOps same F uc r.1 os
    (rs.1, r.2 :: rs.2)

def St.init {V O} : St V O := { inp := none, out := none, cached := none }

end PwVerif.CacheCmp
