import PwVerif.Model.Remote
/-!
# Every route by which a value reaches an input channel (transcription of `DataChannel.value` /
`InputData.value` setters with `value_receiver` forwarding, `IO.__setattr__`, `HasIO.set_input_values`,
`InputData.fetch`, `HasIO._copy_values`, workflow IO panels)

All of these end in a call of the *setter of one channel*: check the lock of that channel's owner, check the
type, hand the value to the channel's value receiver **through the receiver's own setter**, then store.  A
refusal anywhere down the chain of receivers is raised before anything on the way was stored.  So a route is
an entry point (the node, at any depth, whose channel is assigned) and the chain of value links below it.

`atRecv = true` is /repo: the lock is consulted by every setter on the way.  `atRecv = false` consults it
only at the entry channel (a refactoring that feeds receivers through a lock-free helper).

Nodes may be out at any depth: a child of a macro (re-)run on its own with an executor, a grandchild, the
root; `submitAt` / `finishAt` are `submit` / `finish` at a path.
-/
namespace PwVerif.Remote

/-- `owner.data_input_locked()` for an own data input channel of this node (workflows own none) -/
def Node.locked : Node → Bool
  | .fn o _ => o.ioMine && o.running
  | .comp o k _ _ => k != .wf && o.ioMine && o.running

mutual
/-- the setter of own input `k`; `chk`: this call consults the lock -/
def assignC (atRecv chk : Bool) (k : Nat) (v : Val) : Node → Option Node
  | .fn o fid =>
    if chk && (o.ioMine && o.running) then none
    else some (.fn { o with ins := setNth o.ins k v } fid)
  | .comp o c links kids =>
    if chk && (c != .wf && o.ioMine && o.running) then none
    else
      match links[k]? with
      | some (some r) =>
        match assignKidC atRecv r v 0 kids with
        | none => none
        | some kids' => some (.comp { o with ins := setNth o.ins k v } c links kids')
      | _ => some (.comp { o with ins := setNth o.ins k v } c links kids)
/-- forwarding to the value receiver `r` among the children -/
def assignKidC (atRecv : Bool) (r : Ref) (v : Val) (p : Nat) : List Node → Option (List Node)
  | [] => some []
  | n :: ns =>
    if p == r.pos && n.own.gen == r.gen then
      match assignC atRecv atRecv r.slot v n with
      | none => none
      | some n' => some (n' :: ns)
    else
      match assignKidC atRecv r v (p + 1) ns with
      | none => none
      | some ns' => some (n :: ns')
end

mutual
/-- a setter call entering at the node at `path` (positions from the root) -/
def assignAt (atRecv : Bool) (k : Nat) (v : Val) : List Nat → Node → Option Node
  | [], n => assignC atRecv true k v n
  | _ :: _, .fn _ _ => none
  | j :: path, .comp o c links kids =>
    match assignAtKids atRecv k v j path kids with
    | none => none
    | some kids' => some (.comp o c links kids')
def assignAtKids (atRecv : Bool) (k : Nat) (v : Val) : Nat → List Nat → List Node → Option (List Node)
  | _, _, [] => none
  | 0, path, n :: ns =>
    match assignAt atRecv k v path n with
    | none => none
    | some n' => some (n' :: ns)
  | j + 1, path, n :: ns =>
    match assignAtKids atRecv k v j path ns with
    | none => none
    | some ns' => some (n :: ns')
end

/-- one setter call of a route -/
structure Setter where
  path : List Nat
  k : Nat
  v : Val
  deriving Repr

/-- any number of setter calls, from anywhere (a refused call raises and leaves everything as it was; the
caller may or may not go on — both are covered, since every call is quantified) -/
def applySetters (atRecv : Bool) (n : Node) : List Setter → Node
  | [] => n
  | s :: ss =>
    match assignAt atRecv s.k s.v s.path n with
    | none => applySetters atRecv n ss
    | some n' => applySetters atRecv n' ss

/-- what is frozen: the input values of every node that is out, at its position in the graph -/
inductive FT
  | mk (ins : Option (List Val)) (kids : List FT)

mutual
def frozenT : Node → FT
  | .fn o _ => .mk (if o.ioMine && o.running then some o.ins else none) []
  | .comp o c _ ks => .mk (if c != .wf && o.ioMine && o.running then some o.ins else none) (frozenTKids ks)
def frozenTKids : List Node → List FT
  | [] => []
  | n :: ns => frozenT n :: frozenTKids ns
end

mutual
/-- the frozen view in pre-order (decidable equality) -/
def FT.flat : FT → List (Option (List Val))
  | .mk i ks => i :: FT.flatKids ks
def FT.flatKids : List FT → List (Option (List Val))
  | [] => []
  | t :: ts => t.flat ++ FT.flatKids ts
end

/-! ## nodes out at any depth -/

def nodeAt : List Nat → Node → Option Node
  | [], n => some n
  | j :: path, n => match n.kids[j]? with
    | some k => nodeAt path k
    | none => none

mutual
/-- replace the node at `path` by `f` of it; on the way up an out-linked child forwards its output value -/
def updateAt (f : Node → Option Node) : List Nat → Node → Option Node
  | [], n => f n
  | _ :: _, .fn _ _ => none
  | j :: path, .comp o c links kids =>
    match updateAtKids f j path kids with
    | none => none
    | some (kids', fwd) =>
      some (.comp { o with out := match fwd with | some v => v | none => o.out } c links kids')
def updateAtKids (f : Node → Option Node) : Nat → List Nat → List Node → Option (List Node × Option Val)
  | _, _, [] => none
  | 0, path, n :: ns =>
    match updateAt f path n with
    | none => none
    | some n' => some (n' :: ns, if n'.own.outLinked then some n'.own.out else none)
  | j + 1, path, n :: ns =>
    match updateAtKids f j path ns with
    | none => none
    | some (ns', fwd) => some (n :: ns', fwd)
end

/-- `node.run(fetch_input=False, emit_ran_signal=False)` on the node at `path`, its executor set:
readiness gate, `running = True`, the job -/
def submitAt (snap : Bool) (path : List Nat) (root : Node) : Option (Node × Job) :=
  match nodeAt path root with
  | none => none
  | some n =>
    if !ready n then none
    else
      let job := match n with
        | .fn o _ => Job.leaf o.ins
        | .comp o _ _ _ => if o.exe.byValue then .copy (if snap then some (n.setOwn { n.own with running := true }) else none)
                           else .shared
      match updateAt (fun m => some (m.setOwn { m.own with running := true })) path root with
      | some r => some (r, job)
      | none => none

/-- the done-callback of the job of the node at `path` -/
def finishAt (cfg : Cfg) (fails : Nat → Bool) (job : Job) (path : List Nat) (root : Node) : Option Node :=
  updateAt (finish cfg fails job) path root

/-! ## what the executor does with the job -/

/-- the job ran to its end (and `finish` processes what came back), it was cancelled before the executor
started it (`future.cancel()`, `shutdown(cancel_futures=True)`), or it was lost (pool shut down or broken in
mid-flight): in the last two cases the future raises in the done-callback -/
inductive Outcome | done | cancelled | lost
  deriving Repr, DecidableEq

/-- `_finish_run` for any outcome. `quiet`: a cancellation returns normally ("cancelling is not failing");
/repo treats every exception from the future like a failure of a local run. -/
def finishO (cfg : Cfg) (fails : Nat → Bool) (quiet : Bool) : Outcome → Job → Node → Option Node
  | .done, job, n => finish cfg fails job n
  | .cancelled, _, n =>
    some (n.setOwn { n.own with running := false, failed := if quiet then n.own.failed else true })
  | .lost, _, n => some (n.setOwn { n.own with running := false, failed := true })

def finishOAt (cfg : Cfg) (fails : Nat → Bool) (quiet : Bool) (oc : Outcome) (job : Job) (path : List Nat)
    (root : Node) : Option Node :=
  updateAt (finishO cfg fails quiet oc job) path root

/-! ## keyword binding of the inputs at submission

`executor.submit(self.on_run, *args, **inputs)`: the node's inputs travel as keyword arguments through
`submit(fn, /, *args, **kwargs)` of the executor.  A parameter of `submit` that can be passed by keyword
captures an input of the same name (`TypeError: got multiple values for argument`). -/
def bindsOk (keywordParams : List String) (labels : List String) : Bool :=
  labels.all fun l => !keywordParams.contains l

end PwVerif.Remote
