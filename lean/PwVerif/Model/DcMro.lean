import PwVerif.Model.FuncWrap
/-!
# DcMro — the field table of a dataclass along its MRO, and which of its members are inputs (C17)

`dataclasses._process_class` builds `__dataclass_fields__` of a class being decorated like this: for every class
`b` of the MRO, base-most first and the class itself excluded, `getattr(b, "__dataclass_fields__", None)` — if
there is one, all its entries are written into an ordered dict (`fields[f.name] = f`: a repeated name keeps its
position and takes the later entry) — then the class's OWN annotated members are written on top in the same
way.  `getattr` finds an inherited table: an UNDECORATED class in the middle of the chain shows its parent's
table and its own members are lost; only the class handed to `dataclass()` has its own members read.

`dataclass_node_factory` converts the class it is given when `"__dataclass_fields__"` is not in the class's OWN
`__dict__` (i.e. it was not decorated itself), and `DataclassNode` then makes one input per entry of
`__dataclass_fields__` — pseudo-fields (`ClassVar`, `InitVar`) and `init=False` fields included (pinned).
Single inheritance chains, base first.  Core Lean only.
-/
namespace PwVerif.DcMro
open PwVerif PwVerif.FuncWrap

inductive FKind where
  | field | classVar | initVar
  deriving Repr, DecidableEq

/-- one annotated member of a class body -/
structure DField where
  name : String
  dflt : Dflt
  kind : FKind := .field
  init : Bool := true
  hint : Hint := none
  deriving Repr

structure DClass where
  decorated : Bool
  own : List DField
  deriving Repr

/-- `fields[f.name] = f` on an ordered dict -/
def put (tbl : List DField) (f : DField) : List DField :=
  if tbl.any (fun g => g.name == f.name) then tbl.map (fun g => if g.name = f.name then f else g) else tbl ++ [f]

def putAll (tbl : List DField) (fs : List DField) : List DField := fs.foldl put tbl

/-- `dataclass()` applied to a class whose ancestors show the tables `seen` (base-most first, `none` = no
table to be found) and whose own members are `own` -/
def process (seen : List (Option (List DField))) (own : List DField) : List DField :=
  putAll (seen.foldl (fun acc s => match s with | some t => putAll acc t | none => acc) []) own

/-- what `getattr(c, "__dataclass_fields__", None)` gives for every class of a chain (base first): a decorated
class has the table `dataclass()` made for it, an undecorated one shows what it inherits -/
def seenTables : List (Option (List DField)) → List DClass → List (Option (List DField))
  | acc, [] => acc
  | acc, c :: cs =>
    let mine := if c.decorated then some (process acc c.own) else (acc.getLast?).join
    seenTables (acc ++ [mine]) cs

/-- the table Python gives the leaf when it IS made a dataclass (decorated in the source, or converted) -/
def pythonTable (chain : List DClass) (leaf : DClass) : List DField :=
  process (seenTables [] chain) leaf.own

/-- the table the node class works with.  `byIsDataclass = false` (as coded): the leaf is converted unless it was
decorated itself — either way `pythonTable`.  `true` (the reading `not is_dataclass(cls)`): a leaf that merely
INHERITS a table is taken as finished and keeps showing its parent's table. -/
def nodeTable (byIsDataclass : Bool) (chain : List DClass) (leaf : DClass) : List DField :=
  if leaf.decorated then pythonTable chain leaf
  else if byIsDataclass then
    match ((seenTables [] chain).getLast?).join with
    | some t => t
    | none => pythonTable chain leaf
  else pythonTable chain leaf

/-- is this member a parameter of the generated `__init__`? -/
def DField.isInitParam (f : DField) : Bool := f.init && f.kind != .classVar

/-- the members that become inputs: every entry of the table (pinned, `raw = true`), or the init parameters -/
def inputFields (raw : Bool) (tbl : List DField) : List DField := if raw then tbl else tbl.filter (·.isInitParam)

/-- `D(**inputs)`: Python refuses a keyword that is no init parameter -/
def buildable (inputs : List DField) : Bool := inputs.all (·.isInitParam)

/-- the instance Python builds: every real field, an `init=False` one at its default, the others as given -/
def built (tbl : List DField) (ins : Panel) : Val :=
  let fs := tbl.filter (fun f => f.kind == .field)
  .node "dc" (fs.map (·.name)) (fs.map fun f =>
    if f.init then (ins.lookup f.name).getD .nd
    else match f.dflt with | .value v => v | .factory v => v | .none => .nd)

/-- the flat field the run-time part of `FuncWrap` works with -/
def DField.toField (f : DField) : Field := ⟨f.name, f.dflt⟩

/-- `node(*args, **kw)` for the dataclass node of a class with table `tbl` whose inputs are `inputs`: the gate,
then `D(**inputs)` — refused by Python when a pseudo-field or an `init=False` field is among them -/
def dcCallM (tbl inputs : List DField) (n : Node) (args : List Val) (kw : List (String × Val)) : Node × Outcome :=
  match gate n args kw with
  | (n1, .error o) => (n1, o)
  | (n1, .ok _) =>
    if buildable inputs then
      ({ n1 with outs := n1.outs.map fun o => (o.1, built tbl n1.ins) }, .ret (built tbl n1.ins))
    else (n1, .runError)   -- `TypeError: __init__() got an unexpected keyword argument`

/-! ## a memo of a class-level computation, per class or as an inherited class attribute

`HasIOPreview.preview_inputs / preview_outputs` are classmethods under `lru_cache`: the memo is keyed by the
asking class.  Kept in a class ATTRIBUTE instead (`if cls._preview is None: cls._preview = build()`), the test
would also find what a parent class has already stored. -/

/-- attribute lookup along the chain of parents -/
def lookupUp {α : Type} (parent : Nat → Option Nat) (tbl : Nat → Option α) : Nat → Nat → Option α
  | 0, c => tbl c
  | fuel + 1, c =>
    match tbl c with
    | some x => some x
    | none => match parent c with
      | some p => lookupUp parent tbl fuel p
      | none => none

/-- one request `cls.preview()`; `inherited = false`: keyed by class (as coded) -/
def memoGet {α : Type} (inherited : Bool) (parent : Nat → Option Nat) (fuel : Nat) (build : Nat → α)
    (memo : Nat → Option α) (c : Nat) : α × (Nat → Option α) :=
  match (if inherited then lookupUp parent memo fuel c else memo c) with
  | some v => (v, memo)
  | none => (build c, fun x => if x = c then some (build c) else memo x)

def memoRun {α : Type} (inherited : Bool) (parent : Nat → Option Nat) (fuel : Nat) (build : Nat → α) :
    (Nat → Option α) → List Nat → List α
  | _, [] => []
  | memo, c :: cs =>
    (memoGet inherited parent fuel build memo c).1
      :: memoRun inherited parent fuel build (memoGet inherited parent fuel build memo c).2 cs

/-! ## default factories and instances: mutable products live on a heap, by identity

`DataclassNode._setup_node` calls the default factory of every input still at `NOT_DATA` for EVERY instance it
sets up.  A variant that evaluated the factories once per node class would hand the same objects to every
instance. -/

/-- mutable objects by identity: the content of each, and the next free identity -/
structure Heap where
  next : Nat
  cell : Nat → Option (List Val)

/-- a factory call: a new object with the product's content under a fresh identity -/
def Heap.alloc (h : Heap) (c : List Val) : Nat × Heap :=
  (h.next, { next := h.next + 1, cell := fun i => if i = h.next then some c else h.cell i })

/-- somebody appends to the object `i` (through a node's input value, through the built dataclass …) -/
def Heap.mutate (h : Heap) (i : Nat) (v : Val) : Heap :=
  { h with cell := fun j => if j = i then (h.cell j).map (· ++ [v]) else h.cell j }

/-- setting up one instance: one factory call per factory field (`facs` = what each factory produces) -/
def newInst : Heap → List (List Val) → List Nat × Heap
  | h, [] => ([], h)
  | h, c :: cs =>
    let r := h.alloc c
    let rest := newInst r.2 cs
    (r.1 :: rest.1, rest.2)

/-- the variant with the products cached on the class: made for the first instance, reused afterwards -/
def newInstCached (cache : Option (List Nat)) (h : Heap) (facs : List (List Val)) :
    List Nat × Heap × Option (List Nat) :=
  match cache with
  | some ids => (ids, h, cache)
  | none => ((newInst h facs).1, (newInst h facs).2, some (newInst h facs).1)

end PwVerif.DcMro
