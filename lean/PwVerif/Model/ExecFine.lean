import PwVerif.Model.Exec
/-!
# Finer interleaving of a completion callback with the composite's loop

`Exec.step (.complete k)` treats the done-callback of an executor-run child as ONE action. In the
implementation the callback runs on another thread (the executor's), and inside
`Node._run_finally` it makes TWO separate calls on the running parent,

* `register_child_finished`  – remove the child from `running_children`, log its completion;
* `register_child_emitting`  – append `(ran, receiver)` pairs to `signal_queue`;

while the parent's main thread evaluates `while running_children or signal_queue` concurrently.
Here the callback is therefore two actions `cbFirst k`, `cbSecond k`, and the loop's exit test may
fall between them. The order of the two calls is the switch `FCfg.emitFirst`:

* pinned   (`emitFirst = false`): finished, (checkpoint), emitting — between the two the parent sees
  "nobody running, nothing queued" and may leave its loop; the late `ran` is then fired directly,
  outside the run (`late`);
* repaired (`emitFirst = true`): emitting, finished.

What is merged: the part of the callback before its first bookkeeping call (`_finish_run`: outputs
written, `running`/`failed` flags of the child) is merged with that first call — the main thread reads
neither the status nor the outputs of a child that is still in `running_children` and has no signal
queued. `core` is the coarse state; `running_children` as the implementation shows it is `visRunning`
(as a set: the order inside the list plays no role for the loop).
-/
namespace PwVerif.ExecFine
open PwVerif PwVerif.Exec

structure FCfg where
  emitFirst : Bool
  deriving Repr, DecidableEq

def FCfg.pinned : FCfg := { emitFirst := false }
def FCfg.repaired : FCfg := { emitFirst := true }

structure F where
  core : S
  /-- children whose callback has made the first of its two calls on the parent, not yet the second -/
  mid  : List Nat
  /-- children whose `ran` was fired after the parent's loop had ended -/
  late : List Nat

def initF (d : Dag) : F := { core := init d, mid := [], late := [] }

inductive ActF | start | deliver | exit | cbFirst (k : Nat) | cbSecond (k : Nat)
  deriving Repr, DecidableEq

/-- `running_children` as the parent's loop sees it -/
def visRunning (fc : FCfg) (f : F) : List Nat :=
  if fc.emitFirst then f.core.running ++ f.mid else f.core.running

/-- pinned first half: result processed, child removed from `running_children`; nothing queued yet -/
def landUnreg (cfg : Cfg) (d : Dag) (s : S) (k : Nat) : Option S :=
  match s.phase with
  | .run _ =>
    if s.st k = .out then
      let s1 := { s with running := s.running.erase k, doneLog := s.doneLog ++ [k] }
      if d.fails k then
        some { s1 with st := updF s.st k .failed,
                       errs := if cfg.reportExecFailure then s.errs ++ [k] else s.errs }
      else
        some { s1 with st := updF s.st k .done, out := updF s.out k (.app k (s.args k)) }
    else none
  | _ => none

/-- what a child puts on the queue: its `ran` connections, or nothing when it failed -/
def emission (d : Dag) (k : Nat) : List (Nat × Nat) := if d.fails k then [] else emit d k

def stepF (cfg : Cfg) (fc : FCfg) (d : Dag) (f : F) : ActF → Option F
  | .start => (step cfg d f.core .start).map fun c => { f with core := c }
  | .deliver => (step cfg d f.core .deliver).map fun c => { f with core := c }
  | .exit =>
    match f.core.phase, f.core.queue, visRunning fc f with
    | .run [], [], [] => some { f with core := { f.core with phase := .exited } }
    | _, _, _ => none
  | .cbFirst k =>
    if fc.emitFirst then
      (step cfg d f.core (.complete k)).map fun c => { f with core := c, mid := f.mid ++ [k] }
    else
      (landUnreg cfg d f.core k).map fun c => { f with core := c, mid := f.mid ++ [k] }
  | .cbSecond k =>
    if f.mid.contains k then
      if fc.emitFirst then some { f with mid := f.mid.erase k }
      else
        match f.core.phase with
        | .run _ => some { f with core := { f.core with queue := f.core.queue ++ emission d k },
                                  mid := f.mid.erase k }
        | _ => some { f with mid := f.mid.erase k, late := f.late ++ [k] }
    else none

def runF (cfg : Cfg) (fc : FCfg) (d : Dag) (f : F) : List ActF → Option F
  | [] => some f
  | a :: as => match stepF cfg fc d f a with
    | some f' => runF cfg fc d f' as
    | none => none

/-- a coarse schedule read as a fine one with atomic callbacks -/
def expand : List Act → List ActF
  | [] => []
  | .start :: as => .start :: expand as
  | .deliver :: as => .deliver :: expand as
  | .exit :: as => .exit :: expand as
  | .complete k :: as => .cbFirst k :: .cbSecond k :: expand as

end PwVerif.ExecFine
