import PwVerif.Model.FlowExec
/-!
# C02 on the flow machine with executors (`FlowExec`, built for C06 on `Signal.callRun / deliver`)

* `qstep` — the SPECIFICATION side: the plain queue interpreter (`Signal.Spec`: one FIFO, all-of receivers remember emitter
  identities) extended by the same actions; a landing job appends its signals to the FIFO AT THE MOMENT IT LANDS.
* `XAct2` — the actions once more, with completions that land WHILE a local child's function is running
  (`startMid ks` / `deliverMid ks`): the child's queue entry has been popped, its inputs are fetched, the jobs `ks` land on
  another thread (done-callback: result processed, signals queued), then the local child finishes and queues its own.
  For local children that take no data from the landing ones this is "land `ks`, then the local action" (`flat`).
* `pstep` — seeded change C02-12: a landing on another thread PARKS its signals; the loop merges what is parked into the
  queue at the top of its next iteration — so what lands during a local child's body enters the queue AFTER that child's
  own signals.
-/
namespace PwVerif.FlowExec
open PwVerif PwVerif.Signal PwVerif.FlowFail

variable {E : Type}

structure QX (E : Type) where
  s : Spec.St (XSt E)
  phase : Nat
  rest : List Nat

def QX.init (st : Store) : QX E :=
  { s := { store := XSt.init st, seen := fun _ => [], fifo := [], errs := [], fired := [] }, phase := 0, rest := [] }

def qstep (nodes : Nat → Node) (onExec : Nat → Bool) (exc : Nat → Nat → E) (refusal : Nat → E) (g : Graph) (x : QX E) :
    XAct → Option (QX E)
  | .begin =>
    if x.phase = 0 then some { s := { x.s with seen := fun _ => [] }, phase := 1, rest := g.starters } else none
  | .start =>
    if x.phase = 1 then
      match x.rest with
      | i :: r => some { x with s := Spec.run (xsem nodes onExec exc refusal) g x.s i, rest := r }
      | [] => none
    else none
  | .deliver =>
    if x.phase = 1 ∧ x.rest = [] then
      match x.s.fifo with
      | (src, r) :: q => some { x with s := Spec.serve (xsem nodes onExec exc refusal) g { x.s with fifo := q } src r }
      | [] => none
    else none
  | .complete k =>
    if x.phase = 1 ∧ x.s.store.inflight.contains k = true then
      let xs := x.s.store
      let ld := landStore nodes xs.fs.st k (xs.pend k).1 (xs.pend k).2
      let sigs := emitting nodes ld.1 k
      some { x with s := { x.s with
        store := { xs with fs := { xs.fs with st := ld.1 }, inflight := xs.inflight.erase k,
                           landed := xs.landed ++ [{ child := k, raised := ld.2, sigs := sigs }] },
        fifo := x.s.fifo ++ (pairs g sigs).map (fun p => (some p.1, p.2)) } }
    else none
  | .finish =>
    if x.phase = 1 ∧ x.rest = [] ∧ x.s.fifo = [] ∧ x.s.store.inflight = [] then
      let xs := x.s.store
      some { s := { x.s with store := { xs with fs := { xs.fs with
                      book := sweep exc xs (xs.fs.st.doneLog.drop xs.doneFrom) xs.fs.book } } },
             phase := 2, rest := [] }
    else none

def qrun (nodes : Nat → Node) (onExec : Nat → Bool) (exc : Nat → Nat → E) (refusal : Nat → E) (g : Graph) :
    QX E → List XAct → Option (QX E)
  | x, [] => some x
  | x, a :: rest => match qstep nodes onExec exc refusal g x a with
    | some x' => qrun nodes onExec exc refusal g x' rest
    | none => none

/-- actions with landings during a local child's run -/
inductive XAct2
  | base (a : XAct)
  | startMid (ks : List Nat)
  | deliverMid (ks : List Nat)
  deriving Repr, DecidableEq

def flat : List XAct2 → List XAct
  | [] => []
  | .base a :: rest => a :: flat rest
  | .startMid ks :: rest => ks.map XAct.complete ++ (.start :: flat rest)
  | .deliverMid ks :: rest => ks.map XAct.complete ++ (.deliver :: flat rest)

/-! ### seeded change C02-12: signals of landings on another thread are parked -/

structure PX (E : Type) where
  x : X E
  parked : List (Sig × Recv)

/-- the landing of `k` with its signals parked instead of queued -/
def landParked (nodes : Nat → Node) (onExec : Nat → Bool) (exc : Nat → Nat → E) (refusal : Nat → E) (g : Graph)
    (p : PX E) (k : Nat) : Option (PX E) :=
  match xstep nodes onExec exc refusal g p.x (.complete k) with
  | some x' => some { x := { x' with s := { x'.s with queue := p.x.s.queue } },
                      parked := p.parked ++ x'.s.queue.drop p.x.s.queue.length }
  | none => none

def landAllParked (nodes : Nat → Node) (onExec : Nat → Bool) (exc : Nat → Nat → E) (refusal : Nat → E) (g : Graph) :
    PX E → List Nat → Option (PX E)
  | p, [] => some p
  | p, k :: ks => match landParked nodes onExec exc refusal g p k with
    | some p' => landAllParked nodes onExec exc refusal g p' ks
    | none => none

def merge (p : PX E) : PX E := { x := { p.x with s := { p.x.s with queue := p.x.s.queue ++ p.parked } }, parked := [] }

def pstep (nodes : Nat → Node) (onExec : Nat → Bool) (exc : Nat → Nat → E) (refusal : Nat → E) (g : Graph) (p : PX E) :
    XAct2 → Option (PX E)
  | .base .deliver =>
    let m := merge p
    (xstep nodes onExec exc refusal g m.x .deliver).map fun x' => { x := x', parked := [] }
  | .base (.complete k) => landParked nodes onExec exc refusal g p k      -- while the loop sleeps / between iterations
  | .base .finish =>
    if p.parked = [] then (xstep nodes onExec exc refusal g p.x .finish).map fun x' => { x := x', parked := [] } else none
  | .base a => (xstep nodes onExec exc refusal g p.x a).map fun x' => { p with x := x' }
  | .startMid ks =>
    -- the starting loop does not merge; what lands during the starter's body is parked, the starter queues its own
    match landAllParked nodes onExec exc refusal g p ks with
    | some p' => (xstep nodes onExec exc refusal g p'.x .start).map fun x' => { p' with x := x' }
    | none => none
  | .deliverMid ks =>
    -- top of the iteration: merge, pop; the body runs, `ks` land and are parked; the child queues its own signals
    let m := merge p
    match landAllParked nodes onExec exc refusal g m ks with
    | some p' => (xstep nodes onExec exc refusal g p'.x .deliver).map fun x' => { p' with x := x' }
    | none => none

def prun (nodes : Nat → Node) (onExec : Nat → Bool) (exc : Nat → Nat → E) (refusal : Nat → E) (g : Graph) :
    PX E → List XAct2 → Option (PX E)
  | p, [] => some p
  | p, a :: rest => match pstep nodes onExec exc refusal g p a with
    | some p' => prun nodes onExec exc refusal g p' rest
    | none => none

end PwVerif.FlowExec
