import PwVerif.Model.Util
/-!
# Execution signals (transcription of `channels.py` `InputSignal` / `AccumulatingInputSignal` /
`OutputSignal`, `nodes/composite.py` `_on_run` / `_run_while_children_or_signals_exist` /
`register_child_emitting`, `node.py` run cycle / `emitting_channels`, `nodes/standard.py` `If`)

Part A — one trigger and the history of calls / connects / disconnects that reaches it.
Part B — a running composite with an arbitrary hand-made signal graph (cycles allowed), local
execution: the starting nodes run in list order, then the `signal_queue` of (emitter, receiver)
pairs is drained front first; an emission appends one pair per connection, channel by channel.

Identity versus strings: connections are lists of channel *objects* (identity), but the all-of
trigger remembers the *scoped label string* of what it has heard — the model keeps both
(`conns : List Nat` are emitter ids, `received : List Label`, `lab : emitter → Label`).
-/
namespace PwVerif.Signal
open PwVerif

abbrev Label := Nat

/-! ## Part A — triggers -/

/-- `AccumulatingInputSignal`: its `connections` (channel objects, list order) and its
`received_signals` (a set of scoped-label strings, kept duplicate free) -/
structure Acc where
  conns : List Nat
  received : List Label
  deriving Repr, DecidableEq

/-- what can happen to a trigger: a call carrying an `OutputSignal` (connected or not), a call
without emitter, `connect`, `disconnect` -/
inductive Ev
  | arrive (e : Nat)
  | poke
  | connect (e : Nat)
  | disconnect (e : Nat)
  deriving Repr, DecidableEq

/-- `{c.scoped_label for c in connections}.difference(received) == ∅` -/
def covered (lab : Nat → Label) (conns : List Nat) (rec : List Label) : Bool :=
  conns.all (fun c => rec.contains (lab c))

/-- `set.update([l])` -/
def insertL (l : Label) (r : List Label) : List Label := if r.contains l then r else l :: r

/-- `AccumulatingInputSignal.__call__(other)`; the `Bool` says whether the callback fired -/
def Acc.call (lab : Nat → Label) (a : Acc) (other : Option Nat) : Acc × Bool :=
  let r := match other with
    | some e => insertL (lab e) a.received
    | none => a.received
  if covered lab a.conns r then ({ a with received := [] }, true)     -- `reset()` then `callback()`
  else ({ a with received := r }, false)

def Acc.step (lab : Nat → Label) (a : Acc) : Ev → Acc × Bool
  | .arrive e => a.call lab (some e)
  | .poke => a.call lab none
  | .connect e => (if a.conns.contains e then a else { a with conns := e :: a.conns }, false)
  | .disconnect e => ({ a with conns := a.conns.erase e }, false)

/-- `OutputSignal.__call__` of emitter `e` as seen from this trigger: delivered iff connected -/
def Acc.emit (lab : Nat → Label) (a : Acc) (e : Nat) : Acc × Bool :=
  if a.conns.contains e then a.call lab (some e) else (a, false)

/-- the state after a whole history -/
def Acc.run (lab : Nat → Label) (a : Acc) : List Ev → Acc
  | [] => a
  | ev :: rest => Acc.run lab (a.step lab ev).1 rest

/-- the state just before event number `k` -/
def Acc.before (lab : Nat → Label) (a : Acc) (hist : List Ev) (k : Nat) : Acc := a.run lab (hist.take k)

/-- did the callback fire at event number `k` of the history -/
def Acc.firedAt (lab : Nat → Label) (a : Acc) (hist : List Ev) (k : Nat) : Bool :=
  match hist[k]? with
  | some ev => ((a.before lab hist k).step lab ev).2
  | none => false

/-- any-of trigger (`InputSignal`): only its connection list is state; `__call__` always fires -/
def anyStep (conns : List Nat) : Ev → List Nat × Bool
  | .arrive _ => (conns, true)
  | .poke => (conns, true)
  | .connect e => (if conns.contains e then conns else e :: conns, false)
  | .disconnect e => (conns.erase e, false)

/-- number of firings of an any-of trigger over a history -/
def anyFirings (conns : List Nat) : List Ev → Nat
  | [] => 0
  | ev :: rest => (if (anyStep conns ev).2 then 1 else 0) + anyFirings (anyStep conns ev).1 rest

def Ev.isCall : Ev → Bool
  | .arrive _ => true
  | .poke => true
  | _ => false

/-- `OutputSignal.__call__`: one call per entry of the emitter's connection list; seen from a
receiver whose (mutual) connection list is `conns`: the number of calls one completion of `e` makes -/
def callsFrom (conns : List Nat) (e : Nat) : Nat := (conns.filter (· == e)).length

/-! ### Part A2 — what the callback does: returns, raises, or comes back to its own trigger

The callback of a trigger is the owner's `run`. It may raise (the owner is not ready, has failed, its function
fails) and — outside a running parent, where signals travel depth-first — it may reach the very trigger it was
called from before it returns. An `Act` is an event together with what the callback does IF the event fires it:
the events it performs on the trigger while it runs (each again an `Act`), and whether it then raises. An exception
leaves the enclosing callbacks too (they raise as well); the caller of a top-level event catches it. -/

inductive Act
  | mk (ev : Ev) (boom : Bool) (inner : List Act)

/-- the memory after hearing the event, for the events that are calls -/
def Acc.hear (lab : Nat → Label) (a : Acc) : Ev → Option (List Label)
  | .arrive e => some (insertL (lab e) a.received)
  | .poke => some a.received
  | _ => none

structure Trace where
  acc : Acc
  /-- the events that were really performed, in order -/
  evs : List Ev
  /-- for each of them: did the callback start -/
  fires : List Bool
  /-- did an exception leave the list of acts -/
  raised : Bool

/-- `resetFirst = true`: `self.reset(); self.callback()` as pinned. `false`: the callback first and the reset only
when it has returned (seeded change C02-1). One unit of fuel per performed event. -/
def execActs (resetFirst : Bool) (lab : Nat → Label) : Nat → Acc → List Act → Trace
  | 0, a, _ => { acc := a, evs := [], fires := [], raised := false }
  | _ + 1, a, [] => { acc := a, evs := [], fires := [], raised := false }
  | n + 1, a, .mk ev boom inner :: rest =>
    if resetFirst then
      let a' := (a.step lab ev).1
      if (a.step lab ev).2 then
        let ti := execActs resetFirst lab n a' inner
        if ti.raised || boom then
          { acc := ti.acc, evs := ev :: ti.evs, fires := true :: ti.fires, raised := true }
        else
          let tr := execActs resetFirst lab n ti.acc rest
          { acc := tr.acc, evs := ev :: (ti.evs ++ tr.evs), fires := true :: (ti.fires ++ tr.fires), raised := tr.raised }
      else
        let tr := execActs resetFirst lab n a' rest
        { acc := tr.acc, evs := ev :: tr.evs, fires := false :: tr.fires, raised := tr.raised }
    else
      match a.hear lab ev with
      | none =>
        let tr := execActs resetFirst lab n (a.step lab ev).1 rest
        { acc := tr.acc, evs := ev :: tr.evs, fires := false :: tr.fires, raised := tr.raised }
      | some r =>
        if covered lab a.conns r then
          let ti := execActs resetFirst lab n { a with received := r } inner
          if ti.raised || boom then
            { acc := ti.acc, evs := ev :: ti.evs, fires := true :: ti.fires, raised := true }    -- no reset
          else
            let tr := execActs resetFirst lab n { ti.acc with received := [] } rest
            { acc := tr.acc, evs := ev :: (ti.evs ++ tr.evs), fires := true :: (ti.fires ++ tr.fires), raised := tr.raised }
        else
          let tr := execActs resetFirst lab n { a with received := r } rest
          { acc := tr.acc, evs := ev :: tr.evs, fires := false :: tr.fires, raised := tr.raised }

/-- a script of top-level acts: whoever performs them catches what they raise and goes on -/
def execTop (resetFirst : Bool) (lab : Nat → Label) (fuel : Nat) : Acc → List Act → Trace
  | a, [] => { acc := a, evs := [], fires := [], raised := false }
  | a, x :: rest =>
    let t := execActs resetFirst lab fuel a [x]
    let tr := execTop resetFirst lab fuel t.acc rest
    { acc := tr.acc, evs := t.evs ++ tr.evs, fires := t.fires ++ tr.fires, raised := t.raised || tr.raised }

/-- the firing flags of a flat history -/
def Acc.flags (lab : Nat → Label) (a : Acc) : List Ev → List Bool
  | [] => []
  | ev :: rest => (a.step lab ev).2 :: Acc.flags lab (a.step lab ev).1 rest

/-! ## Part B — a composite with a hand-made signal graph -/

/-- a receiving channel: `run` (any-of) or `accumulate_and_run` (all-of) of a child -/
structure Recv where
  node : Nat
  acc : Bool
  deriving Repr, DecidableEq

/-- an emitting channel, encoded `4 * node + {0 ran | 1 failed | 2 true | 3 false}` -/
abbrev Sig := Nat
def sigRan (i : Nat) : Sig := 4 * i
def sigFailed (i : Nat) : Sig := 4 * i + 1
def sigTrue (i : Nat) : Sig := 4 * i + 2
def sigFalse (i : Nat) : Sig := 4 * i + 3

structure Graph where
  /-- `OutputSignal.connections` in list order (= delivery order) -/
  conns : Sig → List Recv
  /-- `accumulate_and_run.connections` of a child -/
  accConns : Nat → List Sig
  /-- scoped label of an emitting channel -/
  lab : Sig → Label
  /-- `starting_nodes` in list order -/
  starters : List Nat
  /-- the emitting channels that exist (finite universe) -/
  sigs : List Sig

/-- what running a child does, abstractly: new node-local store, whether `run()` raised into the
composite, and `emitting_channels` in order. Everything about the queue discipline is proved for
EVERY such reaction (functions, `If`, accumulators, failures, caching …). -/
structure Sem (σ : Type) where
  react : σ → Nat → σ × Bool × List Sig

/-- `register_child_emitting`: for every emitting channel, for every connection — one queue entry -/
def pairs (g : Graph) : List Sig → List (Sig × Recv)
  | [] => []
  | s :: rest => (g.conns s).map (fun r => (s, r)) ++ pairs g rest

structure S (σ : Type) where
  store : σ
  received : Nat → List Label        -- `received_signals` of every child's all-of trigger
  queue : List (Sig × Recv)          -- `signal_queue`
  errs : List Nat                    -- children whose `run()` raised into the composite
  fired : List Nat                   -- children whose `run()` was invoked, in order

def S.init {σ} (st : σ) (received : Nat → List Label) : S σ :=
  { store := st, received := received, queue := [], errs := [], fired := [] }

/-- `child.run()` called by the composite (from the starting loop or from a trigger callback); the
child pushes its emissions itself (`_run_finally` → `register_child_emitting`), the composite
collects the exception -/
def callRun {σ} (sem : Sem σ) (g : Graph) (s : S σ) (i : Nat) : S σ :=
  let (st, raised, sigs) := sem.react s.store i
  { s with store := st, queue := s.queue ++ pairs g sigs,
           errs := if raised then s.errs ++ [i] else s.errs, fired := s.fired ++ [i] }

/-- `for node in self.starting_nodes: try: node.run() except …` -/
def startAll {σ} (sem : Sem σ) (g : Graph) (s : S σ) : List Nat → S σ
  | [] => s
  | i :: rest => startAll sem g (callRun sem g s i) rest

/-- `receiving(firing)` -/
def deliver {σ} (sem : Sem σ) (g : Graph) (s : S σ) (e : Sig) (r : Recv) : S σ :=
  if r.acc then
    let (a, fire) := Acc.call g.lab { conns := g.accConns r.node, received := s.received r.node } (some e)
    let s1 := { s with received := updF s.received r.node a.received }
    if fire then callRun sem g s1 r.node else s1
  else callRun sem g s r.node

/-- `while signal_queue: firing, receiving = signal_queue.pop(0); receiving(firing)`; one unit of
fuel per delivery -/
def drain {σ} (sem : Sem σ) (g : Graph) : Nat → S σ → S σ
  | 0, s => s
  | n + 1, s =>
    match s.queue with
    | [] => s
    | (e, r) :: q => drain sem g n (deliver sem g { s with queue := q } e r)

/-- the starting loop and the drain loop from a given state of the all-of triggers (what `_on_run` did
before commit bc0a763, and what resuming a stopped round would mean) -/
def compositeRunFrom {σ} (sem : Sem σ) (g : Graph) (fuel : Nat) (s0 : S σ) : S σ :=
  drain sem g fuel (startAll sem g s0 g.starters)

/-- `Composite._on_run` (fresh start, local children): every child's `accumulate_and_run.reset()` first —
what the all-of triggers had collected before belongs to an earlier, interrupted run (commit bc0a763) -/
def compositeRun {σ} (sem : Sem σ) (g : Graph) (fuel : Nat) (s0 : S σ) : S σ :=
  compositeRunFrom sem g fuel { s0 with received := fun _ => [] }

/-! ### The specification: a plain queue interpreter

One FIFO of pending triggers and nothing else: a start token for every starting node, afterwards
one `(signal, receiver)` entry per connection of every emitted signal. The head is served next.
An all-of receiver remembers *which signals* (by identity) it has seen in the current round and
fires when every signal wired to it — read off the one signal graph — has been seen. -/
namespace Spec

structure St (σ : Type) where
  store : σ
  seen : Nat → List Sig
  fifo : List (Option Sig × Recv)
  errs : List Nat
  fired : List Nat

/-- the signals wired to the all-of trigger of `r` -/
def upstream (g : Graph) (r : Nat) : List Sig :=
  g.sigs.filter (fun s => (g.conns s).contains { node := r, acc := true })

def run {σ} (sem : Sem σ) (g : Graph) (s : St σ) (i : Nat) : St σ :=
  let (st, raised, sigs) := sem.react s.store i
  { s with store := st, fifo := s.fifo ++ (pairs g sigs).map (fun p => (some p.1, p.2)),
           errs := if raised then s.errs ++ [i] else s.errs, fired := s.fired ++ [i] }

def serve {σ} (sem : Sem σ) (g : Graph) (s : St σ) (src : Option Sig) (r : Recv) : St σ :=
  if r.acc then
    let seen' := match src with
      | some e => e :: s.seen r.node
      | none => s.seen r.node
    if (upstream g r.node).all (fun u => seen'.contains u) then
      run sem g { s with seen := updF s.seen r.node [] } r.node
    else { s with seen := updF s.seen r.node seen' }
  else run sem g s r.node

def queueInterp {σ} (sem : Sem σ) (g : Graph) : Nat → St σ → St σ
  | 0, s => s
  | n + 1, s =>
    match s.fifo with
    | [] => s
    | (src, r) :: rest => queueInterp sem g n (serve sem g { s with fifo := rest } src r)

def init {σ} (g : Graph) (st : σ) (seen : Nat → List Sig) : St σ :=
  { store := st, seen := seen, fifo := g.starters.map (fun i => (none, { node := i, acc := false })),
    errs := [], fired := [] }

end Spec

/-! ### Concrete children: term functions, `UserInput`, `Add`, `LessThan`, `If`, `AppendToList` -/

inductive Val
  | nd                                   -- NOT_DATA
  | d                                    -- the default constant "d" of a term node input
  | none                                 -- None
  | nat (n : Nat)
  | bool (b : Bool)
  | list (l : List Val)
  | app (f : Nat) (args : List Val)      -- free term f_i(args)
  deriving Repr, Inhabited

/- python `==` on these values (`True == 1`, `False == 0`; used by the cache comparison
`inputs.to_value_dict() == _cached_inputs`) -/
mutual
def Val.beq : Val → Val → Bool
  | .nd, .nd => true
  | .d, .d => true
  | .none, .none => true
  | .nat a, .nat b => a == b
  | .bool a, .bool b => a == b
  | .nat a, .bool b => a == (if b then 1 else 0)
  | .bool a, .nat b => b == (if a then 1 else 0)
  | .list a, .list b => Val.beqL a b
  | .app f a, .app g b => f == g && Val.beqL a b
  | _, _ => false
def Val.beqL : List Val → List Val → Bool
  | [], [] => true
  | a :: as, b :: bs => Val.beq a b && Val.beqL as bs
  | _, _ => false
end

def Val.isNd : Val → Bool
  | .nd => true
  | _ => false

/-- python `bool(v)` -/
def Val.truthy : Val → Bool
  | .nd => false
  | .d => true
  | .none => false
  | .nat n => n != 0
  | .bool b => b
  | .list l => !l.isEmpty
  | .app _ _ => true

inductive Kind
  | term (f : Nat)      -- F_f: (a, b, c) ↦ f_f(a, b, c)
  | ident               -- UserInput
  | add                 -- Add
  | lt                  -- LessThan
  | ifk                 -- If
  | append              -- AppendToList
  deriving Repr, DecidableEq

/-- an input channel: its own value and its connections (upstream child, head = fetch priority) -/
structure Slot where
  own : Val
  conns : List Nat

structure Node where
  kind : Kind
  slots : List Slot
  useCache : Bool
  /-- attempt numbers (1-based) at which the wrapped function raises -/
  failAt : List Nat

/-- the wrapped function; `none` = it raises -/
def eval : Kind → List Val → Option Val
  | .term f, args => some (.app f args)
  | .ident, [v] => some v
  | .add, [.nat a, .nat b] => some (.nat (a + b))
  | .lt, [.nat a, .nat b] => some (.bool (a < b))
  | .ifk, [v] => some (.bool v.truthy)
  | .append, [.none, v] => some (.list [v])
  | .append, [.list l, v] => some (.list (l ++ [v]))
  | _, _ => none

structure Store where
  out : Nat → Val
  failed : Nat → Bool
  cached : Nat → Option (List Val)     -- `_cached_inputs`
  attempts : Nat → Nat
  callLog : List (Nat × List Val)      -- invocations of the wrapped functions
  execLog : List Nat                   -- provenance_by_execution
  doneLog : List Nat                   -- provenance_by_completion

def Store.init : Store :=
  { out := fun _ => .nd, failed := fun _ => false, cached := fun _ => none, attempts := fun _ => 0,
    callLog := [], execLog := [], doneLog := [] }

/-- `InputData.fetch`: first connection holding data, else the channel's own value -/
def fetchSlot (out : Nat → Val) (own : Val) : List Nat → Val
  | [] => own
  | c :: cs => if (out c).isNd then fetchSlot out own cs else out c

def fetchArgs (nodes : Nat → Node) (out : Nat → Val) (i : Nat) : List Val :=
  ((nodes i).slots).map (fun sl => fetchSlot out sl.own sl.conns)

/-- `Node.emitting_channels` / `If.emitting_channels` (commit 5622c2f: a failed `If` decides nothing — the
truth value it holds is the one of an earlier run) -/
def emitting (nodes : Nat → Node) (st : Store) (i : Nat) : List Sig :=
  let base := if st.failed i then [sigFailed i] else [sigRan i]
  match (nodes i).kind with
  | .ifk =>
    if st.failed i then base
    else
      match st.out i with
      | .nd => base
      | v => base ++ [if v.truthy then sigTrue i else sigFalse i]
  | _ => base

/-- `Node.run()` of a local child inside a running parent (tree with the cache commits 0699958, b54ba0f):
fetch → cache hit (only where a run would be admitted: not failed, all inputs data)? → readiness gate →
cache forgotten (`_cached_inputs = None`: the outputs are in flux) → call → outputs, and only now the cache
records the inputs the run was admitted with | failed → finished → emit -/
def runNode (nodes : Nat → Node) (st : Store) (i : Nat) : Store × Bool × List Sig :=
  let nd := nodes i
  let args := fetchArgs nodes st.out i
  let ready := !(st.failed i) && !(args.any Val.isNd)
  let hit := nd.useCache && ready && (match st.cached i with
    | some c => Val.beqL c args
    | none => false)
  if hit then
    -- register start + finish + emit, function not called
    let st1 := { st with execLog := st.execLog ++ [i], doneLog := st.doneLog ++ [i] }
    (st1, false, emitting nodes st1 i)
  else if !ready then
    (st, true, [])                                              -- ReadinessError, nothing changes
  else
    let k := st.attempts i + 1
    let st1 := { st with cached := updF st.cached i none, attempts := updF st.attempts i k,
                         callLog := st.callLog ++ [(i, args)], execLog := st.execLog ++ [i] }
    match (if nd.failAt.contains k then none else eval nd.kind args) with
    | some v =>
      let st2 := { st1 with out := updF st1.out i v,
                            cached := if nd.useCache then updF st1.cached i (some args) else st1.cached,
                            doneLog := st1.doneLog ++ [i] }
      (st2, false, emitting nodes st2 i)
    | none =>
      let st2 := { st1 with failed := updF st1.failed i true, doneLog := st1.doneLog ++ [i] }
      (st2, true, emitting nodes st2 i)

def nodeSem (nodes : Nat → Node) : Sem Store := { react := runNode nodes }

/-! ## Part C — what a macro does to a hand-made wiring (`Macro._configure_graph_execution`)

A macro whose graph creator made run-signal connections and named starting nodes is "left alone" — by
`run_signals = self.disconnect_run()` (to find out whether there are any) followed by
`_reconnect_run(run_signals)`, pair by pair. Connecting prepends, so the lists come back in another order.
Then the remaining UI nodes are put upstream of the starting nodes. -/

/-- the three connection tables of the children of one composite -/
structure Wiring where
  out : Sig → List Recv          -- `OutputSignal.connections`
  runIn : Nat → List Sig         -- `signals.input.run.connections`
  accIn : Nat → List Sig         -- `signals.input.accumulate_and_run.connections`

def Wiring.empty : Wiring := { out := fun _ => [], runIn := fun _ => [], accIn := fun _ => [] }

/-- the connection list of a receiving channel -/
def Wiring.inList (w : Wiring) (r : Recv) : List Sig := if r.acc then w.accIn r.node else w.runIn r.node

/-- `Channel.connect` between an emitting channel and a `run` / `accumulate_and_run` input: nothing if
already connected, else prepended on both sides -/
def Wiring.connect (w : Wiring) (s : Sig) (r : Recv) : Wiring :=
  if (w.out s).contains r then w
  else
    { out := updF w.out s (r :: w.out s),
      runIn := if r.acc then w.runIn else updF w.runIn r.node (s :: w.runIn r.node),
      accIn := if r.acc then updF w.accIn r.node (s :: w.accIn r.node) else w.accIn }

/-- `Composite.disconnect_run()`: the destroyed (input, output) pairs — child by child in insertion order,
`run` before `accumulate_and_run`, each in list order -/
def Wiring.runPairs (w : Wiring) : List Nat → List (Sig × Recv)
  | [] => []
  | i :: rest =>
    (w.runIn i).map (fun s => (s, ({ node := i, acc := false } : Recv))) ++
      ((w.accIn i).map (fun s => (s, ({ node := i, acc := true } : Recv))) ++ runPairs w rest)

/-- `for pair in pairs: pair[0].connect(pair[1])` -/
def Wiring.connectAll (w : Wiring) : List (Sig × Recv) → Wiring
  | [] => w
  | p :: rest => (w.connect p.1 p.2).connectAll rest

/-- the pinned macro disconnects every run signal and reconnects pair by pair; the repaired one
(`fixes/C02-macro-keep-signal-order.patch`) only looks -/
def Wiring.reconfigure (pinned : Bool) (w : Wiring) (children : List Nat) : Wiring :=
  if pinned then Wiring.empty.connectAll (w.runPairs children) else w

/-- `n << ui_nodes` for one starting node -/
def Wiring.waitFor (w : Wiring) (n : Nat) : List Nat → Wiring
  | [] => w
  | u :: rest => (w.connect (sigRan u) { node := n, acc := true }).waitFor n rest

/-- `for n in starting_nodes: n << ui_nodes`, then the UI nodes (if any) are the starting nodes -/
def Wiring.putUiFirst (w : Wiring) (ui : List Nat) : List Nat → Wiring
  | [] => w
  | n :: rest => (w.waitFor n ui).putUiFirst ui rest

def uiStarters (ui starters : List Nat) : List Nat := if ui.isEmpty then starters else ui

def Wiring.toGraph (w : Wiring) (lab : Sig → Label) (starters : List Nat) (sigs : List Sig) : Graph :=
  { conns := w.out, accConns := w.accIn, lab := lab, starters := starters, sigs := sigs }

/-! ## Part D — a state round trip of the composite (`__getstate__` / `__setstate__`: pickle, save + load, a composite
coming back from an executor)

Channels do not carry their connections; the composite stores them as label strings and re-makes them:
`_child_signal_connections` — seen from the receiving side, child by child, `run` before `accumulate_and_run`, each
list front to back (= `runPairs`) — and `_child_signal_firing_order` — the same connections seen from the emitting
side, signal by signal, each list front to back. `__setstate__` re-makes the connections from the first list, going
through it backwards (connecting prepends), and then puts every emitter's list into the saved firing order. -/

/-- `_child_signal_firing_order`; `sigs` = the emitting channels of the children, child by child -/
def Wiring.firingOrder (w : Wiring) : List Sig → List (Sig × Recv)
  | [] => []
  | s :: rest => (w.out s).map (fun r => (s, r)) ++ firingOrder w rest

/-- `_restore_firing_order` for one emitter: the saved receivers that are connected, then whatever else is connected -/
def reorder (saved cur : List Recv) : List Recv :=
  saved.filter (fun r => cur.contains r) ++ cur.filter (fun r => !saved.contains r)

def savedFor (firing : List (Sig × Recv)) (s : Sig) : List Recv :=
  (firing.filter (fun p => p.1 == s)).map (fun p => p.2)

/-- `__setstate__` of the connections. `transposed = false`: the tree as it is; `true`: seeded change C02-4 — the
firing order is "derived" from the receiving-side list (`(out, inp) for inp, out in _child_signal_connections`) -/
def Wiring.roundtrip (transposed : Bool) (w : Wiring) (children : List Nat) (sigs : List Sig) : Wiring :=
  let stored := w.runPairs children
  let firing := if transposed then stored else w.firingOrder sigs
  let w1 := Wiring.empty.connectAll stored.reverse
  { w1 with out := fun s => if sigs.contains s then reorder (savedFor firing s) (w1.out s) else w1.out s }

/-- the all-of trigger itself through a state round trip: its connections come back through the owner's parent
(`Wiring.roundtrip`), what it has heard in the round under way travels in the channel's own state. `forget = true`:
seeded change C02-14 (`__getstate__` stores an empty `received_signals`) -/
def Acc.roundtrip (forget : Bool) (a : Acc) : Acc := if forget then { a with received := [] } else a

/-! ## Part E — edits of a hand-wired graph between wiring and running: `replace_child`, `pull`

Both put connection lists back after tearing them: `replace_child` via `copy_io` (which connects the replacement one
connection at a time — prepending — to everything the owned node is connected to) and `_seat_replacement` (every
neighbour gets the replacement exactly at the owned node's place, the prepended copy is dropped, and the replacement's own
lists are overwritten with the owned node's); `pull` (`run_data_tree`) via saving the lists of every signal channel of the
pulled data tree and of everything connected to one, cutting the `run` / `accumulate_and_run` inputs and the `ran` output
of the tree nodes for a temporary linear wiring, and assigning the saved lists back. -/

def sigNode (s : Sig) : Nat := s / 4
def sigChan (s : Sig) : Nat := s % 4

/-- the replaced child `i` is henceforth the object `j` -/
def renRecv (i j : Nat) (r : Recv) : Recv := { r with node := if r.node = i then j else r.node }
def renSig (i j : Nat) (s : Sig) : Sig := if sigNode s = i then 4 * j + sigChan s else s

/-- `replace_child(i, j)` seen from the signal connections (`j` a fresh, unconnected node; `i` not connected to itself).
`reversed = false`: the tree as it is. `true`: seeded change C02-8 — the replacement keeps the lists `copy_io` built by
prepending, i.e. the owned node's lists backwards -/
def Wiring.replace (reversed : Bool) (w : Wiring) (i j : Nat) : Wiring :=
  let own {α} (l : List α) : List α := if reversed then l.reverse else l
  { out := fun s =>
      if sigNode s = j then own (w.out (4 * i + sigChan s))
      else if sigNode s = i then []
      else (w.out s).map (renRecv i j),
    runIn := fun r =>
      if r = j then own (w.runIn i) else if r = i then [] else (w.runIn r).map (renSig i j),
    accIn := fun r =>
      if r = j then own (w.accIn i) else if r = i then [] else (w.accIn r).map (renSig i j) }

/-- the channels `pull` cuts for its temporary wiring: inputs of the tree nodes and their `ran` -/
def cutSig (tree : List Nat) (s : Sig) : Bool := tree.contains (sigNode s) && sigChan s == 0

def Wiring.cut (w : Wiring) (tree : List Nat) : Wiring :=
  { out := fun s => if cutSig tree s then [] else (w.out s).filter (fun r => !tree.contains r.node),
    runIn := fun r => if tree.contains r then [] else (w.runIn r).filter (fun s => !cutSig tree s),
    accIn := fun r => if tree.contains r then [] else (w.accIn r).filter (fun s => !cutSig tree s) }

/-- is the list of this emitting channel saved? (a channel of the tree, or — `partners` — connected to one) -/
def savedOut (partners : Bool) (w : Wiring) (tree : List Nat) (s : Sig) : Bool :=
  tree.contains (sigNode s) || (partners && (w.out s).any (fun r => tree.contains r.node))

def savedIn (partners : Bool) (tree : List Nat) (r : Nat) (l : List Sig) : Bool :=
  tree.contains r || (partners && l.any (fun s => tree.contains (sigNode s)))

/-- the connection lists after `pull` of a child whose data tree is `tree`. `partners = true`: the tree as it is;
`false`: seeded change C02-9 (only the lists of the tree's own channels are put back) -/
def Wiring.pull (partners : Bool) (w : Wiring) (tree : List Nat) : Wiring :=
  let c := w.cut tree
  { out := fun s => if savedOut partners w tree s then w.out s else c.out s,
    runIn := fun r => if savedIn partners tree r (w.runIn r) then w.runIn r else c.runIn r,
    accIn := fun r => if savedIn partners tree r (w.accIn r) then w.accIn r else c.accIn r }

/-- `node.pull()` of a child without upstream data: its `run()` without emission, outside any running parent -/
def pullNode (nodes : Nat → Node) (st : Store) (i : Nat) : Store :=
  { (runNode nodes st i).1 with execLog := st.execLog, doneLog := st.doneLog }

/-! ### Finite presentation of a signal graph (what the harness reads off the real objects) and the
decidable counterpart of the hypotheses `WF` of `C02_refines_queue` (soundness: `FinGraph.check_sound`) -/

structure FinGraph where
  conns : List (List Recv)       -- index = emitting channel
  accConns : List (List Sig)     -- index = child
  labs : List Label              -- index = emitting channel
  starters : List Nat
  deriving Repr

def FinGraph.toGraph (f : FinGraph) : Graph :=
  { conns := fun s => f.conns.getD s [], accConns := fun r => f.accConns.getD r [],
    lab := fun s => f.labs.getD s s, starters := f.starters, sigs := List.range f.conns.length }

def FinGraph.check (f : FinGraph) : Bool :=
  let g := f.toGraph
  (List.range f.accConns.length).all (fun r => (g.accConns r).all (fun s =>
      decide (s < f.conns.length) && (g.conns s).contains { node := r, acc := true })) &&
  (List.range f.conns.length).all (fun s => (g.conns s).all (fun rv =>
      !rv.acc || (g.accConns rv.node).contains s)) &&
  (List.range f.accConns.length).all (fun r => (g.accConns r).all (fun s => (g.accConns r).all (fun s' =>
      g.lab s != g.lab s' || s == s')))

end PwVerif.Signal
