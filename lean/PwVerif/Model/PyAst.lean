import PwVerif.Model.FuncWrap
/-!
# PyAst — what `ParseOutput` reads off the source of a function (model slice of C17)

Transcribes `pyiron_workflow/output_parser.py`:

* `ParseOutput.node_return`      — `ast.walk` over the parsed (dedented) source of the function, every
                                    `ast.Return` collected, more than one refused, else the only one;
* `ParseOutput.get_string`       — the source text of an expression node cut out of the source LINES with the
                                    node's `lineno / col_offset / end_lineno / end_col_offset`, each piece passed
                                    through `_remove_spaces_until_character` (`re.sub(r"\s+(?=\s)", "", ·)`) and the
                                    pieces concatenated;
* `ParseOutput.get_parsed_output` — no return / bare return ⇒ `None`; an `ast.Tuple` ⇒ the texts of its elements;
                                    anything else ⇒ its text, `"None"` ⇒ `None`.

The Python AST is modelled as far as this code can tell nodes apart: a statement is a `return` (bare, of an
`ast.Tuple` with the spans of its elements, or of any other expression with its span), a statement without
sub-statements, or a statement WITH sub-statements (`if/for/while/with/try/match`, one child per statement block,
and — flagged as a *scope* — nested `def` / `async def` / `class`, whose `return`s are not the function's own).
Expressions contain no statements (a `lambda` has no `return`), so they matter through their spans only.

Positions are what `ast` reports: 1-based line numbers and column offsets in UTF-8 BYTES of the line.
Core Lean only.
-/
namespace PwVerif.PyAst
open PwVerif PwVerif.FuncWrap

/-- `lineno, col_offset, end_lineno, end_col_offset` of an expression node -/
structure Span where
  l0 : Nat
  c0 : Nat
  l1 : Nat
  c1 : Nat
  deriving Repr, DecidableEq

/-- the value of a `return` as `get_parsed_output` distinguishes it -/
inductive RetVal where
  | tuple (elts : List Span)     -- `ast.Tuple`: the spans of its elements (`.dims` = `.elts`)
  | other (sp : Span)            -- any other expression
  deriving Repr

/-- a statement of the function body -/
inductive PStmt where
  | ret (v : Option RetVal)                         -- `ast.Return`, `value` may be absent
  | leaf                                             -- no sub-statements (assignment, expression, pass, raise …)
  | inner (scope : Bool) (children : List PStmt)     -- sub-statements; `scope` = nested def / async def / class
  deriving Repr

/-! ## the walk -/

mutual
/-- the `return` statements found below a statement; `nested = true` is `ast.walk` (everything), `false`
stops at nested scopes (the function's OWN returns) -/
def retsOf (nested : Bool) : PStmt → List (Option RetVal)
  | .ret v => [v]
  | .leaf => []
  | .inner scope cs => if scope && !nested then [] else retsOfL nested cs
def retsOfL (nested : Bool) : List PStmt → List (Option RetVal)
  | [] => []
  | s :: r => retsOf nested s ++ retsOfL nested r
end

mutual
/-- some nested scope below this statement contains a `return` -/
def nestedRet : PStmt → Bool
  | .ret _ => false
  | .leaf => false
  | .inner scope cs => if scope then !(retsOfL true cs).isEmpty else nestedRetL cs
def nestedRetL : List PStmt → Bool
  | [] => false
  | s :: r => nestedRet s || nestedRetL r
end

/-! ## the text -/

/-- python's `\s` on the characters the generator writes (ASCII white space) -/
def isWs (c : Char) : Bool := c == ' ' || c == '\t' || c == '\n' || c == '\r' || c == '\x0b' || c == '\x0c'

/-- `re.sub(r"\s+(?=\s)", "", s)`: of every run of white space only the last character survives, i.e. a white
space character is dropped exactly when the next character is white space too -/
def removeSpaces : List Char → List Char
  | [] => []
  | [c] => [c]
  | c :: d :: r => if isWs c && isWs d then removeSpaces (d :: r) else c :: removeSpaces (d :: r)

/-- python's `s[a:b]` on a list (clamped) -/
def slice (l : List Char) (a b : Nat) : List Char := (l.take b).drop a

/-- number of UTF-8 bytes of a piece of text -/
def bytes (l : List Char) : Nat := (l.map fun c => c.utf8Size).sum

/-- the index of the character that starts at byte offset `b` (`len(line.encode()[:b].decode())`) -/
def charIdx : List Char → Nat → Nat
  | [], _ => 0
  | c :: r, b => if b < c.utf8Size then 0 else 1 + charIdx r (b - c.utf8Size)

/-- the column to slice the `str` line with: the pinned code uses the BYTE offset as it is -/
def col (byteCols : Bool) (line : List Char) (b : Nat) : Nat := if byteCols then b else charIdx line b

/-- `ParseOutput.get_string`: `for ll in range(lineno - 1, end_lineno)`, four cases, pieces concatenated -/
def getStringFrom (byteCols : Bool) (src : List (List Char)) (sp : Span) : Nat → Nat → List Char
  | _, 0 => []
  | ll, fuel + 1 =>
    if ll ≥ sp.l1 then []
    else
      let line := src.getD ll []
      let piece :=
        if ll = sp.l0 - 1 ∧ ll = sp.l1 - 1 then slice line (col byteCols line sp.c0) (col byteCols line sp.c1)
        else if ll = sp.l0 - 1 then line.drop (col byteCols line sp.c0)
        else if ll = sp.l1 - 1 then line.take (col byteCols line sp.c1)
        else line
      removeSpaces piece ++ getStringFrom byteCols src sp (ll + 1) fuel

def getString (byteCols : Bool) (src : List (List Char)) (sp : Span) : String :=
  String.ofList (getStringFrom byteCols src sp (sp.l0 - 1) (sp.l1 - (sp.l0 - 1)))

/-! ## `get_parsed_output` -/

/-- which of the two departures of the pinned parser from the statement the tree shows -/
structure ScrapeCfg where
  /-- `ast.walk` also enters nested `def`s and classes (pinned: `true`) -/
  walkNested : Bool := true
  /-- byte offsets are used as character indices (pinned: `true`) -/
  byteCols : Bool := true
  deriving Repr, DecidableEq

def ScrapeCfg.pinned : ScrapeCfg := { walkNested := true, byteCols := true }
def ScrapeCfg.repaired : ScrapeCfg := { walkNested := false, byteCols := false }

/-- the `return` statements as the definition layer of `FuncWrap` takes them (`FnDef.rets`): what the walk
finds, each with the texts `get_string` cuts out -/
def toRetStmt (byteCols : Bool) (src : List (List Char)) : Option RetVal → RetStmt
  | none => .bare
  | some (.tuple sps) => .value (.tuple (sps.map (getString byteCols src)))
  | some (.other sp) => .value (.single (getString byteCols src sp))

def retStmts (cfg : ScrapeCfg) (src : List (List Char)) (body : List PStmt) : List RetStmt :=
  (retsOfL cfg.walkNested body).map (toRetStmt cfg.byteCols src)

/-- `ParseOutput(f).output` from the parsed source: the walk, the count check, the texts -/
def scrape (cfg : ScrapeCfg) (src : List (List Char)) (body : List PStmt) : Except DefErr (Option (List String)) :=
  parseOutput (retStmts cfg src body)

end PwVerif.PyAst
