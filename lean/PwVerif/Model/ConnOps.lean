import PwVerif.Model.Conn
/-!
# Connection editing, second layer (C12): refusals per side, reports, owners

`Model/Conn.lean` transcribes `Channel.connect` / `Channel.disconnect` as two atomic primitives.
Here the same methods are transcribed **step by step** — own half first, then the partner's —
with an editing permission `me : Nat → Bool` ("may this channel's `connect`/`disconnect` be
entered?") consulted exactly where an overriding channel class would consult it: at the entry of
every `connect(*others)` / `disconnect(*others)` call, *including the reflexive call*
`other.disconnect(self)` that `Channel.disconnect` makes after it has removed its own half.
A refusal there is a raise **between the two halves**; the functions return the graph as the code
leaves it, the report the call would have returned, and whether it raised.

    def disconnect(self, *others):                      -- disconnectG me g a bs
        [guard: me self]                                --   entry, nothing touched yet
        destroyed = []
        for other in others:                            -- discLoop
            if other in self.connections:
                self.connections.remove(other)          --   own half
                other.disconnect(self)                  --   discBack: [guard: me other], partner's half,
                destroyed.append((self, other))         --             innermost self.disconnect(other) is a no-op
        return destroyed

    def connect(self, *others):                         -- connectG me g a bs
        [guard: me self]
        for other in others: ... self.connections.insert(0, other); other.connections.insert(0, self)
                                                        --   the partner's LIST is edited directly: no second guard

In the pinned tree nothing overrides these methods: `me = fun _ => true`, and the functions
coincide with those of `Model/Conn.lean` (`Proofs/ConnOps.lean`, `*_allowed`).

Owners: a panel / node / macro / workflow `disconnect()` is `disconnectChansR` over the list of
channels the owner's panels hold at that moment (its own channels; for a `Workflow` the children's
channels its data panels expose by reference), in panel order; the report is the concatenation.
-/
namespace PwVerif.ConnOps
open PwVerif PwVerif.Conn

/-- editing permission per channel -/
abbrev May := Nat → Bool

def allow : May := fun _ => true

/-- what an entry point answers -/
inductive Out | ok | typeErr | connErr | locked
  deriving DecidableEq, Repr

def Out.ofRes : Res → Out
  | .ok => .ok | .typeErr => .typeErr | .connErr => .connErr

/-! ## connect -/

/-- `Channel.connect(*others)` behind the entry guard of `self` -/
def connectG (me : May) (g : G) (a : Nat) (bs : List Nat) : G × Out :=
  if me a then
    match connect g a bs with
    | (g', r) => (g', .ofRes r)
  else (g, .locked)

/-! ## disconnect, half by half -/

def eraseHalf (g : G) (a b : Nat) : G := { g with conns := updF g.conns a ((g.conns a).erase b) }

/-- the reflexive call `b.disconnect(a)` made by `a.disconnect(b)` after `a`'s half is gone:
guard of `b`; `b` removes `a`; the innermost `a.disconnect(b)` passes `a`'s guard again and finds
nothing. Returns the graph and "raised". -/
def discBack (me : May) (g : G) (b a : Nat) : G × Bool :=
  if me b then
    if a ∈ g.conns b then (eraseHalf g b a, !me a)
    else (g, false)
  else (g, true)

/-- loop of `Channel.disconnect` over `others` (after the entry guard) -/
def discLoop (me : May) (g : G) (a : Nat) : List Nat → List (Nat × Nat) → G × List (Nat × Nat) × Bool
  | [], rep => (g, rep, false)
  | b :: bs, rep =>
    if b ∈ g.conns a then
      match discBack me (eraseHalf g a b) b a with
      | (g2, true) => (g2, rep, true)
      | (g2, false) => discLoop me g2 a bs (rep ++ [(a, b)])
    else discLoop me g a bs rep

/-- `Channel.disconnect(*others)`: graph, report, raised -/
def disconnectG (me : May) (g : G) (a : Nat) (bs : List Nat) : G × List (Nat × Nat) × Bool :=
  if me a then discLoop me g a bs [] else (g, [], true)

/-- `Channel.disconnect_all()` -/
def disconnectAllG (me : May) (g : G) (a : Nat) : G × List (Nat × Nat) × Bool :=
  disconnectG me g a (g.conns a)

/-- `IO.disconnect()` / `Signals.disconnect()` / `HasIO.disconnect()`: the channels of the panels in
order; a raise stops the loop (the report so far is lost with the exception) -/
def disconnectChansG (me : May) (g : G) : List Nat → List (Nat × Nat) → G × List (Nat × Nat) × Bool
  | [], rep => (g, rep, false)
  | c :: cs, rep =>
    match disconnectAllG me g c with
    | (g', _, true) => (g', rep, true)
    | (g', r, false) => disconnectChansG me g' cs (rep ++ r)

/-! ## the pinned tree: no guard anywhere, reports only -/

def disconnectR (g : G) (a : Nat) (bs : List Nat) : G × List (Nat × Nat) :=
  let r := disconnectG allow g a bs
  (r.1, r.2.1)

def disconnectAllR (g : G) (a : Nat) : G × List (Nat × Nat) := disconnectR g a (g.conns a)

def disconnectChansR (g : G) (cs : List Nat) : G × List (Nat × Nat) :=
  let r := disconnectChansG allow g cs []
  (r.1, r.2.1)

/-- what a report must be, in terms of the graph BEFORE the call: every channel of the owner, in
panel order, reports the partners it still has (those not already separated through an earlier
channel of the same owner) -/
def reportSpec (g : G) : List Nat → List Nat → List (Nat × Nat)
  | [], _ => []
  | c :: cs, seen =>
    (if c ∈ seen then [] else ((g.conns c).filter fun y => !(seen.contains y)).map fun y => (c, y))
      ++ reportSpec g cs (seen ++ [c])

/-! ## owner level observers: `connected`, `connections` -/

/-- `IO.connected` / `Signals.connected` / `HasIO.connected` over the channels of the panels -/
def anyConnected (g : G) (cs : List Nat) : Bool := cs.any fun c => !(g.conns c).isEmpty

/-- `IO.connections` as a set: every partner of every channel of the panel -/
def panelConnections (g : G) (cs : List Nat) : List Nat := (cs.flatMap g.conns).eraseDups

/-! ## a protocol that cannot be torn: look at both guards before touching either half -/

def connect1Safe (me : May) (g : G) (a b : Nat) : G × Out :=
  if me a && me b then
    match connect1 g a b with
    | (g', r) => (g', .ofRes r)
  else (g, .locked)

def disconnect1Safe (me : May) (g : G) (a b : Nat) : G × Out :=
  if me a && me b then (disconnect1 g a b, .ok) else (g, .locked)

inductive SafeOp
  | connect (a b : Nat)
  | disconnect (a b : Nat)
  deriving Repr

def stepSafe (me : May) (g : G) : SafeOp → G × Out
  | .connect a b => connect1Safe me g a b
  | .disconnect a b => disconnect1Safe me g a b

/-- a history in which the permission may change between any two operations (nodes start and
finish running) -/
def runSafe (g : G) (h : List (May × SafeOp)) : G := h.foldl (fun g s => (stepSafe s.1 g s.2).1) g

/-! ## copies as the tree has them now (a no-op `connect` is not recorded as new)

`Model/Conn.lean`'s `copyConns` / `copyIo` transcribe the code as it was pinned: every attempted
partner went into the undo log, also one that had been connected before. Since `a9e5065` the log
only takes what the copy formed itself:

    already_connected = connect_to in self.connections
    self.connect(connect_to)
    if not already_connected: new_connections.append(connect_to)
-/

/-- `Channel.copy_connections(other)` -/
def copyConnsAuxN (g : G) (a : Nat) : List Nat → List Nat → G × Res
  | [], _ => (g, .ok)
  | c :: cs, done =>
    let already := decide (c ∈ g.conns a)
    match connect1 g a c with
    | (g', .ok) => copyConnsAuxN g' a cs (if already then done else done ++ [c])
    | (g', r) => (disconnect g' a done, r)

def copyConnsN (g : G) (a b : Nat) : G × Res := copyConnsAuxN g a (g.conns b) []

/-- inner loop of `HasIO._copy_connections` over the targets of one channel of `other` -/
def copyIoTargetsN (g : G) (my : Option Nat) (failHard : Bool) :
    List Nat → List (Nat × Nat) → G × List (Nat × Nat) × Bool
  | [], new => (g, new, false)
  | t :: ts, new =>
    match my with
    | none => if failHard then (g, new, true) else copyIoTargetsN g my failHard ts new
    | some m =>
      let already := decide (t ∈ g.conns m)
      match connect1 g m t with
      | (g', .ok) => copyIoTargetsN g' my failHard ts (if already then new else new ++ [(m, t)])
      | (g', _) => if failHard then (g', new, true) else copyIoTargetsN g' my failHard ts new

def copyIoPairsN (g : G) (failHard : Bool) :
    List (Option Nat × Nat) → List (Nat × Nat) → G × List (Nat × Nat) × Bool
  | [], new => (g, new, false)
  | (my, o) :: ps, new =>
    match copyIoTargetsN g my failHard (g.conns o) new with
    | (g', new', true) => (g', new', true)
    | (g', new', false) => copyIoPairsN g' failHard ps new'

/-- `HasIO._copy_connections(other, fail_hard)` over the zipped panels -/
def copyIoN (g : G) (failHard : Bool) (pairs : List (Option Nat × Nat)) : G × Res :=
  match copyIoPairsN g failHard pairs [] with
  | (g', new, true) => (undoPairs g' new, .connErr)
  | (g', _, false) => (g', .ok)

/-! ## the alphabet of the current tree -/

inductive Op
  | connect (a : Nat) (bs : List Nat)
  | disconnect (a : Nat) (bs : List Nat)
  | disconnectAll (a : Nat)
  /-- panel / signals / node / macro / workflow `disconnect()`, `disconnect_run()`, `remove_child` -/
  | disconnectChans (cs : List Nat)
  | copyConns (a b : Nat)
  | copyIo (failHard : Bool) (pairs : List (Option Nat × Nat))
  deriving Repr

def step (g : G) : Op → G × Res
  | .connect a bs => connect g a bs
  | .disconnect a bs => ((disconnectR g a bs).1, .ok)
  | .disconnectAll a => ((disconnectAllR g a).1, .ok)
  | .disconnectChans cs => ((disconnectChansR g cs).1, .ok)
  | .copyConns a b => copyConnsN g a b
  | .copyIo fh ps => copyIoN g fh ps

def run (g : G) (ops : List Op) : G := ops.foldl (fun g o => (step g o).1) g

end PwVerif.ConnOps
