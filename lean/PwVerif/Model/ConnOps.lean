import PwVerif.Model.Conn
/-!
# Connection editing, second layer (C12): refusals per side, reports, owners

`Model/Conn.lean` transcribes `Channel.connect` / `Channel.disconnect` as two atomic primitives.
Here the same methods are transcribed **step by step** — own half first, then the partner's —
with an editing permission `me : Nat → Bool` ("may this channel's `connect`/`disconnect` be
entered?") consulted exactly where an overriding channel class would consult it: at the entry of
every `connect(*others)` / `disconnect(*others)` call, *including the reflexive call*
`other.disconnect(self)` that `Channel.disconnect` makes after it has removed its own half.
A refusal there is a raise **between the two halves**; the functions return the graph as the code
leaves it, the report the call would have returned, and whether it raised.

    def disconnect(self, *others):                      -- disconnectG me g a bs
        [guard: me self]                                --   entry, nothing touched yet
        destroyed = []
        for other in others:                            -- discLoop
            if other in self.connections:
                self.connections.remove(other)          --   own half
                other.disconnect(self)                  --   discBack: [guard: me other], partner's half,
                destroyed.append((self, other))         --             innermost self.disconnect(other) is a no-op
        return destroyed

    def connect(self, *others):                         -- connectG me g a bs
        [guard: me self]
        for other in others: ... self.connections.insert(0, other); other.connections.insert(0, self)
                                                        --   the partner's LIST is edited directly: no second guard

In the pinned tree nothing overrides these methods: `me = fun _ => true`, and the functions
coincide with those of `Model/Conn.lean` (`Proofs/ConnOps.lean`, `*_allowed`).

Owners: a panel / node / macro / workflow `disconnect()` is `disconnectChansR` over the list of
channels the owner's panels hold at that moment (its own channels; for a `Workflow` the children's
channels its data panels expose by reference), in panel order; the report is the concatenation.
-/
namespace PwVerif.ConnOps
open PwVerif PwVerif.Conn

/-- editing permission per channel -/
abbrev May := Nat → Bool

def allow : May := fun _ => true

/-- what an entry point answers -/
inductive Out | ok | typeErr | connErr | locked
  deriving DecidableEq, Repr

def Out.ofRes : Res → Out
  | .ok => .ok | .typeErr => .typeErr | .connErr => .connErr

/-! ## connect -/

/-- `Channel.connect(*others)` behind the entry guard of `self` -/
def connectG (me : May) (g : G) (a : Nat) (bs : List Nat) : G × Out :=
  if me a then
    match connect g a bs with
    | (g', r) => (g', .ofRes r)
  else (g, .locked)

/-! ## disconnect, half by half -/

def eraseHalf (g : G) (a b : Nat) : G := { g with conns := updF g.conns a ((g.conns a).erase b) }

/-- the reflexive call `b.disconnect(a)` made by `a.disconnect(b)` after `a`'s half is gone:
guard of `b`; `b` removes `a`; the innermost `a.disconnect(b)` passes `a`'s guard again and finds
nothing. Returns the graph and "raised". -/
def discBack (me : May) (g : G) (b a : Nat) : G × Bool :=
  if me b then
    if a ∈ g.conns b then (eraseHalf g b a, !me a)
    else (g, false)
  else (g, true)

/-- loop of `Channel.disconnect` over `others` (after the entry guard) -/
def discLoop (me : May) (g : G) (a : Nat) : List Nat → List (Nat × Nat) → G × List (Nat × Nat) × Bool
  | [], rep => (g, rep, false)
  | b :: bs, rep =>
    if b ∈ g.conns a then
      match discBack me (eraseHalf g a b) b a with
      | (g2, true) => (g2, rep, true)
      | (g2, false) => discLoop me g2 a bs (rep ++ [(a, b)])
    else discLoop me g a bs rep

/-- `Channel.disconnect(*others)`: graph, report, raised -/
def disconnectG (me : May) (g : G) (a : Nat) (bs : List Nat) : G × List (Nat × Nat) × Bool :=
  if me a then discLoop me g a bs [] else (g, [], true)

/-- `Channel.disconnect_all()` -/
def disconnectAllG (me : May) (g : G) (a : Nat) : G × List (Nat × Nat) × Bool :=
  disconnectG me g a (g.conns a)

/-- `IO.disconnect()` / `Signals.disconnect()` / `HasIO.disconnect()`: the channels of the panels in
order; a raise stops the loop (the report so far is lost with the exception) -/
def disconnectChansG (me : May) (g : G) : List Nat → List (Nat × Nat) → G × List (Nat × Nat) × Bool
  | [], rep => (g, rep, false)
  | c :: cs, rep =>
    match disconnectAllG me g c with
    | (g', _, true) => (g', rep, true)
    | (g', r, false) => disconnectChansG me g' cs (rep ++ r)

/-! ## the pinned tree: no guard anywhere, reports only -/

def disconnectR (g : G) (a : Nat) (bs : List Nat) : G × List (Nat × Nat) :=
  let r := disconnectG allow g a bs
  (r.1, r.2.1)

def disconnectAllR (g : G) (a : Nat) : G × List (Nat × Nat) := disconnectR g a (g.conns a)

def disconnectChansR (g : G) (cs : List Nat) : G × List (Nat × Nat) :=
  let r := disconnectChansG allow g cs []
  (r.1, r.2.1)

/-- what a report must be, in terms of the graph BEFORE the call: every channel of the owner, in
panel order, reports the partners it still has (those not already separated through an earlier
channel of the same owner) -/
def reportSpec (g : G) : List Nat → List Nat → List (Nat × Nat)
  | [], _ => []
  | c :: cs, seen =>
    (if c ∈ seen then [] else ((g.conns c).filter fun y => !(seen.contains y)).map fun y => (c, y))
      ++ reportSpec g cs (seen ++ [c])

/-! ## owner level observers: `connected`, `connections` -/

/-- `IO.connected` / `Signals.connected` / `HasIO.connected` over the channels of the panels -/
def anyConnected (g : G) (cs : List Nat) : Bool := cs.any fun c => !(g.conns c).isEmpty

/-- `IO.connections` as a set: every partner of every channel of the panel -/
def panelConnections (g : G) (cs : List Nat) : List Nat := (cs.flatMap g.conns).eraseDups

/-! ## a protocol that cannot be torn: look at both guards before touching either half -/

def connect1Safe (me : May) (g : G) (a b : Nat) : G × Out :=
  if me a && me b then
    match connect1 g a b with
    | (g', r) => (g', .ofRes r)
  else (g, .locked)

def disconnect1Safe (me : May) (g : G) (a b : Nat) : G × Out :=
  if me a && me b then (disconnect1 g a b, .ok) else (g, .locked)

inductive SafeOp
  | connect (a b : Nat)
  | disconnect (a b : Nat)
  deriving Repr

def stepSafe (me : May) (g : G) : SafeOp → G × Out
  | .connect a b => connect1Safe me g a b
  | .disconnect a b => disconnect1Safe me g a b

/-- a history in which the permission may change between any two operations (nodes start and
finish running) -/
def runSafe (g : G) (h : List (May × SafeOp)) : G := h.foldl (fun g s => (stepSafe s.1 g s.2).1) g

/-! ## copies as the tree has them now (a no-op `connect` is not recorded as new)

`Model/Conn.lean`'s `copyConns` / `copyIo` transcribe the code as it was pinned: every attempted
partner went into the undo log, also one that had been connected before. Since `a9e5065` the log
only takes what the copy formed itself:

    already_connected = connect_to in self.connections
    self.connect(connect_to)
    if not already_connected: new_connections.append(connect_to)
-/

/-- `Channel.copy_connections(other)` -/
def copyConnsAuxN (g : G) (a : Nat) : List Nat → List Nat → G × Res
  | [], _ => (g, .ok)
  | c :: cs, done =>
    let already := decide (c ∈ g.conns a)
    match connect1 g a c with
    | (g', .ok) => copyConnsAuxN g' a cs (if already then done else done ++ [c])
    | (g', r) => (disconnect g' a done, r)

def copyConnsN (g : G) (a b : Nat) : G × Res := copyConnsAuxN g a (g.conns b) []

/-- inner loop of `HasIO._copy_connections` over the targets of one channel of `other` -/
def copyIoTargetsN (g : G) (my : Option Nat) (failHard : Bool) :
    List Nat → List (Nat × Nat) → G × List (Nat × Nat) × Bool
  | [], new => (g, new, false)
  | t :: ts, new =>
    match my with
    | none => if failHard then (g, new, true) else copyIoTargetsN g my failHard ts new
    | some m =>
      let already := decide (t ∈ g.conns m)
      match connect1 g m t with
      | (g', .ok) => copyIoTargetsN g' my failHard ts (if already then new else new ++ [(m, t)])
      | (g', _) => if failHard then (g', new, true) else copyIoTargetsN g' my failHard ts new

def copyIoPairsN (g : G) (failHard : Bool) :
    List (Option Nat × Nat) → List (Nat × Nat) → G × List (Nat × Nat) × Bool
  | [], new => (g, new, false)
  | (my, o) :: ps, new =>
    match copyIoTargetsN g my failHard (g.conns o) new with
    | (g', new', true) => (g', new', true)
    | (g', new', false) => copyIoPairsN g' failHard ps new'

/-- `HasIO._copy_connections(other, fail_hard)` over the zipped panels -/
def copyIoN (g : G) (failHard : Bool) (pairs : List (Option Nat × Nat)) : G × Res :=
  match copyIoPairsN g failHard pairs [] with
  | (g', new, true) => (undoPairs g' new, .connErr)
  | (g', _, false) => (g', .ok)

/-! ## `Composite.replace_child`: hard copy, `_seat_replacement`, removal of the replaced node

    stand_ins = {id(old): (old, new_panel[key]) for zipped panels, for key, old in old_panel.items() if old.connected}
    neighbours = {id(c): c for old, _ in stand_ins.values() for c in old.connections}
    for c in neighbours.values():
        c.connections = [stand_ins[id(x)][1] if id(x) in stand_ins else x
                         for x in c.connections if x.owner is not replacement]
    for old, new in stand_ins.values():
        new.connections = [x for x in old.connections if x.owner is not owned]
        old.connections = []

The lists are ASSIGNED, one channel after the other (the second loop reads what the first wrote);
`x.owner is replacement` is membership in the replacement's panel channels `newChans`. -/

structure RepArgs where
  /-- all panel channels of the replaced node / of the replacement -/
  oldChans : List Nat
  newChans : List Nat
  /-- the zipped panels: `(counterpart on the replacement, channel of the replaced node)` -/
  pairs : List (Option Nat × Nat)
  deriving Repr

def standInsOf (g : G) (pairs : List (Option Nat × Nat)) : List (Nat × Nat) :=
  pairs.filterMap fun p => if (g.conns p.2).isEmpty then none else p.1.map fun n => (p.2, n)

def subst (m : List (Nat × Nat)) (y : Nat) : Nat :=
  match m.find? (fun e => e.1 == y) with
  | some e => e.2
  | none => y

/-- first occurrences, as a dict keyed by identity keeps them -/
def uniq : List Nat → List Nat
  | [] => []
  | x :: xs => if x ∈ uniq xs then uniq xs else x :: uniq xs

def partnersOf (g : G) (m : List (Nat × Nat)) : List Nat := m.flatMap fun e => g.conns e.1

/-- `channel.connections = l` -/
def setConns (g : G) (c : Nat) (l : List Nat) : G := { g with conns := updF g.conns c l }

def seatNeighbour (m : List (Nat × Nat)) (newChans : List Nat) (g : G) (q : Nat) : G :=
  setConns g q (((g.conns q).filter fun x => !newChans.contains x).map (subst m))

def seatNeighbours (g : G) (m : List (Nat × Nat)) (newChans : List Nat) (qs : List Nat) : G :=
  qs.foldl (seatNeighbour m newChans) g

def seatStandIn (oldChans : List Nat) (g : G) (e : Nat × Nat) : G :=
  setConns (setConns g e.2 ((g.conns e.1).filter fun x => !oldChans.contains x)) e.1 []

def seatStandIns (g : G) (oldChans : List Nat) (m : List (Nat × Nat)) : G :=
  m.foldl (seatStandIn oldChans) g

def seat (g : G) (m : List (Nat × Nat)) (oldChans newChans : List Nat) : G :=
  seatStandIns (seatNeighbours g m newChans (uniq (partnersOf g m))) oldChans m

def disjointL (a b : List Nat) : Bool := a.all fun x => !b.contains x

/-- what `_seat_replacement` relies on (and what a hard copy onto an unconnected replacement
establishes): the two nodes share no channel; stand-ins pair distinct channels of the replaced node
with distinct channels of the replacement of the same kind; every connected channel of the replaced node
has a stand-in; a channel of the replacement is connected only if it is a stand-in, and then only to
partners of the replaced node. The model CHECKS this and answers `badObs` otherwise. -/
def seatable (g : G) (m : List (Nat × Nat)) (oldChans newChans : List Nat) : Bool :=
  disjointL oldChans newChans
  && decide ((m.map Prod.fst).Nodup) && decide ((m.map Prod.snd).Nodup)
  && m.all (fun e => oldChans.contains e.1 && newChans.contains e.2 && decide (g.kind e.1 = g.kind e.2))
  && oldChans.all (fun o => (g.conns o).isEmpty || (m.map Prod.fst).contains o)
  && newChans.all (fun n => (g.conns n).isEmpty || (m.map Prod.snd).contains n)
  && newChans.all (fun n => (g.conns n).all fun z => (partnersOf g m).contains z)

inductive RepOut | ok | refused | connErr | badObs
  deriving DecidableEq, Repr

/-- connection side of `replace_child`. `pre = false`: one of the guards that do not look at
connections refused (parent, ancestry, type, value links — C13/C14's subject, observed). -/
def replaceConn (g : G) (r : RepArgs) (pre : Bool) : G × RepOut :=
  if !pre then (g, .refused)
  else if anyConnected g r.newChans then (g, .refused)
  else
    match copyIoN g true r.pairs with
    | (g1, .ok) =>
      let m := standInsOf g1 r.pairs
      if seatable g1 m r.oldChans r.newChans then
        -- `remove_child(owned)`: its `disconnect()` (finds nothing any more)
        (disconnectChans (seat g1 m r.oldChans r.newChans) r.oldChans, .ok)
      else (g1, .badObs)
    | (g1, _) => (g1, .connErr)

/-! ## the other places that ASSIGN connection lists

* `topology._set_new_run_connections_with_fallback_recovery` (every `run` of an automated workflow, every
  `pull`): saves the lists of the `ran` / `run` / `accumulate_and_run` channels of the given nodes and of their
  partners, disconnects those channels, lets the wiring function connect; when deriving the flow fails
  (cycle, upstream outside) it assigns the saved lists back.
* `Composite._restore_firing_order` (unpickling, merge-back from a by-value executor): after re-connecting
  from label tuples each output signal's list is assigned a permutation of itself.
-/

def savedOf (g : G) (cut : List Nat) : List (Nat × List Nat) :=
  (cut.flatMap fun c => c :: g.conns c).map fun c => (c, g.conns c)

def restoreSaved (g : G) (saved : List (Nat × List Nat)) : G := saved.foldl (fun g p => setConns g p.1 p.2) g

/-- cut, and — if the flow cannot be derived — put the saved lists back (nothing has been wired yet: the
sort comes first, signal connections cannot be refused) -/
def dagAttempt (g : G) (cut : List Nat) (fail : Bool) : G :=
  let g1 := disconnectChans g cut
  if fail then restoreSaved g1 (savedOf g cut) else g1

/-- `out.connections = saved ∩ current ++ current \ saved`: accepted iff a permutation of what is there -/
def reorder (g : G) (c : Nat) (l : List Nat) : G × Bool :=
  if l.isPerm (g.conns c) then (setConns g c l, true) else (g, false)

/-! ## two more sites that write connection lists directly (since f343608 / f195940)

* `Composite._restore_connections_from_strings` (unpickling, merge-back): a stored connection is re-created by
  `if out not in inp.connections: inp.connections.insert(0, out); out.connections.insert(0, inp)` — no
  `connect`, hence no hint test. The channels come from an inputs panel and from the outputs panel of the same
  flavour, so the pair is conjugate by construction; the model checks that and answers `badObs` otherwise.
  ASSUMED, not checked by the code any more: that the stored pair is hint-compatible (it was when it was made).
* `Node.load` in place: every old channel hands its list to the loaded channel of the same type and label,
  every partner lists the loaded channel where it listed the old one, the old channel lets go — a seating with a
  single stand-in (same assignments; the order in which the code writes them does not matter because the old
  channel does not list itself and the loaded channel is unconnected).
-/

def restoreInsert (g : G) (a b : Nat) : G × Bool :=
  if b ∈ g.conns a then (g, true)
  else if (g.kind a).conj (g.kind b) then
    ({ g with conns := updF (updF g.conns a (b :: g.conns a)) b (a :: g.conns b) }, true)
  else (g, false)

def moveChan (g : G) (o n : Nat) : G × Bool :=
  if seatable g [(o, n)] [o] [n] then (seat g [(o, n)] [o] [n], true) else (g, false)

/-! ## `Node.run_data_tree` (every `pull`) since 89b457b: save, rewire, run, restore by assignment

The lists of every signal channel of the data-tree nodes and of every channel connected to one are saved
(`keys`); the linear wiring (cuts and `>>` among those very channels) and the upstream run follow; the
`finally` block assigns the saved lists back. -/

inductive Prim | connect (a b : Nat) | disconnect (a b : Nat)
  deriving Repr

def runPrims (g : G) (ps : List Prim) : G :=
  ps.foldl (fun g p => match p with
    | .connect a b => (connect1 g a b).1
    | .disconnect a b => disconnect1 g a b) g

def primsWithin (keys : List Nat) (ps : List Prim) : Bool :=
  ps.all fun p => match p with
    | .connect a b => keys.contains a && keys.contains b
    | .disconnect a b => keys.contains a && keys.contains b

def savedKeys (g : G) (keys : List Nat) : List (Nat × List Nat) := keys.map fun c => (c, g.conns c)

/-- the pull as far as connection lists go; `false` when an edit in between touched a channel that was not saved -/
def pullAttempt (g : G) (keys : List Nat) (ps : List Prim) : G × Bool :=
  if primsWithin keys ps then (restoreSaved (runPrims g ps) (savedKeys g keys), true) else (g, false)

/-- what the driver checks when it replays a recorded pull: outside the saved channels nothing differs from the
graph at save time -/
def framed (g0 g : G) (keys dom : List Nat) : Bool :=
  dom.all fun x => keys.contains x || decide (g.conns x = g0.conns x)

/-! ## connections formed through calls: `set_input_values(*args, **kwargs)`, `node.run(**kwargs)`, `node(**kwargs)`

    self._ensure_all_input_keys_present(kwargs.keys(), self.inputs.labels)     -- unknown keyword: nothing applied
    for k, v in kwargs.items():
        self.inputs[k] = v          -- a channel (or a node with one output): `inputs[k].connect(v.channel)`;
                                    -- anything else: the value setter (hint test)

The keywords are applied in order; the first refusal raises and the earlier ones stay. -/

inductive CallItem
  /-- a channel-valued keyword: `inputs[k].connect(out)` -/
  | chan (a b : Nat)
  /-- a value the input accepts / refuses (hint) -/
  | valOk
  | valBad
  deriving Repr

def callConn (g : G) : List CallItem → G × Res
  | [] => (g, .ok)
  | .chan a b :: rest =>
    match connect1 g a b with
    | (g', .ok) => callConn g' rest
    | (g', e) => (g', e)
  | .valOk :: rest => callConn g rest
  | .valBad :: _ => (g, .typeErr)

/-- `known = false`: a keyword names no input, more positional values than inputs, or both ways for one input -/
def callOp (g : G) (known : Bool) (items : List CallItem) : G × Res :=
  if known then callConn g items else (g, .connErr)

/-- `Node.load` in place, whole node: every old channel with a loaded counterpart of the same TYPE and label hands
over, one after the other -/
def reloadConn (g : G) (pairs : List (Nat × Nat)) : G := pairs.foldl (fun g p => (moveChan g p.1 p.2).1) g

/-! ## the alphabet of the current tree -/

inductive Op
  | connect (a : Nat) (bs : List Nat)
  | disconnect (a : Nat) (bs : List Nat)
  | disconnectAll (a : Nat)
  /-- panel / signals / node / macro / workflow `disconnect()`, `disconnect_run()`, `remove_child` -/
  | disconnectChans (cs : List Nat)
  | copyConns (a b : Nat)
  | copyIo (failHard : Bool) (pairs : List (Option Nat × Nat))
  /-- `replace_child` -/
  | replace (r : RepArgs) (pre : Bool)
  /-- flow derivation of `run` / `pull`: cut, on failure restore by assignment (the wiring itself is `connect`) -/
  | dagAttempt (cut : List Nat) (fail : Bool)
  /-- `_restore_firing_order` -/
  | reorder (c : Nat) (l : List Nat)
  /-- a stored connection re-created by direct insertion -/
  | restoreInsert (a b : Nat)
  /-- `Node.load` in place, one channel -/
  | moveChan (o n : Nat)
  /-- `Node.run_data_tree`: save `keys`, the edits in between, restore by assignment -/
  | pullAttempt (keys : List Nat) (ps : List Prim)
  /-- `set_input_values` / `run(**kwargs)` / `node(**kwargs)` -/
  | call (known : Bool) (items : List CallItem)
  /-- `Node.load` in place -/
  | reload (pairs : List (Nat × Nat))
  deriving Repr

def step (g : G) : Op → G × Res
  | .connect a bs => connect g a bs
  | .disconnect a bs => ((disconnectR g a bs).1, .ok)
  | .disconnectAll a => ((disconnectAllR g a).1, .ok)
  | .disconnectChans cs => ((disconnectChansR g cs).1, .ok)
  | .copyConns a b => copyConnsN g a b
  | .copyIo fh ps => copyIoN g fh ps
  | .replace r pre => ((replaceConn g r pre).1, if (replaceConn g r pre).2 = .ok then .ok else .connErr)
  | .dagAttempt cut fail => (dagAttempt g cut fail, .ok)
  | .reorder c l => ((reorder g c l).1, .ok)
  | .restoreInsert a b => ((restoreInsert g a b).1, .ok)
  | .moveChan o n => ((moveChan g o n).1, .ok)
  | .pullAttempt keys ps => ((pullAttempt g keys ps).1, .ok)
  | .call known items => callOp g known items
  | .reload pairs => (reloadConn g pairs, .ok)

def run (g : G) (ops : List Op) : G := ops.foldl (fun g o => (step g o).1) g

end PwVerif.ConnOps
