import PwVerif.Model.Exec
import PwVerif.Model.Cache
/-!
# Recovery file / checkpoint, load, and the resumed run
(transcription of `Node._run_finally` [recovery + checkpoint saves], the `__getstate__` family,
`Node.load`, `Macro.__setstate__`, `Node._before_run` [cache test], `Composite._on_run` on a restored graph)

The FIRST run of a DAG-wired composite is the machine of `Model/Exec.lean` (any fault set `d.fails`,
any executor assignment, any schedule).  A *cut* is any state `s` that run can reach:

* the end of a failed run (the root's `_run_finally` writes `<root>/recovery`), or
* the moment right after a child finished and wrote a checkpoint (`graph_root.save()` inside that
  child's `_run_finally`) — children on executors may be in flight.

What the file holds of one composite level (`snapshot`): per child the flags `failed`/`running`, the
output value, `_cached_inputs`, and — because `AccumulatingInputSignal.received_signals` is an ordinary
attribute that is pickled — the partially filled `received` sets of the all-of triggers.  The signal
queue is not used after a load (`_on_run` resets it).

`resumeInit` is the loaded graph after the documented procedure (`failed = False`, and for a checkpoint
`running = False`, on every node).  "Removing the cause" (`Fix`): no function raises any more, and
unconnected inputs of some nodes may have new values.  The resumed run is the same scheduler (`rstep`
mirrors `Exec.step`) with the input cache in front of every child run (`rrunNode`): a hit keeps the
outputs, registers start+finish with the parent and emits `ran`, without calling the function and
without using the executor.  A child that is itself a composite comes back without a cache of its own
(`comp`), so it is always run again — its children answer from their caches, one level down.

`RCfg` switches between the behaviours of the tree as first pinned, as it is now, and as repaired.
`loadRefused`, `reloadDag`: two ways in which `Node.load` does not give back the graph that was saved.
`Forest`: who writes which file.
-/
namespace PwVerif.Recovery
open PwVerif PwVerif.Exec

/-! ### equality of values (`inputs.to_value_dict() == _cached_inputs`) -/
mutual
def beqVal : Val → Val → Bool
  | .nd, .nd => true
  | .d, .d => true
  | .app f a, .app g b => f == g && beqVals a b
  | _, _ => false
def beqVals : List Val → List Val → Bool
  | [], [] => true
  | x :: xs, y :: ys => beqVal x y && beqVals xs ys
  | _, _ => false
end

mutual
theorem beqVal_eq : ∀ a b : Val, beqVal a b = true ↔ a = b
  | .nd, b => by cases b <;> simp [beqVal]
  | .d, b => by cases b <;> simp [beqVal]
  | .app f a, b => by
    cases b with
    | nd => simp [beqVal]
    | d => simp [beqVal]
    | app g b => simp [beqVal, beqVals_eq a b]
theorem beqVals_eq : ∀ a b : List Val, beqVals a b = true ↔ a = b
  | [], b => by cases b <;> simp [beqVals]
  | x :: xs, b => by
    cases b with
    | nil => simp [beqVals]
    | cons y ys => simp [beqVals, beqVal_eq x y, beqVals_eq xs ys]
end

instance : DecidableEq Val := fun a b => decidable_of_iff _ (beqVal_eq a b)

/-! ### what differs between the code as pinned, as it is now, and as repaired -/
structure RCfg where
  /-- the input-cache discipline of `Model/Cache.lean` (only `clearOnFail` matters here: a failed run
  drops `_cached_inputs`; originally pinned: kept) -/
  cache : Cache.Cfg
  /-- `_cached_inputs` of a node that is still `running` (written when the run was admitted, the
  outputs do not exist yet) are not persisted (now: they are) -/
  dropInFlight : Bool
  /-- `Composite._on_run`, branch "start fresh" (no child marked running), empties the `received`
  set of every child's all-of trigger before the starting nodes run (fix bc0a763; before: what a
  previous, interrupted run had collected — also through the file — stayed in the triggers) -/
  resetReceived : Bool
  /-- `Macro.__setstate__` re-forges the value links `macro input → child input` without sending the
  value again (now: through the setter, which a child marked `running` refuses — input lock) -/
  silentRelink : Bool
  /-- unpickling a composite restores every data-connection list in its original order (now: each
  `__setstate__` re-connects in stored order and `connect` prepends, so one unpickling REVERSES every
  list — the subject of C07) -/
  faithfulOrder : Bool
  /-- a restored composite keeps its own `_cached_inputs` (fix 60dc3d1; before: `__setstate__` took the
  children back through `add_child`, which forgets the cache, so a reloaded composite was always run again) -/
  keepCompositeCache : Bool
  deriving Repr, DecidableEq

/-- the tree as originally pinned -/
def RCfg.original : RCfg :=
  { cache := Cache.Cfg.pinned, dropInFlight := false, resetReceived := false, silentRelink := false,
    faithfulOrder := false, keepCompositeCache := false }
/-- after fix 0699958 (cache dropped on failure), before fix bc0a763 -/
def RCfg.stale : RCfg :=
  { cache := Cache.Cfg.repaired, dropInFlight := false, resetReceived := false, silentRelink := false,
    faithfulOrder := false, keepCompositeCache := false }
/-- /repo when C08 was first built (fixes 0699958 and bc0a763 applied, nothing later) -/
def RCfg.mid : RCfg :=
  { cache := Cache.Cfg.repaired, dropInFlight := false, resetReceived := true, silentRelink := false,
    faithfulOrder := false, keepCompositeCache := false }
/-- with the repairs 3c6698c (fixes/C08-inflight-cache), 60885c9/0750ad4 (fixes/C08-relink-on-load), C07's
5575cee (order) and 60dc3d1 (composite cache) -/
def RCfg.repaired : RCfg :=
  { cache := Cache.Cfg.repaired, dropInFlight := true, resetReceived := true, silentRelink := true,
    faithfulOrder := true, keepCompositeCache := true }

/-! ### the file -/
structure Snap where
  failed   : Nat → Bool
  running  : Nat → Bool
  out      : Nat → Val
  cache    : Nat → Option (List Val)
  received : Nat → List Nat

/-- the state of one composite level as `__getstate__` stores it (`s.args i` = the inputs of the last
admitted run = `_cached_inputs` unless dropped) -/
def snapshot (rc : RCfg) (s : S) : Snap :=
  { failed := fun i => s.st i == .failed,
    running := fun i => s.st i == .out,
    out := s.out,
    received := s.received,
    cache := fun i =>
      match s.st i with
      | .done => some (s.args i)
      | .out => if rc.dropInFlight then none else some (s.args i)
      | .failed => if rc.cache.clearOnFail then none else some (s.args i)
      | .idle => none }

/-- does `Node.load` raise?  `linkTargets`: the children of a macro level whose inputs receive a macro
input by value link.  (A macro that was running when a child of it wrote the checkpoint is itself such
a target when it sits in an outer macro.) -/
def loadRefused (rc : RCfg) (linkTargets : List Nat) (sn : Snap) : Bool :=
  !rc.silentRelink && linkTargets.any sn.running

/-- the data wiring of one level after `Node.load`: `load` = unpickle + `__setstate__(inst.__getstate__())`
on the root, so the ROOT level is restored twice (order back to the original), every deeper level once
(fetch priority of multiply connected inputs reversed) -/
def reloadDag (rc : RCfg) (isRoot : Bool) (d : Dag) : Dag :=
  if rc.faithfulOrder || isRoot then d else { d with slots := fun i => (d.slots i).map List.reverse }

/-- /repo as it is now -/
def RCfg.now : RCfg := RCfg.repaired

/-- the documented procedure after `load`: `failed = False` (recovery) / `running = False`
(checkpoint: the process is gone) on every node -/
def Snap.clearFlags (sn : Snap) : Snap :=
  { sn with failed := fun _ => false, running := fun _ => false }

/-- the procedure for a recovery file written by a run that FAILED (no process died): only the failure
flags are cleared.  A child that the failed run left `running` stays blocked (`resumeInit` starts it as
`out`; in the library `_on_run` then takes the branch "start from a broken process" and the run is
refused) — by C06 a failed run leaves no such child, so on such files this is `clearFlags` -/
def Snap.clearFailed (sn : Snap) : Snap := { sn with failed := fun _ => false }

/-! ### removing the cause

Besides making the failing function work again (the fault table is not consulted by the resumed
run) the user may assign new values to unconnected inputs of some nodes (`dirty`).  A term node whose
own input values changed computes a different function of its connected inputs: its output is written
with the fresh symbol `i + off` (`off` above every node id) — "`f_i` with the new own inputs". -/
structure Fix where
  dirty : Nat → Bool
  off   : Nat

def Fix.none : Fix := { dirty := fun _ => false, off := 0 }

/-- the function symbol of node `i` after the fix -/
def Fix.sym (fx : Fix) (i : Nat) : Nat := if fx.dirty i then i + fx.off else i

/-! ### the resumed run -/
structure RS where
  s      : S                          -- scheduler state of the resumed run (outputs start as loaded)
  cache  : Nat → Option (List Val)    -- `_cached_inputs`
  fcalls : Nat → Nat                  -- invocations of the wrapped function during the resumed run

/-- the restored graph about to be run again: nothing has run in THIS run, outputs and caches are the
loaded ones, the `received` sets are the loaded ones unless `_on_run` empties them; a flag that was
not cleared blocks the node -/
def resumeInit (rc : RCfg) (comp : Nat → Bool) (d : Dag) (sn : Snap) : RS :=
  { s := { init d with
             out := sn.out,
             received := if rc.resetReceived then (fun _ => []) else sn.received,
             st := fun i => if sn.failed i then .failed else if sn.running i then .out else .idle },
    -- `comp i`: a composite child that comes back without a usable cache of its own (`rerunSet`)
    cache := fun i => if comp i then none else sn.cache i,
    fcalls := fun _ => 0 }

/-- `child.run()` on the restored graph: fetch, (cache hit | readiness gate, cache write, run).
`inputs.to_value_dict() == _cached_inputs` compares connected AND own input values: a node whose own
inputs were changed never hits. -/
def rrunNode (fx : Fix) (d : Dag) (rs : RS) (i : Nat) : RS × Outcome :=
  let s := rs.s
  let a := fetchArgs d s.out i
  if s.st i ≠ .idle ∨ a.any Val.isNd then
    (rs, .raised)                                   -- ReadinessError
  else if rs.cache i = some a ∧ fx.dirty i = false then
    -- cache hit: outputs stay, start + finish registered, `ran` emitted, function NOT called
    ({ rs with s := { s with calls := updF s.calls i (s.calls i + 1), args := updF s.args i a,
                             execLog := s.execLog ++ [i], doneLog := s.doneLog ++ [i],
                             st := updF s.st i .done, queue := s.queue ++ emit d i } }, .ok)
  else
    let s1 := { s with calls := updF s.calls i (s.calls i + 1), args := updF s.args i a,
                       execLog := s.execLog ++ [i] }
    let rs1 := { rs with cache := updF rs.cache i (some a), fcalls := updF rs.fcalls i (rs.fcalls i + 1) }
    if d.onExec i then
      ({ rs1 with s := { s1 with st := updF s.st i .out, running := s.running ++ [i] } }, .ok)
    else
      ({ rs1 with s := { s1 with st := updF s.st i .done, out := updF s.out i (.app (fx.sym i) a),
                                 doneLog := s.doneLog ++ [i], queue := s.queue ++ emit d i } }, .ok)

/-- the scheduler of `Exec.step` with `rrunNode` in place of `runNode`; the cause of the failure is
removed, so no function raises (`d.fails` is not consulted) -/
def rstep (fx : Fix) (cfg : Cfg) (d : Dag) (rs : RS) : Act → Option RS
  | .start =>
    match rs.s.phase with
    | .run (i :: rest) =>
      match rrunNode fx d rs i with
      | (r', .ok) => some { r' with s := { r'.s with phase := .run rest } }
      | (r', .raised) =>
        if cfg.startAborts then some { r' with s := { r'.s with phase := .aborted } }
        else some { r' with s := { r'.s with phase := .run rest, errs := r'.s.errs ++ [i] } }
    | _ => none
  | .deliver =>
    match rs.s.phase, rs.s.queue with
    | .run [], (j, i) :: q =>
      let rec' := j :: rs.s.received i
      if (d.deps i).all (fun x => rec'.contains x) then
        match rrunNode fx d { rs with s := { rs.s with queue := q, received := updF rs.s.received i [] } } i with
        | (r', .ok) => some r'
        | (r', .raised) => some { r' with s := { r'.s with errs := r'.s.errs ++ [i] } }
      else
        some { rs with s := { rs.s with queue := q, received := updF rs.s.received i rec' } }
    | _, _ => none
  | .complete k =>
    match rs.s.phase with
    | .run _ =>
      if rs.s.st k = .out then
        some { rs with s := { rs.s with running := rs.s.running.erase k, doneLog := rs.s.doneLog ++ [k],
                                        st := updF rs.s.st k .done,
                                        out := updF rs.s.out k (.app (fx.sym k) (rs.s.args k)),
                                        queue := rs.s.queue ++ emit d k } }
      else none
    | _ => none
  | .exit =>
    match rs.s.phase, rs.s.queue, rs.s.running with
    | .run [], [], [] => some { rs with s := { rs.s with phase := .exited } }
    | _, _, _ => none

def rrunActs (fx : Fix) (cfg : Cfg) (d : Dag) (rs : RS) : List Act → Option RS
  | [] => some rs
  | a :: as => match rstep fx cfg d rs a with
    | some rs' => rrunActs fx cfg d rs' as
    | none => none

/-! ### a resumed run that fails again

The cause that was removed need not be the only one: in the resumed run another function may raise
(`fails`).  `rstepF` is `rstep` with that possibility (transcribed from `Exec.step`: a local failure
marks the node failed, announces `failed` instead of `ran`, the composite collects the error; a failing
executor job is found when the loop has drained); with no failing function it IS `rstep`
(`rstepF_nofail`).  `RS.snapshot` is what the second recovery file holds. -/

def rrunNodeF (fails : Nat → Bool) (fx : Fix) (d : Dag) (rs : RS) (i : Nat) : RS × Outcome :=
  let s := rs.s
  let a := fetchArgs d s.out i
  if s.st i ≠ .idle ∨ a.any Val.isNd then
    (rs, .raised)
  else if rs.cache i = some a ∧ fx.dirty i = false then
    ({ rs with s := { s with calls := updF s.calls i (s.calls i + 1), args := updF s.args i a,
                             execLog := s.execLog ++ [i], doneLog := s.doneLog ++ [i],
                             st := updF s.st i .done, queue := s.queue ++ emit d i } }, .ok)
  else
    let s1 := { s with calls := updF s.calls i (s.calls i + 1), args := updF s.args i a,
                       execLog := s.execLog ++ [i] }
    let rs1 := { rs with cache := updF rs.cache i (some a), fcalls := updF rs.fcalls i (rs.fcalls i + 1) }
    if d.onExec i then
      ({ rs1 with s := { s1 with st := updF s.st i .out, running := s.running ++ [i] } }, .ok)
    else if fails i then
      ({ rs1 with cache := updF rs.cache i none,
                  s := { s1 with st := updF s.st i .failed, doneLog := s.doneLog ++ [i] } }, .raised)
    else
      ({ rs1 with s := { s1 with st := updF s.st i .done, out := updF s.out i (.app (fx.sym i) a),
                                 doneLog := s.doneLog ++ [i], queue := s.queue ++ emit d i } }, .ok)

def rstepF (fails : Nat → Bool) (fx : Fix) (cfg : Cfg) (d : Dag) (rs : RS) : Act → Option RS
  | .start =>
    match rs.s.phase with
    | .run (i :: rest) =>
      match rrunNodeF fails fx d rs i with
      | (r', .ok) => some { r' with s := { r'.s with phase := .run rest } }
      | (r', .raised) =>
        if cfg.startAborts then some { r' with s := { r'.s with phase := .aborted } }
        else some { r' with s := { r'.s with phase := .run rest, errs := r'.s.errs ++ [i] } }
    | _ => none
  | .deliver =>
    match rs.s.phase, rs.s.queue with
    | .run [], (j, i) :: q =>
      let rec' := j :: rs.s.received i
      if (d.deps i).all (fun x => rec'.contains x) then
        match rrunNodeF fails fx d { rs with s := { rs.s with queue := q, received := updF rs.s.received i [] } } i with
        | (r', .ok) => some r'
        | (r', .raised) => some { r' with s := { r'.s with errs := r'.s.errs ++ [i] } }
      else
        some { rs with s := { rs.s with queue := q, received := updF rs.s.received i rec' } }
    | _, _ => none
  | .complete k =>
    match rs.s.phase with
    | .run _ =>
      if rs.s.st k = .out then
        if fails k then
          some { rs with cache := updF rs.cache k none,
                         s := { rs.s with running := rs.s.running.erase k, doneLog := rs.s.doneLog ++ [k],
                                          st := updF rs.s.st k .failed,
                                          errs := if cfg.reportExecFailure then rs.s.errs ++ [k] else rs.s.errs } }
        else
          some { rs with s := { rs.s with running := rs.s.running.erase k, doneLog := rs.s.doneLog ++ [k],
                                          st := updF rs.s.st k .done,
                                          out := updF rs.s.out k (.app (fx.sym k) (rs.s.args k)),
                                          queue := rs.s.queue ++ emit d k } }
      else none
    | _ => none
  | .exit =>
    match rs.s.phase, rs.s.queue, rs.s.running with
    | .run [], [], [] => some { rs with s := { rs.s with phase := .exited } }
    | _, _, _ => none

theorem rrunNodeF_nofail (fx : Fix) (d : Dag) (rs : RS) (i : Nat) :
    rrunNodeF (fun _ => false) fx d rs i = rrunNode fx d rs i := by
  simp [rrunNodeF, rrunNode]

theorem rstepF_nofail (fx : Fix) (cfg : Cfg) (d : Dag) (rs : RS) (a : Act) :
    rstepF (fun _ => false) fx cfg d rs a = rstep fx cfg d rs a := by
  cases a <;> simp [rstepF, rstep, rrunNodeF_nofail]

/-- what a file written during / after the resumed run holds of this level: flags, outputs, the caches as
they are (a node that has not been reached again still has the entry it was loaded with), triggers -/
def RS.snapshot (rs : RS) : Snap :=
  { failed := fun i => rs.s.st i == .failed,
    running := fun i => rs.s.st i == .out,
    out := rs.s.out,
    received := rs.s.received,
    cache := fun i => match rs.s.st i with
      | .out => none
      | .failed => none
      | _ => rs.cache i }

/-- the children that come back unable to answer from their cache although they had completed: the
composites — all of them when a restored composite forgets its cache, else those with new input values
somewhere inside (`_internal_cache_key` differs from `_cached_internals`) -/
def rerunSet (rc : RCfg) (isComp innerChanged : Nat → Bool) (i : Nat) : Bool :=
  isComp i && (!rc.keepCompositeCache || innerChanged i)

/-- cut at `s`, file written, loaded, flags cleared: where the resumed run starts (`comp` = the
children that cannot answer from their cache, see `rerunSet`) -/
def resumeFromC (rc : RCfg) (comp : Nat → Bool) (d : Dag) (s : S) : RS :=
  resumeInit rc comp d (snapshot rc s).clearFlags

/-- … when only the failure flags are cleared -/
def resumeFromFailed (rc : RCfg) (comp : Nat → Bool) (d : Dag) (s : S) : RS :=
  resumeInit rc comp d (snapshot rc s).clearFailed

/-- a level whose children are all function nodes -/
def resumeFrom (rc : RCfg) (d : Dag) (s : S) : RS := resumeFromC rc (fun _ => false) d s

/-! ### the other way to restart a checkpoint: keep the `running` flags, take the jobs' results from disk

With `_serialize_result` a child's job writes its result next to the graph; a graph restored from a
checkpoint is then run again WITHOUT clearing the children's `running` flags, and `Composite._on_run` takes
the branch "start from a broken process": every child marked running is asked to run, finds its result and
finishes (its completion callback: outputs, `ran` queued); then the drain loop goes on.  In the model this
is the first run simply CONTINUING from the cut — unless the code loses part of the cut:
* `keepQueue = false` (now): `_on_run` empties `signal_queue` first, also on this branch — signals that were
  queued but not delivered when the checkpoint was written are gone;
* `iterateCopy = false` (now): the loop `for label in self.running_children` runs over the very list the
  finishing children remove themselves from — python then skips every other entry. -/
structure CCfg where
  keepQueue : Bool
  iterateCopy : Bool
  deriving Repr, DecidableEq

def CCfg.now : CCfg := { keepQueue := false, iterateCopy := false }
/-- with fixes/C08-continue-broken-process.patch -/
def CCfg.repaired : CCfg := { keepQueue := true, iterateCopy := true }

/-- what `for x in l` visits when the body removes `x` from `l` -/
def everyOther : List Nat → List Nat
  | [] => []
  | [a] => [a]
  | a :: _ :: r => a :: everyOther r

/-- the restored graph asked to run with its `running` flags kept: the results of the children that were
out are processed (those the loop reaches; `order` = the children as the composite lists them), the drain loop
is entered -/
def continueFrom (cc : CCfg) (cfg : Cfg) (d : Dag) (order : List Nat) (s : S) : Option S :=
  -- `running_children = [n.label for n in self if n.running]`: the children's own order, not the order of submission
  let out := order.filter (fun i => s.running.contains i)
  runActs cfg d { s with queue := if cc.keepQueue then s.queue else [], phase := .run [] }
    ((if cc.iterateCopy then out else everyOther out).map Act.complete)

/-! ### who writes which file (`Node._run_finally`, `Node.save_checkpoint`)

The ownership tree of the whole graph: `parent n` is the composite owning `n`.  When a leaf raises,
the exception travels up: every node on the way is marked failed and executes `_run_finally`, which
saves `self.as_path()/recovery` iff `failed ∧ raise_run_exceptions ∧ recovery is not None ∧
graph_root is self`.  A finishing child with `checkpoint` set calls `graph_root.save()`. -/
structure Forest where
  parent   : Nat → Option Nat
  recovery : Nat → Bool              -- `node.recovery is not None` (default "pickle")

/-- `n`, its parent, …, up to the parent-most node (fuel = an upper bound of the depth) -/
def Forest.chain (f : Forest) : Nat → Nat → List Nat
  | 0, n => [n]
  | fuel + 1, n => match f.parent n with
    | none => [n]
    | some p => n :: f.chain fuel p

/-- `graph_root`: walk up while there is a parent -/
def Forest.root (f : Forest) : Nat → Nat → Nat
  | 0, n => n
  | fuel + 1, n => match f.parent n with
    | none => n
    | some p => f.root fuel p

/-- the nodes that end up failed when the leaves `ks` raise -/
def Forest.failedNodes (f : Forest) (fuel : Nat) (ks : List Nat) (n : Nat) : Bool :=
  ks.any (fun k => (f.chain fuel k).contains n)

/-- the guard in `_run_finally` (with `raise_run_exceptions = True`) -/
def Forest.writesRecovery (f : Forest) (fuel : Nat) (n : Nat) : Bool :=
  f.recovery n && (f.root fuel n == n)

/-- all recovery files written by a failed run: (writer = directory owner) for every node of the
universe `nodes` that failed and passes the guard -/
def Forest.recoveryFiles (f : Forest) (fuel : Nat) (nodes ks : List Nat) : List Nat :=
  nodes.filter (fun n => f.failedNodes fuel ks n && f.writesRecovery fuel n)

/-- with the caller's choice `raise_run_exceptions` (`raises n`: how node `n` was asked to run — children are
always run by their parent with the default `True`, only the outermost call is the user's): the guard of
`_run_finally` is `failed ∧ raise_run_exceptions ∧ recovery is not None ∧ graph_root is self` -/
def Forest.recoveryFilesR (f : Forest) (raises : Nat → Bool) (fuel : Nat) (nodes ks : List Nat) : List Nat :=
  nodes.filter (fun n => f.failedNodes fuel ks n && (raises n && f.writesRecovery fuel n))

/-- a graph that is resumed IN PLACE (no file, no load — e.g. after a failed run whose exception the
caller suppressed): the live objects keep what a load may lose -/
def RCfg.inPlace (rc : RCfg) : RCfg :=
  { rc with silentRelink := true, faithfulOrder := true, keepCompositeCache := true }

/-! A failure does not only happen inside a run of the outermost graph: a child can be run or pulled by hand
while its parent is idle, and nodes are run while a graph is being assembled (injected nodes auto-run at creation;
a for-loop builds and feeds its body before it is flagged running).  The exception then climbs only through the
ancestors that ARE running — an idle parent is not failed by it. -/

/-- the nodes failed by a raise in `k` when `running` are the nodes executing at that moment -/
def Forest.chainR (f : Forest) (running : Nat → Bool) : Nat → Nat → List Nat
  | 0, n => [n]
  | fuel + 1, n => match f.parent n with
    | none => [n]
    | some p => if running p then n :: f.chainR running fuel p else [n]

/-- a failure event: the node that raised and who was running then -/
structure FailEv where
  node : Nat
  running : Nat → Bool

/-- the recovery files after a history of failure events: the guard asks about OWNERSHIP (`graph_root is self`)
only, never about who is running -/
def Forest.recoveryFilesEv (f : Forest) (fuel : Nat) (nodes : List Nat) (evs : List FailEv) : List Nat :=
  nodes.filter (fun n => evs.any (fun e => (f.chainR e.running fuel e.node).contains n) && f.writesRecovery fuel n)

/-- the variant "`not parent_is_running`" of the guard (seeded change C08-9): who writes depends on the run state -/
def Forest.recoveryFilesPR (f : Forest) (fuel : Nat) (nodes : List Nat) (evs : List FailEv) : List Nat :=
  nodes.filter (fun n => evs.any (fun e => (f.chainR e.running fuel e.node).contains n &&
    f.recovery n && !(match f.parent n with | some p => e.running p | none => false)))

/-! ### value links (macro input → child input) and what restoring them does

A macro forwards every assignment to one of its inputs to the child input it is linked to (`value_receiver`), and
so on down nested macros.  The link is one-directional: a child input may be assigned DIRECTLY and then differs from
the macro input above it — legal, and part of "the graph as it stood".  Channels are numbers. -/

/-- `recv c` = the channel that assignments to `c` are forwarded to -/
abbrev Recv := Nat → Option Nat

/-- an assignment through the public setter: the value lands on the channel and on everything linked below it -/
def assign {α} (recv : Recv) : Nat → Nat → α → (Nat → α) → (Nat → α)
  | 0, c, x, v => updF v c x
  | fuel + 1, c, x, v => match recv c with
    | none => updF v c x
    | some d => assign recv fuel d x (updF v c x)

/-- forging the stored links `(source, receiver)` of a restored graph one after the other (inner macros first, as
`__setstate__` does, or in any other order).  `viaSetter = false`: the private assignment of the pinned code — the
link is put in place, no value moves.  `viaSetter = true`: the public `value_receiver` setter, which pushes the
source's value onto the receiver (and on through the links forged so far). -/
def restoreLinks {α} (viaSetter : Bool) (fuel : Nat) : List (Nat × Nat) → Recv → (Nat → α) → Recv × (Nat → α)
  | [], r, v => (r, v)
  | (s, d) :: rest, r, v =>
    let r' : Recv := fun c => if c = s then some d else r c
    restoreLinks viaSetter fuel rest r' (if viaSetter then assign r' fuel d (v s) v else v)

/-- every forged link connects two channels holding the same value -/
def Agree {α} (r : Recv) (v : Nat → α) : Prop := ∀ c d, r c = some d → v c = v d

/-- the directory a checkpoint of child `c` goes to -/
def Forest.checkpointDir (f : Forest) (fuel : Nat) (c : Nat) : Nat := f.root fuel c

end PwVerif.Recovery
