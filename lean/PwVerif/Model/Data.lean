import PwVerif.Model.Conn
/-!
# Data store (transcription of `channels.py` DataChannel / InputData, `io.py`, `Node.run`)

Channels and nodes are natural numbers.  A channel holds a value (`nd` = `NOT_DATA`, `d k` =
the k-th data value of the harness' pool), may carry a type hint (`hinted`), a `strict_hints`
flag and a `value_receiver`.  Whether the hint of channel `c` accepts a value is the abstract
parameter `Params.admits c v` (its content is C04's subject), `Params.hintOk a b` is the
outcome of `type_hint_is_as_or_more_specific_than(hint a, hint b)`, `Params.fn n` is the wrapped
function of node `n` (deterministic, total here; raising functions are C06's subject).

Every operation returns the state **as the code leaves it** together with the exception class.
The connection lists are those of `Conn.lean` (`connect1` prepends, `disconnect1` erases); the
ghost fields `clock` / `since` record when each surviving connection was made effective — they
are never read by any operation and only serve to state `C03_recency`.
-/
namespace PwVerif.Data
open PwVerif PwVerif.Conn

/-- `nd` is THE marker `NOT_DATA` — the library recognises "no data" by identity (`is NOT_DATA`)
and so does the model: every test below is `≠ .nd`.  `nd2` is another instance of the marker's
class (what `object.__new__(NotData)` or an unpickler that does not go through the singleton
yields): it looks like the marker but is not identical to it, so it counts as data. -/
inductive Val | nd | d (k : Nat) | nd2
  deriving DecidableEq, Repr, Inhabited

/-- exception classes: `runtime` = RuntimeError (locked input), `type` = TypeError,
`recursion` = RecursionError (receiver chain deeper than the recursion limit / cyclic),
`conn` = ChannelConnectionError, `value` = ValueError, `copy` = ValueCopyError,
`readiness` = ReadinessError, `child` = FailedChildError (a composite whose child raised), `replace` = `replace_child` refused (a copied
connection or a value link the fresh node cannot take), `serial` = `pickle.dumps` / `loads` of a round trip raised (AttributeError
for a macro input without receiver, KeyError for a label that cannot be resolved inside the
composite, or whatever `connect` / the receiver setter raise during `__setstate__`) -/
inductive Err | runtime | type | recursion | conn | value | copy | readiness | serial | child | replace
  deriving DecidableEq, Repr, Inhabited

/-- behaviour switches of `__getstate__` / `__setstate__` (cf. C07's model):
`revIter` — `_restore_connections_from_strings` reconnects in REVERSE stored order, so that the
prepending `connect` rebuilds every input's list as it was (fix 5575cee; before it: stored order, i.e.
every input with several connections came back with its priority reversed — KF-C07-1 / KF-C03-1);
`pushIn` / `pushOut` — the macro's input / output value links are re-forged through the
`value_receiver` setter, which pushes the sender's value through the receiver's setter; otherwise by
plain assignment of `_value_receiver` (fixes 60885c9, 0750ad4);
`ownOnly` — a composite stores only the connections to outputs of its own children (fix 1cbd831;
before it every connection of a child's input was stored and one across the border made `loads` raise);
`allIn` — `Macro._input_value_links` lists EVERY macro input, so one without receiver makes `dumps`
raise (before fix ae32e81) -/
structure Cfg where
  revIter : Bool
  pushIn  : Bool
  pushOut : Bool
  ownOnly : Bool
  allIn   : Bool
  deriving DecidableEq, Repr

/-- the snapshot this round started from (02da358) -/
def Cfg.pinned : Cfg := ⟨false, true, true, false, true⟩
/-- the tree as it is now -/
def Cfg.repaired : Cfg := ⟨true, false, false, true, false⟩

structure Params where
  admits : Nat → Val → Bool
  hintOk : Nat → Nat → Bool
  fn     : Nat → List Val → List Val
  /-- python's `==` between a cached input dict and the present one (`Node.cache_hit`); values may lie -/
  eqArgs : List Val → List Val → Bool := fun a b => decide (a = b)
  /-- what a value comes back as from `pickle.loads(pickle.dumps(v))`; the current tree maps the
  marker to the marker (`NotData.__reduce__` names the global singleton) and data to an equal copy -/
  copyVal : Val → Val := id
  cfg     : Cfg := Cfg.repaired

structure S where
  kind    : Nat → Kind
  owner   : Nat → Nat
  conns   : Nat → List Nat
  val     : Nat → Val
  hinted  : Nat → Bool
  strict  : Nat → Bool
  recv    : Nat → Option Nat
  /-- input / output panel of a node in panel order -/
  ins     : Nat → List Nat
  outs    : Nat → List Nat
  running : Nat → Bool
  failed  : Nat → Bool
  /-- call log of the wrapped functions: (node, arguments in input-panel order) -/
  calls   : List (Nat × List Val)
  /-- `use_cache` of a node (static) -/
  useCache : Nat → Bool
  /-- `_cached_inputs`: the input values (panel order) the present outputs belong to -/
  cached  : Nat → Option (List Val)
  /-- the jobs of a node that are out on an executor, oldest first: the arguments each was submitted with
  (more than one only if `running` was reset by hand while a job was out) -/
  pending : Nat → List (List Val)
  /-- children of a composite in the order its execution graph visits them (static; `[]` = not a composite) -/
  kids    : Nat → List Nat
  /-- siblings whose `ran` a child waits for (static; the automated all-of wiring of a DAG) -/
  deps    : Nat → List Nat
  /-- ghost: number of effective connects so far -/
  clock   : Nat
  /-- ghost: `since a b` = clock value at which the present connection a–b became effective -/
  since   : Nat → Nat → Nat

/-- what an operation ends with: returned normally / raised `e` / (run only) the wrapped
function was invoked and storing its result raised `e?` -/
inductive Out | ok | err (e : Err) | invoked (e : Option Err) | hit | submitted
  deriving DecidableEq, Repr, Inhabited

def Out.isInvoked : Out → Bool
  | .invoked _ => true
  | _ => false

/-! ## the value setter -/

/-- `DataChannel.value.setter` / `InputData.value.setter`, acting on the value map only (the
setter reads nothing but static attributes, flags and receivers).  The recursion through
`value_receiver.value = new_value` is bounded by `fuel` = Python's recursion limit. -/
def setValV (P : Params) (s : S) : Nat → Nat → Val → (Nat → Val) → (Nat → Val) × Option Err
  | 0, _, _, m => (m, some .recursion)
  | fuel + 1, c, v, m =>
    if s.kind c = .dataIn ∧ s.running (s.owner c) = true then (m, some .runtime)
    else if s.strict c = true ∧ v ≠ .nd ∧ s.hinted c = true ∧ P.admits c v = false then (m, some .type)
    else
      match s.recv c with
      | none => (updF m c v, none)
      | some r =>
        match setValV P s fuel r v m with
        | (m', none) => (updF m' c v, none)
        | (m', some e) => (m', some e)

def setVal (P : Params) (fuel : Nat) (s : S) (c : Nat) (v : Val) : S × Option Err :=
  let r := setValV P s fuel c v s.val
  ({ s with val := r.1 }, r.2)

/-! ## connections -/

/-- `DataChannel._valid_connection` with the *current* strictness of the input side -/
def effValid (P : Params) (s : S) (a b : Nat) : Bool :=
  if s.hinted a && s.hinted b then
    let out := if s.kind a = .dataIn then b else a
    let inp := if s.kind a = .dataIn then a else b
    if s.strict inp then P.hintOk out inp else true
  else true

def toG (P : Params) (s : S) : G :=
  { kind := s.kind, owner := s.owner, valid := effValid P s, conns := s.conns }

def upd2 (f : Nat → Nat → Nat) (a b v : Nat) : Nat → Nat → Nat := updF f a (updF (f a) b v)

/-- `a.connect(b)`; an effective connection is stamped with the clock (ghost) -/
def connectS (P : Params) (s : S) (a b : Nat) : S × Option Err :=
  if b ∈ s.conns a then (s, none)
  else
    match connect1 (toG P s) a b with
    | (g, .ok) =>
      ({ s with conns := g.conns, clock := s.clock + 1,
                since := upd2 (upd2 s.since a b s.clock) b a s.clock }, none)
    | (_, .typeErr) => (s, some .type)
    | (_, .connErr) => (s, some .conn)

def disconnectS (P : Params) (s : S) (a b : Nat) : S :=
  { s with conns := (disconnect1 (toG P s) a b).conns }

/-- `a.connect(b₁, b₂, …)`: one partner after the other, in the order of the call; every effective one is
prepended, so the LAST partner listed ends up first; the first refusal escapes, the earlier partners stay -/
def connectMany (P : Params) (s : S) (a : Nat) : List Nat → S × Option Err
  | [] => (s, none)
  | b :: bs =>
    match connectS P s a b with
    | (s', none) => connectMany P s' a bs
    | (s', some e) => (s', some e)

/-! ## fetch -/

/-- the loop of `InputData.fetch`: value of the first connection that is not `NOT_DATA` -/
def firstData (s : S) : List Nat → Option Val
  | [] => none
  | o :: os => if s.val o ≠ .nd then some (s.val o) else firstData s os

def fetch1 (P : Params) (fuel : Nat) (s : S) (i : Nat) : S × Option Err :=
  match firstData s (s.conns i) with
  | some v => setVal P fuel s i v
  | none => (s, none)

/-- `Inputs.fetch`: every input in panel order, the first exception escapes -/
def fetchAll (P : Params) (fuel : Nat) (s : S) : List Nat → S × Option Err
  | [] => (s, none)
  | i :: is =>
    match fetch1 P fuel s i with
    | (s', none) => fetchAll P fuel s' is
    | (s', some e) => (s', some e)

/-! ## assignment sugar -/

/-- something assigned to a panel key: a plain value or a channel (= connect) -/
inductive Arg | v (x : Val) | ch (c : Nat)
  deriving DecidableEq, Repr, Inhabited

/-- `IO.__setattr__` on an existing key → `_assign_value_to_existing_channel` -/
def assign (P : Params) (fuel : Nat) (s : S) (c : Nat) : Arg → S × Option Err
  | .v x => setVal P fuel s c x
  | .ch o => connectS P s c o

/-- the loop of `HasIO.set_input_values` over the merged keyword dict (explicit keywords first,
then the positional ones; the binding itself is C17's subject) -/
def setInputs (P : Params) (fuel : Nat) (s : S) : List (Nat × Arg) → S × Option Err
  | [] => (s, none)
  | (c, a) :: kw =>
    match assign P fuel s c a with
    | (s', none) => setInputs P fuel s' kw
    | (s', some e) => (s', some e)

/-- `DataChannel.value_receiver.setter` -/
def link (P : Params) (fuel : Nat) (s : S) (a : Nat) : Option Nat → S × Option Err
  | none => ({ s with recv := updF s.recv a none }, none)
  | some b =>
    if s.kind b ≠ s.kind a then (s, some .type)
    else if b = a then (s, some .value)
    else if (s.hinted a && s.hinted b && s.strict b && !P.hintOk a b) = true then (s, some .value)
    else
      match setVal P fuel s b (s.val a) with
      | (s', none) => ({ s' with recv := updF s'.recv a (some b) }, none)
      | (s', some e) => (s', some e)

/-! ## copying values (`HasIO._copy_values` / `_copy_panel`) -/

/-- the undo loop `for channel, value in old_values: channel.value = value` -/
def undo (P : Params) (fuel : Nat) (s : S) : List (Nat × Val) → S × Option Err
  | [] => (s, none)
  | (c, v) :: r =>
    match setVal P fuel s c v with
    | (s', none) => undo P fuel s' r
    | (s', some e) => (s', some e)

def failCopy (P : Params) (fuel : Nat) (s : S) (old : List (Nat × Val)) : S × Option Err :=
  match undo P fuel s old with
  | (s', none) => (s', some .copy)
  | (s', some e) => (s', some e)

/-- pairs = (this object's channel with the same label, if any; other's channel), panel order;
also returns the list of (channel, previous value) of what was copied (for the caller's undo) -/
def copyPanel (P : Params) (fuel : Nat) (failHard : Bool) (s : S) :
    List (Option Nat × Nat) → List (Nat × Val) → (S × Option Err) × List (Nat × Val)
  | [], old => ((s, none), old)
  | (my, o) :: ps, old =>
    if s.val o = .nd then copyPanel P fuel failHard s ps old
    else
      match my with
      | none => if failHard then (failCopy P fuel s old, old) else copyPanel P fuel failHard s ps old
      | some m =>
        match setVal P fuel s m (s.val o) with
        | (s', none) => copyPanel P fuel failHard s' ps (old ++ [(m, s.val m)])
        | (s', some _) =>
          if failHard then (failCopy P fuel s' old, old) else copyPanel P fuel failHard s' ps old

/-- `_copy_values`: inputs, then outputs; an exception of the outputs panel (which has unwound
itself) makes the caller unwind the inputs too (fix 803bad0); an exception of that second undo
loop replaces the first one -/
def copyValues (P : Params) (fuel : Nat) (failHard : Bool) (s : S)
    (pin pout : List (Option Nat × Nat)) : S × Option Err :=
  match copyPanel P fuel failHard s pin [] with
  | ((s', none), oldIn) =>
    match copyPanel P fuel failHard s' pout [] with
    | ((s'', none), _) => (s'', none)
    | ((s'', some e), _) =>
      match undo P fuel s'' oldIn with
      | (s3, none) => (s3, some e)
      | (s3, some e') => (s3, some e')
  | ((s', some e), _) => (s', some e)

/-! ## readiness and `Node.run` (default flags, no executor, cache off / first run) -/

/-- `DataChannel.ready` -/
def chanReady (P : Params) (s : S) (c : Nat) : Bool :=
  s.val c ≠ .nd && (!(s.hinted c && s.strict c) || P.admits c (s.val c))

/-- `Node.ready` = not running, not failed, every input ready -/
def nodeReady (P : Params) (s : S) (n : Nat) : Bool :=
  !s.running n && !s.failed n && (s.ins n).all (chanReady P s)

/-- `Function.process_run_result`: zip(outputs, results), each through the setter -/
def setOutputs (P : Params) (fuel : Nat) (s : S) : List Nat → List Val → S × Option Err
  | o :: os, v :: vs =>
    match setVal P fuel s o v with
    | (s', none) => setOutputs P fuel s' os vs
    | (s', some e) => (s', some e)
  | _, _ => (s, none)

/-- `node.run(**kw)`: `set_input_values` → `inputs.fetch()` → readiness gate → the wrapped
function on `inputs.to_value_dict()` → outputs.  An exception while storing the result is
`_run_exception`: `failed = True`. -/
def runNode (P : Params) (fuel : Nat) (s : S) (n : Nat) (kw : List (Nat × Arg)) : S × Out :=
  match setInputs P fuel s kw with
  | (s1, some e) => (s1, .err e)
  | (s1, none) =>
    match fetchAll P fuel s1 (s1.ins n) with
    | (s2, some e) => (s2, .err e)
    | (s2, none) =>
      if nodeReady P s2 n then
        let args := (s2.ins n).map s2.val
        let s3 := { s2 with calls := s2.calls ++ [(n, args)] }
        match setOutputs P fuel s3 (s3.outs n) (P.fn n args) with
        | (s4, none) => (s4, .invoked none)
        | (s4, some e) =>
          ({ s4 with running := updF s4.running n false, failed := updF s4.failed n true },
           .invoked (some e))
      else (s2, .err .readiness)

/-! ## the general run: cache, composites, executors

`runNode` above is `Node.run` of a function node that runs locally with the cache off.  The general
form splits the run where the code does: **admission** (`set_input_values` → `inputs.fetch()` → the
cache decision and the readiness gate of `Node._before_run`; `running = True`) and **finish**
(`_finish_run`: `running = False`, `process_run_result`, `_run_succeeded` writes the cache,
`_run_exception` marks `failed` and drops the cache).  A local run does both at once; a run on an
executor returns between the two (`submitRun` / `completeRun`): the fetch and the gate happen in
the submitting process, on the local channels, and the function later runs — possibly on a pickled
copy of the node — with the arguments snapshotted at submission (`run_args` is evaluated in `_run`).
A composite that is admitted runs its children (`runKids`), each through its own `run()`. -/

inductive Adm | refused (e : Err) | hit | admitted (args : List Val)
  deriving DecidableEq, Repr, Inhabited

/-- `Node.cache_hit` -/
def cacheHit (P : Params) (s : S) (n : Nat) (args : List Val) : Bool :=
  match s.cached n with
  | some old => P.eqArgs old args
  | none => false

/-- `Node.run` up to and including `self.running = True` -/
def admission (P : Params) (fuel : Nat) (s : S) (n : Nat) (kw : List (Nat × Arg)) : S × Adm :=
  match setInputs P fuel s kw with
  | (s1, some e) => (s1, .refused e)
  | (s1, none) =>
    match fetchAll P fuel s1 (s1.ins n) with
    | (s2, some e) => (s2, .refused e)
    | (s2, none) =>
      let args := (s2.ins n).map s2.val
      if nodeReady P s2 n then
        -- "read and use cache — but only where an actual run would be admitted too"
        if s2.useCache n && cacheHit P s2 n args then (s2, .hit)
        else ({ s2 with cached := updF s2.cached n none, running := updF s2.running n true }, .admitted args)
      else (s2, .refused .readiness)

/-- `_finish_run` of a function node whose function was called on `args` -/
def finishRun (P : Params) (fuel : Nat) (s : S) (n : Nat) (args : List Val) : S × Out :=
  let s3 := { s with calls := s.calls ++ [(n, args)], running := updF s.running n false }
  match setOutputs P fuel s3 (s3.outs n) (P.fn n args) with
  | (s4, none) =>
    ({ s4 with cached := if s4.useCache n then updF s4.cached n (some args) else s4.cached }, .invoked none)
  | (s4, some e) =>
    ({ s4 with failed := updF s4.failed n true, cached := updF s4.cached n none }, .invoked (some e))

/-- the children of an admitted composite, in the order of its execution graph: a child is
started once every sibling it waits for has emitted `ran` (ran, or answered from its cache); an
exception of a child is collected and the others go on -/
def runKids (run : S → Nat → S × Out) (deps : Nat → List Nat) :
    S → List Nat → List Nat → Bool → S × Bool
  | s, [], _, bad => (s, bad)
  | s, k :: ks, done, bad =>
    if (deps k).all (fun d => decide (d ∈ done)) then
      match run s k with
      | (s', .invoked none) => runKids run deps s' ks (k :: done) bad
      | (s', .hit) => runKids run deps s' ks (k :: done) bad
      | (s', _) => runKids run deps s' ks done true
    else runKids run deps s ks done bad

/-- "start from a broken process": children that are `running` when the composite starts are simply
`run()` again, in child order, outside any `try` — the first exception escapes as it is -/
def runFirst (run : S → Nat → S × Out) : S → List Nat → S × Option Err
  | s, [] => (s, none)
  | s, k :: ks =>
    match run s k with
    | (s', .err e) => (s', some e)
    | (s', .invoked (some e)) => (s', some e)
    | (s', _) => runFirst run s' ks

/-- `node.run(**kw)` of any node, locally; `d` bounds the nesting depth of composites -/
def runAny (P : Params) (fuel : Nat) : Nat → S → Nat → List (Nat × Arg) → S × Out
  | 0, s, _, _ => (s, .err .recursion)
  | d + 1, s, n, kw =>
    match admission P fuel s n kw with
    | (s', .refused e) => (s', .err e)
    | (s', .hit) => (s', .hit)
    | (s', .admitted args) =>
      if s'.kids n = [] then finishRun P fuel s' n args
      else if (s'.kids n).any (fun k => s'.running k) then
        match runFirst (fun t k => runAny P fuel d t k []) s' ((s'.kids n).filter fun k => s'.running k) with
        | (s'', none) => ({ s'' with running := updF s''.running n false }, .invoked none)
        | (s'', some e) =>
          ({ s'' with running := updF s''.running n false, failed := updF s''.failed n true,
                      cached := updF s''.cached n none }, .invoked (some e))
      else
        match runKids (fun t k => runAny P fuel d t k []) s'.deps s' (s'.kids n) [] false with
        | (s'', false) => ({ s'' with running := updF s''.running n false }, .invoked none)
        | (s'', true) =>
          ({ s'' with running := updF s''.running n false, failed := updF s''.failed n true,
                      cached := updF s''.cached n none }, .invoked (some .child))

/-- `node.run(**kw)` with an executor: returns after admission; the job is outstanding -/
def submitRun (P : Params) (fuel : Nat) (s : S) (n : Nat) (kw : List (Nat × Arg)) : S × Out :=
  match admission P fuel s n kw with
  | (s', .refused e) => (s', .err e)
  | (s', .hit) => (s', .hit)
  | (s', .admitted args) => ({ s' with pending := updF s'.pending n (s'.pending n ++ [args]) }, .submitted)

/-- the executor finishes the oldest job of node `n`: the function runs on the submitted arguments (on a
copy of the node, if the executor ships by value) and the callback processes the result locally -/
def completeRun (P : Params) (fuel : Nat) (s : S) (n : Nat) : S × Out :=
  match s.pending n with
  | args :: rest => finishRun P fuel { s with pending := updF s.pending n rest } n args
  | [] => (s, .ok)

/-! ## pickle round trip (`__getstate__` / `__setstate__` of channels, nodes, composites, macros)

`pickle.loads(pickle.dumps(obj))` (also through cloudpickle) builds a NEW object graph; the
history goes on with the copy in place of the original.  What the current tree does:

* `Channel.__getstate__` drops `connections`, `DataChannel.__getstate__` drops `_value_receiver`;
  everything else of a channel (`_value`, `type_hint`, `strict_hints`, owner) and the node's
  `running` / `failed` travel in `__dict__`;
* `Composite.__getstate__` stores `[(inp, out) for child in self for inp in child.inputs for out in
  inp.connections]` as label pairs, `__setstate__` looks every pair up **by label among its own
  children** (`KeyError` otherwise) and calls `inp.connect(out)` in stored order;
* `Macro.__getstate__` stores `(c.label, (c.value_receiver.owner.label, c.value_receiver.label))` for
  EVERY macro input (`AttributeError` if one has no receiver) and the linked child outputs;
  `__setstate__` re-forges them through the `value_receiver` setter, which pushes the sender's value
  through the receiver's setter.

Composites are restored innermost first.  A failure anywhere means `dumps` / `loads` raised: no
copy exists and the original is untouched. -/

/-- static description of one composite of the pickled object; the lookup tables are the label
resolution `children[owner label].panel[label]`, computed from the labels alone -/
structure Comp where
  /-- `for child in self for inp in child.inputs` -/
  ins     : List Nat
  /-- channel ↦ output of a direct child with the same (owner label, label) -/
  resOut  : List (Nat × Nat)
  /-- the macro's own inputs in panel order (`[]` for a workflow) -/
  mins    : List Nat
  /-- channel ↦ input of a direct child with the same (owner label, label) -/
  resIn   : List (Nat × Nat)
  /-- the outputs of the direct children (`out.owner.parent is self`) -/
  kouts   : List Nat
  /-- `for child in self for c in child.outputs` of a macro (`[]` for a workflow: no output links) -/
  couts   : List Nat
  /-- channel ↦ the macro's own output with the same label -/
  resMOut : List (Nat × Nat)
  deriving Repr

/-- the fresh copies: channels of the pickled object (`scope`) come back without connections and
without receivers, holding a copy of their value.  Channels outside the scope (node-level round
trip: the retired original is cut off) lose their connections and receivers into the scope. -/
def rtClear (P : Params) (s : S) (scope : List Nat) : S :=
  { s with
    conns := fun c => if c ∈ scope then [] else (s.conns c).filter (fun x => decide (x ∉ scope)),
    recv := fun c => if c ∈ scope then none else
      match s.recv c with
      | some r => if r ∈ scope then none else some r
      | none => none,
    val := fun c => if c ∈ scope then P.copyVal (s.val c) else s.val c,
    -- `Runnable.__getstate__`: no future travels; `Node.__getstate__`: a running node forgets its cache
    pending := fun n => if n ∈ scope.map s.owner then [] else s.pending n,
    cached := fun n => if n ∈ scope.map s.owner then
        (if s.running n then none else (s.cached n).map (List.map P.copyVal)) else s.cached n }

/-- `_get_connections_as_strings` -/
def strings (s : S) (dom : List Nat) : List (Nat × Nat) :=
  dom.flatMap fun i => (s.conns i).map fun o => (i, o)

/-- what `Composite.__getstate__` stores for the composite `C` -/
def saved (P : Params) (pre : S) (C : Comp) : List (Nat × Nat) :=
  if P.cfg.ownOnly then (strings pre C.ins).filter (fun p => decide (p.2 ∈ C.kouts)) else strings pre C.ins

/-- `_restore_connections_from_strings` -/
def restoreConns (P : Params) (st : S) (res : List (Nat × Nat)) : List (Nat × Nat) → S × Option Err
  | [] => (st, none)
  | (i, o) :: r =>
    match res.lookup o with
    | none => (st, some .serial)
    | some o' =>
      match connectS P st i o' with
      | (st', none) => restoreConns P st' res r
      | (st', some e) => (st', some e)

/-- re-forging one value link -/
def forge (P : Params) (fuel : Nat) (push : Bool) (st : S) (a b : Nat) : S × Option Err :=
  if push then link P fuel st a (some b)
  else if st.kind b ≠ st.kind a then (st, some .type)
  else ({ st with recv := updF st.recv a (some b) }, none)

/-- the two loops of `Macro.__setstate__`; `must` = the state lists every channel of the panel
(macro inputs), otherwise only those that have a receiver (child outputs) -/
def restoreLinks (P : Params) (fuel : Nat) (must push : Bool) (pre : S) (res : List (Nat × Nat)) (st : S) :
    List Nat → S × Option Err
  | [] => (st, none)
  | a :: r =>
    match pre.recv a with
    | none => if must then (st, some .serial) else restoreLinks P fuel must push pre res st r
    | some b =>
      match res.lookup b with
      | none => (st, some .serial)
      | some b' =>
        match forge P fuel push st a b' with
        | (st', none) => restoreLinks P fuel must push pre res st' r
        | (st', some e) => (st', some e)

def restoreComp (P : Params) (fuel : Nat) (pre st : S) (C : Comp) : S × Option Err :=
  match restoreConns P st C.resOut (if P.cfg.revIter then (saved P pre C).reverse else saved P pre C) with
  | (st1, some e) => (st1, some e)
  | (st1, none) =>
    match restoreLinks P fuel P.cfg.allIn P.cfg.pushIn pre C.resIn st1 C.mins with
    | (st2, some e) => (st2, some e)
    | (st2, none) => restoreLinks P fuel false P.cfg.pushOut pre C.resMOut st2 C.couts

def restoreAll (P : Params) (fuel : Nat) (pre st : S) : List Comp → S × Option Err
  | [] => (st, none)
  | C :: r =>
    match restoreComp P fuel pre st C with
    | (st', none) => restoreAll P fuel pre st' r
    | (st', some e) => (st', some e)

/-- the whole round trip of the object whose channels are `scope` and whose composites, innermost
first, are `comps` -/
def roundTrip (P : Params) (fuel : Nat) (s : S) (scope : List Nat) (comps : List Comp) : S × Option Err :=
  match restoreAll P fuel s (rtClear P s scope) comps with
  | (s', none) => (s', none)
  | (_, some _) => (s, some .serial)

/-! ## values that change under the channels

A channel stores a REFERENCE.  When the other holder of a mutable value (a list, a dict) changes it in
place, every channel — and every cached input dict, every argument tuple of a job that is still out —
that holds that object holds the changed value from then on, without any assignment.  `mutateS k k'`:
the object that was `d k` is `d k'` now.  Nothing else moves; in particular no hint is consulted. -/

def substVal (k k' : Nat) (v : Val) : Val := if v = .d k then .d k' else v

def mutateS (s : S) (k k' : Nat) : S :=
  { s with val := fun c => substVal k k' (s.val c),
           cached := fun n => (s.cached n).map (List.map (substVal k k')),
           pending := fun n => (s.pending n).map (List.map (substVal k k')) }

/-! ## replacing a node (`Composite.replace_child`, `Node.replace_with`, `composite.label = Class`)

The function node `n` is replaced by a FRESH instance of its class: the fresh channels start strict,
empty, without receivers; `copy_io` re-forms every connection of the old node (refused as a whole if
one of them is not valid for the fresh, strict channels) and copies the data values softly, through
the fresh setters; `_seat_replacement` then puts every fresh channel exactly where the old one sat —
in each neighbour's list and in its own — so the connection lists, seen by position, do not change;
the value links between the parent's IO (`pins`, `pouts`) and the node are validated up front and
re-forged afterwards (receiver assigned, value pushed with errors suppressed).  The old node is gone:
foreign receivers that pointed at it point at nothing the graph holds. -/

def replStrict (s : S) (cs : List Nat) : Nat → Bool := fun c => if c ∈ cs then true else s.strict c

/-- every connection of the old node can be formed by the fresh one -/
def replValid (P : Params) (s : S) (cs : List Nat) : Bool :=
  cs.all fun c => (s.conns c).all fun o => effValid P { s with strict := replStrict s cs } c o

/-- `_ensure_valid_value_receiver` (class and identity are fine by construction) -/
def linkValid (P : Params) (s : S) (a b : Nat) : Bool :=
  !(s.hinted a && s.hinted b && s.strict b && !P.hintOk a b)

/-- the fresh node in the old one's place, before anything is copied -/
def resetNode (s : S) (n : Nat) (cs : List Nat) : S :=
  { s with strict := replStrict s cs,
           val := fun c => if c ∈ cs then .nd else s.val c,
           recv := fun c => if c ∈ cs then none else
             match s.recv c with
             | some r => if r ∈ cs then none else some r
             | none => none,
           running := updF s.running n false, failed := updF s.failed n false,
           cached := updF s.cached n none, pending := updF s.pending n [] }

/-- `_copy_values(other, fail_hard=False)`: every data value of the old node through the fresh setter,
failures skipped -/
def softCopy (P : Params) (fuel : Nat) (src : S) : S → List Nat → S
  | st, [] => st
  | st, c :: r =>
    if src.val c = .nd then softCopy P fuel src st r
    else softCopy P fuel src (setVal P fuel st c (src.val c)).1 r

/-- one re-forged value link: `_value_receiver = …`, then the value pushed with exceptions suppressed -/
def pushSoft (P : Params) (fuel : Nat) (st : S) (a b : Nat) : S :=
  if st.kind b ≠ st.kind a then st
  else (setVal P fuel { st with recv := updF st.recv a (some b) } b (st.val a)).1

/-- the value links from the parent's inputs into the node / from the node into the parent's outputs -/
def inLinks (s : S) (n : Nat) (pins : List Nat) : List (Nat × Nat) :=
  pins.filterMap fun a =>
    match s.recv a with
    | some c => if c ∈ s.ins n then some (a, c) else none
    | none => none

def outLinks (s : S) (n : Nat) (pouts : List Nat) : List (Nat × Nat) :=
  (s.outs n).filterMap fun c =>
    match s.recv c with
    | some m => if m ∈ pouts then some (c, m) else none
    | none => none

def replaceNode (P : Params) (fuel : Nat) (s : S) (n : Nat) (pins pouts : List Nat) : S × Option Err :=
  let cs := s.ins n ++ s.outs n
  let inb := inLinks s n pins
  let outb := outLinks s n pouts
  let s0 := { s with strict := replStrict s cs }
  if replValid P s cs && (inb ++ outb).all (fun p => linkValid P s0 p.1 p.2) then
    ((inb ++ outb).foldl (fun st p => pushSoft P fuel st p.1 p.2)
      (softCopy P fuel s (resetNode s n cs) cs), none)
  else (s, some .replace)

/-! ## operations -/

inductive Op
  | set (c : Nat) (v : Val)
  | assign (c : Nat) (a : Arg)
  | setInputs (kw : List (Nat × Arg))
  | fetch (c : Nat)
  | fetchAll (n : Nat)
  | link (a : Nat) (b : Option Nat)
  | connect (a b : Nat)
  | connectMany (a : Nat) (bs : List Nat)
  | disconnect (a b : Nat)
  | copyValues (failHard : Bool) (pin pout : List (Option Nat × Nat))
  | run (n : Nat) (kw : List (Nat × Arg))
  | setStrict (c : Nat) (b : Bool)
  | flag (n : Nat) (running failed : Bool)
  | roundTrip (scope : List Nat) (comps : List Comp)
  | submit (n : Nat) (kw : List (Nat × Arg))
  | complete (n : Nat)
  | mutate (k k' : Nat)
  | replace (n : Nat) (pins pouts : List Nat)
  deriving Repr

def wrap (r : S × Option Err) : S × Out :=
  match r with
  | (s, none) => (s, .ok)
  | (s, some e) => (s, .err e)

def step (P : Params) (fuel : Nat) (s : S) : Op → S × Out
  | .set c v => wrap (setVal P fuel s c v)
  | .assign c a => wrap (assign P fuel s c a)
  | .setInputs kw => wrap (setInputs P fuel s kw)
  | .fetch c => wrap (fetch1 P fuel s c)
  | .fetchAll n => wrap (fetchAll P fuel s (s.ins n))
  | .link a b => wrap (link P fuel s a b)
  | .connect a b => wrap (connectS P s a b)
  | .connectMany a bs => wrap (connectMany P s a bs)
  | .disconnect a b => (disconnectS P s a b, .ok)
  | .copyValues fh pin pout => wrap (copyValues P fuel fh s pin pout)
  | .run n kw => runAny P fuel fuel s n kw
  | .submit n kw => submitRun P fuel s n kw
  | .complete n => completeRun P fuel s n
  | .mutate k k' => (mutateS s k k', .ok)
  | .replace n pins pouts => wrap (replaceNode P fuel s n pins pouts)
  | .setStrict c b => ({ s with strict := updF s.strict c b }, .ok)
  | .flag n r f => ({ s with running := updF s.running n r, failed := updF s.failed n f }, .ok)
  | .roundTrip scope comps => wrap (roundTrip P fuel s scope comps)

def run (P : Params) (fuel : Nat) (s : S) (ops : List Op) : S :=
  ops.foldl (fun s o => (step P fuel s o).1) s

/-- a fresh world: nothing connected, nothing stored, nothing linked, nothing running -/
def init (kind : Nat → Kind) (owner : Nat → Nat) (hinted strict : Nat → Bool)
    (ins outs : Nat → List Nat) (useCache : Nat → Bool := fun _ => false)
    (kids deps : Nat → List Nat := fun _ => []) : S :=
  { kind, owner, conns := fun _ => [], val := fun _ => .nd, hinted, strict, recv := fun _ => none,
    ins, outs, running := fun _ => false, failed := fun _ => false, calls := [], clock := 0,
    since := fun _ _ => 0, useCache, cached := fun _ => none, pending := fun _ => [], kids, deps }

end PwVerif.Data
