/-!
# The readiness gate on a cache hit, and `use_cache` switched off and on between runs

One node with a typed input: `0` = NOT_DATA, values ≥ 100 do not conform to the type hint (they can only be
assigned while hints are lax).  `run` checks readiness (data present; hint respected unless lax), `execute` does not.
A hit is only taken where a real run would be admitted too (`gateHit`; without: seeded change C05-14).  An admitted
run drops the input record whether or not `use_cache` is on at that moment (`dropAlways`; only-when-on: seeded
change C05-15) and records the input when the result is processed if `use_cache` is on.  `uc` is the switch of the
node under test, flipped by `cacheOn` / `cacheOff`; its twin has it off throughout.
-/
namespace PwVerif.CacheGate

structure N where
  inp : Nat
  out : Option Nat
  cached : Option Nat
  lax : Bool
  uc : Bool
  deriving Repr, DecidableEq

def N.init (uc : Bool) : N := { inp := 0, out := none, cached := none, lax := false, uc := uc }

inductive Op
  | set (v : Nat) | run | execute | laxOn | laxOff | cacheOn | cacheOff
  deriving Repr, DecidableEq

inductive R
  | ret (o : Option Nat) | readiness | refused | unit
  deriving Repr, DecidableEq

def N.ready (n : N) : Bool := n.inp != 0 && (n.lax || n.inp < 100)

def runLike (gateHit dropAlways : Bool) (n : N) (check : Bool) : N × R :=
  let hit := n.uc && n.cached == some n.inp && (!gateHit || n.ready || !check)
  if hit then (n, .ret n.out)
  else if check && !n.ready then (n, .readiness)
  else
    -- admitted: the record goes, the function runs, the input is recorded if the switch is on
    let n1 := if dropAlways || n.uc then { n with cached := none } else n
    ({ n1 with out := some n.inp, cached := if n.uc then some n.inp else n1.cached }, .ret (some n.inp))

/-- `twin` = the cache-free twin: it ignores the switch ops -/
def step (gateHit dropAlways twin : Bool) (n : N) : Op → N × R
  | .set v => if v ≥ 100 && !n.lax then (n, .refused) else ({ n with inp := v }, .unit)   -- the hint refuses the value
  | .run => runLike gateHit dropAlways n true
  | .execute => runLike gateHit dropAlways n false
  | .laxOn => ({ n with lax := true }, .unit)
  | .laxOff => ({ n with lax := false }, .unit)
  | .cacheOn => (if twin then n else { n with uc := true }, .unit)
  | .cacheOff => (if twin then n else { n with uc := false }, .unit)

def runOps (g d twin : Bool) (n : N) : List Op → N × List R
  | [] => (n, [])
  | o :: os =>
    let r := step g d twin n o
    let rs := runOps g d twin r.1 os
    (rs.1, r.2 :: rs.2)

end PwVerif.CacheGate
