import PwVerif.Model.CacheTree
/-!
# A for-loop node as a cached composite: the body is REBUILT from the inputs on every miss

`For._on_cache_miss` throws the body away and builds it again from the current inputs (`_build_body`): `build`
below, any function of the composite's input values.  Between runs the user may do anything to the body by hand
(`edit`).  The cache-free twin has no record, misses every time and so rebuilds every time: a hand edit never
survives into a run.  With the cache on, the key notices the edit (a miss) — and the miss must rebuild too
(`rebuildOnMiss`; the seeded change C05-10 skips it when the old body "still fits" the inputs).
-/
namespace PwVerif.CacheFor
open PwVerif.CacheTree (T K KCfg Sem key evalAll Entry)

structure St (ρ : Type) where
  vals : List ρ
  kids : List (Nat × T)
  outs : List (Nat × ρ)
  cache : Option (Entry ρ)

inductive Op (ρ : Type) where
  | setVals (vs : List ρ)
  | edit (kids : List (Nat × T))     -- any hand-made change of the body
  | run

def hit {ρ} [DecidableEq ρ] (c : KCfg) (s : St ρ) : Bool :=
  match s.cache with
  | none => false
  | some e => decide (e.vals = s.vals) && K.beq e.k (key c s.kids)

def step {ρ} [DecidableEq ρ] (S : Sem ρ) (c : KCfg) (fuel : Nat) (build : List ρ → List (Nat × T))
    (rebuildOnMiss useCache : Bool) (s : St ρ) : Op ρ → St ρ × Option (List (Nat × ρ))
  | .setVals vs => ({ s with vals := vs }, none)
  | .edit kids => ({ s with kids := kids }, none)
  | .run =>
    if useCache && hit c s then (s, some s.outs)
    else
      let kids := if rebuildOnMiss || !useCache then build s.vals else s.kids
      let outs := evalAll S fuel s.vals kids
      ({ s with kids := kids, outs := outs,
                cache := if useCache then some { vals := s.vals, k := key c kids } else none }, some outs)

def runOps {ρ} [DecidableEq ρ] (S : Sem ρ) (c : KCfg) (fuel : Nat) (build : List ρ → List (Nat × T)) (rb uc : Bool)
    (s : St ρ) : List (Op ρ) → St ρ × List (Option (List (Nat × ρ)))
  | [] => (s, [])
  | o :: os =>
    let r := step S c fuel build rb uc s o
    let rs := runOps S c fuel build rb uc r.1 os
    (rs.1, r.2 :: rs.2)

end PwVerif.CacheFor
