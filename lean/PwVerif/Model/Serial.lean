import PwVerif.Model.Util
import PwVerif.Model.Signal
/-!
# Serialisation (transcription of the per-class `__getstate__` / `__setstate__` pipeline)

`mixin/has_interface_mixins.py UsesState`, `channels.py Channel/DataChannel.__getstate__`,
`mixin/lexical.py Lexical.__getstate__`, `LexicalParent.__getstate__/__setstate__`,
`mixin/run.py Runnable.__getstate__`, `nodes/composite.py Composite.__getstate__/__setstate__/
_get_connections_as_strings/_restore_connections_from_strings`, `nodes/macro.py` and
`nodes/for_loop.py` `_input_value_links/_output_value_links/__getstate__/__setstate__`,
`node.py Node.load` (class check, then `self.__setstate__(inst.__getstate__())`).

A live graph is a tree (`Node`): every node carries its own record (`Core`: label, class, IO
values incl. `NOT_DATA`, flags, executor, value links, starting labels ...) and, if it is a
composite, the ordered list of its children and the two connection graphs (data / signal) AMONG
its children.  A connection graph keeps BOTH lists of every connection, exactly like the channel
objects do: `inl a` is `a.connections` of an input channel `a`, `outl o` is `o.connections` of an
output channel `o`; channels are addressed the way the library's stored strings address them, by
`(child label, channel label)`.  Index 0 is the newest connection = the first one `fetch`
consults / the first one an output signal fires.

What the representation builds in (and the lock-step check validates on real objects): a channel
state drops `connections` and `_value_receiver`, a node state drops `_parent` — so a pickled
subtree knows nothing of its siblings; connections that leave the composite cannot be represented
except as addresses that are no child's (`Closed` fails, and `load` raises `KeyError`).

`save` is `pickle.dumps` (each object's `__getstate__`, recursively), `load` is `pickle.loads`
(children first, then the parent's `__setstate__`), both also stand for `cloudpickle`, and
`fileLoad` is `Node.load` of the file back end (a second, shallow state cycle on live children).

`Cfg` switches between the behaviour before and after the repairs of `fixes/C07-*.patch` (all but
the last one are applied in /repo by now; the harness probes which variant it is talking to).
Core Lean only.
-/
namespace PwVerif.Serial
open PwVerif

abbrev Lbl := Nat
/-- `(owner.label, channel.label)` — the tuples of `_get_connections_as_strings` -/
abbrev Addr := Lbl × Lbl
abbrev Path := List Lbl

/-- a value: `NOT_DATA` or data, written as the token list of a term (prefix notation) -/
inductive Val | nd | t (toks : List Nat)
  deriving DecidableEq, Repr, Inhabited

inductive Kind | leaf | macro | forLoop | workflow
  deriving DecidableEq, Repr, Inhabited

/-- `Macro` and `For` store and re-forge value links, `Workflow` and plain nodes do not -/
def Kind.hasLinks : Kind → Bool
  | .macro => true
  | .forLoop => true
  | _ => false

/-- `node.executor`: nothing, instructions `(class, args, kwargs)`, or a live executor object -/
inductive Exec | none | instr (k : Nat) | live
  deriving DecidableEq, Repr, Inhabited

/-- `Runnable.__getstate__`: a live executor is replaced by `None`, instructions are kept -/
def Exec.strip : Exec → Exec
  | .live => .none
  | e => e

/-- a `__getstate__` that keeps only the instructions it recognises (`recognised k`, e.g. "the callable
is a class") and drops the rest together with live executors — although `_parse_executor` accepts any
callable in first place (a provider function handing several nodes one shared executor) -/
def Exec.stripNarrow (recognised : Nat → Bool) : Exec → Exec
  | .live => .none
  | .instr k => if recognised k then .instr k else .none
  | .none => .none

/-- `KeyError` (node label lookup), `AttributeError` (channel label lookup), `RuntimeError` (locked
input), `TypeError` (class mismatch), `ChannelConnectionError` (a stored connection is refused) -/
inductive Err | key | attr | runtime | type | conn
  deriving DecidableEq, Repr, Inhabited

/-- a data channel as far as its `__dict__` goes (label, value, `strict_hints`) -/
structure DChan where
  label : Lbl
  val : Val
  strict : Bool
  deriving DecidableEq, Repr, Inhabited

/-- the plain part of a node's `__dict__` -/
structure Core where
  label : Lbl
  /-- the node's class (module + qualified name); `Node.load` refuses another class -/
  cls : Nat
  kind : Kind
  ins : List DChan
  outs : List DChan
  /-- labels of the signal channels (`run`, `accumulate_and_run` / `ran`, `failed`, ...) -/
  sigIns : List Lbl
  sigOuts : List Lbl
  /-- `accumulate_and_run.received_signals` -/
  received : List Nat
  running : Bool
  failed : Bool
  exec : Exec
  /-- `For.body_node_executor` -/
  bodyExec : Exec
  /-- `_cached_inputs` -/
  cached : Option (List Val)
  /-- `starting_nodes` (stored as `_starting_node_labels`) -/
  starting : List Lbl
  /-- macro input ↦ `(child, child input)`: `_input_value_links` -/
  inLinks : List (Lbl × Addr)
  /-- `(child, child output)` ↦ macro output: `_output_value_links` -/
  outLinks : List (Addr × Lbl)
  /-- `_detached_parent_path` -/
  detached : Option Path
  /-- `provenance_by_execution` -/
  prov : List Lbl
  /-- the data connections among this composite's children that `_valid_connection` would refuse NOW
  (they were accepted when made: the receiving input was not strict then, or a hint was changed
  since) — `(input, output)` pairs -/
  refused : List (Addr × Addr)
  /-- `Workflow.automate_execution` (re-derive the execution signals from the data DAG before every run) -/
  automate : Bool
  /-- `Workflow._inputs_map` / `_outputs_map` (opaque token, 0 = none) -/
  maps : Nat
  deriving DecidableEq, Repr, Inhabited

def updA {α} (f : Addr → α) (a : Addr) (v : α) : Addr → α := fun x => if x = a then v else f x

/-- the connections of one flavour among the children of one composite -/
structure CG where
  inl : Addr → List Addr
  outl : Addr → List Addr

def CG.empty : CG := ⟨fun _ => [], fun _ => []⟩

inductive Node where
  | mk (core : Core) (children : List Node) (data sig : CG)

def Node.core : Node → Core | .mk c _ _ _ => c
def Node.children : Node → List Node | .mk _ ch _ _ => ch
def Node.data : Node → CG | .mk _ _ d _ => d
def Node.sig : Node → CG | .mk _ _ _ s => s

/-- what the pickle stream holds for one node -/
inductive PNode where
  | mk (core : Core) (children : List PNode)
       (dataStr sigStr : List (Addr × Addr))   -- `_child_data_connections`, `_child_signal_connections`
       (firing : List (Addr × Addr))           -- repaired format only: signal connections seen from the outputs

structure Cfg where
  /-- repaired: `_restore_connections_from_strings` reconnects in REVERSE stored order, so that the
  prepending `connect` rebuilds every input's list as it was saved (pinned: stored order) -/
  revIter : Bool
  /-- repaired: every signal output's list is put back into the saved (firing) order -/
  firing : Bool
  /-- value links re-forged through the `value_receiver` setter, which pushes the value through the
  receiver's value setter (an input refuses it while its owner runs); `false` = plain assignment of
  `_value_receiver`.  Three places: `Macro` input links (repaired in the tree since 60885c9), `Macro`
  output links, and both loops of `For.__setstate__` -/
  pushIn : Bool
  pushOut : Bool
  pushFor : Bool
  /-- repaired: `Composite.__setstate__` keeps `_cached_inputs` (pinned: every re-adopted child calls
  back `add_child`, which resets it "after graph change") -/
  keepCache : Bool
  /-- pinned: the connections are re-created with `connect`, which validates the type hints again and
  refuses what it would not accept today (`ChannelConnectionError`: the graph cannot be loaded);
  repaired: a stored connection is re-created as it was -/
  revalidate : Bool
  deriving DecidableEq, Repr

/-- the tree before the repairs of `fixes/C07-*.patch` (as of /repo commit bba6c5f) -/
def Cfg.pinned : Cfg := ⟨false, false, false, true, true, false, true⟩
/-- with `fixes/C07-*.patch` applied — the tree as it is since /repo commit 200d3d9 -/
def Cfg.repaired : Cfg := ⟨true, true, false, false, false, true, false⟩

/-- does `__setstate__` of a node of this kind push through input / output links? -/
def Cfg.pushesIn (cfg : Cfg) (k : Kind) : Bool := if k = .forLoop then cfg.pushFor else cfg.pushIn
def Cfg.pushesOut (cfg : Cfg) (k : Kind) : Bool := if k = .forLoop then cfg.pushFor else cfg.pushOut
def Cfg.anyPush (cfg : Cfg) : Bool := cfg.pushIn || cfg.pushOut || cfg.pushFor

/-! ## label tables -/

def labelsOf (l : List DChan) : List Lbl := l.map (·.label)
def chanAddrs (n : Lbl) (ls : List Lbl) : List Addr := ls.map fun x => (n, x)

def childLabels (cs : List Node) : List Lbl := cs.map (·.core.label)
/-- `for child in self for inp in child.inputs` -/
def inDom (cs : List Node) : List Addr := cs.flatMap fun c => chanAddrs c.core.label (labelsOf c.core.ins)
def outDom (cs : List Node) : List Addr := cs.flatMap fun c => chanAddrs c.core.label (labelsOf c.core.outs)
def sInDom (cs : List Node) : List Addr := cs.flatMap fun c => chanAddrs c.core.label c.core.sigIns
def sOutDom (cs : List Node) : List Addr := cs.flatMap fun c => chanAddrs c.core.label c.core.sigOuts

/-- `_get_connections_as_strings`: `for child … for inp … for out in inp.connections` -/
def strings (dom : List Addr) (f : Addr → List Addr) : List (Addr × Addr) :=
  dom.flatMap fun a => (f a).map fun b => (a, b)

/-! ## `__getstate__` -/

/-- `lexical_path` of a node without live parent -/
def lexPath (det : Option Path) (label : Lbl) : Path := det.getD [] ++ [label]

/-- `Runnable` strips live executors; `Node` drops the input cache of a run that has not finished;
`Lexical` records the live parent's path (`pp`), if any -/
def Core.forState (c : Core) (pp : Option Path) : Core :=
  { c with exec := c.exec.strip, bodyExec := c.bodyExec.strip,
           cached := if c.running then none else c.cached,
           detached := match pp with
             | some p => some p
             | none => c.detached }

mutual
/-- `pickle.dumps(node)` where `pp` is the lexical path of the node's live parent -/
def save (pp : Option Path) : Node → PNode
  | .mk c ch dg sg =>
    .mk (c.forState pp) (saveL (lexPath (c.forState pp).detached c.label) ch)
      (strings (inDom ch) dg.inl) (strings (sInDom ch) sg.inl) (strings (sOutDom ch) sg.outl)
def saveL (p : Path) : List Node → List PNode
  | [] => []
  | n :: ns => save (some p) n :: saveL p ns
end

/-! ## `__setstate__` -/

/-- `child.parent = self` (the child arrives with `_parent = None`): clears the detached path -/
def Node.adopt : Node → Node
  | .mk c ch dg sg => .mk { c with detached := none } ch dg sg

/-- `inp.connect(out)`: present ⇒ nothing, else prepend on both sides -/
def connect1 (g : CG) (i o : Addr) : CG :=
  if o ∈ g.inl i then g
  else { inl := updA g.inl i (o :: g.inl i), outl := updA g.outl o (i :: g.outl o) }

def connectAll (g : CG) (l : List (Addr × Addr)) : CG := l.foldl (fun g p => connect1 g p.1 p.2) g

/-- `nodes[label]` / `panel[label]` of every stored tuple must exist (else `KeyError`) -/
def checkStrs (inD outD : List Addr) (l : List (Addr × Addr)) : Bool :=
  l.all fun p => decide (p.1 ∈ inD) && decide (p.2 ∈ outD)

/-- the first stored tuple that cannot be resolved, in the order the loop meets them:
`input_panel(nodes[inp_node])[inp].connect(output_panel(nodes[out_node])[out])` -/
def firstBad (labels : List Lbl) (inD outD : List Addr) : List (Addr × Addr) → Option Err
  | [] => none
  | p :: rest =>
    if p.1.1 ∉ labels then some .key
    else if p.1 ∉ inD then some .attr
    else if p.2.1 ∉ labels then some .key
    else if p.2 ∉ outD then some .attr
    else firstBad labels inD outD rest

/-- `_restore_connections_from_strings` on freshly unpickled (unconnected) children -/
def restore (cfg : Cfg) (l : List (Addr × Addr)) : CG :=
  connectAll CG.empty (if cfg.revIter then l.reverse else l)

/-- the saved receivers of output `o`, in saved order -/
def firingOf (fo : List (Addr × Addr)) (o : Addr) : List Addr :=
  (fo.filter fun p => p.1 = o).map (·.2)

/-- `[c for c in saved if c in cur] + [c for c in cur if c not in saved]` -/
def reorder (saved cur : List Addr) : List Addr :=
  saved.filter (fun x => decide (x ∈ cur)) ++ cur.filter (fun x => !decide (x ∈ saved))

def restoreSig (cfg : Cfg) (l fo : List (Addr × Addr)) : CG :=
  let g := restore cfg l
  if cfg.firing then { g with outl := fun o => reorder (firingOf fo o) (g.outl o) } else g

def setVal (l : List DChan) (x : Lbl) (v : Val) : List DChan :=
  l.map fun ch => if ch.label = x then { ch with val := v } else ch

def valOf (l : List DChan) (x : Lbl) : Option Val := (l.find? fun ch => ch.label = x).map (·.val)

def lookupLink (l : List (Lbl × Addr)) (x : Lbl) : Option Addr := (l.find? fun p => p.1 = x).map (·.2)

mutual
/-- `node.inputs[x].value = v` through `InputData.value.setter`: refused while the owner runs,
forwarded to the value receiver (the node's own, already re-forged, link) before it is stored -/
def pushIn : Node → Lbl → Val → Except Err Node
  | .mk c ch dg sg, x, v =>
    if c.running then .error .runtime
    else
      match lookupLink c.inLinks x with
      | none => .ok (.mk { c with ins := setVal c.ins x v } ch dg sg)
      | some r =>
        match pushInL ch r.1 r.2 v with
        | .error e => .error e
        | .ok ch' => .ok (.mk { c with ins := setVal c.ins x v } ch' dg sg)
/-- the same for the child labelled `cl` of a list of children (no such child: the receiver is an
object outside the tree, nothing observable happens) -/
def pushInL : List Node → Lbl → Lbl → Val → Except Err (List Node)
  | [], _, _, _ => .ok []
  | n :: ns, cl, x, v =>
    if n.core.label = cl then
      match pushIn n x v with
      | .error e => .error e
      | .ok n' => .ok (n' :: ns)
    else
      match pushInL ns cl x v with
      | .error e => .error e
      | .ok ns' => .ok (n :: ns')
end

/-- `for inp, (child, child_inp) in input_links: self.inputs[inp].value_receiver =
self.children[child].inputs[child_inp]` -/
def forgeIn (push : Bool) (c : Core) : List Node → List (Lbl × Addr) → Except Err (List Node)
  | cs, [] => .ok cs
  | cs, (x, r) :: rest =>
    if r ∉ inDom cs then .error .key
    else
      match valOf c.ins x with
      | none => .error .key
      | some v =>
        if push then
          match pushInL cs r.1 r.2 v with
          | .error e => .error e
          | .ok cs' => forgeIn push c cs' rest
        else forgeIn push c cs rest

def outVals (cs : List Node) : List (Addr × Val) :=
  cs.flatMap fun n => n.core.outs.map fun ch => ((n.core.label, ch.label), ch.val)

/-- `self.children[child].outputs[child_out].value` -/
def outValOf (cs : List Node) (r : Addr) : Option Val := ((outVals cs).find? fun p => p.1 = r).map (·.2)

/-- `for (child, child_out), out in output_links: self.children[child].outputs[child_out]
.value_receiver = self.outputs[out]` (the macro's own output has no receiver yet) -/
def forgeOut (push : Bool) (cs : List Node) : Core → List (Addr × Lbl) → Except Err Core
  | c, [] => .ok c
  | c, (r, out) :: rest =>
    match outValOf cs r with
    | none => .error .key
    | some v =>
      if out ∉ labelsOf c.outs then .error .key
      else forgeOut push cs (if push then { c with outs := setVal c.outs out v } else c) rest

/-- every adopted child calls back `Composite.add_child`, which forgets the composite's cache
(`self._cached_inputs = None  # Reset cache after graph change`) -/
def Core.afterAdopt (c : Core) (cs : List Node) : Core :=
  if cs.isEmpty then c else { c with cached := none }

/-- `Composite.__setstate__` → `LexicalParent.__setstate__` → (`Macro`/`For`) link forging, on a
state whose children `cs` have already been set up -/
def setstate (cfg : Cfg) (c : Core) (cs : List Node) (ds ss fo : List (Addr × Addr)) : Except Err Node :=
  if !(c.starting.all fun l => decide (l ∈ childLabels cs)) then .error .key
  else
    let c := if cfg.keepCache then c else c.afterAdopt cs
    let cs := cs.map Node.adopt
    match firstBad (childLabels cs) (inDom cs) (outDom cs) ds with
    | some e => .error e
    | none =>
    if cfg.revalidate && ds.any (fun p => decide (p ∈ c.refused)) then .error .conn
    else
    match firstBad (childLabels cs) (sInDom cs) (sOutDom cs) ss with
    | some e => .error e
    | none =>
    match (if cfg.firing then firstBad (childLabels cs) (sOutDom cs) (sInDom cs) fo else none) with
    | some e => .error e
    | none =>
      let dg := restore cfg ds
      let sg := restoreSig cfg ss fo
      if c.kind.hasLinks then
        match forgeIn (cfg.pushesIn c.kind) c cs c.inLinks with
        | .error e => .error e
        | .ok cs' =>
          match forgeOut (cfg.pushesOut c.kind) cs' c c.outLinks with
          | .error e => .error e
          | .ok c' => .ok (.mk c' cs' dg sg)
      else .ok (.mk c cs dg sg)

mutual
/-- `pickle.loads` -/
def load (cfg : Cfg) : PNode → Except Err Node
  | .mk c ch ds ss fo =>
    match loadL cfg ch with
    | .error e => .error e
    | .ok cs => setstate cfg c cs ds ss fo
def loadL (cfg : Cfg) : List PNode → Except Err (List Node)
  | [] => .ok []
  | p :: ps =>
    match load cfg p with
    | .error e => .error e
    | .ok n =>
      match loadL cfg ps with
      | .error e => .error e
      | .ok ns => .ok (n :: ns)
end

/-- `Node.load`: unpickle `inst`, refuse another class, then `self.__setstate__(inst.__getstate__())`.
The second state is shallow: the children are `inst`'s live children; re-parenting makes `inst`
release each of them (`remove_child` disconnects the child), after which the connections are
re-created from the strings taken from `inst`. -/
def fileLoad (cfg : Cfg) (selfCls : Nat) (p : PNode) : Except Err Node :=
  match load cfg p with
  | .error e => .error e
  | .ok (.mk c ch dg sg) =>
    if c.cls ≠ selfCls then .error .type
    else setstate cfg (c.forState none) ch (strings (inDom ch) dg.inl) (strings (sInDom ch) sg.inl)
          (strings (sOutDom ch) sg.outl)

/-! ## two more places where the pinned code and its repair differ (driver switches) -/

mutual
/-- repaired `_get_connections_as_strings`: connections to channels of nodes that are no siblings
are not stored (pinned: their labels are stored and cannot be resolved, or resolve to a sibling
that happens to carry the same label) -/
def closeUp : Node → Node
  | .mk c ch dg sg =>
    .mk c (closeUpL ch)
      ⟨fun a => (dg.inl a).filter (fun o => decide (o ∈ outDom ch)), fun o => (dg.outl o).filter (fun a => decide (a ∈ inDom ch))⟩
      ⟨fun a => (sg.inl a).filter (fun o => decide (o ∈ sOutDom ch)), fun o => (sg.outl o).filter (fun a => decide (a ∈ sInDom ch))⟩
def closeUpL : List Node → List Node
  | [] => []
  | n :: ns => closeUp n :: closeUpL ns
end

/-- pinned `Node.load` adopts the state of the unpickled instance `inst` but leaves the node's own
channels owned by `inst`; a later pickle of the node therefore drags `inst` along: a childless twin
(its children were handed over, its starting nodes removed) that still reports the node's input
value links, because it reads them off the shared channels -/
def twinOf (n : Node) : PNode :=
  .mk { n.core.forState none with outLinks := [], starting := [] } [] [] [] []

/-- pickling a node that was loaded from file by the pinned `Node.load`: the twin must load too -/
def loadHaunted (cfg : Cfg) (pp : Option Path) (n : Node) : Except Err Node :=
  match load cfg (twinOf n) with
  | .error e => .error e
  | .ok _ => load cfg (save pp n)

/-- `Workflow._rebuild_data_io` (run by `Workflow.replace_child`) leaves a VIEW of the children's exposed
channels in `self._inputs` (`view`, in panel order).  The view sits in the workflow's `__dict__` before
the children, so the pickler meets every listed channel before its owner: the owner is built — and its
`__setstate__` re-forges its value links — INSIDE the state of the first of its channels the view
lists, and only afterwards is that channel's own state applied, `_value_receiver = None` included.
The value link of that one input is gone. -/
def wipeChild (view : List Addr) : Node → Node
  | .mk c ch dg sg =>
    match (view.find? fun a => a.1 = c.label).map (·.2) with
    | some x => .mk { c with inLinks := c.inLinks.filter fun l => l.1 ≠ x } ch dg sg
    | none => .mk c ch dg sg

def wipeView (view : List Addr) : Node → Node
  | .mk c ch dg sg => .mk c (ch.map (wipeChild view)) dg sg

/-- pickling a workflow that carries such a view -/
def loadViewed (cfg : Cfg) (view : List Addr) (n : Node) : Except Err Node :=
  match load cfg (save none n) with
  | .error e => .error e
  | .ok g => .ok (wipeView view g)

/-- `Node.load` since /repo dcaa030: who owns the node is not part of what a load restores —
`_parent` and `_detached_parent_path` stay the loading node's own (`own = some d`); before, the
stored detached path was adopted with the rest of the state (`own = none`) -/
def fileLoadAt (cfg : Cfg) (selfCls : Nat) (own : Option (Option Path)) (p : PNode) : Except Err Node :=
  match fileLoad cfg selfCls p, own with
  | .error e, _ => .error e
  | .ok (.mk c ch dg sg), some d => .ok (.mk { c with detached := d } ch dg sg)
  | .ok n, none => .ok n

/-! ## the two files of one save location -/

/-- `<name>.pckl` (plain pickle) and `<name>.cpckl` (cloudpickle fallback) -/
structure Slots where
  pckl : Option PNode
  cpckl : Option PNode

/-- `PickleStorage._save`: a graph whose classes can all be imported goes to `.pckl`, otherwise plain
pickle fails and the fallback writes `.cpckl`; after a successful write the file with the OTHER suffix
is removed (`dropOther`; a storage that leaves it behind keeps a stale `.pckl` that `_load` prefers) -/
def Slots.save (dropOther : Bool) (s : Slots) (importable : Bool) (p : PNode) : Slots :=
  if importable then ⟨some p, if dropOther then none else s.cpckl⟩
  else ⟨if dropOther then none else s.pckl, some p⟩

/-- `PickleStorage._load`: the first existing of `.pckl`, `.cpckl` -/
def Slots.read (s : Slots) : Option PNode :=
  match s.pckl with
  | some p => some p
  | none => s.cpckl

/-- AUTOLOAD AT CONSTRUCTION: `Workflow(label, automate_execution=a, inputs_map=m …)` sets what it was
asked for, then `super().__init__` finds the save file and loads it (`Node.load`) — the stored state
wins.  `ctorLast = true` is a constructor that re-applies its arguments AFTER that (automation always —
it defaults to `True` —, the maps when passed): whatever was stored, the workflow comes back automated. -/
def autoloadAt (cfg : Cfg) (ctorLast : Bool) (ctorAuto : Bool) (ctorMaps : Option Nat) (selfCls : Nat)
    (own : Option (Option Path)) (p : PNode) : Except Err Node :=
  match fileLoadAt cfg selfCls own p with
  | .error e => .error e
  | .ok (.mk c ch dg sg) =>
    if ctorLast then .ok (.mk { c with automate := ctorAuto, maps := ctorMaps.getD c.maps } ch dg sg)
    else .ok (.mk c ch dg sg)

/-! ## `child.load()` in place: a node that has a parent loads a saved state -/

def replaceChild (cs : List Node) (l : Lbl) (n : Node) : List Node :=
  cs.map fun c => if c.core.label = l then n else c

/-- the child's OWN lists are those of its new, never connected channels; its neighbours' lists
still name the old ones -/
def clearChild (g : CG) (l : Lbl) : CG :=
  ⟨fun a => if a.1 = l then [] else g.inl a, fun o => if o.1 = l then [] else g.outl o⟩

/-- `parent.children[l].load()` of the file `child.save()` wrote.  `keepPlace = 0`: the node adopts
the stored state as it is — `_parent = None`, the detached path, fresh channels — while its parent
keeps listing it and its neighbours stay connected to the discarded channels; `1` (/repo dcaa030): the
parent is kept, the channels are still the fresh ones; `2` (fixes/C07-load-in-place-keeps-place.patch):
whatever was attached to the old channels is attached to the loaded ones. -/
def loadInPlace (cfg : Cfg) (keepPlace : Nat) (pp : Option Path) : Node → Lbl → Except Err Node
  | .mk c ch dg sg, l =>
    match ch.find? fun x => x.core.label = l with
    | none => .error .key
    | some child =>
      match fileLoad cfg child.core.cls (save (some (lexPath (c.forState pp).detached c.label)) child) with
      | .error e => .error e
      | .ok loaded =>
        if keepPlace ≥ 2 then .ok (.mk c (replaceChild ch l loaded.adopt) dg sg)
        else
          -- the loaded output channels forward to nobody: the parent's output links from this child are gone
          .ok (.mk { c with outLinks := c.outLinks.filter fun k => k.1.1 ≠ l }
            (replaceChild ch l (if keepPlace = 1 then loaded.adopt else loaded))
            (clearChild dg l) (clearChild sg l))

mutual
/-- can the graph be pickled at all?  `For._input_value_links` reads `c.value_receiver.owner` of EVERY
input; an input whose link is gone (see `wipeView`) makes `__getstate__` raise (`Macro` skips such inputs) -/
def dumpable : Node → Bool
  | .mk c ch _ _ =>
    (c.kind != .forLoop || (labelsOf c.ins).all fun x => (lookupLink c.inLinks x).isSome) && dumpableL ch
def dumpableL : List Node → Bool
  | [] => true
  | n :: ns => dumpable n && dumpableL ns
end

/-! ## observation -/

/-- one line per node: where it is, its record (live executors are not state), every child
input's data connections in fetch order, every child signal output's connections in firing order -/
structure Rec where
  path : Path
  core : Core
  din : List (Addr × List Addr)
  sout : List (Addr × List Addr)
  deriving DecidableEq, Repr

def table (dom : List Addr) (f : Addr → List Addr) : List (Addr × List Addr) := dom.map fun a => (a, f a)

/-- a node's record as far as it is state: a live executor is not, nor is the input cache of a run
that has not finished -/
def Core.seen (c : Core) : Core :=
  { c with exec := c.exec.strip, bodyExec := c.bodyExec.strip, cached := if c.running then none else c.cached }

mutual
def obs (p : Path) : Node → List Rec
  | .mk c ch dg sg =>
    ⟨p ++ [c.label], c.seen, table (inDom ch) dg.inl, table (sOutDom ch) sg.outl⟩ :: obsL (p ++ [c.label]) ch
def obsL (p : Path) : List Node → List Rec
  | [] => []
  | n :: ns => obs p n ++ obsL p ns
end

/-- the sides whose order carries no meaning (data outputs, signal inputs) -/
def otherSides (n : Node) : List (Addr × List Addr) × List (Addr × List Addr) :=
  (table (outDom n.children) n.data.outl, table (sInDom n.children) n.sig.inl)

/-! ## well-formed live graphs (what the library's own invariants C12 / C13 provide) -/

/-- one flavour: supported on the children's channels, closed, duplicate free, mutual -/
structure CGok (inD outD : List Addr) (g : CG) : Prop where
  support : ∀ a, a ∉ inD → g.inl a = []
  closed : ∀ a o, o ∈ g.inl a → o ∈ outD
  nodupIn : ∀ a, (g.inl a).Nodup
  mutual_ : ∀ a o, o ∈ g.inl a ↔ a ∈ g.outl o

structure LinksOk (c : Core) (cs : List Node) : Prop where
  inSrc : ∀ p ∈ c.inLinks, p.1 ∈ labelsOf c.ins
  inDst : ∀ p ∈ c.inLinks, p.2 ∈ inDom cs
  outSrc : ∀ p ∈ c.outLinks, p.1 ∈ outDom cs
  outDst : ∀ p ∈ c.outLinks, p.2 ∈ labelsOf c.outs

mutual
def WF : Node → Prop
  | .mk c ch dg sg =>
    (childLabels ch).Nodup ∧ (inDom ch).Nodup ∧ (outDom ch).Nodup ∧ (sInDom ch).Nodup ∧ (sOutDom ch).Nodup ∧
    CGok (inDom ch) (outDom ch) dg ∧ CGok (sInDom ch) (sOutDom ch) sg ∧
    (∀ l ∈ c.starting, l ∈ childLabels ch) ∧
    (if c.kind.hasLinks then LinksOk c ch else True) ∧
    WFL ch
def WFL : List Node → Prop
  | [] => True
  | n :: ns => n.core.detached = none ∧ WF n ∧ WFL ns
end

/-! ## connection graphs given by finite tables (driver, concrete examples) -/

def lookupD (t : List (Addr × List Addr)) (a : Addr) : List Addr :=
  match t.find? fun p => p.1 = a with
  | some p => p.2
  | none => []

def CG.ofTables (inT outT : List (Addr × List Addr)) : CG := ⟨lookupD inT, lookupD outT⟩

/-- executable well-formedness check of one flavour (sound for `CGok`, see `cgCheck_sound`) -/
def cgCheck (inD outD : List Addr) (inT outT : List (Addr × List Addr)) : Bool :=
  (inT.all fun p => decide (p.1 ∈ inD) && (p.2.all fun o => decide (o ∈ outD)) && decide p.2.Nodup &&
    (p.2.all fun o => decide (p.1 ∈ lookupD outT o))) &&
  (outT.all fun q => q.2.all fun a => decide (q.1 ∈ lookupD inT a))

/-! ## what a later run reads

The scheduler of a composite (`Signal.compositeRun`, the model behind C02) is a function of a
`Signal.Graph`: who every emitting channel fires (in list order), what every all-of trigger waits
for, the starting nodes.  `toGraph` reads that graph off a live composite: child labels are the
node ids, an emitting channel `(child, k)` is `4 * child + k` (`ran`, `failed`, `true`, `false`),
a receiving channel `(child, 1)` is the all-of trigger `accumulate_and_run`, `(child, 0)` is `run`. -/

def toGraph (n : Node) : Signal.Graph :=
  { conns := fun s => (n.sig.outl (s / 4, s % 4)).map fun a => { node := a.1, acc := a.2 == 1 }
    accConns := fun i => (n.sig.inl (i, 1)).map fun o => 4 * o.1 + o.2
    lab := fun s => s
    starters := n.core.starting
    sigs := (sOutDom n.children).map fun o => 4 * o.1 + o.2 }

/-- `InputData.fetch` of child input `a`: the value of the first connection that holds data -/
def firstData (vals : List (Addr × Val)) : List Addr → Option Val
  | [] => none
  | o :: os =>
    match ((vals.find? fun p => p.1 = o).map (·.2) : Option Val) with
    | some (Val.t x) => some (Val.t x)
    | _ => firstData vals os

def fetchVal (n : Node) (a : Addr) : Option Val := firstData (outVals n.children) (n.data.inl a)

end PwVerif.Serial
