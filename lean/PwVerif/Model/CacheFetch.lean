/-!
# A composite cache hit and the children's input channels (finding KF-C05-7 and its repair)

The other two composite models treat a connected input as "whatever the sibling delivers".  In the code
the channel also HOLDS a value — the one it fetched last, or one assigned by hand — and that value becomes
the input once the connection goes away.  Flat model: a composite over function nodes in execution order,
every connected input with the value it holds.  A run (miss / cache-free twin) makes every child fetch and
compute; a hit returns the outputs and, with `refetch` (fixes/C05-refetch-on-composite-hit.patch), makes
every child fetch all the same.  The key is what `_internal_cache_key` records: labels, classes, free values,
connections — not the values held by connected inputs.
-/
namespace PwVerif.CacheFetch

inductive In (ρ : Type) where
  | free (v : ρ)                    -- unconnected, holding `v`
  | conn (sib : Nat) (held : ρ)     -- connected to sibling `sib`, holding `held`
  deriving DecidableEq, Repr

structure Kid (ρ : Type) where
  label : Nat
  cls : Nat
  ins : List (In ρ)
  out : ρ
  deriving DecidableEq, Repr

abbrev Body (ρ : Type) := List (Kid ρ)

def In.val {ρ} : In ρ → ρ
  | .free v => v
  | .conn _ h => h

def envGet {ρ} (nd : ρ) (env : List (Nat × ρ)) (l : Nat) : ρ :=
  match env.lookup l with
  | none => nd
  | some v => v

/-- `Inputs.fetch()`: a connected channel takes the upstream output -/
def fetchIn {ρ} (nd : ρ) (env : List (Nat × ρ)) : In ρ → In ρ
  | .free v => .free v
  | .conn s _ => .conn s (envGet nd env s)

/-- the body runs (children in execution order): fetch, compute -/
def runBody {ρ} (F : Nat → List ρ → ρ) (nd : ρ) : List (Nat × ρ) → Body ρ → Body ρ
  | _, [] => []
  | env, k :: r =>
    let ins' := k.ins.map (fetchIn nd env)
    let o := F k.cls (ins'.map In.val)
    { k with ins := ins', out := o } :: runBody F nd ((k.label, o) :: env) r

/-- the children fetch from the outputs as they stand (what the repaired hit does) -/
def refetch {ρ} (nd : ρ) : List (Nat × ρ) → Body ρ → Body ρ
  | _, [] => []
  | env, k :: r => { k with ins := k.ins.map (fetchIn nd env) } :: refetch nd ((k.label, k.out) :: env) r

def inKey {ρ} : In ρ → Sum ρ Nat
  | .free v => .inl v
  | .conn s _ => .inr s

def keyOf {ρ} (b : Body ρ) : List (Nat × Nat × List (Sum ρ Nat)) := b.map (fun k => (k.label, k.cls, k.ins.map inKey))

def labOuts {ρ} (b : Body ρ) : List (Nat × ρ) := b.map (fun k => (k.label, k.out))

structure St (ρ : Type) where
  body : Body ρ
  cache : Option (List (Nat × Nat × List (Sum ρ Nat)))

inductive Op (ρ : Type) where
  | assign (l i : Nat) (v : ρ)      -- `child.inputs[i].value = v`, connected or not
  | disconnect (s : Nat)            -- `remove_child(s)`: its consumers keep the value they hold
  | run

def setAt {α} (i : Nat) (f : α → α) : List α → List α
  | [] => []
  | x :: xs => match i with
    | 0 => f x :: xs
    | i + 1 => x :: setAt i f xs

def assignIn {ρ} (v : ρ) : In ρ → In ρ
  | .free _ => .free v
  | .conn s _ => .conn s v

def cutIn {ρ} (s : Nat) : In ρ → In ρ
  | .conn s' h => if s' = s then .free h else .conn s' h
  | x => x

def step {ρ} [DecidableEq ρ] (F : Nat → List ρ → ρ) (nd : ρ) (refetchOnHit useCache : Bool) (s : St ρ) :
    Op ρ → St ρ × Option (List (Nat × ρ))
  | .assign l i v =>
    ({ s with body := s.body.map (fun k => if k.label = l then { k with ins := setAt i (assignIn v) k.ins } else k) }, none)
  | .disconnect x =>
    -- `remove_child` also drops `_cached_inputs`
    ({ body := (s.body.filter (fun k => k.label != x)).map (fun k => { k with ins := k.ins.map (cutIn x) }), cache := none }, none)
  | .run =>
    if useCache && decide (s.cache = some (keyOf s.body)) then
      let b := if refetchOnHit then refetch nd [] s.body else s.body
      ({ s with body := b }, some (labOuts b))
    else
      let b := runBody F nd [] s.body
      ({ body := b, cache := if useCache then some (keyOf b) else none }, some (labOuts b))   -- key as the run left it

def runOps {ρ} [DecidableEq ρ] (F : Nat → List ρ → ρ) (nd : ρ) (rf uc : Bool) (s : St ρ) :
    List (Op ρ) → St ρ × List (Option (List (Nat × ρ)))
  | [] => (s, [])
  | o :: os =>
    let r := step F nd rf uc s o
    let rs := runOps F nd rf uc r.1 os
    (rs.1, r.2 :: rs.2)

end PwVerif.CacheFetch
