import PwVerif.Model.FuncWrap
/-!
# Kinds — parameters of every kind (model slice of C17)

`ScrapesIO._build_inputs_preview` walks `inspect.signature(f).parameters` and makes ONE INPUT PER PARAMETER
WHATEVER ITS KIND (positional-only, positional-or-keyword, `*var`, keyword-only, `**var`); the only refusal is
by NAME (a name among the keywords of `Node.__init__`, which happen to include `self`, `args`, `kwargs`).
`HasIO.set_input_values` then binds positional values to the inputs in order and keyword values by name — it
knows nothing of kinds — and `Function._on_run` calls `node_function(**inputs)`: everything by keyword.

Next to it: Python's own binder for positional-only / positional-or-keyword / keyword-only parameters
(`pyBindPartialK`, one pass like `pyBindPartial`), for signatures without variadics.
Core Lean only.
-/
namespace PwVerif.Kinds
open PwVerif PwVerif.FuncWrap

inductive PKind where
  | posOnly | posOrKw | varPos | kwOnly | varKw
  deriving Repr, DecidableEq

structure KParam where
  name : String
  kind : PKind
  dflt : Option Val
  deriving Repr

def PKind.variadic : PKind → Bool
  | .varPos => true
  | .varKw => true
  | _ => false

structure KindCfg where
  /-- a variadic parameter is refused only when it is NAMED `args` / `kwargs` (pinned: `true`) -/
  variadicByName : Bool := true
  /-- positional-only parameters are handed to the function by keyword like all others (pinned: `true`) -/
  posOnlyByKeyword : Bool := true
  /-- a parameter may be NAMED like a keyword of `Node.run` (only the keywords of `Node.__init__` are refused;
  pinned: `true`) -/
  runNamesFree : Bool := true
  deriving Repr, DecidableEq

def KindCfg.pinned : KindCfg := { variadicByName := true, posOnlyByKeyword := true, runNamesFree := true }
def KindCfg.repaired : KindCfg := { variadicByName := false, posOnlyByKeyword := false, runNamesFree := false }

/-- `node(*args, **kwargs)` is `self.pull(*args, run_parent_trees_too=True, **kwargs)`, which is
`self.run(*args, run_data_tree=True, run_parent_trees_too=…, fetch_input=True, check_readiness=True,
emit_ran_signal=False, **kwargs)`: a keyword of the caller with one of these five names collides with the one
written there (`TypeError: got multiple values for keyword argument`) -/
def runFlagsClash : List String :=
  ["run_data_tree", "run_parent_trees_too", "fetch_input", "check_readiness", "emit_ran_signal"]
/-- … and the sixth keyword of `Node.run` is not written there: the caller's value is taken for the FLAG and never
reaches `set_input_values` -/
def runFlagSilent : String := "raise_run_exceptions"
def runKeywords : List String := runFlagSilent :: runFlagsClash

/-- why a parameter keeps the function from becoming a node class, if anything does -/
def KParam.refusal (cfg : KindCfg) (p : KParam) : Option DefErr :=
  if initKeywords.contains p.name then some .reservedName
  else if !cfg.runNamesFree && runKeywords.contains p.name then some .reservedName
  else if !cfg.variadicByName && p.kind.variadic then some .variadic
  else none

/-- `_build_inputs_preview` over parameters of any kind: label and default of every input, or the refusal -/
def previewKinds (cfg : KindCfg) : List KParam → Except DefErr (List (String × Val))
  | [] => .ok []
  | p :: ps =>
    match p.refusal cfg with
    | some e => .error e
    | none => (previewKinds cfg ps).map fun r => (p.name, p.dflt.getD .nd) :: r

/-- the signature as the kind-blind run-time part sees it -/
def sigOf (ps : List KParam) : Sig := ps.map fun p => { name := p.name, dflt := p.dflt }

/-- Python's `inspect.Signature.bind_partial(*args, **kw)` for a signature WITHOUT variadics: a
positional-only parameter takes a positional value and never a keyword (the keyword stays over and is
"unexpected"), a keyword-only parameter never takes a positional value -/
def pyBindPartialK : List KParam → List Val → List (String × Val) → Except PyErr (List (String × Option Val))
  | [], [], kw => if kw.isEmpty then .ok [] else .error .unexpectedKeyword
  | [], _ :: _, _ => .error .tooManyPositional
  | p :: ps, a :: as, kw =>
    match p.kind with
    | .posOnly => (pyBindPartialK ps as kw).map fun r => (p.name, some a) :: r
    | .posOrKw =>
      if hasKey kw p.name then .error .multipleValues
      else (pyBindPartialK ps as kw).map fun r => (p.name, some a) :: r
    | _ => .error .tooManyPositional
  | p :: ps, [], kw =>
    match p.kind with
    | .posOnly => (pyBindPartialK ps [] kw).map fun r => (p.name, none) :: r
    | _ => (pyBindPartialK ps [] (eraseKey kw p.name)).map fun r => (p.name, kw.lookup p.name) :: r

/-- the arguments Python hands the body for the two-stage call, kinds respected -/
def pyArgsK (ps : List KParam) (a1 : List Val) (k1 : List (String × Val)) (a2 : List Val)
    (k2 : List (String × Val)) : Except PyErr (List Val) :=
  match pyBindPartialK ps a1 k1 with
  | .error e => .error e
  | .ok b1 =>
    match pyBindPartialK ps a2 k2 with
    | .error e => .error e
    | .ok b2 =>
      match allSome (mergeBind (sigOf ps) b1 b2) with
      | none => .error .missing
      | some vs => .ok vs

/-- `node(*args, **kw)` for a function node whose definition has parameters of any non-variadic kind: the
kind-blind gate, then `node_function(**inputs)` — which Python refuses when a positional-only parameter is
among them (pinned); repaired: positional-only values are passed positionally -/
def callK (cfg : KindCfg) (F : List Val → Val) (ps : List KParam) (n : Node) (args : List Val)
    (kw0 : List (String × Val)) : Node × Outcome :=
  -- what `__call__ → pull → run` does with the caller's keywords before `set_input_values` sees them
  if kw0.any (fun q => runFlagsClash.contains q.1) then (n, .typeError) else
  let kw := kw0.filter fun q => q.1 != runFlagSilent
  match gate n args kw with
  | (n1, .error o) => (n1, o)
  | (n1, .ok vs) =>
    if cfg.posOnlyByKeyword && ps.any (fun p => p.kind == .posOnly) then (n1, .typeError)
    else if ps.any (fun p => p.kind == .varPos) && !ps.any (fun p => p.kind == .varKw) then
      (n1, .typeError)   -- `f(rest=…)`: unexpected keyword
    else finish n1 (F vs)

end PwVerif.Kinds
