import PwVerif.Model.Signal
/-!
# Two composites: a workflow `W` with a hand-wired macro child `M`, signals crossing the boundary

Transcription of what happens when signal connections do not respect scopes (`Channel.connect` never checks the
owners' parents) and when a macro with its own hand-made flow is one child of a hand-made flow:

* `W` (composite 0) runs; its loop is active until the end. `M` (composite 1) is the child `macroNode` of `W`; it is
  running exactly while its own `run()` is in progress (`Composite._on_run`: reset of its children's all-of triggers,
  its starting nodes, its own queue until empty) and then emits `ran` / `failed` like any child.
* A finishing child whose parent is running hands its signals to THAT parent's queue (`register_child_emitting`);
  a child whose parent is not running calls its receivers itself, depth-first (`Node.emit`), and an exception raised
  in there leaves its `run()` — the rest of its receivers is not served.
* `receiving(firing)` is `run()` / the all-of trigger of the receiver, wherever the receiver lives.

The machine is written once, over an abstract all-of trigger `Trig μ` (memory `μ`, what hearing an emitter does): the
instance `labelTrig` is the library's (scoped-label strings), `identTrig` the plain interpreter's (identities).
-/
namespace PwVerif.Signal
open PwVerif

/-- an all-of trigger: memory, the empty memory, hearing emitter `e` at receiver `r` ↦ (memory, fired?) -/
structure Trig (μ : Type) where
  empty : μ
  hear : Graph → Nat → μ → Sig → μ × Bool

def labelTrig : Trig (List Label) :=
  { empty := [],
    hear := fun g r rec e =>
      let (a, f) := Acc.call g.lab { conns := g.accConns r, received := rec } (some e)
      (a.received, f) }

def identTrig : Trig (List Sig) :=
  { empty := [],
    hear := fun g r seen e =>
      let seen' := e :: seen
      if (Spec.upstream g r).all (fun u => seen'.contains u) then ([], true) else (seen', false) }

structure Two where
  g : Graph
  /-- 0 = child of `W`, otherwise child of `M` -/
  owner : Nat → Nat
  macroNode : Nat
  mStarters : List Nat
  /-- the children of `M` (their all-of triggers are reset when `M` starts) -/
  mChildren : List Nat

structure S2 (σ μ : Type) where
  store : σ
  mem : Nat → μ
  q0 : List (Sig × Recv)
  q1 : List (Sig × Recv)
  running1 : Bool
  /-- `M.failed` -/
  mFailed : Bool
  /-- children whose `run()` raised into `M`'s loop during the current run of `M` -/
  errs1 : List Nat
  /-- children whose `run()` raised into `W`'s loop -/
  errs0 : List Nat
  /-- every `run()` invocation, in order -/
  fired : List Nat

variable {σ μ : Type}

def resetMem (T : Trig μ) (mem : Nat → μ) : List Nat → Nat → μ
  | [] => mem
  | i :: rest => resetMem T (updF mem i T.empty) rest

mutual
/-- `child.run()`; the `Bool` says whether an exception left it -/
def runChild (T : Trig μ) (sem : Sem σ) (w : Two) : Nat → S2 σ μ → Nat → S2 σ μ × Bool
  | 0, s, _ => (s, false)
  | n + 1, s, i =>
    let s := { s with fired := s.fired ++ [i] }
    if i = w.macroNode then runMacro T sem w n s
    else
      let (st, raised, sigs) := sem.react s.store i
      let s1 := { s with store := st }
      if w.owner i = 0 then ({ s1 with q0 := s1.q0 ++ pairs w.g sigs }, raised)
      else if s1.running1 then ({ s1 with q1 := s1.q1 ++ pairs w.g sigs }, raised)
      else
        -- parent not running: depth-first, and what is raised in there leaves this run() too
        let (s2, r2) := serveAll T sem w n s1 (pairs w.g sigs)
        (s2, raised || r2)

/-- `for c in connections: c(self)` of a child that emits by itself: stops at the first exception -/
def serveAll (T : Trig μ) (sem : Sem σ) (w : Two) : Nat → S2 σ μ → List (Sig × Recv) → S2 σ μ × Bool
  | 0, s, _ => (s, false)
  | _ + 1, s, [] => (s, false)
  | n + 1, s, (e, r) :: rest =>
    let (s1, r1) := serve T sem w n s e r
    if r1 then (s1, true) else serveAll T sem w n s1 rest

/-- `receiving(firing)` -/
def serve (T : Trig μ) (sem : Sem σ) (w : Two) : Nat → S2 σ μ → Sig → Recv → S2 σ μ × Bool
  | 0, s, _, _ => (s, false)
  | n + 1, s, e, r =>
    if r.acc then
      -- (entries only ever come from connection lists — `pairs` —, so the guard is true whenever this is reached)
      if (w.g.conns e).contains r then
        let mf := T.hear w.g r.node (s.mem r.node) e
        let s1 := { s with mem := updF s.mem r.node mf.1 }
        if mf.2 then runChild T sem w n s1 r.node else (s1, false)
      else (s, false)
    else runChild T sem w n s r.node

/-- `M.run()` as a child of the running `W` (no cache, always ready unless failed) -/
def runMacro (T : Trig μ) (sem : Sem σ) (w : Two) : Nat → S2 σ μ → S2 σ μ × Bool
  | 0, s => (s, false)
  | n + 1, s =>
    if s.mFailed || s.running1 then (s, true)                                  -- ReadinessError
    else
      let s1 := { s with running1 := true, q1 := [], errs1 := [], mem := resetMem T s.mem w.mChildren }
      let s2 := startM T sem w n s1 w.mStarters
      let s3 := drainM T sem w n s2
      let bad := !s3.errs1.isEmpty
      let s4 := { s3 with running1 := false, mFailed := bad }
      let out := if bad then sigFailed w.macroNode else sigRan w.macroNode
      ({ s4 with q0 := s4.q0 ++ pairs w.g [out] }, bad)

/-- `for node in self.starting_nodes: try node.run() except: collect` inside `M` -/
def startM (T : Trig μ) (sem : Sem σ) (w : Two) : Nat → S2 σ μ → List Nat → S2 σ μ
  | 0, s, _ => s
  | _ + 1, s, [] => s
  | n + 1, s, i :: rest =>
    let (s1, r1) := runChild T sem w n s i
    startM T sem w n (if r1 then { s1 with errs1 := s1.errs1 ++ [i] } else s1) rest

/-- `M`'s own `while signal_queue: …` -/
def drainM (T : Trig μ) (sem : Sem σ) (w : Two) : Nat → S2 σ μ → S2 σ μ
  | 0, s => s
  | n + 1, s =>
    match s.q1 with
    | [] => s
    | (e, r) :: q =>
      let (s1, r1) := serve T sem w n { s with q1 := q } e r
      drainM T sem w n (if r1 then { s1 with errs1 := s1.errs1 ++ [r.node] } else s1)
end

def startW (T : Trig μ) (sem : Sem σ) (w : Two) (fuel : Nat) : S2 σ μ → List Nat → S2 σ μ
  | s, [] => s
  | s, i :: rest =>
    let (s1, r1) := runChild T sem w fuel s i
    startW T sem w fuel (if r1 then { s1 with errs0 := s1.errs0 ++ [i] } else s1) rest

/-- `W`'s loop; `steps` deliveries, each with its own `fuel` for what it sets off -/
def drainW (T : Trig μ) (sem : Sem σ) (w : Two) (fuel : Nat) : Nat → S2 σ μ → S2 σ μ
  | 0, s => s
  | k + 1, s =>
    match s.q0 with
    | [] => s
    | (e, r) :: q =>
      let (s1, r1) := serve T sem w fuel { s with q0 := q } e r
      drainW T sem w fuel k (if r1 then { s1 with errs0 := s1.errs0 ++ [r.node] } else s1)

def S2.init (T : Trig μ) (st : σ) : S2 σ μ :=
  { store := st, mem := fun _ => T.empty, q0 := [], q1 := [], running1 := false, mFailed := false,
    errs1 := [], errs0 := [], fired := [] }

/-- `W.run()`: fresh triggers, the starting nodes, the queue -/
def runTwo (T : Trig μ) (sem : Sem σ) (w : Two) (fuel steps : Nat) (st : σ) : S2 σ μ :=
  drainW T sem w fuel steps (startW T sem w fuel (S2.init T st) w.g.starters)

end PwVerif.Signal
