/-!
# A composite cache hit and the values held by input channels — over the nested tree

`Model/CacheFetch.lean` is flat.  Here the graph is nested: a node is a function node or a composite with
children in execution order; an input channel is free, connected to an earlier sibling, or value-linked to an
input of the enclosing composite, and HOLDS a value in every case (last fetched / pushed, or assigned by hand).
A run makes every node, at every depth, fetch and compute.  The outermost composite has a cache (a snapshot of
what `_internal_cache_key` sees of the body: everything but the values held by connected and linked channels
and the outputs); when it answers from the cache nobody runs, and (a1109ce) every child is made to fetch —
`deep`: recursively into composite children, as /repo does; not `deep`: only the direct children (seeded
change C05-6).  Inner composites' own caches are the business of `Model/CacheForest.lean`; here an inner
composite simply runs when the outer one does.
-/
namespace PwVerif.CacheFetchTree

inductive In (ρ : Type) where
  | free (v : ρ)                    -- unconnected, holding `v`
  | conn (sib : Nat) (held : ρ)     -- connected to sibling `sib`, holding `held`
  | link (i : Nat) (held : ρ)       -- value-linked to input `i` of the enclosing composite, holding `held`
  deriving DecidableEq, Repr

inductive Nd (ρ : Type) where
  | leaf (label cls : Nat) (ins : List (In ρ)) (out : ρ)
  | comp (label ret : Nat) (ins : List (In ρ)) (kids : List (Nd ρ)) (out : ρ)
  deriving Repr

def In.val {ρ} : In ρ → ρ
  | .free v => v
  | .conn _ h => h
  | .link _ h => h

def Nd.label {ρ} : Nd ρ → Nat
  | .leaf l _ _ _ => l
  | .comp l _ _ _ _ => l

def Nd.out {ρ} : Nd ρ → ρ
  | .leaf _ _ _ o => o
  | .comp _ _ _ _ o => o

def envGet {ρ} (nd : ρ) (env : List (Nat × ρ)) (l : Nat) : ρ :=
  match env.lookup l with
  | none => nd
  | some v => v

/-- `Inputs.fetch()` (and the push through a value link): the channel takes what is upstream of it -/
def fetchIn {ρ} (nd : ρ) (pv : List ρ) (env : List (Nat × ρ)) : In ρ → In ρ
  | .free v => .free v
  | .conn s _ => .conn s (envGet nd env s)
  | .link i _ => .link i (pv.getD i nd)

def labOuts {ρ} (b : List (Nd ρ)) : List (Nat × ρ) := b.map (fun k => (k.label, k.out))

mutual
/-- a body runs: children in execution order; `pv` = the enclosing composite's input values, `env` = the outputs
of the children that ran already -/
def runL {ρ} (F : Nat → List ρ → ρ) (nd : ρ) (pv : List ρ) : List (Nat × ρ) → List (Nd ρ) → List (Nd ρ)
  | _, [] => []
  | env, k :: r => runN F nd pv env k :: runL F nd pv ((k.label, (runN F nd pv env k).out) :: env) r
def runN {ρ} (F : Nat → List ρ → ρ) (nd : ρ) (pv : List ρ) (env : List (Nat × ρ)) : Nd ρ → Nd ρ
  | .leaf l c ins _ => .leaf l c (ins.map (fetchIn nd pv env)) (F c ((ins.map (fetchIn nd pv env)).map In.val))
  | .comp l ret ins kids _ =>
    .comp l ret (ins.map (fetchIn nd pv env)) (runL F nd ((ins.map (fetchIn nd pv env)).map In.val) [] kids)
      (envGet nd (labOuts (runL F nd ((ins.map (fetchIn nd pv env)).map In.val) [] kids)) ret)
end

mutual
/-- the children fetch from the outputs as they stand -/
def refL {ρ} (deep : Bool) (nd : ρ) (pv : List ρ) : List (Nat × ρ) → List (Nd ρ) → List (Nd ρ)
  | _, [] => []
  | env, k :: r => refN deep nd pv env k :: refL deep nd pv ((k.label, k.out) :: env) r
def refN {ρ} (deep : Bool) (nd : ρ) (pv : List ρ) (env : List (Nat × ρ)) : Nd ρ → Nd ρ
  | .leaf l c ins o => .leaf l c (ins.map (fetchIn nd pv env)) o
  | .comp l ret ins kids o =>
    .comp l ret (ins.map (fetchIn nd pv env))
      (if deep then refL deep nd ((ins.map (fetchIn nd pv env)).map In.val) [] kids else kids) o
end

/-- what the key sees of a channel -/
def inKey {ρ} : In ρ → Sum ρ (Nat × Bool)
  | .free v => .inl v
  | .conn s _ => .inr (s, false)
  | .link i _ => .inr (i, true)

mutual
/-- two bodies have the same key -/
def SameL {ρ} : List (Nd ρ) → List (Nd ρ) → Prop
  | [], [] => True
  | a :: as, b :: bs => SameN a b ∧ SameL as bs
  | _, _ => False
def SameN {ρ} : Nd ρ → Nd ρ → Prop
  | .leaf l c i _, .leaf l' c' i' _ => l = l' ∧ c = c' ∧ i.map inKey = i'.map inKey
  | .comp l r i k _, .comp l' r' i' k' _ => l = l' ∧ r = r' ∧ i.map inKey = i'.map inKey ∧ SameL k k'
  | _, _ => False
end

mutual
/-- … decided -/
def sameLB {ρ} [DecidableEq ρ] : List (Nd ρ) → List (Nd ρ) → Bool
  | [], [] => true
  | a :: as, b :: bs => sameNB a b && sameLB as bs
  | _, _ => false
def sameNB {ρ} [DecidableEq ρ] : Nd ρ → Nd ρ → Bool
  | .leaf l c i _, .leaf l' c' i' _ => decide (l = l') && decide (c = c') && decide (i.map inKey = i'.map inKey)
  | .comp l r i k _, .comp l' r' i' k' _ =>
    decide (l = l') && decide (r = r') && decide (i.map inKey = i'.map inKey) && sameLB k k'
  | _, _ => false
end

mutual
/-- two bodies show the same outputs at every depth -/
def OutsL {ρ} : List (Nd ρ) → List (Nd ρ) → Prop
  | [], [] => True
  | a :: as, b :: bs => OutsN a b ∧ OutsL as bs
  | _, _ => False
def OutsN {ρ} : Nd ρ → Nd ρ → Prop
  | .leaf _ _ _ o, .leaf _ _ _ o' => o = o'
  | .comp _ _ _ k o, .comp _ _ _ k' o' => o = o' ∧ OutsL k k'
  | _, _ => False
end

/-! ## the outermost composite under histories -/

structure St (ρ : Type) where
  body : List (Nd ρ)
  cache : Option (List (Nd ρ))      -- the body as the last run left it (its key is what matters)

def setAt {α} (i : Nat) (f : α → α) : List α → List α
  | [] => []
  | x :: xs => match i with
    | 0 => f x :: xs
    | i + 1 => x :: setAt i f xs

def assignIn {ρ} (v : ρ) : In ρ → In ρ
  | .free _ => .free v
  | .conn s _ => .conn s v
  | .link i _ => .link i v

/-- `channel.disconnect_all()`: the channel keeps the value it holds -/
def cutIn {ρ} : In ρ → In ρ
  | .conn _ h => .free h
  | x => x

def Nd.mapIns {ρ} (f : List (In ρ) → List (In ρ)) : Nd ρ → Nd ρ
  | .leaf l c ins o => .leaf l c (f ins) o
  | .comp l r ins k o => .comp l r (f ins) k o

def Nd.mapKids {ρ} (f : List (Nd ρ) → List (Nd ρ)) : Nd ρ → Nd ρ
  | .comp l r ins k o => .comp l r ins (f k) o
  | t => t

def mapNd {ρ} (l : Nat) (f : Nd ρ → Nd ρ) (b : List (Nd ρ)) : List (Nd ρ) :=
  b.map (fun k => if k.label = l then f k else k)

/-- apply `g` to the body of the composite at `path` -/
def atPath {ρ} (g : List (Nd ρ) → List (Nd ρ)) : List Nat → List (Nd ρ) → List (Nd ρ)
  | [], b => g b
  | l :: p, b => mapNd l (Nd.mapKids (atPath g p)) b

inductive Op (ρ : Type) where
  | assign (path : List Nat) (l i : Nat) (v : ρ)     -- `child.inputs[i].value = v` at any depth, connected or not
  | disconnect (path : List Nat) (l i : Nat)         -- that channel loses its connection and keeps what it holds
  | run

def step {ρ} [DecidableEq ρ] (F : Nat → List ρ → ρ) (nd : ρ) (refetch deep useCache : Bool) (s : St ρ) :
    Op ρ → St ρ × Option (List (Nat × ρ))
  | .assign p l i v => ({ s with body := atPath (mapNd l (Nd.mapIns (setAt i (assignIn v)))) p s.body }, none)
  | .disconnect p l i => ({ s with body := atPath (mapNd l (Nd.mapIns (setAt i cutIn))) p s.body }, none)
  | .run =>
    let hit := match s.cache with
      | none => false
      | some snap => sameLB snap s.body
    if useCache && hit then
      let b := if refetch then refL deep nd [] [] s.body else s.body
      ({ s with body := b }, some (labOuts b))
    else
      let b := runL F nd [] [] s.body
      ({ body := b, cache := if useCache then some b else none }, some (labOuts b))

def runOps {ρ} [DecidableEq ρ] (F : Nat → List ρ → ρ) (nd : ρ) (rf deep uc : Bool) (s : St ρ) :
    List (Op ρ) → St ρ × List (Option (List (Nat × ρ)))
  | [] => (s, [])
  | o :: os =>
    let r := step F nd rf deep uc s o
    let rs := runOps F nd rf deep uc r.1 os
    (rs.1, r.2 :: rs.2)

end PwVerif.CacheFetchTree
