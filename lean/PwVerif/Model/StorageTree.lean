import PwVerif.Model.Storage
/-!
# Storage of a graph with nested nodes, checkpoints and recovery files (property C19)

One graph directory `g/` holds SEVERAL stores, each written by the same `StorageInterface.save` /
`PickleStorage._save` (so each with its own four file slots):

* `main`      `g/picklestorage.{pckl,cpckl}`  — `root.save()`, and every CHECKPOINT (`Node._run_finally` →
                                                `save_checkpoint` → `graph_root.save()`), written from inside a run;
* `recovery`  `g/recovery.{pckl,cpckl}`       — written by `Node._run_finally` of the root after a failed run
                                                (`self.save(filename=self.as_path() / "recovery")`);
* `childA/B`  `g/<child>/picklestorage.*`     — `child.save()` of a child of the root: its own sub-directory.

`main` and `recovery` share the directory `g/`; the sub-directories of the children live in it.  An operation on one
store is the flat model's operation (`Storage.step`) on the `view` of that store; the only coupling is the directory:
`rmdir`-if-empty of `g/` is vetoed while another store or a sub-directory is in it (`busy`), `mkdir(parents=True)` of a
child creates `g/`, and (only with `climb`, a proposed repair) the clean-up of a child walks up and removes `g/` when
removing `g/<child>/` emptied it (`climb`: the tree as it is since `d82d12e`).

Core Lean only.
-/
namespace PwVerif.Storage

/-- the four files of one store -/
structure Files where
  pckl     : FileSt
  cpckl    : FileSt
  pcklTmp  : FileSt
  cpcklTmp : FileSt
  deriving DecidableEq, Repr

def Files.none : Files := ⟨.absent, .absent, .absent, .absent⟩

def Files.isNone (f : Files) : Bool :=
  f.pckl == .absent && f.cpckl == .absent && f.pcklTmp == .absent && f.cpcklTmp == .absent

def FS.files (fs : FS) : Files := ⟨fs.pckl, fs.cpckl, fs.pcklTmp, fs.cpcklTmp⟩

def Files.toFS (f : Files) (dir : Bool) : FS := ⟨dir, f.pckl, f.cpckl, f.pcklTmp, f.cpcklTmp⟩

inductive Store | main | recovery | childA | childB
  deriving DecidableEq, Repr

structure Tree where
  gdir  : Bool          -- `g/` exists
  main  : Files
  recov : Files
  adir  : Bool          -- `g/a/` exists
  a     : Files
  bdir  : Bool          -- `g/b/` exists
  b     : Files
  deriving DecidableEq, Repr

def Tree.init : Tree := ⟨false, .none, .none, false, .none, false, .none⟩

def Tree.files (t : Tree) : Store → Files
  | .main => t.main | .recovery => t.recov | .childA => t.a | .childB => t.b

def Tree.dirOf (t : Tree) : Store → Bool
  | .main => t.gdir | .recovery => t.gdir | .childA => t.adir | .childB => t.bdir

/-- something else than the store's own files lives in the store's directory -/
def Tree.busy (t : Tree) : Store → Bool
  | .main => !t.recov.isNone || t.adir || t.bdir
  | .recovery => !t.main.isNone || t.adir || t.bdir
  | .childA => false
  | .childB => false

/-- the flat file system the storage code sees when it works on store `s` -/
def Tree.view (t : Tree) (s : Store) : FS := (t.files s).toFS (t.dirOf s)

/-- `g/` holds nothing at all -/
def Tree.gEmpty (t : Tree) : Bool := t.main.isNone && t.recov.isNone && !t.adir && !t.bdir

/-- does the op end with the directory clean-up (`finally` of save, end of delete)? -/
def Op.cleans : Op → Bool
  | .save _ _ => true
  | .delete => true
  | _ => false

def Op.isSave : Op → Bool
  | .save _ _ => true
  | _ => false

def Op.isCrash : Op → Bool
  | .crash _ _ _ => true
  | _ => false

/-- write the result of a flat operation on store `s` back.  `climb`: the clean-up of a child store that removed
`g/<child>/` goes on to `g/` (the tree as it is since `d82d12e`); without it `g/` stays, empty or not. -/
def Tree.put (climb : Bool) (t : Tree) (s : Store) (op : Op) (fs : FS) : Tree :=
  match s with
  | .main => { t with gdir := fs.dir || t.busy .main, main := fs.files }
  | .recovery => { t with gdir := fs.dir || t.busy .recovery, recov := fs.files }
  | .childA =>
    let t1 := { t with adir := fs.dir, a := fs.files, gdir := t.gdir || fs.dir }
    let removed := op.cleans && !fs.dir && (t.adir || op.isSave)
    if climb && removed && t1.gEmpty then { t1 with gdir := false } else { t1 with gdir := t1.gdir || removed }
  | .childB =>
    let t1 := { t with bdir := fs.dir, b := fs.files, gdir := t.gdir || fs.dir }
    let removed := op.cleans && !fs.dir && (t.bdir || op.isSave)
    if climb && removed && t1.gEmpty then { t1 with gdir := false } else { t1 with gdir := t1.gdir || removed }

structure TCfg where
  cfg   : Cfg
  climb : Bool
  deriving DecidableEq, Repr

/-- before `d82d12e`: the clean-up of a nested store looks at its own directory only -/
def TCfg.unclimbed : TCfg := ⟨Cfg.current, false⟩
/-- the tree as it is: the clean-up of a nested store also removes the ancestors' directories it emptied -/
def TCfg.current : TCfg := ⟨Cfg.current, true⟩

structure TWorld where
  tree : Tree
  node : NodeSt          -- the live root node
  deriving DecidableEq, Repr

def TWorld.init (cls : Cls) : TWorld := ⟨Tree.init, ⟨cls, 0⟩⟩

inductive TOp
  | on (s : Store) (op : Op)                  -- the flat op, addressed to store `s`
  | ckpt (c : Content) (v : Nat)              -- a run in which a child makes a checkpoint of the root in state `v`
  | ckptCrash (c : Content) (v k : Nat)       -- ... the process dies after `k` file-system calls of it
  | fail (c : Content) (v : Nat)              -- a run of the root (state `v`) that fails: recovery file
  | failCrash (c : Content) (v k : Nat)       -- ... the process dies after `k` file-system calls of that
  deriving DecidableEq, Repr

/-- one flat op on store `s` with node `n` -/
def apply1 (tc : TCfg) (t : Tree) (s : Store) (n : NodeSt) (op : Op) : Tree × NodeSt × Res :=
  let r := step tc.cfg ⟨t.view s, n⟩ op
  (t.put tc.climb s op r.1.fs, r.1.node, r.2)

def tstep (tc : TCfg) (w : TWorld) : TOp → TWorld × List Res
  | .on .main op =>
    let (t, n, r) := apply1 tc w.tree .main w.node op
    (⟨t, n⟩, [r])
  | .on s op =>
    -- another file name: the node involved is not the live root (a child, or a new root object for `recovery`);
    -- an interrupted save ends the process all the same
    let (t, _, r) := apply1 tc w.tree s ⟨w.node.cls, 0⟩ op
    (⟨t, if op.isCrash then ⟨w.node.cls, 0⟩ else w.node⟩, [r])
  | .ckpt c v =>
    let (t, n, r) := apply1 tc w.tree .main w.node (.save c v)
    if c.fails then
      -- the checkpoint raises out of the child's `_run_finally`: the root fails and writes its recovery file
      let (t2, _, r2) := apply1 tc t .recovery n (.save c v)
      (⟨t2, n⟩, [r, r2])
    else (⟨t, n⟩, [r])
  | .ckptCrash c v k =>
    let (t, n, r) := apply1 tc w.tree .main w.node (.crash c v k)
    (⟨t, n⟩, [r])
  | .fail c v =>
    let (t, _, r) := apply1 tc w.tree .recovery w.node (.save c v)
    (⟨t, ⟨w.node.cls, v⟩⟩, [r])
  | .failCrash c v k =>
    let (t, n, r) := apply1 tc w.tree .recovery w.node (.crash c v k)
    (⟨t, n⟩, [r])

def trun (tc : TCfg) (w : TWorld) : List TOp → TWorld
  | [] => w
  | op :: r => trun tc (tstep tc w op).1 r

/-- the flat ops a tree op performs on store `s` (for the promise bookkeeping) -/
def TOp.proj (s : Store) : TOp → List Op
  | .on s' op => if s' = s then [op] else []
  | .ckpt c v =>
    match s with
    | .main => [.save c v]
    | .recovery => if c.fails then [.save c v] else []
    | _ => []
  | .ckptCrash c v k => if s = .main then [.crash c v k] else []
  | .fail c v => if s = .recovery then [.save c v] else []
  | .failCrash c v k => if s = .recovery then [.crash c v k] else []

/-- what the history promises about store `s` -/
def promiseT (s : Store) (p : Promise) : List TOp → Promise
  | [] => p
  | op :: r => promiseT s (promise p (op.proj s)) r

/-- directories are consistent: a child directory only inside `g/`, files only inside their directory -/
def Tree.WF (t : Tree) : Prop :=
  (t.gdir = false → t.main.isNone = true ∧ t.recov.isNone = true ∧ t.adir = false ∧ t.bdir = false) ∧
  (t.adir = false → t.a.isNone = true) ∧ (t.bdir = false → t.b.isNone = true)

/-! ### Explicit file names that differ only by a dotted tail (`runs/relax`, `runs/relax.v2`), side by side in one directory

`PickleStorage` derives its files from the name it is given.  `replaceTail` is `Path.with_suffix(".pckl")`: the text
after the last dot of the last component is REPLACED, so `relax.v2`, `relax.v1` and `relax` all become `relax.pckl` --
one store (the code before `84ba7a5`).  `append` is `<name> + ".pckl"` (`PickleStorage._with_suffix`, the tree as it
is): every name its own store.  The primary name is the one the live graph is
saved under; the neighbour is used by other objects.  Physically the files of key `relax.v2.*` are the `main` columns,
those of key `relax.*` the `recovery` columns of the `Tree`. -/

inductive Name | primary | neighbour
  deriving DecidableEq, Repr

inductive NameMode | replaceTail | append
  deriving DecidableEq, Repr

def resolve : NameMode → Name → Store
  | .append, .primary => .main
  | .append, .neighbour => .recovery
  | .replaceTail, _ => .recovery

/-- one flat op under one of the two names -/
def nstep (tc : TCfg) (m : NameMode) (w : TWorld) (name : Name) (op : Op) : TWorld × Res :=
  match name with
  | .primary =>
    let r := apply1 tc w.tree (resolve m .primary) w.node op
    (⟨r.1, r.2.1⟩, r.2.2)
  | .neighbour =>
    let r := apply1 tc w.tree (resolve m .neighbour) ⟨w.node.cls, 0⟩ op
    (⟨r.1, if op.isCrash then ⟨w.node.cls, 0⟩ else w.node⟩, r.2.2)

def nrun (tc : TCfg) (m : NameMode) (w : TWorld) : List (Name × Op) → TWorld
  | [] => w
  | (n, op) :: r => nrun tc m (nstep tc m w n op).1 r

/-- the promise of one NAME: the ops given under that name -/
def promiseN (n : Name) (p : Promise) : List (Name × Op) → Promise
  | [] => p
  | (n', op) :: r => promiseN n (if n' = n then p.step op else p) r

/-- with `append` an op under a name is the tree op on that name's own store -/
def nameOp (x : Name × Op) : TOp := .on (resolve .append x.1) x.2

/-- which stores a tree op writes to -/
def TOp.touches : TOp → Store → Bool
  | .on s' _, s => s' == s
  | .ckpt c _, s => s == .main || (s == .recovery && c.fails)
  | .ckptCrash _ _ _, s => s == .main
  | .fail _ _, s => s == .recovery
  | .failCrash _ _ _, s => s == .recovery

/-! ### The storage interface seen from `StorageInterface.delete`: any back end, through its hooks -/

/-- a back end as far as `StorageInterface.delete` is concerned: the two hooks that guard `_delete`, `_delete` itself,
and the ground truth "none of this back end's files exists for the graph" -/
structure Backend (σ : Type) where
  hasContent   : σ → Bool      -- `_has_saved_content`
  hasLeftovers : σ → Bool      -- `_has_leftovers` (`StorageInterface` default: always `False`)
  del          : σ → σ         -- `_delete`
  clean        : σ → Bool      -- nothing of this back end is on disk

/-- `StorageInterface.delete`, up to the directory clean-up -/
def Backend.delete {σ} (b : Backend σ) (st : σ) : σ :=
  if b.hasContent st || b.hasLeftovers st then b.del st else st

/-- the hooks tell the truth in state `st`: when something of the back end is on disk, one of them says so -/
def Backend.truthfulAt {σ} (b : Backend σ) (st : σ) : Prop :=
  b.clean st = false → (b.hasContent st || b.hasLeftovers st) = true

/-- `_delete` removes everything the back end ever writes -/
def Backend.delComplete {σ} (b : Backend σ) : Prop := ∀ st, b.clean (b.del st) = true

/-- `PickleStorage` as such a back end (`leftoverHook = false`: a subclass that keeps the interface's default
`_has_leftovers`) -/
def pickleBackend (leftoverHook : Bool) : Backend FS where
  hasContent := hasSaved
  hasLeftovers := fun fs => leftoverHook && hasLeftover fs
  del := fun fs => runSteps fs (deleteSteps .atomicReplace)
  clean := FS.noFiles

end PwVerif.Storage
