import PwVerif.Model.Conn
import PwVerif.Model.Tree
import PwVerif.Model.WfIO
/-!
# Graph edits (transcription of `Composite.replace_child`, `Workflow.replace_child`,
`HasIO.copy_io` / `_copy_connections` / `_copy_values` / `_copy_panel`, the `value_receiver`
and `value` setters of `DataChannel`, `Composite.set_run_signals_to_dag_execution` and
`topology._set_new_run_connections_with_fallback_recovery`)

The world is a product of

* `t : Tree.Tree`   ownership (labels, parent pointers, ordered children, starting nodes) — the
  carrier and the primitives `removeCore0`, `popVal`, `ancWalk` of C13's model;
* `g : Conn.G`      the ordered mutual connection lists of C12's model with its primitives
  `connect1` / `disconnect1` / `connect` / `disconnectChans`;
* `val`, `recv`     data values (`none` = `NOT_DATA`) and `value_receiver` links;
* static tables: the channels of every node in panel order, channel labels, the verdicts of the
  hint machinery (`g.valid` for connections, `admits` for values, `linkOk` for value links —
  parameters: their content is C04's subject and *any* assignment is a fault pattern), the
  `inputs_map`/`outputs_map` of workflows (keys as in C15's model).

Every operation returns the world **as the code leaves it** together with the exception class,
obtained by replaying the code's own partial effects and undo logs; nothing is all-or-nothing by
construction.  `Cfg` has one switch per proposed repair (`fixes/C14-*.patch`); all `false` is
the tree as it is now.
-/
namespace PwVerif.Edit
open PwVerif PwVerif.Conn

/-- the exception class an edit ends with (`ok` = returned normally) -/
inductive Err
  | ok
  | valueError        -- not the owner / replacement owned or connected / value-link hint refused
  | connCopy          -- ConnectionCopyError
  | valueCopy         -- ValueCopyError
  | attrError         -- the replacement lacks a value-linked channel
  | typeError         -- value refused by a hint / workflow IO cannot be built / not adoptable
  | cyclicPath        -- CyclicPathError
  | parentMost        -- ParentMostError
  | circular          -- CircularDataFlowError
  | keyError          -- data upstream outside the composite
  | connErr           -- ChannelConnectionError while wiring
  | recursion         -- walk bound exhausted
  | badObs            -- the observed nondeterminism fed to the model is inconsistent
  deriving DecidableEq, Repr, Inhabited

structure Cfg where
  /-- `_copy_connections` logs a pair only if it was not connected before (D5) -/
  onlyNewUndo : Bool
  /-- `_copy_values` also reverts the inputs panel when the outputs panel fails hard (D6) -/
  valuesAtomic : Bool
  /-- `replace_child` refuses up front the replacement that `add_child` would refuse after the
  swap (`fixes/C13-replace-child-precheck.patch`, F7 of C13's model) (D3) -/
  adoptPrecheck : Bool
  /-- `replace_child` computes the value links and validates their hints before `copy_io`; the
  links are then forged without a second check and the value push is soft like the value copy
  (D2, D4) -/
  linkPrecheck : Bool
  /-- after `copy_io` the replacement is seated exactly where the replaced node sits in every
  connection list (D1) -/
  positional : Bool
  /-- the fallback recovery of the flow derivation restores the saved connection lists
  instead of re-connecting the recorded pairs (D8) -/
  dagSnapshot : Bool
  /-- a workflow works out the keys of its would-be IO view before the swap and refuses a
  replacement under which two channels would share a key (D7, `fixes/C14-workflow-io-dry-run.patch`) -/
  wfDryRun : Bool
  /-- bound of the ancestor walk and of the receiver chain -/
  fuel : Nat
  deriving Repr

def Cfg.pinned (fuel : Nat := 64) : Cfg := ⟨false, false, false, false, false, false, false, fuel⟩
def Cfg.repaired (fuel : Nat := 64) : Cfg := ⟨true, true, true, true, true, true, true, fuel⟩
/-- the tree in which the findings KF-C14-1…7 were recorded: `fix: 02da358` (the ownership pre-check
of C13) is in, none of the C14 repairs -/
def Cfg.current (fuel : Nat := 64) : Cfg := ⟨false, false, true, false, false, false, false, fuel⟩
/-- the tree as it is now: the five C14 repairs of round 2 are in (a9e5065, 803bad0, 07c1304,
35d69a0, bba6c5f), the dry run of the workflow IO is not -/
def Cfg.head (fuel : Nat := 64) : Cfg := ⟨true, true, true, true, true, true, false, fuel⟩

/-- the channels of a node, per panel, in panel order -/
structure NodeIO where
  inp  : List Nat
  out  : List Nat
  sin  : List Nat
  sout : List Nat
  deriving Repr, Inhabited

structure W where
  t      : Tree.Tree
  g      : G
  io     : Nat → NodeIO
  clab   : Nat → String
  val    : Nat → Option Nat
  recv   : Nat → Option Nat
  /-- `_type_check_new_value` passes (strict ∧ hinted ⇒ `valid_value`) -/
  admits : Nat → Nat → Bool
  /-- the hint test of the `value_receiver` setter passes for sender → receiver -/
  linkOk : Nat → Nat → Bool
  /-- `data_input_locked()` of a node (it is running) -/
  locked : Nat → Bool
  imap   : Nat → Option WfIO.KeyMap
  omap   : Nat → Option WfIO.KeyMap
  /-- `_cached_inputs is not None` (C05's cache; an edit of the graph must drop it) -/
  cached : Nat → Bool

/-! ## channel tables -/

def NodeIO.all (i : NodeIO) : List Nat := i.inp ++ i.out ++ i.sin ++ i.sout

/-- `_owned_io_panels`: a workflow owns only its signal panels -/
def panels (w : W) (n : Nat) : List (List Nat) :=
  if w.t.kind n = .workflow then [(w.io n).sin, (w.io n).sout]
  else [(w.io n).inp, (w.io n).out, (w.io n).sin, (w.io n).sout]

/-- `panel[key]` (`none` = `AttributeError`) -/
def findLab (w : W) (panel : List Nat) (l : String) : Option Nat := panel.find? (fun c => w.clab c == l)

/-- the double loop of `_copy_connections` flattened: for every channel of `other`, in panel
order, this object's channel with the same label in the panel zipped with it -/
def ioPairs (w : W) (me other : Nat) : List (Option Nat × Nat) :=
  (List.zip (panels w me) (panels w other)).flatMap fun mo => mo.2.map fun oc => (findLab w mo.1 (w.clab oc), oc)

/-- `_copy_panel` of one data panel -/
def panelPairs (w : W) (mine theirs : List Nat) : List (Option Nat × Nat) :=
  theirs.map fun oc => (findLab w mine (w.clab oc), oc)

def nodeConnected (w : W) (n : Nat) : Bool := (w.io n).all.any fun c => !(w.g.conns c).isEmpty

/-! ## `_copy_connections` -/

/-- the loop over the targets of one channel of `other`; `log` is `new_connections` -/
def copyTargets (onlyNew : Bool) (g : G) (my : Option Nat) (hard : Bool) :
    List Nat → List (Nat × Nat) → G × List (Nat × Nat) × Bool
  | [], log => (g, log, false)
  | t :: ts, log =>
    match my with
    | none => if hard then (g, log, true) else copyTargets onlyNew g my hard ts log
    | some m =>
      let already : Bool := decide (t ∈ g.conns m)
      match connect1 g m t with
      | (g', .ok) => copyTargets onlyNew g' my hard ts (if onlyNew && already then log else log ++ [(m, t)])
      | (g', _) => if hard then (g', log, true) else copyTargets onlyNew g' my hard ts log

def copyPairs (onlyNew : Bool) (g : G) (hard : Bool) :
    List (Option Nat × Nat) → List (Nat × Nat) → G × List (Nat × Nat) × Bool
  | [], log => (g, log, false)
  | (my, oc) :: ps, log =>
    match copyTargets onlyNew g my hard (g.conns oc) log with
    | (g', log', true) => (g', log', true)
    | (g', log', false) => copyPairs onlyNew g' hard ps log'

/-- `Channel.copy_connections(other)`: `done` is `new_connections`; on a refusal everything
recorded is disconnected and the exception re-raised -/
def copyChanAux (onlyNew : Bool) (g : G) (a : Nat) : List Nat → List Nat → G × Res
  | [], _ => (g, .ok)
  | c :: cs, done =>
    let already : Bool := decide (c ∈ g.conns a)
    match connect1 g a c with
    | (g', .ok) => copyChanAux onlyNew g' a cs (if onlyNew && already then done else done ++ [c])
    | (g', r) => (disconnect g' a done, r)

/-! ## values -/

def admitsV (w : W) (c : Nat) : Option Nat → Bool
  | none => true
  | some v => w.admits c v

/-- the `value` setter: (input of a running owner ⇒ `RuntimeError`) → type check → forward to
the receiver's setter → store; `none` = raised, and then nothing was stored anywhere -/
def setValF (w : W) : Nat → Nat → Option Nat → Option W
  | 0, _, _ => none
  | f + 1, c, v =>
    if w.g.kind c = .dataIn ∧ w.locked (w.g.owner c) = true then none
    else if admitsV w c v = false then none
    else
      match w.recv c with
      | none => some { w with val := updF w.val c v }
      | some r =>
        match setValF w f r v with
        | none => none
        | some w' => some { w' with val := updF w'.val c v }

/-- the setter with the order of its last two steps as a parameter: `storeFirst = false` is the
code (forward to the receiver, then store: a refusal anywhere down the chain leaves every channel
untouched), `storeFirst = true` stores before it forwards (then a refusal downstream leaves the
channels above it changed).  The result carries the world also when it raises (`false`). -/
def setValG (storeFirst : Bool) (w : W) : Nat → Nat → Option Nat → W × Bool
  | 0, _, _ => (w, false)
  | f + 1, c, v =>
    if w.g.kind c = .dataIn ∧ w.locked (w.g.owner c) = true then (w, false)
    else if admitsV w c v = false then (w, false)
    else
      match w.recv c with
      | none => ({ w with val := updF w.val c v }, true)
      | some r =>
        if storeFirst then setValG storeFirst { w with val := updF w.val c v } f r v
        else
          match setValG storeFirst w f r v with
          | (w', true) => ({ w' with val := updF w'.val c v }, true)
          | (_, false) => (w, false)

/-- `_copy_panel` over that setter (what is logged for unwinding is only what was assigned
successfully) followed by the unwinding of a hard failure -/
def copyPanelG (storeFirst : Bool) (fuel : Nat) :
    W → List (Option Nat × Nat) → List (Nat × Option Nat) → W × List (Nat × Option Nat) × Bool
  | w, [], log => (w, log, false)
  | w, (my, oc) :: ps, log =>
    match w.val oc with
    | none => copyPanelG storeFirst fuel w ps log
    | some v =>
      match my with
      | none => (w, log, true)
      | some m =>
        match setValG storeFirst w fuel m (some v) with
        | (w', false) => (w', log, true)
        | (w', true) => copyPanelG storeFirst fuel w' ps (log ++ [(m, w.val m)])

/-- `_copy_panel`; `log` is `old_values`; the flag says that a hard failure stopped the loop -/
def copyPanel (fuel : Nat) (hard : Bool) :
    W → List (Option Nat × Nat) → List (Nat × Option Nat) → W × List (Nat × Option Nat) × Bool
  | w, [], log => (w, log, false)
  | w, (my, oc) :: ps, log =>
    match w.val oc with
    | none => copyPanel fuel hard w ps log
    | some v =>
      match my with
      | none => if hard then (w, log, true) else copyPanel fuel hard w ps log
      | some m =>
        match setValF w fuel m (some v) with
        | none => if hard then (w, log, true) else copyPanel fuel hard w ps log
        | some w' => copyPanel fuel hard w' ps (log ++ [(m, w.val m)])

/-- `for channel, value in old_values: channel.value = value` (a raise inside ends it) -/
def revertVals (fuel : Nat) : W → List (Nat × Option Nat) → W
  | w, [] => w
  | w, (c, v) :: r =>
    match setValF w fuel c v with
    | none => w
    | some w' => revertVals fuel w' r

/-- `_copy_values`: the inputs panel, then the outputs panel; `false` = raised -/
def copyValues (cfg : Cfg) (w : W) (me other : Nat) (hard : Bool) : W × Bool :=
  match copyPanel cfg.fuel hard w (panelPairs w (w.io me).inp (w.io other).inp) [] with
  | (w1, log1, true) => (revertVals cfg.fuel w1 log1, false)
  | (w1, log1, false) =>
    match copyPanel cfg.fuel hard w1 (panelPairs w (w.io me).out (w.io other).out) [] with
    | (w2, log2, true) =>
      let w3 := revertVals cfg.fuel w2 log2
      (if cfg.valuesAtomic then revertVals cfg.fuel w3 log1 else w3, false)
    | (w2, _, false) => (w2, true)

/-! ## `copy_io` -/

def copyIo (cfg : Cfg) (w : W) (me other : Nat) (connHard valHard : Bool) : W × Err :=
  match copyPairs cfg.onlyNewUndo w.g connHard (ioPairs w me other) [] with
  | (g', log, true) => ({ w with g := undoPairs g' log }, .connCopy)
  | (g', log, false) =>
    match copyValues cfg { w with g := g' } me other valHard with
    | (w', true) => (w', .ok)
    | (w', false) => ({ w' with g := undoPairs w'.g log }, .valueCopy)

/-! ## value links -/

/-- `[(s, new.inputs[s.value_receiver.label]) for s in self.inputs if s.value_receiver in
old.inputs]`; `none` = the replacement has no such channel -/
def linksIn (w : W) (old new : Nat) : List Nat → Option (List (Nat × Nat))
  | [] => some []
  | s :: ss =>
    match w.recv s with
    | none => linksIn w old new ss
    | some r =>
      if r ∈ (w.io old).inp then
        match findLab w (w.io new).inp (w.clab r) with
        | none => none
        | some nr => (linksIn w old new ss).map ((s, nr) :: ·)
      else linksIn w old new ss

/-- `[(new.outputs[c.label], c.value_receiver) for c in old.outputs if c.value_receiver in
self.outputs]` -/
def linksOut (w : W) (p new : Nat) : List Nat → Option (List (Nat × Nat))
  | [] => some []
  | c :: cs =>
    match w.recv c with
    | none => linksOut w p new cs
    | some r =>
      if r ∈ (w.io p).out then
        match findLab w (w.io new).out (w.clab c) with
        | none => none
        | some nc => (linksOut w p new cs).map ((nc, r) :: ·)
      else linksOut w p new cs

/-- `IO` of a workflow can be built (`_build_io` for both sides, C15's transcription); keys
are `f"{node.label}__{channel.label}"` -/
def wfChans (w : W) (p : Nat) (side : NodeIO → List Nat) : WfIO.Chans :=
  (w.t.children p).flatMap fun e =>
    (side (w.io e.2)).map fun c => (String.ofList e.1 ++ "__" ++ w.clab c, c)

def wfIoOk (w : W) (p : Nat) : Bool :=
  (WfIO.buildIO (w.imap p) (fun c => !(w.g.conns c).isEmpty) (wfChans w p NodeIO.inp)).isSome &&
  (WfIO.buildIO (w.omap p) (fun c => !(w.g.conns c).isEmpty) (wfChans w p NodeIO.out)).isSome

/-- both comprehensions; a workflow evaluates `self.inputs` / `self.outputs`, i.e. builds its
IO (which may raise) and owns no value links -/
def linksOf (w : W) (p old new : Nat) : Except Err (List (Nat × Nat)) :=
  if w.t.kind p = .workflow then
    if wfIoOk w p then .ok [] else .error .typeError
  else
    match linksIn w old new (w.io p).inp with
    | none => .error .attrError
    | some li =>
      match linksOut w p new (w.io old).out with
      | none => .error .attrError
      | some lo => .ok (li ++ lo)

/-- `sending.value_receiver = receiving` for each link in turn; the hint test, then the value
push through the receiver's setter, then the link is stored -/
def forge (fuel : Nat) : W → List (Nat × Nat) → W × Err
  | w, [] => (w, .ok)
  | w, (s, r) :: ls =>
    if w.linkOk s r = false then (w, .valueError)
    else
      match setValF w fuel r (w.val s) with
      | none => (w, .typeError)
      | some w' => forge fuel { w' with recv := updF w'.recv s (some r) } ls

/-- repaired: the link was validated up front; store it and push the value softly -/
def forgeSoft (fuel : Nat) : W → List (Nat × Nat) → W
  | w, [] => w
  | w, (s, r) :: ls =>
    let w1 := { w with recv := updF w.recv s (some r) }
    forgeSoft fuel ((setValF w1 fuel r (w1.val s)).getD w1) ls

/-! ## ownership steps of the replacement (C13's carrier; the general protocol is C13's) -/

/-- what `add_child(replacement)` raises for an orphan whose label has just been freed:
`_ensure_path_is_not_cyclic` (identity walk), then the reflexive `child.parent = self`
(`ParentMostError` for a workflow; the adoption is rolled back) -/
def adoptRefusal (fuel : Nat) (t : Tree.Tree) (p c : Nat) : Err :=
  match Tree.ancWalk t c fuel p with
  | .ok => if t.kind c = .workflow then .parentMost else .ok
  | .cyclicPathError => .cyclicPath
  | _ => .recursion

def adopt (t : Tree.Tree) (p c : Nat) : Tree.Tree :=
  { t with parent := updF t.parent c (some p),
           children := updF t.children p (t.children p ++ [(t.label c, c)]) }

def swapLabels (t : Tree.Tree) (a b : Nat) : Tree.Tree :=
  { t with label := updF (updF t.label a (t.label b)) b (t.label a) }

/-! ## seating the replacement (repair of D1) -/

/-- connected channel of the replaced node ↦ its counterpart on the replacement -/
def standIns (w : W) (new old : Nat) : List (Nat × Nat) :=
  (ioPairs w new old).filterMap fun mo =>
    if (w.g.conns mo.2).isEmpty then none else mo.1.map fun nc => (mo.2, nc)

def subst (m : List (Nat × Nat)) (y : Nat) : Nat := (m.lookup y).getD y

/-- first pass of `_seat_replacement`: every neighbour (a channel some connected channel of the
replaced node lists; each once) drops the prepended copies and lists the stand-in where it lists
the replaced channel -/
def seatPass1 (w : W) (new old : Nat) (x : Nat) : List Nat :=
  let m := standIns w new old
  if x ∈ m.flatMap (fun e => w.g.conns e.1) then
    ((w.g.conns x).filter (fun y => w.g.owner y != new)).map (subst m)
  else w.g.conns x

/-- second pass: the stand-in takes over the replaced channel's own list *as the first pass left
it* (a self-connection of the replaced node has become one of the replacement), minus what
still belongs to the replaced node; the replaced channel lets go -/
def seat (w : W) (new old : Nat) : G :=
  let m := standIns w new old
  { w.g with conns := fun x =>
      match m.find? (fun e => e.2 == x) with
      | some e => (seatPass1 w new old e.1).filter (fun y => w.g.owner y != old)
      | none => if m.any (fun e => e.1 == x) then [] else seatPass1 w new old x }

/-- right after `copy_io` (repair of D1; nothing in the tree as it is) -/
def seated (cfg : Cfg) (w : W) (new old : Nat) : W :=
  if cfg.positional then { w with g := seat w new old } else w

/-! ## `Composite.replace_child` -/

/-- everything from `remove_child` on; `links` have been computed -/
def commit (cfg : Cfg) (w : W) (p old new : Nat) (links : List (Nat × Nat)) : W × Err :=
  let isStart : Bool := decide (old ∈ w.t.starting p)
  let w1 := w
  -- remove_child: pop, de-parent, disconnect, starting nodes
  let t2 := Tree.removeCore0 w1.t p old
  let g2 := disconnectChans w1.g (w.io old).all
  -- the labels are swapped
  let t3 := swapLabels t2 new old
  match adoptRefusal cfg.fuel t3 p new with
  | .ok =>
    let t4 := adopt t3 p new
    let t5 := if isStart then { t4 with starting := updF t4.starting p (t4.starting p ++ [new]) } else t4
    -- `remove_child` / `add_child` / the last two statements drop the caches
    let w5 := { w1 with t := t5, g := g2, cached := updF (updF w.cached p false) new false }
    if cfg.linkPrecheck then (forgeSoft cfg.fuel w5 links, .ok) else forge cfg.fuel w5 links
  | e => ({ w1 with t := t3, g := g2 }, e)

def linksValid (w : W) (links : List (Nat × Nat)) : Bool := links.all fun l => w.linkOk l.1 l.2

/-- the two statements of the ownership pre-check: `_ensure_path_is_not_cyclic(self,
replacement)`, then `isinstance(self, replacement.parent_type())` (`TypeError`) -/
def adoptPre (fuel : Nat) (t : Tree.Tree) (p c : Nat) : Err :=
  match adoptRefusal fuel t p c with
  | .parentMost => .typeError
  | e => e

/-- the channels of the would-be IO view of workflow `p` with `new` sitting in for `old`: the
other children in order, then the replacement under the replaced node's label -/
def dryChans (w : W) (p old new : Nat) (side : NodeIO → List Nat) : WfIO.Chans :=
  ((Tree.popVal (w.t.children p) old).flatMap fun e =>
      (side (w.io e.2)).map fun c => (String.ofList e.1 ++ "__" ++ w.clab c, c)) ++
    (side (w.io new)).map fun c => (String.ofList (w.t.label old) ++ "__" ++ w.clab c, c)

/-- … and their connectedness: a channel of the replacement counts as connected iff the equally
labelled channel of the replaced node is -/
def dryConn (w : W) (old new : Nat) (c : Nat) : Bool :=
  if w.g.owner c = new then (standIns w new old).any (fun e => e.2 == c) else !(w.g.conns c).isEmpty

/-- `Workflow._ensure_io_survives_replacement`: no two channels of the would-be view share a key -/
def dryOk (w : W) (p old new : Nat) : Bool :=
  (WfIO.buildIO (w.imap p) (dryConn w old new) (dryChans w p old new NodeIO.inp)).isSome &&
  (WfIO.buildIO (w.omap p) (dryConn w old new) (dryChans w p old new NodeIO.out)).isSome

/-- the hook right before `copy_io` -/
def dryRefuses (cfg : Cfg) (w : W) (p old new : Nat) : Bool :=
  cfg.wfDryRun && decide (w.t.kind p = .workflow) && !dryOk w p old new

def compReplace (cfg : Cfg) (w : W) (p old new : Nat) : W × Err :=
  if w.t.parent old ≠ some p then (w, .valueError)
  else if w.t.parent new ≠ none then (w, .valueError)
  else if nodeConnected w new then (w, .valueError)
  else
    match (if cfg.adoptPrecheck then adoptPre cfg.fuel w.t p new else .ok) with
    | .ok =>
      if cfg.linkPrecheck then
        match linksOf w p old new with
        | .error e => (w, e)
        | .ok links =>
          if linksValid w links = false then (w, .valueError)
          else if dryRefuses cfg w p old new then (w, .valueError)
          else
            match copyIo cfg w new old true false with
            | (w1, .ok) => commit cfg (seated cfg w1 new old) p old new links
            | r => r
      else if dryRefuses cfg w p old new then (w, .valueError)
      else
        match copyIo cfg w new old true false with
        | (w1, .ok) =>
          let w2 := seated cfg w1 new old
          match linksOf w2 p old new with
          | .error e => (w2, e)
          | .ok links => commit cfg w2 p old new links
        | r => r
    | e => (w, e)

/-- `Workflow.replace_child`: afterwards `_rebuild_data_io`; after `fix: 7f0ab07` the panels it
compares are both built from the children as they are now, so it can only fail by failing to
build them; on failure the replacement is replaced back at the composite level -/
def replace (cfg : Cfg) (w : W) (p old new : Nat) : W × Err :=
  if w.t.kind p = .workflow then
    match compReplace cfg w p old new with
    | (w1, .ok) =>
      if wfIoOk w1 p then (w1, .ok)
      else
        match compReplace cfg w1 p new old with
        | (w2, .ok) => (w2, .typeError)
        | r => r
    | r => r
  else compReplace cfg w p old new

/-! ## deriving execution flow from the data graph -/

def sigIn (w : W) (n : Nat) (l : String) : Option Nat := findLab w (w.io n).sin l
def sigOut (w : W) (n : Nat) (l : String) : Option Nat := findLab w (w.io n).sout l

/-- per node: `signals.disconnect_run()` (`run`, then `accumulate_and_run`), then
`signals.output.ran.disconnect_all()` -/
def cutChans (w : W) (nodes : List Nat) : List Nat :=
  nodes.flatMap fun n =>
    (sigIn w n "run").toList ++ (sigIn w n "accumulate_and_run").toList ++ (sigOut w n "ran").toList

/-- `disconnect_all` channel by channel, collecting the destroyed `(self, other)` pairs -/
def cutAll (g : G) : List Nat → G × List (Nat × Nat)
  | [] => (g, [])
  | c :: cs =>
    let here := (g.conns c).map fun b => (c, b)
    let r := cutAll (disconnectAll g c) cs
    (r.1, here ++ r.2)

/-- owners of the upstream connections of all data inputs, in channel / connection order -/
def depsOf (w : W) (n : Nat) : List Nat :=
  (w.io n).inp.flatMap fun c => (w.g.conns c).map w.g.owner

/-- `nodes_to_data_digraph`: the first complaint in iteration order -/
def digraphErr (w : W) (nodes : List Nat) : List Nat → Option Err
  | [] => none
  | n :: ns =>
    match (depsOf w n).find? (fun d => d ∉ nodes) with
    | some d =>
      if nodes.any (fun m => w.t.label m == w.t.label d) then some .valueError else some .keyError
    | none => if n ∈ depsOf w n then some .circular else digraphErr w nodes ns

/-- `toposort` succeeds iff repeatedly peeling the nodes without remaining dependencies
empties the graph -/
def peel (deps : Nat → List Nat) : Nat → List Nat → Bool
  | 0, rem => rem.isEmpty
  | f + 1, rem =>
    if rem.isEmpty then true
    else
      let ready := rem.filter fun n => (deps n).all fun d => d ∉ rem
      if ready.isEmpty then false else peel deps f (rem.filter fun n => n ∉ ready)

def sameMembers (a b : List Nat) : Bool := a.all (· ∈ b) && b.all (· ∈ a)

/-- `for node in nodes: node.signals.input.accumulate_and_run.connect(*upstream_rans)`;
`up n` is the observed iteration order of the *set* of upstream owners -/
def wire (w : W) (up : Nat → List Nat) : G → List Nat → G × Res
  | g, [] => (g, .ok)
  | g, n :: ns =>
    match sigIn w n "accumulate_and_run" with
    | none => (g, .typeErr)
    | some a =>
      match connect g a ((up n).filterMap fun u => sigOut w u "ran") with
      | (g', .ok) => wire w up g' ns
      | r => r

/-- pinned recovery: `for c1, c2 in disconnected_pairs: c1.connect(c2)`; a refusal inside the
handler replaces the exception (`false`) -/
def reconnect : G → List (Nat × Nat) → G × Bool
  | g, [] => (g, true)
  | g, (a, b) :: ps =>
    match connect1 g a b with
    | (g', .ok) => reconnect g' ps
    | (g', _) => (g', false)

/-- repaired recovery: the saved lists of the cut channels and of their partners are put back -/
def restoreLists (g0 g : G) (touched : List Nat) : G :=
  { g with conns := fun x => if x ∈ touched then g0.conns x else g.conns x }

def dagRecover (cfg : Cfg) (w : W) (cuts : List Nat) (g : G) (pairs : List (Nat × Nat)) (e : Err) : W × Err :=
  if cfg.dagSnapshot then ({ w with g := restoreLists w.g g (cuts ++ cuts.flatMap w.g.conns) }, e)
  else
    match reconnect g pairs with
    | (g', true) => ({ w with g := g' }, e)
    | (g', false) => ({ w with g := g' }, .connErr)

/-- `Composite.set_run_signals_to_dag_execution`; `up` and `start` are the observed set orders -/
def dag (cfg : Cfg) (w : W) (p : Nat) (up : Nat → List Nat) (start : List Nat) : W × Err :=
  let nodes := Tree.vals (w.t.children p)
  if nodes.isEmpty then (w, .ok)
  else
    let cuts := cutChans w nodes
    let c := cutAll w.g cuts
    let deps := fun n => (depsOf w n).eraseDups
    match digraphErr w nodes nodes with
    | some e => dagRecover cfg w cuts c.1 c.2 e
    | none =>
      if peel deps nodes.length nodes = false then dagRecover cfg w cuts c.1 c.2 .circular
      else if nodes.any (fun n => !sameMembers (up n) (deps n)) then (w, .badObs)
      else
        match wire w up c.1 nodes with
        | (g2, .ok) =>
          if sameMembers start (nodes.filter fun n => (deps n).isEmpty) then
            ({ w with g := g2, t := { w.t with starting := updF w.t.starting p start } }, .ok)
          else (w, .badObs)
        | (g2, _) => dagRecover cfg w cuts g2 c.2 .connErr

/-! ## operations -/

def copyChan (cfg : Cfg) (w : W) (a b : Nat) : W × Err :=
  match copyChanAux cfg.onlyNewUndo w.g a (w.g.conns b) [] with
  | (g', .ok) => ({ w with g := g' }, .ok)
  | (g', .typeErr) => ({ w with g := g' }, .typeError)
  | (g', .connErr) => ({ w with g := g' }, .connErr)

/-- `p.replace_child("label", new)`: `self.children[owned_node]` first (`KeyError`) -/
def replaceLabel (cfg : Cfg) (w : W) (p : Nat) (l : Tree.Str) (new : Nat) : W × Err :=
  match Tree.lookupKey (w.t.children p) l with
  | none => (w, .keyError)
  | some old => replace cfg w p old new

inductive Op
  | replace (p old new : Nat)
  | replaceLabel (p : Nat) (l : Tree.Str) (new : Nat)
  | copyChan (a b : Nat)
  | copyIo (me other : Nat) (connHard valHard : Bool)
  | dag (p : Nat) (up : List (Nat × List Nat)) (start : List Nat)
  deriving Repr

def upFn (up : List (Nat × List Nat)) (n : Nat) : List Nat := (up.lookup n).getD []

def step (cfg : Cfg) (w : W) : Op → W × Err
  | .replace p o n => replace cfg w p o n
  | .replaceLabel p l n => replaceLabel cfg w p l n
  | .copyChan a b => copyChan cfg w a b
  | .copyIo me other ch vh => copyIo cfg w me other ch vh
  | .dag p up start => dag cfg w p (upFn up) start

end PwVerif.Edit
