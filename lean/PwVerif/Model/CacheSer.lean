/-!
# A result picked up from its serialized file (`Node._serialize_result`) and the input cache

One node, a function that returns (`F v` is recorded as `v`).  With `_serialize_result` the executor job itself
writes the result to a file; `Node.run` on a node that is still `running` finds the file and finishes the run
from it (`_finish_run` WITHOUT the finish kwargs of the submission, i.e. without the cache snapshot), whether
or not the future is ever delivered.  Jobs: `ssubmit` (admitted, in flight), `work` (the executor does the job:
the file is written, the future is withheld), `deliver` (the future's done-callback, with the snapshot), `run`
(picks the file up if the node is running, else an ordinary local run).
`clearAtAdmission` = an admitted run drops the input record (b54ba0f, /repo); without it (seeded change C05-12)
the record of an earlier input survives the pick-up although the outputs now belong to the picked-up input.
-/
namespace PwVerif.CacheSer

structure N where
  inp : Nat
  out : Option Nat
  running : Bool
  cached : Option Nat
  job : Option Nat        -- submitted, not yet worked: the input it was submitted with
  done : Option Nat       -- worked, future not yet delivered
  file : Option Nat       -- the result file (`_do_clean` removes it when a run finishes)
  deriving Repr, DecidableEq

def N.init : N := { inp := 1, out := none, running := false, cached := none, job := none, done := none, file := none }

inductive Op
  | set (v : Nat)
  | run
  | ssubmit
  | work
  | deliver
  deriving Repr, DecidableEq

inductive R
  | ret (o : Option Nat) | future | readiness | waiting | locked | unit
  deriving Repr, DecidableEq

def step (clearAtAdmission useCache : Bool) (n : N) : Op → N × R
  | .set v => if n.running then (n, .locked) else ({ n with inp := v }, .unit)
  | .run =>
    if n.running then
      match n.file with
      | some v => ({ n with running := false, out := some v, file := none }, .ret (some v))   -- no snapshot: nothing recorded
      | none => (n, .waiting)
    else if useCache && n.cached == some n.inp then (n, .ret n.out)
    else ({ n with out := some n.inp, cached := if useCache then some n.inp else none }, .ret (some n.inp))
  | .ssubmit =>
    if n.running then
      match n.file with
      | some v => ({ n with running := false, out := some v, file := none }, .ret (some v))
      | none => (n, .waiting)
    else if useCache && n.cached == some n.inp then (n, .ret n.out)
    else ({ n with running := true, job := some n.inp, cached := if clearAtAdmission then none else n.cached }, .future)
  | .work =>
    match n.job, n.file with
    | some v, none => ({ n with job := none, done := some v, file := some v }, .unit)
    | _, _ => (n, .unit)      -- nothing to do, or a result file of an abandoned job is in the way (the harness waits)
  | .deliver =>
    match n.done with
    | none => (n, .unit)
    | some v => ({ n with done := none, running := false, out := some v, file := none,
                          cached := if useCache then some v else none }, .unit)

def runOps (cl uc : Bool) (n : N) : List Op → N × List R
  | [] => (n, [])
  | o :: os =>
    let r := step cl uc n o
    let rs := runOps cl uc r.1 os
    (rs.1, r.2 :: rs.2)

def N.visible (n : N) : Nat × Option Nat × Bool := (n.inp, n.out, n.running)

/-- the cached twin would answer a submission from its cache now -/
def N.hits (n : N) : Bool := !n.running && n.cached == some n.inp

def noSubmitHit (cl : Bool) (a : N) : List Op → Bool
  | [] => true
  | o :: os => (o != .ssubmit || !a.hits) && noSubmitHit cl (step cl true a o).1 os

end PwVerif.CacheSer
