import PwVerif.Model.Hint
/-!
# The acceptance gate of data channels (property C04) — core Lean only

Where `pyiron_workflow.channels` decides whether the hints of a pair of data channels have to be
compared at all, as a function of

* who asks (`Via`): `out.connect(inp)`, `inp.connect(out)` (also reached by IO-panel assignment
  `node.inputs.x = other`, `set_input_values(x=other)` / constructor and call keywords,
  `copy_connections`, `copy_io` / `replace_child`), the `value_receiver` setter between two inputs
  (macro input → child input) or two outputs (child output → macro output);
* whether each side carries a hint (`Chan.hint`);
* the `strict_hints` flag of each side (`Chan.strict`).

`validConnectionFrom` transcribes `DataChannel._valid_connection(self, other)` literally
(`_both_typed`, `_figure_out_who_is_who`, then **only the input's flag**); `validReceiver`
(Model/Hint.lean) the setter (**only the partner's flag**). `gate` puts them behind one interface whose
first channel is always the *sending* one. `GateRule` / `gateR` is the family of all flag policies, used to
state which policies are sound. `Net` is a small state machine (links, later `strict_hints` toggles,
values pushed through links) for the statements about histories.
-/
namespace PwVerif.Hint

/-! ## the gate -/

/-- the ways a pair of data channels gets linked -/
inductive Via
  /-- `out.connect(inp)` -/
  | outConnects
  /-- `inp.connect(out)` -/
  | inpConnects
  /-- `a.value_receiver = b`, both inputs -/
  | recvInp
  /-- `a.value_receiver = b`, both outputs -/
  | recvOut
  deriving DecidableEq, Repr, Inhabited

def Via.all : List Via := [.outConnects, .inpConnects, .recvInp, .recvOut]

def Via.isConnection : Via → Bool
  | .outConnects => true | .inpConnects => true | _ => false

/-- `DataChannel._both_typed` -/
def bothTyped (a b : Chan) : Bool := a.hint.isSome && b.hint.isSome

/-- `DataChannel._figure_out_who_is_who(self, other)` → `(out, inp)` -/
def whoIsWho (selfIsInput : Bool) (self other : Chan) : Chan × Chan :=
  if selfIsInput then (other, self) else (self, other)

/-- `DataChannel._valid_connection(self, other)`, as `Channel.connect` calls it on the channel whose
`connect` was invoked -/
def validConnectionFrom (cfg : Cfg) (selfIsInput : Bool) (self other : Chan) : Option Bool :=
  if bothTyped self other then
    let p := whoIsWho selfIsInput self other
    if !p.2.strict then some true
    else
      match p.1.hint, p.2.hint with
      | some ho, some hi => compare cfg ho hi
      | _, _ => some true
  else some true

/-- the gate; `s` is the sending channel (output, or the channel whose `value_receiver` is set), `r` the
receiving one -/
def gate (cfg : Cfg) : Via → Chan → Chan → Option Bool
  | .outConnects, s, r => validConnectionFrom cfg false s r
  | .inpConnects, s, r => validConnectionFrom cfg true r s
  | .recvInp, s, r => validReceiver cfg s r
  | .recvOut, s, r => validReceiver cfg s r

/-! ## flag policies -/

/-- a policy: given the initiator and the `strict_hints` flags of (sender, receiver), must the two hints
be compared? -/
abbrev GateRule := Via → Bool → Bool → Bool

/-- a gate that compares the hints of a both-hinted pair exactly when the policy says so -/
def gateR (rule : GateRule) (cfg : Cfg) (via : Via) (s r : Chan) : Option Bool :=
  match s.hint, r.hint with
  | some hs, some hr => if rule via s.strict r.strict then compare cfg hs hr else some true
  | _, _ => some true

/-- the policy of the tree: the receiving side's flag, nothing else -/
def treeRule : GateRule := fun _ _ r => r
/-- "hint checking is on for the pair only if neither side has switched it off" -/
def bothRule : GateRule := fun _ s r => s && r
/-- the flag of the channel whose method was called -/
def initiatorRule : GateRule := fun via s r =>
  match via with
  | .inpConnects => r
  | _ => s

/-! ## histories: links, later toggles, values -/

structure Link where
  via : Via
  s : Nat
  r : Nat
  /-- ghost: the receiver's `strict_hints` at the moment the link was accepted -/
  strictAtAccept : Bool
  deriving DecidableEq, Repr

/-- channels by number, their current values (`none` = `NOT_DATA`), the links made so far (newest first) -/
structure Net where
  chan : Nat → Chan
  val : Nat → Option V
  links : List Link

def Net.init (chan : Nat → Chan) : Net := ⟨chan, fun _ => none, []⟩

inductive Outcome
  | ok
  /-- `ChannelConnectionError` (connect) / `ValueError` (value receiver) -/
  | refused
  /-- the comparison does not come back (`RecursionError`) -/
  | diverges
  /-- `TypeError` of the sending channel's own value check -/
  | senderRejects
  /-- `TypeError` of the receiving channel's value check -/
  | receiverRejects
  | noLink
  deriving DecidableEq, Repr

/-- `DataChannel._type_check_new_value` passes -/
def typeCheckOk (cfg : Cfg) (c : Chan) (v : V) : Bool :=
  match c.hint with
  | some h => !c.strict || admits cfg h v
  | none => true

def updN {α} (f : Nat → α) (a : Nat) (x : α) : Nat → α := fun i => if i = a then x else f i

def Net.hasLink (n : Net) (via : Via) (s r : Nat) : Bool :=
  n.links.any fun l => l.via.isConnection == via.isConnection && l.s == s && l.r == r

/-- make a link. Connections: `connect` skips a partner it is already connected to (no new comparison),
otherwise inserts when the gate says yes. Value links: after the gate the setter pushes the sender's
current value into the partner (`new_partner.value = self.value`, checked by the partner unless it is
`NOT_DATA`) and only then stores the partner; a sender has one value receiver at a time. -/
def Net.link (cfg : Cfg) (n : Net) (via : Via) (s r : Nat) : Net × Outcome :=
  if via.isConnection && n.hasLink via s r then (n, .ok)
  else
    match gate cfg via (n.chan s) (n.chan r) with
    | none => (n, .diverges)
    | some false => (n, .refused)
    | some true =>
      let l : Link := ⟨via, s, r, (n.chan r).strict⟩
      if via.isConnection then ({ n with links := l :: n.links }, .ok)
      else
        match n.val s with
        | some v =>
          if typeCheckOk cfg (n.chan r) v then
            ({ n with val := updN n.val r (some v),
                      links := l :: n.links.filter fun k => k.via.isConnection || k.s != s }, .ok)
          else (n, .receiverRejects)
        | none =>
          ({ n with val := updN n.val r none,
                    links := l :: n.links.filter fun k => k.via.isConnection || k.s != s }, .ok)

/-- `Composite.replace_child` re-forging a value link of the replaced child (current tree): the pair is
validated exactly as the `value_receiver` setter validates it (`_ensure_valid_value_receiver`), the link is
made, and the sender's current value is pushed only if the receiver takes it — a refused push is dropped
silently (like the soft value copy of `copy_io`), it no longer aborts the replacement half-way. -/
def Net.relink (cfg : Cfg) (n : Net) (via : Via) (s r : Nat) : Net × Outcome :=
  match n.link cfg via s r with
  | (_, .receiverRejects) =>
    ({ n with links := ⟨via, s, r, (n.chan r).strict⟩ ::
                n.links.filter fun k => k.via.isConnection || k.s != s }, .ok)
  | x => x

/-- `channel.strict_hints = b` (`(de)activate_strict_hints` of a channel, an IO panel, a node) -/
def Net.setStrict (n : Net) (i : Nat) (b : Bool) : Net :=
  { n with chan := updN n.chan i { n.chan i with strict := b } }

/-- a new value travels over a link: `s.value = v` and then, for a connection, `r.fetch()` (with `s` the
newest connection of `r` that holds data); for a value link the setter of `s` forwards it to `r` before
storing it. -/
def Net.push (cfg : Cfg) (n : Net) (via : Via) (s r : Nat) (v : V) : Net × Outcome :=
  if !n.hasLink via s r then (n, .noLink)
  else if !typeCheckOk cfg (n.chan s) v then (n, .senderRejects)
  else if via.isConnection then
    let n1 := { n with val := updN n.val s (some v) }
    if typeCheckOk cfg (n.chan r) v then ({ n1 with val := updN n1.val r (some v) }, .ok)
    else (n1, .receiverRejects)
  else
    if typeCheckOk cfg (n.chan r) v then
      ({ n with val := updN (updN n.val r (some v)) s (some v) }, .ok)
    else (n, .receiverRejects)

inductive Op
  | link (via : Via) (s r : Nat)
  | relink (via : Via) (s r : Nat)
  | strict (i : Nat) (b : Bool)
  | push (via : Via) (s r : Nat) (v : V)
  /-- `channel.value = v` on a channel (checked by the channel itself) -/
  | setVal (i : Nat) (v : V)

def Net.step (cfg : Cfg) (n : Net) : Op → Net
  | .link via s r => (n.link cfg via s r).1
  | .relink via s r => (n.relink cfg via s r).1
  | .strict i b => n.setStrict i b
  | .push via s r v => (n.push cfg via s r v).1
  | .setVal i v => if typeCheckOk cfg (n.chan i) v then { n with val := updN n.val i (some v) } else n

def Net.run (cfg : Cfg) (n : Net) : List Op → Net
  | [] => n
  | op :: ops => (n.step cfg op).run cfg ops

/-- every link that a strict receiver accepted joins hints the comparison said yes to -/
def Net.AcceptedChecked (cfg : Cfg) (n : Net) : Prop :=
  ∀ l ∈ n.links, l.strictAtAccept = true →
    ∀ hs hr, (n.chan l.s).hint = some hs → (n.chan l.r).hint = some hr → compare cfg hs hr = some true

/-- every link into a receiver that is strict *now* joins hints the comparison said yes to -/
def Net.NowChecked (cfg : Cfg) (n : Net) : Prop :=
  ∀ l ∈ n.links, (n.chan l.r).strict = true →
    ∀ hs hr, (n.chan l.s).hint = some hs → (n.chan l.r).hint = some hr → compare cfg hs hr = some true

/-! ## chains of value receivers (macro input → child input → grandchild input …) -/

/-- the value receiver of channel `i`, if it has one -/
def Net.recvOf (n : Net) (i : Nat) : Option Nat :=
  (n.links.find? fun l => !l.via.isConnection && l.s == i).map (·.r)

/-- `channel.value = v` all the way down: the channel checks the value itself, hands it to its value receiver
(which does the same), and only then stores it; a `TypeError` anywhere below (`none`) leaves everything as it was -/
def Net.deliver (cfg : Cfg) (n : Net) : Nat → Nat → V → Option Net
  | 0, _, _ => none
  | fuel + 1, i, v =>
    if !typeCheckOk cfg (n.chan i) v then none
    else
      match n.recvOf i with
      | none => some { n with val := updN n.val i (some v) }
      | some j =>
        match n.deliver cfg fuel j v with
        | none => none
        | some n' => some { n' with val := updN n'.val i (some v) }

/-- like `push`, but the value travels on through the value receivers of the receiving (and of the sending) channel -/
def Net.pushDeep (cfg : Cfg) (n : Net) (via : Via) (s r : Nat) (v : V) : Net × Outcome :=
  let fuel := n.links.length + 1
  if !n.hasLink via s r then (n, .noLink)
  else if via.isConnection then
    match n.deliver cfg fuel s v with
    | none => (n, .senderRejects)
    | some n1 =>
      match n1.deliver cfg fuel r v with
      | none => (n1, .receiverRejects)
      | some n2 => (n2, .ok)
  else if !typeCheckOk cfg (n.chan s) v then (n, .senderRejects)
  else
    match n.deliver cfg fuel s v with
    | none => (n, .receiverRejects)
    | some n2 => (n2, .ok)

/-- the channel at the END of the chain of value receivers below `i` ("where the data ends up being used") -/
def Net.consumer (n : Net) : Nat → Nat → Nat
  | 0, i => i
  | fuel + 1, i => match n.recvOf i with
    | none => i
    | some j => n.consumer fuel j

/-- a gate that holds a connection to the hint and flag of the END of the receiver's chain instead of the
receiver's own (NOT what the tree does) -/
def Net.gateEnd (cfg : Cfg) (n : Net) (via : Via) (s r : Nat) : Option Bool :=
  gate cfg via (n.chan s) (n.chan (n.consumer (n.links.length + 1) r))

/-- a walk along links that strict receivers accepted -/
def Net.Walk (n : Net) : Nat → List Link → Nat → Prop
  | i, [], j => i = j
  | i, l :: ls, j => l ∈ n.links ∧ l.strictAtAccept = true ∧ l.s = i ∧ n.Walk l.r ls j

end PwVerif.Hint
