import PwVerif.Model.Util
/-!
# Macros (property C09) — transcription of `pyiron_workflow/nodes/macro.py`
(`Macro._setup_node`, `_prepopulate_ui_nodes_from_graph_creator_signature`,
`_purge_single_use_ui_nodes`), of the forwarding value setter `DataChannel.value` /
`value_receiver` (`channels.py`), of `InputData.fetch`, and of the part of `Composite._on_run`
that matters for values. Core Lean only.

A macro *definition* is a nested inductive `Node`:

* `leaf f srcs`                    a term function node `F_f` (one output, `srcs.length` inputs whose
                                    own default is the constant `d = c 0`);
* `mac args body rets oh srcs`     a macro class: the parameters of the graph creator (default, hint),
                                    the children the creator makes IN CREATION ORDER, the objects it
                                    returns, the hints of the return annotation — instantiated inside its
                                    parent with the keyword arguments `srcs` (ignored at top level).

`Src` says what the creator passes for a child input: the UI node of parameter `k` (`arg k`, a
connection), an output of an earlier child (`out j o`, a connection), a plain value (`const v`, an
assignment) or nothing. `Ret` is a returned object: the UI node `k` itself or a child output.

Values are free terms, so "the same functions composed in plain Python" is syntactic equality.

The *state* of an instantiated macro is a function from paths (child indices from the macro down to
a node) to the node's four panels (`inp`, `out`, and for macros the input and output channel of the
UI node of every parameter): `sub`/`graft` take out and put back the state of one child, so no shape
invariant is needed. Connections and value links never change after construction, therefore they are
functions of the definition (`link`, `kept`, `srcVal`).

Execution order inside a run is creation order. The real order is whatever the DAG wiring and the
executor schedule give; that every such order computes the same values is C01's theorem
(`C01_value`, `C01_value_unique`) and is not re-proved here.
-/
namespace PwVerif.Macro
open PwVerif

/-! ## values -/

inductive Val
  | nd                                   -- NOT_DATA
  | c (n : Nat)                          -- constants; `c 0` is the string "d", the default of leaf inputs
  | app (f : Nat) (args : List Val)
  deriving Repr, Inhabited

mutual
def Val.decEq : (a b : Val) → Decidable (a = b)
  | .nd, .nd => isTrue rfl
  | .c n, .c m => if h : n = m then isTrue (by rw [h]) else isFalse (by intro e; cases e; exact h rfl)
  | .app f a, .app g b =>
    if h : f = g then
      match Val.decEqL a b with
      | isTrue h2 => isTrue (by rw [h, h2])
      | isFalse h2 => isFalse (by intro e; cases e; exact h2 rfl)
    else isFalse (by intro e; cases e; exact h rfl)
  | .nd, .c _ => isFalse (by intro e; cases e)
  | .nd, .app _ _ => isFalse (by intro e; cases e)
  | .c _, .nd => isFalse (by intro e; cases e)
  | .c _, .app _ _ => isFalse (by intro e; cases e)
  | .app _ _, .nd => isFalse (by intro e; cases e)
  | .app _ _, .c _ => isFalse (by intro e; cases e)
def Val.decEqL : (a b : List Val) → Decidable (a = b)
  | [], [] => isTrue rfl
  | [], _ :: _ => isFalse (by intro e; cases e)
  | _ :: _, [] => isFalse (by intro e; cases e)
  | x :: xs, y :: ys =>
    match Val.decEq x y with
    | isTrue h1 =>
      match Val.decEqL xs ys with
      | isTrue h2 => isTrue (by rw [h1, h2])
      | isFalse h2 => isFalse (by intro e; cases e; exact h2 rfl)
    | isFalse h1 => isFalse (by intro e; cases e; exact h1 rfl)
end

instance : DecidableEq Val := Val.decEq

def Val.isNd : Val → Bool
  | .nd => true
  | _ => false

/-! ## definitions -/

inductive Src
  | arg (k : Nat)
  | out (j o : Nat)
  | const (v : Val)
  | none
  deriving Repr, Inhabited, DecidableEq

inductive Ret
  | arg (k : Nat)
  | out (j o : Nat)
  deriving Repr, Inhabited, DecidableEq

/-- a creator parameter: default (`nd` = none) and hint code (0 = no hint; otherwise a chain
`1 ⊑ 2 ⊑ 3`, "as or more specific" is `≤`) -/
structure Arg where
  dflt : Val
  hint : Nat
  deriving Repr, Inhabited

inductive Node
  | leaf (f : Nat) (srcs : List Src)
  | mac (args : List Arg) (body : List Node) (rets : List Ret) (ohints : List Nat) (srcs : List Src)
  deriving Repr, Inhabited

def Node.srcs : Node → List Src
  | .leaf _ s => s
  | .mac _ _ _ _ s => s

/-- number of input channels -/
def Node.arity : Node → Nat
  | .leaf _ s => s.length
  | .mac a _ _ _ _ => a.length

/-- number of output channels -/
def Node.nout : Node → Nat
  | .leaf _ _ => 1
  | .mac _ _ r _ _ => r.length

/-- the class default of input `i` -/
def Node.dflt : Node → Nat → Val
  | .leaf _ _, _ => .c 0
  | .mac a _ _ _ _, i => (a.getD i ⟨.nd, 0⟩).dflt

def Node.ihint : Node → Nat → Nat
  | .leaf _ _, _ => 0
  | .mac a _ _ _ _, i => (a.getD i ⟨.nd, 0⟩).hint

def Node.ohint : Node → Nat → Nat
  | .leaf _ _, _ => 0
  | .mac _ _ _ oh _, o => oh.getD o 0

/-! ## value links: `_purge_single_use_ui_nodes` -/

/-- input indices `i ≥ i0` of a child whose keyword argument is the UI node `k` -/
def srcIdx (k : Nat) : List Src → Nat → List Nat
  | [], _ => []
  | s :: ss, i => if s = .arg k then i :: srcIdx k ss (i + 1) else srcIdx k ss (i + 1)

/-- `ui_k.outputs.user_input.connections` as (child, input) pairs, children counted from `j` -/
def usesOf (k : Nat) : List Node → Nat → List (Nat × Nat)
  | [], _ => []
  | n :: ns, j => (srcIdx k n.srcs 0).map (fun i => (j, i)) ++ usesOf k ns (j + 1)

/-- `ui_k.channel.value_receiver is not None`: the creator returned the UI node itself -/
def fwd (k : Nat) (rets : List Ret) : Bool := rets.any (fun r => r = .arg k)

inductive Link
  | ui                      -- the UI node stays; macro input → its `user_input`
  | child (j i : Nat)       -- UI node removed; macro input → input `i` of child `j`
  | gone                    -- UI node removed, nothing used it: the link still points at the orphan
  deriving Repr, DecidableEq

def link (body : List Node) (rets : List Ret) (k : Nat) : Link :=
  let u := usesOf k body 0
  if fwd k rets || decide (2 ≤ u.length) then .ui
  else match u with
    | [(j, i)] => .child j i
    | _ => .gone

def kept (body : List Node) (rets : List Ret) (k : Nat) : Bool :=
  match link body rets k with
  | .ui => true
  | _ => false

/-! ## states -/

abbrev Path := List Nat

inductive Pan | inp | out | uiIn | uiOut
  deriving DecidableEq, Repr

/-- a structure (not a bare function) so that the compiled model builds each state once instead of
re-running the update at every read -/
structure St where
  fn : Path → Pan → Nat → Val

namespace St
def get (σ : St) (p : Pan) (k : Nat) : Val := σ.fn [] p k

def set (σ : St) (p : Pan) (k : Nat) (v : Val) : St :=
  ⟨fun q p' k' => if q = [] ∧ p' = p ∧ k' = k then v else σ.fn q p' k'⟩

/-- the state of child `j` -/
def sub (σ : St) (j : Nat) : St := ⟨fun q => σ.fn (j :: q)⟩

/-- replace the state of child `j` -/
def graft (σ : St) (j : Nat) (τ : St) : St :=
  ⟨fun q => match q with
    | [] => σ.fn []
    | j' :: r => if j' = j then τ.fn r else σ.fn (j' :: r)⟩

def atPath (σ : St) : Path → St
  | [] => σ
  | j :: p => (σ.sub j).atPath p
end St

/-! ## the forwarding setter `InputData.value = v` -/

mutual
/-- assign `v` to input `k` of an instance of `n`: stored, and pushed along the value link -/
def setIn : Node → St → Nat → Val → St
  | .leaf _ _, σ, k, v => σ.set .inp k v
  | .mac _ body rets _ _, σ, k, v =>
    match link body rets k with
    | .ui => (σ.set .inp k v).set .uiIn k v
    | .gone => σ.set .inp k v        -- nothing inside the macro receives (pinned: the orphaned UI node
                                     -- did, but it is no longer part of the macro; see `receiverOf`)
    | .child j i => setInKid body 0 j i v (σ.set .inp k v)
/-- `setIn` on input `i` of the `j`-th node of the list, whose first element is child `base` -/
def setInKid : List Node → Nat → Nat → Nat → Val → St → St
  | [], _, _, _, _, σ => σ
  | n :: _, base, 0, i, v, σ => σ.graft base (setIn n (σ.sub base) i v)
  | _ :: ns, base, j + 1, i, v, σ => setInKid ns (base + 1) j i v σ
end

/-! ## the setter with its refusals (`InputData.value = v`: lock check → type check → forward → store) -/

/-- `valid_value(v, hint)` on the hint chain of the model: constants `c n` with `n ≥ 1000` stand for
`int` objects, which `str | tuple` (code 1) does not admit; `NOT_DATA` is never checked -/
def admits (h : Nat) : Val → Bool
  | .c n => !(h == 1 && decide (1000 ≤ n))
  | _ => true

mutual
/-- assign `v` to input `k` of the instance of `n` at path `p`. `lk q`: the node at path `q` is marked
running, its inputs are locked. Returns the state and whether the assignment was accepted; on a refusal
the exception propagates up the chain of forwarding setters, so whoever has not stored yet never does.
`sf` (store first) is NOT the code: it is the order check → STORE → forward, kept for the witness. -/
def pushIn (sf : Bool) (lk : Path → Bool) : Path → Node → St → Nat → Val → St × Bool
  | p, .leaf _ _, σ, k, v => if lk p then (σ, false) else (σ.set .inp k v, true)
  | p, .mac args body rets _ _, σ, k, v =>
    if lk p then (σ, false)
    else if !admits (args.getD k ⟨.nd, 0⟩).hint v then (σ, false)
    else
      match link body rets k with
      | .ui => ((σ.set .inp k v).set .uiIn k v, true)     -- the UI input carries the same hint
      | .gone => (σ.set .inp k v, true)
      | .child j i =>
        let σ0 := if sf then σ.set .inp k v else σ
        let r := pushKid sf lk p body 0 j i v σ0
        if r.2 then (r.1.set .inp k v, true) else (r.1, false)
def pushKid (sf : Bool) (lk : Path → Bool) (p : Path) : List Node → Nat → Nat → Nat → Val → St → St × Bool
  | [], _, _, _, _, σ => (σ, true)
  | n :: _, base, 0, i, v, σ =>
    let r := pushIn sf lk (p ++ [base]) n (σ.sub base) i v
    (σ.graft base r.1, r.2)
  | _ :: ns, base, j + 1, i, v, σ => pushKid sf lk p ns (base + 1) j i v σ
end

/-! ## construction -/

/-- keyword arguments that are plain values: `Child(a=v)` assigns after the child is set up -/
def applyConsts (n : Node) : List Src → Nat → St → St
  | [], _, τ => τ
  | .const v :: ss, i, τ => applyConsts n ss (i + 1) (setIn n τ i v)
  | _ :: ss, i, τ => applyConsts n ss (i + 1) τ

/-- the purge loop: a single-use parameter is re-linked to its only consumer, which pushes the macro
input's current value (its default, possibly `nd`) into that consumer -/
def purgePush (body : List Node) (rets : List Ret) : Nat → Nat → St → St
  | 0, _, σ => σ
  | m + 1, k, σ =>
    let σ' := match link body rets k with
      | .child j i => setInKid body 0 j i (σ.get .inp k) σ
      | _ => σ
    purgePush body rets m (k + 1) σ'

/-- a macro before its creator ran: inputs and UI-node inputs hold the signature defaults -/
def initMac (args : List Arg) : St :=
  ⟨fun q p i =>
    match q, p with
    | [], .inp => if i < args.length then (args.getD i ⟨.nd, 0⟩).dflt else .nd
    | [], .uiIn => if i < args.length then (args.getD i ⟨.nd, 0⟩).dflt else .nd
    | _, _ => .nd⟩

mutual
/-- the state right after `Cls()` (no keyword arguments) -/
def build : Node → St
  | .leaf _ srcs => ⟨fun q p i =>
      if q = [] ∧ p = .inp ∧ i < srcs.length then .c 0 else .nd⟩
  | .mac args body rets _ _ =>
      purgePush body rets args.length 0 (buildBody body 0 (initMac args))
def buildBody : List Node → Nat → St → St
  | [], _, σ => σ
  | n :: ns, j, σ => buildBody ns (j + 1) (σ.graft j (applyConsts n n.srcs 0 (build n)))
end

/-- behaviours that differ between the pinned code and the repaired code -/
structure Cfg where
  /-- the creator may return the same channel twice (pinned: accepted, only the LAST label is linked,
  because a channel has one `value_receiver`; repaired: `ValueError` at instantiation) -/
  dupRetRefused : Bool
  /-- a parameter no child uses and that is not returned: its UI node is purged; pinned: the macro input
  stays value-linked to the removed (orphaned) node, a link that cannot be restored from storage;
  repaired: the link is dropped (`value_receiver = None`) -/
  unusedDangling : Bool
  deriving Repr, DecidableEq

def Cfg.pinned : Cfg := { dupRetRefused := false, unusedDangling := true }
def Cfg.repaired : Cfg := { dupRetRefused := true, unusedDangling := false }

/-- `macro.inputs[k].value_receiver` after construction -/
inductive Recv
  | ui                      -- the input of the parameter's UI node (a child)
  | child (j i : Nat)       -- input `i` of child `j`
  | orphan                  -- the input of a UI node that was removed from the macro
  | none
  deriving Repr, DecidableEq

def receiverOf (cfg : Cfg) (body : List Node) (rets : List Ret) (k : Nat) : Recv :=
  match link body rets k with
  | .ui => .ui
  | .child j i => .child j i
  | .gone => if cfg.unusedDangling then .orphan else .none

def hasDup : List Ret → Bool
  | [] => false
  | r :: rs => rs.contains r || hasDup rs

/-- hint test of `connect` / `value_receiver =`: both hinted and the sender not as specific -/
def hintClash (sender receiver : Nat) : Bool := sender != 0 && receiver != 0 && !(decide (sender ≤ receiver))

/-- `Channel.connect` at creator time for the keyword arguments of child `n` -/
def connClash (body : List Node) (n : Node) : List Src → Nat → Bool
  | [], _ => false
  | .out j o :: ss, i =>
    (match body[j]? with
      | some m => hintClash (m.ohint o) (n.ihint i)
      | none => false) || connClash body n ss (i + 1)
  | _ :: ss, i => connClash body n ss (i + 1)

def retClash (body : List Node) (ohints : List Nat) : List Ret → Nat → Bool
  | [], _ => false
  | .out j o :: rs, r =>
    (match body[j]? with
      | some m => hintClash (m.ohint o) (ohints.getD r 0)
      | none => false) || retClash body ohints rs (r + 1)
  | .arg _ :: rs, r => retClash body ohints rs (r + 1)

def purgeClash (args : List Arg) (body : List Node) (rets : List Ret) : Nat → Nat → Bool
  | 0, _ => false
  | m + 1, k =>
    (match link body rets k with
      | .child j i =>
        (match body[j]? with
          | some n => hintClash (args.getD k ⟨.nd, 0⟩).hint (n.ihint i)
          | none => false)
      | _ => false) || purgeClash args body rets m (k + 1)

mutual
/-- instantiating the class raises -/
def buildErr (cfg : Cfg) : Node → Bool
  | .leaf _ _ => false
  | .mac args body rets oh _ =>
    bodyErr cfg body body || retClash body oh rets 0 || (cfg.dupRetRefused && hasDup rets)
      || purgeClash args body rets args.length 0
def bodyErr (cfg : Cfg) (whole : List Node) : List Node → Bool
  | [] => false
  | n :: ns => buildErr cfg n || connClash whole n n.srcs 0 || bodyErr cfg whole ns
end

/-! ## running -/

/-- what a *connection* of a child input delivers (`none`: the input has no connection) -/
def srcVal (kp : Nat → Bool) (σ : St) : Src → Option Val
  | .arg k => if kp k then some (σ.get .uiOut k) else none
  | .out j o => some ((σ.sub j).get .out o)
  | .const _ => none
  | .none => none

/-- `child.inputs.fetch()` for child `j` (an instance of `n`): the first — here the only —
connection holding data is assigned through the forwarding setter -/
def fetchKid (kp : Nat → Bool) (n : Node) (j : Nat) : List Src → Nat → St → St
  | [], _, σ => σ
  | s :: ss, i, σ =>
    let σ' := match srcVal kp σ s with
      | some v => if v.isNd then σ else σ.graft j (setIn n (σ.sub j) i v)
      | none => σ
    fetchKid kp n j ss (i + 1) σ'

/-- the kept UI nodes run: output := input -/
def runUI (kp : Nat → Bool) : Nat → Nat → St → St
  | 0, _, σ => σ
  | m + 1, k, σ => runUI kp m (k + 1) (if kp k then σ.set .uiOut k (σ.get .uiIn k) else σ)

def retVal (σ : St) : Ret → Val
  | .arg k => σ.get .uiOut k
  | .out j o => (σ.sub j).get .out o

/-- values arriving at the macro outputs through the links made in `_setup_node`
(`node.channel.value_receiver = self.outputs[label]` in `zip` order: a later label for the same
channel replaces the earlier one) -/
def pushOuts : List Ret → Nat → St → St
  | [], _, σ => σ
  | x :: xs, r, σ => pushOuts xs (r + 1) (if xs.contains x then σ else σ.set .out r (retVal σ x))

def anyNd (f : Nat → Val) (n : Nat) : Bool := (List.range n).any (fun k => (f k).isNd)

/-- the node's own readiness gate: an input holds no data, `run()` raises `ReadinessError` before
anything happens (a refusal, not a failure: nothing is marked failed, nothing changes) -/
def refused (n : Node) (σ : St) : Bool := anyNd (σ.get .inp) n.arity

mutual
/-- `node.run()`; `none` = somebody was not ready (the model does not follow failures, C06 does) -/
def run : Node → St → Option St
  | .leaf f srcs, σ =>
    if anyNd (σ.get .inp) srcs.length then none
    else some (σ.set .out 0 (.app f ((List.range srcs.length).map (σ.get .inp))))
  | .mac args body rets _ _, σ =>
    if anyNd (σ.get .inp) args.length then none
    else if (List.range args.length).any (fun k => kept body rets k && (σ.get .uiIn k).isNd) then none
    else
      match runBody (kept body rets) body 0 (runUI (kept body rets) args.length 0 σ) with
      | none => none
      | some σ' => some (pushOuts rets 0 σ')
def runBody (kp : Nat → Bool) : List Node → Nat → St → Option St
  | [], _, σ => some σ
  | n :: ns, j, σ =>
    let σ1 := fetchKid kp n j n.srcs 0 σ
    match run n (σ1.sub j) with
    | none => none
    | some τ => runBody kp ns (j + 1) (σ1.graft j τ)
end

/-! ## the start protocol of a hand-wired flow (`Macro._configure_graph_execution`) -/

/-- how the surviving interface (UI) nodes are put upstream of the creator's starting node -/
inductive StartWiring
  | allOf     -- `n << ui_nodes`: the starting node's accumulating trigger waits for ALL UI nodes (the code)
  | anyOf     -- `ui_node >> n` for every UI node: every UI node triggers the starting node on its own
  deriving Repr, DecidableEq

/-- how often the creator's starting node — and with it the whole hand-wired chain — is triggered
in one run of the macro, given the number of surviving UI nodes -/
def startCount : StartWiring → Nat → Nat
  | _, 0 => 1                 -- no UI node: the macro runs the starting node itself
  | .allOf, _ + 1 => 1
  | .anyOf, k + 1 => k + 1

/-- the hand-wired chain entered `c` times -/
def iterBody (kp : Nat → Bool) (body : List Node) : Nat → St → Option St
  | 0, σ => some σ
  | c + 1, σ =>
    match runBody kp body 0 σ with
    | none => none
    | some σ' => iterBody kp body c σ'

def keptCount (body : List Node) (rets : List Ret) (n : Nat) : Nat :=
  ((List.range n).filter (kept body rets)).length

/-- a run of a macro whose creator wired the flow by hand: the UI nodes run first (they are the starting
nodes), then the creator's chain as often as its starting node is triggered -/
def runWired (w : StartWiring) : Node → St → Option St
  | .leaf f srcs, σ => run (.leaf f srcs) σ
  | .mac args body rets oh s, σ =>
    if anyNd (σ.get .inp) args.length then none
    else if (List.range args.length).any (fun k => kept body rets k && (σ.get .uiIn k).isNd) then none
    else
      match iterBody (kept body rets) body (startCount w (keptCount body rets args.length))
          (runUI (kept body rets) args.length 0 σ) with
      | none => none
      | some σ' => some (pushOuts rets 0 σ')

/-! ## updates below the top level -/

def nodeAt : Node → Path → Option Node
  | n, [] => some n
  | .leaf _ _, _ :: _ => none
  | .mac _ body _ _ _, j :: p =>
    match body[j]? with
    | some m => nodeAt m p
    | none => none

/-- put `τ` in place of the state of the node at `p` -/
def St.putAt (σ : St) : Path → St → St
  | [], τ => τ
  | j :: p, τ => σ.graft j ((σ.sub j).putAt p τ)

/-- `node_at_p.inputs[k].value = v` with refusals -/
def pushInAt (lk : Path → Bool) (n : Node) (σ : St) (p : Path) (k : Nat) (v : Val) : St × Bool :=
  match nodeAt n p with
  | some m =>
    let r := pushIn false lk p m (σ.atPath p) k v
    (σ.putAt p r.1, r.2)
  | none => (σ, true)

/-- apply `f` to the state of the node at `p` (no effect outside: what a set on an INPUT does) -/
def St.modAt (σ : St) : Path → (St → St) → St
  | [], f => f σ
  | j :: p, f => σ.graft j ((σ.sub j).modAt p f)

/-- `node_at_p.inputs[k].value = v` -/
def setInAt (n : Node) (σ : St) (p : Path) (k : Nat) (v : Val) : St :=
  match nodeAt n p with
  | some m => σ.modAt p (fun τ => setIn m τ k v)
  | none => σ

/-- the macro output that receives from channel `x` of a child (the LAST label linked to it) -/
def recvOf (x : Ret) : List Ret → Nat → Option Nat
  | [], _ => none
  | y :: ys, r =>
    match recvOf x ys (r + 1) with
    | some r' => some r'
    | none => if y = x then some r else none

/-- a child output (`ch = some o'` of child `j`) now holds `v`: push it to the macro output linked
to that channel, if any; returns which macro output (if any) now holds `v` -/
def pushUp (rets : List Ret) (j : Nat) (v : Val) (σ1 : St) : Option Nat → St × Option Nat
  | none => (σ1, none)
  | some o' =>
    match recvOf (.out j o') rets 0 with
    | some r => (σ1.set .out r v, some r)
    | none => (σ1, none)

/-- `node_at_p.outputs[o].value = v`: stored and pushed up the chain of output links.
Returns the new state and, if the value reached one, the output of `n` that now holds it. -/
def setOutAt : Node → St → Path → Nat → Val → St × Option Nat
  | _, σ, [], o, v => (σ.set .out o v, some o)
  | .leaf _ _, σ, _ :: _, _, _ => (σ, none)
  | .mac _ body rets _ _, σ, j :: p, o, v =>
    match body[j]? with
    | none => (σ, none)
    | some m =>
      let r := setOutAt m (σ.sub j) p o v
      pushUp rets j v (σ.graft j r.1) r.2

/-- `ui_k.inputs.user_input.value = v` of the macro at `p` (the receiving end of an input link) -/
def setUiInAt (σ : St) (p : Path) (k : Nat) (v : Val) : St :=
  σ.modAt p (fun τ => τ.set .uiIn k v)

/-- `ui_k.outputs.user_input.value = v` of the macro at path `p`: pushed to a macro output when the
UI node is returned, and further up -/
def setUiOutAt : Node → St → Path → Nat → Val → St × Option Nat
  | .leaf _ _, σ, _, _, _ => (σ, none)
  | .mac _ _ rets _ _, σ, [], k, v =>
    let σ1 := σ.set .uiOut k v
    match recvOf (.arg k) rets 0 with
    | some r => (σ1.set .out r v, some r)
    | none => (σ1, none)
  | .mac _ body rets _ _, σ, j :: p, k, v =>
    match body[j]? with
    | none => (σ, none)
    | some m =>
      let r := setUiOutAt m (σ.sub j) p k v
      pushUp rets j v (σ.graft j r.1) r.2

/-! ## replacing a child inside a macro (`replace_child` / `replace_with` / `macro.label = Class`) -/

/-- child `j` of the list, a term node, becomes the term node `g` with the same keyword arguments: the
replacement copies the replaced node's connections and values (`copy_io`), takes its label and its
places, and every value link of the macro that pointed at the replaced node's channel is re-pointed at
the replacement's channel OF THE SAME POSITION — so the state of channel values is unchanged and the
links (a function of the keyword arguments) are those of before -/
def setF : List Node → Nat → Nat → List Node
  | [], _, _ => []
  | .leaf _ s :: ns, 0, g => .leaf g s :: ns
  | n :: ns, 0, _ => n :: ns
  | n :: ns, j + 1, g => n :: setF ns j g

mutual
/-- the definition after replacing child `j` of the macro at path `p` -/
def replaceAt : Node → Path → Nat → Nat → Node
  | .leaf f s, _, _, _ => .leaf f s
  | .mac a body r oh s, [], j, g => .mac a (setF body j g) r oh s
  | .mac a body r oh s, i :: p, j, g => .mac a (replaceAtL body i p j g) r oh s
def replaceAtL : List Node → Nat → Path → Nat → Nat → List Node
  | [], _, _, _, _ => []
  | n :: ns, 0, p, j, g => replaceAt n p j g :: ns
  | n :: ns, i + 1, p, j, g => n :: replaceAtL ns i p j g
end

/-- NOT the code: the value links handed over by matching the receiver's LABEL (= input position of a term
node) instead of its identity — every single-use parameter whose consumer input has the same label as an
input of the replaced child `j` is re-pointed at the replacement, the sibling it fed is left without -/
def stealByLabel (body : List Node) (rets : List Ret) (j : Nat) (nargs : Nat) : List Node :=
  let stolen : List (Nat × Nat) := (List.range nargs).filterMap fun k =>
    match link body rets k with
    | .child j' i => if j' ≠ j then some (k, i) else none
    | _ => none
  (List.range body.length).zip body |>.map fun (t, n) =>
    match n with
    | .leaf f srcs =>
      .leaf f ((List.range srcs.length).zip srcs |>.map fun (i, sx) =>
        if t = j then
          match stolen.find? (fun x => x.2 == i) with
          | some (k, _) => .arg k
          | none => sx
        else
          match sx with
          | .arg k => if stolen.any (fun x => x.1 == k) then .none else sx
          | _ => sx)
    | m => m

/-- what `replace_child` does to the channel values after re-pointing the links: the macro input of every
parameter linked to the replaced child is pushed into the replacement (`receiving.value = sending.value`),
and the replacement's output value is pushed along its output link, up the chain. In a synchronised state
both are no-ops; after a write on a receiving end (KF-C09-2) they repair the replaced child's links. -/
def replaceState (n : Node) (σ : St) (p : Path) (j : Nat) : St :=
  match nodeAt n p with
  | some (.mac args body rets _ _) =>
    let μ := σ.atPath p
    let σ1 := (List.range args.length).foldl (fun acc k =>
        match link body rets k with
        | .child j' i =>
          if j' = j then acc.modAt (p ++ [j]) (fun τ => τ.set .inp i (μ.get .inp k)) else acc
        | _ => acc) σ
    (setOutAt n σ1 (p ++ [j]) 0 ((σ1.atPath (p ++ [j])).get .out 0)).1
  | _ => σ

/-! ## plain composition (denotational semantics) -/

/-- the value the creator's keyword argument stands for, given the macro's argument values and the
outputs of the children made so far -/
def resolve (n : Node) (inp : Nat → Val) (acc : Nat → Nat → Val) (i : Nat) : Val :=
  match n.srcs[i]? with
  | some (.arg k) => inp k
  | some (.out j o) => acc j o
  | some (.const v) => v
  | _ => n.dflt i

/-- tabulate the first `n` values of `f` once (the executable model must not recompute a child's
outputs at every use); extensionally `f` below `n` and `nd` above -/
def memo (n : Nat) (f : Nat → Val) : Nat → Val :=
  let l := (List.range n).map f
  fun o => l.getD o .nd

mutual
/-- what the definition computes from its input values, as a term -/
def denote : Node → (Nat → Val) → Nat → Val
  | .leaf f srcs, inp => fun o => if o = 0 then .app f ((List.range srcs.length).map inp) else .nd
  | .mac _ body rets _ _, inp =>
    let outs := denoteBody body 0 inp (fun _ _ => .nd)
    fun r => match rets[r]? with
      | some (.arg k) => inp k
      | some (.out j o) => outs j o
      | none => .nd
def denoteBody : List Node → Nat → (Nat → Val) → (Nat → Nat → Val) → Nat → Nat → Val
  | [], _, _, acc => acc
  | n :: ns, j, inp, acc =>
    let m := memo n.nout (denote n (resolve n inp acc))
    denoteBody ns (j + 1) inp (fun j' => if j' = j then m else acc j')
end

/-! ## inlining: the body built directly in a workflow -/

inductive FSrc
  | const (v : Val)
  | node (i : Nat)
  deriving Repr, Inhabited, DecidableEq

structure FNode where
  f : Nat
  args : List FSrc
  deriving Repr, Inhabited

def FSrc.eval (env : Nat → Val) : FSrc → Val
  | .const v => v
  | .node i => env i

/-- run the flat graph in list order, node `i` writing `env i` -/
def evalFlat : List FNode → Nat → (Nat → Val) → Nat → Val
  | [], _, env => env
  | n :: ns, i, env => evalFlat ns (i + 1) (updF env i (.app n.f (n.args.map (FSrc.eval env))))

def fresolve (n : Node) (inp : Nat → FSrc) (acc : Nat → Nat → FSrc) (i : Nat) : FSrc :=
  match n.srcs[i]? with
  | some (.arg k) => inp k
  | some (.out j o) => acc j o
  | some (.const v) => .const v
  | _ => .const (n.dflt i)

mutual
/-- the leaves of `n` in execution order, macro boundaries dissolved; `inp` says where the inputs of
`n` come from, `base` is the number of flat nodes made before. Returns the new flat nodes and where
the outputs of `n` are found. -/
def flat : Node → (Nat → FSrc) → Nat → List FNode × (Nat → FSrc)
  | .leaf f srcs, inp, base =>
    ([⟨f, (List.range srcs.length).map inp⟩], fun o => if o = 0 then .node base else .const .nd)
  | .mac _ body rets _ _, inp, base =>
    let r := flatBody body 0 inp base (fun _ _ => .const .nd)
    (r.1, fun k => match rets[k]? with
      | some (.arg a) => inp a
      | some (.out j o) => r.2 j o
      | none => .const .nd)
def flatBody : List Node → Nat → (Nat → FSrc) → Nat → (Nat → Nat → FSrc) → List FNode × (Nat → Nat → FSrc)
  | [], _, _, _, acc => ([], acc)
  | n :: ns, j, inp, base, acc =>
    let r1 := flat n (fresolve n inp acc) base
    let r2 := flatBody ns (j + 1) inp (base + r1.1.length) (fun j' => if j' = j then r1.2 else acc j')
    (r1.1 ++ r2.1, r2.2)
end

/-! ## connections of the children (for the isolation clause) -/

/-- the partner of a data connection of child `j` -/
inductive Peer
  | ui (k : Nat)            -- the UI node of parameter `k`
  | kid (j o : Nat)         -- output `o` of another child
  deriving Repr, DecidableEq

/-- data connections of the inputs of one child after construction: a purged UI node was
disconnected by `remove_child` -/
def kidConns (kp : Nat → Bool) : List Src → Nat → List (Nat × Peer)
  | [], _ => []
  | .arg k :: ss, i => (if kp k then [(i, .ui k)] else []) ++ kidConns kp ss (i + 1)
  | .out j o :: ss, i => (i, .kid j o) :: kidConns kp ss (i + 1)
  | _ :: ss, i => kidConns kp ss (i + 1)

end PwVerif.Macro
