import PwVerif.Model.CacheTree
/-!
# The whole tree of caches (C05, composite level, second model)

`Model/CacheTree.lean` keeps ONE cache, that of the outermost composite.  Here every node of the nested
tree carries its own state as in the code: a function node its output and `_cached_inputs`, a
composite its output, `_cached_inputs` and `_cached_internals` — and a run of a composite that misses
re-runs its body, where every child consults its OWN cache (`Node._before_run`: fetch the inputs, then
the hit test) and inner composites may hit while the outer one missed.

`runKid` is the run of one child on demand: it fetches the child's inputs (which runs the siblings it
is connected to first — a sibling demanded twice in one body run answers from its cache the second
time, so demand order and the scheduler's topological order leave the same state), then hit or miss.
`evalP` is the cache-free twin: plain dataflow evaluation of the stripped tree.  Both are partial
(`none` = out of fuel, i.e. cyclic wiring); all theorems are of the form "whenever both deliver, they
agree", for every fuel on either side.
-/
namespace PwVerif.CacheForest
open PwVerif.CacheTree (T Src K KCfg Sem lookup keyKids key)

inductive TC (ρ : Type) where
  | leaf (cls : Nat) (ins : List Src) (out : ρ) (cache : Option (List ρ))
  | comp (ret : Nat) (ins : List Src) (kids : List (Nat × TC ρ)) (out : ρ) (cache : Option (List ρ × K))

abbrev Kids (ρ : Type) := List (Nat × TC ρ)

mutual
def stripKids {ρ} : List (Nat × TC ρ) → List (Nat × T)
  | [] => []
  | p :: r => stripPair p :: stripKids r
def stripPair {ρ} : Nat × TC ρ → Nat × T
  | (l, t) => (l, strip t)
def strip {ρ} : TC ρ → T
  | .leaf c i _ _ => .leaf c i
  | .comp r i ks _ _ => .comp r i (stripKids ks)
end

def TC.out {ρ} : TC ρ → ρ
  | .leaf _ _ o _ => o
  | .comp _ _ _ o _ => o

def lookupC {ρ} (l : Nat) : Kids ρ → Option (TC ρ)
  | [] => none
  | (k, t) :: rest => if k = l then some t else lookupC l rest

/-- replace the (first) child labelled `l` -/
def setKid {ρ} (l : Nat) (t' : TC ρ) : Kids ρ → Kids ρ
  | [] => []
  | (k, t) :: rest => if k = l then (k, t') :: rest else (k, t) :: setKid l t' rest

/-! ## the cache-free twin -/

def mapO {α β} (f : α → Option β) : List α → Option (List β)
  | [] => some []
  | a :: as =>
    match f a with
    | none => none
    | some b =>
      match mapO f as with
      | none => none
      | some bs => some (b :: bs)

def srcP {ρ} (S : Sem ρ) (vals : List ρ) (ev : Nat → Option ρ) : Src → Option ρ
  | .val v => some (S.atom v)
  | .conn sib => ev sib
  | .link i => some (vals.getD i S.nd)
  | .multi [] => some S.nd
  | .multi (sib :: _) => ev sib

def evalP {ρ} (S : Sem ρ) : Nat → List ρ → List (Nat × T) → Nat → Option ρ
  | 0, _, _, _ => none
  | fuel + 1, vals, kids, label =>
    match lookup label kids with
    | none => some S.nd
    | some (.leaf cls ins) =>
      match mapO (srcP S vals (fun sib => evalP S fuel vals kids sib)) ins with
      | none => none
      | some vs => some (S.F cls vs)
    | some (.comp ret ins kids') =>
      match mapO (srcP S vals (fun sib => evalP S fuel vals kids sib)) ins with
      | none => none
      | some vs => evalP S fuel vs kids' ret

/-! ## the tree with its caches -/

/-- fetch the inputs of a child, running (`rk`) the siblings it is connected to -/
def fetchIns {ρ} (S : Sem ρ) (vals : List ρ) (rk : Kids ρ → Nat → Option (Kids ρ × ρ)) :
    Kids ρ → List Src → Option (Kids ρ × List ρ)
  | kids, [] => some (kids, [])
  | kids, .val v :: r =>
    match fetchIns S vals rk kids r with
    | none => none
    | some (k, vs) => some (k, S.atom v :: vs)
  | kids, .link i :: r =>
    match fetchIns S vals rk kids r with
    | none => none
    | some (k, vs) => some (k, vals.getD i S.nd :: vs)
  | kids, .conn sib :: r =>
    match rk kids sib with
    | none => none
    | some (k1, o) =>
      match fetchIns S vals rk k1 r with
      | none => none
      | some (k2, vs) => some (k2, o :: vs)
  | kids, .multi [] :: r =>
    match fetchIns S vals rk kids r with
    | none => none
    | some (k, vs) => some (k, S.nd :: vs)
  | kids, .multi (sib :: _) :: r =>
    match rk kids sib with
    | none => none
    | some (k1, o) =>
      match fetchIns S vals rk k1 r with
      | none => none
      | some (k2, vs) => some (k2, o :: vs)

/-- run every child in the list (a composite's body; the order does not matter, see above) -/
def runAllL {ρ} (rk : Kids ρ → Nat → Option (Kids ρ × ρ)) : Kids ρ → List Nat → Option (Kids ρ)
  | kids, [] => some kids
  | kids, l :: ls =>
    match rk kids l with
    | none => none
    | some (k1, _) => runAllL rk k1 ls

def labels {ρ} (kids : Kids ρ) : List Nat := kids.map (·.1)

def outAt {ρ} (S : Sem ρ) (l : Nat) (kids : Kids ρ) : ρ :=
  match lookupC l kids with
  | none => S.nd
  | some t => t.out

def hitC {ρ} [DecidableEq ρ] (c : KCfg) (cache : Option (List ρ × K)) (vs : List ρ) (inner : Kids ρ) : Bool :=
  match cache with
  | none => false
  | some (vs', k) => decide (vs' = vs) && K.beq k (key c (stripKids inner))

/-- the run of child `label` (everybody has `use_cache` on) -/
def runKid {ρ} [DecidableEq ρ] (S : Sem ρ) (c : KCfg) : Nat → List ρ → Kids ρ → Nat → Option (Kids ρ × ρ)
  | 0, _, _, _ => none
  | fuel + 1, vals, kids, label =>
    match lookupC label kids with
    | none => some (kids, S.nd)
    | some (.leaf cls ins out cache) =>
      match fetchIns S vals (fun k s => runKid S c fuel vals k s) kids ins with
      | none => none
      | some (k1, vs) =>
        if cache = some vs then some (setKid label (.leaf cls ins out cache) k1, out)   -- hit: nothing changes
        else some (setKid label (.leaf cls ins (S.F cls vs) (some vs)) k1, S.F cls vs)
    | some (.comp ret ins inner out cache) =>
      match fetchIns S vals (fun k s => runKid S c fuel vals k s) kids ins with
      | none => none
      | some (k1, vs) =>
        if hitC c cache vs inner then some (setKid label (.comp ret ins inner out cache) k1, out)   -- hit: nothing changes
        else
          match runAllL (fun k s => runKid S c fuel vs k s) inner (labels inner) with
          | none => none
          | some inner1 =>
            let o := outAt S ret inner1
            -- `_cached_internals` is the key as the run left it (c5dc777); the structure does not move in a run
            some (setKid label (.comp ret ins inner1 o (some (vs, key c (stripKids inner1)))) k1, o)

/-- child `l` of the composite at `path` is run by hand (it has no connected or linked input: nothing of the enclosing
composites is consulted); `deep`: the record of EVERY composite on the way down is dropped (/repo, 7aeb496), not `deep`:
only that of the composite that owns the child (seeded change C05-13) -/
def handAt {ρ} [DecidableEq ρ] (S : Sem ρ) (c : KCfg) (fuel : Nat) (deep : Bool) (l : Nat) : List Nat → Kids ρ → Option (Kids ρ)
  | [], kids => (runKid S c fuel [] kids l).map (·.1)
  | p :: ps, kids =>
    match lookupC p kids with
    | some (.comp ret ins inner out cache) =>
      match handAt S c fuel deep l ps inner with
      | none => none
      | some inner' =>
        -- the exposed child's output is value-linked to the composite's: it follows
        some (setKid p (.comp ret ins inner' (outAt S ret inner') (if deep || ps.isEmpty then none else cache)) kids)
    | _ => some kids

/-! ## the outermost composite (a workflow: no inputs of its own, every child's output is exposed) -/

structure Root (ρ : Type) where
  kids : Kids ρ
  cache : Option K

def Root.outs {ρ} (r : Root ρ) : List (Nat × ρ) := r.kids.map (fun p => (p.1, p.2.out))

def Root.hit {ρ} (c : KCfg) (r : Root ρ) : Bool :=
  match r.cache with
  | none => false
  | some k => K.beq k (key c (stripKids r.kids))

inductive Op (ρ : Type) where
  | edit (g : Kids ρ → Kids ρ)          -- a change somewhere below (see `Proofs/CacheForest.lean`: `Conservative`)
  | structural (g : Kids ρ → Kids ρ)    -- … through add_child / remove_child / replace_child of the root itself
  | run
  | handRunAt (path : List Nat) (l : Nat) (deep : Bool)   -- … at any depth; the root's record goes if `deep` or at depth 0
  | handRun (l : Nat) (clear : Bool)    -- child `l` is run by hand, outside a run of the root; `clear`: that drops the
                                        -- root's record (fixes/C05-hand-run-drops-ancestor-caches.patch; /repo: no)

def stepC {ρ} [DecidableEq ρ] (S : Sem ρ) (c : KCfg) (fuel : Nat) (r : Root ρ) : Op ρ → Option (Root ρ × Option (List (Nat × ρ)))
  | .edit g => some ({ r with kids := g r.kids }, none)
  | .structural g => some ({ kids := g r.kids, cache := none }, none)
  | .handRunAt path l deep =>
    match handAt S c fuel deep l path r.kids with
    | none => none
    | some k1 => some ({ kids := k1, cache := if deep || path.isEmpty then none else r.cache }, none)
  | .handRun l clear =>
    match runKid S c fuel [] r.kids l with
    | none => none
    | some (k1, _) => some ({ kids := k1, cache := if clear then none else r.cache }, none)
  | .run =>
    if r.hit c then some (r, some r.outs)
    else
      match runAllL (fun k s => runKid S c fuel [] k s) r.kids (labels r.kids) with
      | none => none
      | some k1 =>
        let r' : Root ρ := { kids := k1, cache := some (key c (stripKids k1)) }
        some (r', some r'.outs)

/-- the cache-free twin's answer: every child's output, where the evaluation delivers -/
def evalAllP {ρ} (S : Sem ρ) (fuel : Nat) (kids : List (Nat × T)) : List (Nat × Option ρ) :=
  kids.map (fun p => (p.1, evalP S fuel [] kids p.1))

/-! ## executable edits (what the harness applies to the live graph), all at a path of labels from the root -/

def mapKidC {ρ} (l : Nat) (f : TC ρ → TC ρ) : Kids ρ → Kids ρ
  | [] => []
  | (k, t) :: rest => if k = l then (k, f t) :: rest else (k, t) :: mapKidC l f rest

def removeKidC {ρ} (l : Nat) : Kids ρ → Kids ρ
  | [] => []
  | (k, t) :: rest => if k = l then rest else (k, t) :: removeKidC l rest

def TC.setIn {ρ} (i : Nat) (s : Src) : TC ρ → TC ρ
  | .leaf cls ins out cache => .leaf cls (PwVerif.CacheTree.setAt i s ins) out cache
  | .comp ret ins kids out cache => .comp ret (PwVerif.CacheTree.setAt i s ins) kids out cache

/-- apply `g` to the body of a composite; `clear` = the edit goes through its add/remove/replace_child, which
drops its `_cached_inputs` -/
def TC.inBody {ρ} (clear : Bool) (g : Kids ρ → Kids ρ) : TC ρ → TC ρ
  | .comp ret ins kids out cache => .comp ret ins (g kids) out (if clear then none else cache)
  | t => t

/-- the edit `g` of the body of the composite at `path` -/
def atPathC {ρ} (clear : Bool) (g : Kids ρ → Kids ρ) : List Nat → Kids ρ → Kids ρ
  | [], kids => g kids
  | l :: p, kids => mapKidC l (TC.inBody (clear && p.isEmpty) (atPathC clear g p)) kids

/-- a fresh function node: no output yet, nothing cached -/
def freshLeaf {ρ} (S : Sem ρ) (cls : Nat) (ins : List Src) : TC ρ := .leaf cls ins S.nd none

end PwVerif.CacheForest
