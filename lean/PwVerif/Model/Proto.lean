/-! Line protocol helpers for the model drivers (core Lean only). -/
namespace PwVerif.Proto

def words (line : String) : List String :=
  (line.splitOn " ").filter (· ≠ "")

def nats (ws : List String) : Option (List Nat) := ws.mapM String.toNat?

def showNats (l : List Nat) : String := "[" ++ ",".intercalate (l.map toString) ++ "]"

/-- generic driver loop: `case` resets the state and is echoed; every other line is handed to
`step`, whose output lines are printed. -/
partial def loop {σ} (h : IO.FS.Stream) (init : σ) (step : σ → List String → σ × List String)
    (s : σ) : IO Unit := do
  let line ← h.getLine
  if line.isEmpty then return ()
  let ws := words (line.trimAscii.toString)
  match ws with
  | [] => loop h init step s
  | ["case"] => do
    IO.println "case"
    loop h init step init
  | ["reset"] => do
    IO.println "reset"
    loop h init step init
  | _ => do
    let (s', out) := step s ws
    for o in out do IO.println o
    loop h init step s'

def run {σ} (init : σ) (step : σ → List String → σ × List String) : IO Unit := do
  loop (← IO.getStdin) init step init

end PwVerif.Proto
