import PwVerif.Model.Util
/-!
# Running nodes on executors (transcription of `Runnable.run/_run/_finish_run/_parse_executor`,
`Runnable.__getstate__`, `Lexical.__getstate__`, `Channel.__getstate__`, `DataChannel.__getstate__`,
`Function.process_run_result`, `Composite.process_run_result/_parse_remotely_executed_self/
_get_state_from_remote_other`, `Macro._parse_remotely_executed_self/_replace_connection`,
`For._get_state_from_remote_other`, `Node.data_input_locked`, `InputData.value/fetch`)

A graph is a tree of nodes: function nodes (leaves) and composites (macro / for-like / workflow) owning an
ordered list of children.  Object identity matters for what happens when a composite comes back from an
executor as a *copy*, so it is modelled explicitly, but locally:

* every node object carries the identity of its bundle of IO channel objects, `gen` (0 = the channels the
  node was created with; adopting the channels of a returned copy makes it `gen+1`);
* a connection end stored in a sibling is a `Ref` = (position of the sibling, the bundle it believes in,
  port); it *resolves* iff the bundle is the sibling's current one;
* `ioMine` = the channels' `owner` attribute is this object (it is the discarded copy after an adopting merge);
* value links (`value_receiver`) from a macro's input to a child's input are `Ref`s kept by the macro;
  the link from a child's output to the macro's output lives on the child's output channel (`outLinked`).

Values are free terms in prefix token form (`List Nat`), `[]` = NOT_DATA, so that equality is decidable.
-/
namespace PwVerif.Remote
open PwVerif

abbrev Val := List Nat

def nd : Val := []
def isNd (v : Val) : Bool := v.isEmpty

/-- `f(args)`: token `f+1`, the arguments, the closing token `0` -/
def app (f : Nat) (args : List Val) : Val := (f + 1) :: (args.flatten ++ [0])

/-- `fid = 0` is `standard.UserInput` (identity on its single input); `fid = 41` returns NOT_DATA for the input `c0`
(a result may legitimately be "no data", also where an earlier run delivered data) -/
def applyFn (fid : Nat) (ins : List Val) : Val :=
  if fid = 0 then ins.headD nd
  else if fid = 41 && ins.headD nd == [1001, 0] then nd   -- a function that has nothing to report for `c0`: NOT_DATA
  else app fid ins

/-- behaviours that differ between the code as pinned and the proposed repair -/
structure Cfg where
  /-- the merge keeps the local IO objects (pinned: adopts the copy's channel objects) -/
  keepIO : Bool
  /-- the merge does not import the copy's `_detached_parent_path` (pinned: imports it) -/
  dropDetached : Bool
  /-- children's executor settings survive the merge (pinned: live executors are gone) -/
  keepKidExe : Bool
  /-- every other executor-valued attribute of the node itself survives the merge as well — a for-node's
  `body_node_executor` (`For._get_state_from_remote_other`); false: the copy's stripped value overwrites it -/
  keepBodyExe : Bool := true
  deriving Repr, DecidableEq

def Cfg.pinned : Cfg := { keepIO := false, dropDetached := false, keepKidExe := false }
def Cfg.repaired : Cfg := { keepIO := true, dropDetached := true, keepKidExe := true }

/-- the `executor` attribute -/
inductive Exe
  | none
  | inst (byValue : Bool)    -- a live executor: shared memory (threads) or by value (processes, pickling)
  | instr (byValue : Bool)   -- construction instructions `(callable, args, kwargs)`
  deriving Repr, DecidableEq

def Exe.byValue : Exe → Bool
  | .inst b => b
  | .instr b => b
  | .none => false

def Exe.isSome : Exe → Bool
  | .none => false
  | _ => true

/-- `Runnable.__getstate__`: live executors are not serialised, instructions are -/
def Exe.strip : Exe → Exe
  | .inst _ => .none
  | e => e

structure Ref where
  pos : Nat
  gen : Nat
  slot : Nat
  deriving Repr, DecidableEq

/-- what a node object holds itself -/
structure Own where
  label     : Nat
  ins       : List Val           -- values of the own input channels (workflows: none)
  out       : Val                -- value of the own output channel
  running   : Bool
  failed    : Bool
  exe       : Exe
  hasParent : Bool               -- `_parent is not None`
  detached  : Bool               -- `_detached_parent_path is not None`
  gen       : Nat                -- identity of the IO channel bundle
  ioMine    : Bool               -- `channel.owner is self` for the own channels
  outLinked : Bool               -- own output channel forwards to the owning macro's output
  inRefs    : List (Option Ref)  -- per input slot: the (single) connection, to a sibling's output
  outRefs   : List Ref           -- the output channel's connections (sibling, bundle, input slot)
  /-- further executor-valued attributes of the node object (a for-node's `body_node_executor`, handed to
  every body node it builds) -/
  bodyExe   : Exe := .none
  deriving Repr, DecidableEq

inductive CK | macro | forLike | wf
  deriving Repr, DecidableEq

inductive Node
  | fn (o : Own) (fid : Nat)
  /-- `links k` = value link of own input `k` to (child position, child bundle, child input slot) -/
  | comp (o : Own) (k : CK) (links : List (Option Ref)) (kids : List Node)
  deriving Repr

def Node.own : Node → Own
  | .fn o _ => o
  | .comp o _ _ _ => o

def Node.setOwn (o' : Own) : Node → Node
  | .fn _ fid => .fn o' fid
  | .comp _ k l ks => .comp o' k l ks

def Node.isComp : Node → Bool
  | .fn _ _ => false
  | .comp _ _ _ _ => true

def Node.kind? : Node → Option CK
  | .fn _ _ => none
  | .comp _ k _ _ => some k

def Node.kids : Node → List Node
  | .fn _ _ => []
  | .comp _ _ _ ks => ks

/-- how executor settings are read -/
inductive Mode
  | ignore                    -- the specification: run everything in place
  | honour (inCopy : Bool)    -- the implementation; inside a serialised copy live executors are gone
  deriving Repr, DecidableEq

def place : Mode → Exe → Exe
  | .ignore, _ => .none
  | .honour false, e => e
  | .honour true, e => e.strip

/-- list update (no-op out of range) -/
def setNth {α} : List α → Nat → α → List α
  | [], _, _ => []
  | _ :: xs, 0, v => v :: xs
  | x :: xs, n + 1, v => x :: setNth xs n v

/-- state of a composite's run over its children (in list order = a topological order) -/
structure KS where
  pre   : List Node          -- children already processed
  oks   : List Bool          -- … and whether each ran to a successful end
  err   : Bool               -- some child raised (function failure or ReadinessError)
  out   : Option Val         -- value the out-linked child forwards to the composite's output (the
                             --   forwarding happens at once, also when that child fails later on)
  bumps : List (Nat × Nat)   -- (position, old bundle) of children whose neighbours were re-pointed

def KS.init : KS := { pre := [], oks := [], err := false, out := none, bumps := [] }

/-- does the connection end `r` reach the current output channel of the child it names? -/
def resolves (st : KS) (r : Ref) : Bool :=
  match st.pre[r.pos]? with
  | some n => n.own.gen == r.gen || (st.bumps.contains (r.pos, r.gen) && n.own.gen == r.gen + 1)
  | none => false

/-- all-of trigger: every connected upstream has run successfully (a connection end that no longer
reaches a live channel never signals) -/
def triggered (st : KS) (o : Own) : Bool :=
  o.inRefs.all fun r? => match r? with
    | none => true
    | some r => resolves st r && (st.oks[r.pos]?).getD false

/-- values forwarded through the owning macro's value links into this child (position `p`).  A value link
forwards when the macro's input is *assigned*; `mask k` says that input `k` of the macro was assigned on the
way into this run (fetched from a connection, or itself forwarded from further up) -/
def pushed (pins : List Val) (links : List (Option Ref)) (mask : List Bool) (p : Nat) (o : Own) :
    List Val → Nat → List Val
  | ins, k =>
    match links[k]?, pins[k]?, mask[k]? with
    | some (some r), some v, some true =>
      if r.pos == p && r.gen == o.gen then setNth ins r.slot v else ins
    | _, _, _ => ins

def pushAll (pins : List Val) (links : List (Option Ref)) (mask : List Bool) (p : Nat) (o : Own) :
    Nat → List Val → List Val
  | 0, ins => ins
  | k + 1, ins => pushed pins links mask p o (pushAll pins links mask p o k ins) k

/-- which inputs of the child at position `p` were assigned on the way into its run: the ones its fetch assigned
(`fm`: connected to an upstream output that holds data — a connection to NOT_DATA assigns nothing) and the ones
a value was forwarded to -/
def kidMask (links : List (Option Ref)) (mask : List Bool) (p : Nat) (o : Own) (fm : List Bool) : List Bool :=
  (List.range o.ins.length).map fun s =>
    (fm[s]?).getD false ||
    (List.range links.length).any fun k =>
      (mask[k]?).getD false &&
        (match links[k]? with
         | some (some r) => r.pos == p && r.gen == o.gen && r.slot == s
         | _ => false)

mutual
/-- the node with its input values replaced (a fetch that is not followed by a run): every assignment is
forwarded through the value links at once, all the way down -/
def setIns (i : List Val) (mask : List Bool) : Node → Node
  | .fn o fid => .fn { o with ins := i } fid
  | .comp o k links kids => .comp { o with ins := i } k links (pushKids i links mask 0 kids)
/-- the children of a composite after the inputs `mask` of it were assigned -/
def pushKids (pins : List Val) (links : List (Option Ref)) (mask : List Bool) (p : Nat) : List Node → List Node
  | [] => []
  | n :: ns =>
    setIns (pushAll pins links mask p n.own links.length n.own.ins) (kidMask links mask p n.own []) n
      :: pushKids pins links mask (p + 1) ns
end

/-- `inputs.fetch()`: a connected slot takes the upstream output if it holds data -/
def fetchSlots (st : KS) : List (Option Ref) → List Val → List Val
  | some r :: rs, v :: vs =>
    (match st.pre[r.pos]? with
     | some n => if isNd n.own.out then v else n.own.out
     | none => v) :: fetchSlots st rs vs
  | none :: rs, v :: vs => v :: fetchSlots st rs vs
  | _, vs => vs

/-- the slots a fetch assigns: connected to an upstream output that holds data -/
def fetchedMask (st : KS) (o : Own) : List Bool :=
  o.inRefs.map fun r? => match r? with
    | some r => (match st.pre[r.pos]? with
      | some n => !isNd n.own.out
      | none => false)
    | none => false

inductive Prep
  | skip (ins : List Val)      -- not triggered
  | refuse (ins : List Val)    -- ReadinessError
  | go (ins : List Val)

def prep (pins : List Val) (links : List (Option Ref)) (mask : List Bool) (st : KS) (o : Own) : Prep :=
  let base := pushAll pins links mask st.pre.length o links.length o.ins
  if triggered st o then
    let f := fetchSlots st o.inRefs base
    if f.any isNd || o.failed || o.running then .refuse f else .go f
  else .skip base

def Own.leafRun (fails : Nat → Bool) (o : Own) (fid : Nat) (ins : List Val) : Own :=
  if fails fid then { o with ins := ins, failed := true, running := false }
  else { o with ins := ins, out := applyFn fid ins, running := false }

/-- deep `__getstate__` of the executors below a node (children of a copy) -/
def stripDeep : Node → Node
  | .fn o fid => .fn { o with exe := o.exe.strip } fid
  | .comp o k l ks => .comp { o with exe := o.exe.strip } k l (stripKids ks)
where
  stripKids : List Node → List Node
    | [] => []
    | n :: ns => stripDeep n :: stripKids ns

/-- rewrite connection ends after neighbours were re-pointed (`Macro._replace_connection`) -/
def bumpRef (bumps : List (Nat × Nat)) (r : Ref) : Ref :=
  if bumps.contains (r.pos, r.gen) then { r with gen := r.gen + 1 } else r

def Own.rewire (bumps : List (Nat × Nat)) (o : Own) : Own :=
  { o with inRefs := o.inRefs.map (Option.map (bumpRef bumps)), outRefs := o.outRefs.map (bumpRef bumps) }

def rewireAll (bumps : List (Nat × Nat)) (ks : List Node) : List Node :=
  if bumps.isEmpty then ks else ks.map fun n => n.setOwn (n.own.rewire bumps)

/-- `Composite._parse_remotely_executed_self` (+ the `Macro` override, + `For`), given the local object
`o` (inputs already fetched), and the returned copy's output value and children -/
def mergeBack (cfg : Cfg) (o : Own) (k : CK) (links : List (Option Ref)) (rins : List Val) (rout : Val)
    (rkids : List Node) : Node :=
  let det := if cfg.dropDetached then o.detached else (o.hasParent || o.detached)
  let kids := if cfg.keepKidExe then rkids else stripDeep.stripKids rkids
  -- the copy's state carries the stripped value (`__getstate__`); it replaces the local one unless it is popped
  let be := if cfg.keepBodyExe then o.bodyExe else o.bodyExe.strip
  if cfg.keepIO then
    .comp { o with out := rout, running := false, failed := false, detached := det, bodyExe := be } k links kids
  else
    .comp { o with bodyExe := be, ins := rins, out := rout, running := false, failed := false, detached := det,
                   gen := o.gen + 1, ioMine := false,
                   outLinked := false,
                   inRefs := if k = .macro then o.inRefs else o.inRefs.map fun _ => none,
                   outRefs := if k = .macro then o.outRefs else [] } k links kids

mutual
/-- no static-IO composite whose channels belong to a discarded copy: such a node drags the emptied copy along
when it is pickled, and that copy's value links name children it no longer has (`KeyError` on loading) -/
def huskFree : Node → Bool
  | .fn _ _ => true
  | .comp o k _ ks => (o.ioMine || k == .wf) && huskFreeKids ks
def huskFreeKids : List Node → Bool
  | [] => true
  | n :: ns => huskFree n && huskFreeKids ns
end

/-- the done-callback of a composite that ran as a copy: the exception travels through the future and the
local children stay as they were, or the returned copy is merged.  With the adopting merge a copy that itself
merged a by-value child cannot be sent back. -/
def mergeOrFail (cfg : Cfg) (o : Own) (k : CK) (links : List (Option Ref)) (mask : List Bool)
    (kids : List Node) (rins : List Val) (rout : Val) (st : KS) : Node :=
  if st.err || (!cfg.keepIO && !huskFreeKids st.pre) then
    -- the local children only saw the inputs that were forwarded to them before the submission
    .comp { o with failed := true, running := false } k links (pushKids o.ins links mask 0 kids)
  else mergeBack cfg o k links rins (st.out.getD rout) (rewireAll st.bumps st.pre)

/-- bookkeeping after one child of a running composite was handled -/
def KS.push (st : KS) (old n : Node) (ok : Bool) (err : Bool) : KS :=
  let p := st.pre.length
  let bumped := n.own.gen != old.own.gen && old.kind? == some .macro
  { pre := st.pre ++ [n], oks := st.oks ++ [ok], err := st.err || err,
    out := if n.own.outLinked then some n.own.out else st.out,
    bumps := if bumped then st.bumps ++ [(p, old.own.gen)] else st.bumps }

mutual
/-- `node.run()` with the inputs `ins` already fetched, to its end (an executor job is completed at once:
values do not depend on the completion order, `C01_value`) -/
def run (cfg : Cfg) (fails : Nat → Bool) (mode : Mode) (ins : List Val) (mask : List Bool) : Node → Node
  | .fn o fid => .fn (o.leafRun fails fid ins) fid
  | .comp o k links kids =>
    let o1 := { o with ins := ins }
    if (place mode o.exe).byValue then
      -- serialise, run the copy there (its live executors are gone), merge the returned copy
      mergeOrFail cfg o1 k links mask kids ins o1.out
        (runKids cfg fails (.honour true) ins links mask KS.init kids)
    else
      let st := runKids cfg fails mode ins links mask KS.init kids
      .comp { o1 with out := st.out.getD o1.out, failed := st.err, running := false } k links
        (rewireAll st.bumps st.pre)

def runKids (cfg : Cfg) (fails : Nat → Bool) (mode : Mode) (pins : List Val) (links : List (Option Ref))
    (mask : List Bool) (st : KS) : List Node → KS
  | [] => st
  | n :: rest =>
    match prep pins links mask st n.own with
    | .skip i =>
      runKids cfg fails mode pins links mask
        (st.push n (setIns i (kidMask links mask st.pre.length n.own []) n) false false) rest
    | .refuse i =>
      runKids cfg fails mode pins links mask
        (st.push n (setIns i (kidMask links mask st.pre.length n.own (fetchedMask st n.own)) n) false true) rest
    | .go i =>
      let n' := run cfg fails mode i (kidMask links mask st.pre.length n.own (fetchedMask st n.own)) n
      runKids cfg fails mode pins links mask (st.push n n' (!n'.own.failed) n'.own.failed) rest
end

/-- the specification: the same graph run in place, executors ignored -/
def eval (fails : Nat → Bool) (ins : List Val) (n : Node) : Node := run Cfg.repaired fails .ignore ins [] n

/-! ## observations -/

mutual
/-- no node failed -/
def allOk : Node → Bool
  | .fn o _ => !o.failed
  | .comp o _ _ ks => !o.failed && allOkKids ks
def allOkKids : List Node → Bool
  | [] => true
  | n :: ns => allOk n && allOkKids ns
end

mutual
/-- nothing is running -/
def idle : Node → Bool
  | .fn o _ => !o.running
  | .comp o _ _ ks => !o.running && idleKids ks
def idleKids : List Node → Bool
  | [] => true
  | n :: ns => idle n && idleKids ns
end

mutual
/-- no composite is placed on a by-value executor (also not through instructions) -/
def noByValueComp : Node → Bool
  | .fn _ _ => true
  | .comp o _ _ ks => !o.exe.byValue && noByValueCompKids ks
def noByValueCompKids : List Node → Bool
  | [] => true
  | n :: ns => noByValueComp n && noByValueCompKids ns
end

/-- the part of a node object that running must not change: who it is, where it sits, how it is wired -/
structure Shape where
  label : Nat
  exe : Exe
  hasParent : Bool
  detached : Bool
  gen : Nat
  ioMine : Bool
  outLinked : Bool
  inRefs : List (Option Ref)
  outRefs : List Ref
  bodyExe : Exe
  deriving Repr, DecidableEq

def Own.shape (o : Own) : Shape :=
  { bodyExe := o.bodyExe, label := o.label, exe := o.exe, hasParent := o.hasParent, detached := o.detached, gen := o.gen,
    ioMine := o.ioMine, outLinked := o.outLinked, inRefs := o.inRefs, outRefs := o.outRefs }

inductive ShapeT
  | fn (s : Shape) (fid : Nat)
  | comp (s : Shape) (k : CK) (links : List (Option Ref)) (kids : List ShapeT)

def ShapeT.top : ShapeT → Shape
  | .fn s _ => s
  | .comp s _ _ _ => s

def ShapeT.kidTops : ShapeT → List Shape
  | .fn _ _ => []
  | .comp _ _ _ ks => ks.map ShapeT.top

mutual
def shapeOf : Node → ShapeT
  | .fn o fid => .fn o.shape fid
  | .comp o k l ks => .comp o.shape k l (shapeOfKids ks)
def shapeOfKids : List Node → List ShapeT
  | [] => []
  | n :: ns => shapeOf n :: shapeOfKids ns
end

mutual
/-- all output values, in pre-order -/
def outsOf : Node → List Val
  | .fn o _ => [o.out]
  | .comp o _ _ ks => o.out :: outsOfKids ks
def outsOfKids : List Node → List Val
  | [] => []
  | n :: ns => outsOf n ++ outsOfKids ns
end

mutual
/-- a consistent local graph: below the top every node has its parent and no detached path; every node owns
its channels -/
def adopted : Node → Bool
  | .fn o _ => o.ioMine
  | .comp o _ _ ks => o.ioMine && adoptedKids ks
def adoptedKids : List Node → Bool
  | [] => true
  | n :: ns => n.own.hasParent && !n.own.detached && adopted n && adoptedKids ns
end

/-! ## a node out on an executor: submission, edits attempted meanwhile, completion -/

/-- what the executor holds -/
inductive Job
  | leaf (args : List Val)          -- `on_run` with the arguments read at submission
  | shared                          -- the very same object (threads)
  | copy (snap : Option Node)       -- a serialised copy: taken at submission (`some`) or when the job is
                                    --   picked up (`none`: taken from the object at completion)
  deriving Repr

structure Sess where
  node : Node
  job  : Option Job
  /-- connections of the top node's inputs to parentless neighbours: the value at the other end -/
  ext  : List (Option Val)
  deriving Repr

inductive Edit
  | setIn (k : Nat) (v : Val)        -- `node.inputs.k = v` / `.value = v` / `set_input_values`
  | fetch                            -- `node.inputs.fetch()`
  | connect (k : Nat) (v : Val)      -- connect input k to a neighbour's output holding `v`
  | disconnect (k : Nat)
  | rerun                            -- `node.run()` while it is out
  | setKid (j k : Nat) (v : Val)     -- `wf.inputs.nJ__k = v`: a workflow's inputs are its children's channels
  deriving Repr

inductive Res | ok | future | locked | readiness | raised | notOut
  deriving Repr, DecidableEq

/-- `owner.data_input_locked()` for the channel holding own input `k` of the top node.
Static-IO nodes: the channel's owner (this object, or the discarded copy after an adopting merge).
Workflows: the input is a child's channel and that (local) child is not running. -/
def lockedTop : Node → Bool
  | .fn o _ => o.ioMine && o.running
  | .comp o k _ _ => if k = .wf then false else o.ioMine && o.running

mutual
/-- assignment through the setter: store, forward through the value link (recursively) -/
def assign (k : Nat) (v : Val) : Node → Node
  | .fn o fid => .fn { o with ins := setNth o.ins k v } fid
  | .comp o c links kids =>
    let kids' := match links[k]? with
      | some (some r) => assignKid r v 0 kids
      | _ => kids
    .comp { o with ins := setNth o.ins k v } c links kids'
def assignKid (r : Ref) (v : Val) (p : Nat) : List Node → List Node
  | [] => []
  | n :: ns =>
    (if p == r.pos && n.own.gen == r.gen then assign r.slot v n else n) :: assignKid r v (p + 1) ns
end

def fetchTop (ext : List (Option Val)) : Nat → Node → Node
  | 0, acc => acc
  | k + 1, acc =>
    let acc' := fetchTop ext k acc
    match ext[k]? with
    | some (some v) => if isNd v then acc' else assign k v acc'
    | _ => acc'

def ready (n : Node) : Bool := !n.own.running && !n.own.failed && !(n.own.ins.any isNd)

/-- `node.run()` on a top node whose executor is set: fetch, gate, `running = True`, submit -/
def submit (snapAtSubmit : Bool) (s : Sess) : Sess × Res :=
  let n := s.node
  if lockedTop n && s.ext.any (fun e => match e with | some v => !isNd v | none => false) then (s, .locked)
  else
    let n1 := fetchTop s.ext n.own.ins.length n
    if !ready n1 then ({ s with node := n1 }, .readiness)
    else
      let n2 := n1.setOwn { n1.own with running := true }
      let job := match n2 with
        | .fn o _ => Job.leaf o.ins
        | .comp o _ _ _ =>
          if o.exe.byValue then .copy (if snapAtSubmit then some n2 else none) else .shared
      ({ s with node := n2, job := some job }, .future)

/-- the done-callback `_finish_run` of the job `j` on the local object -/
def finish (cfg : Cfg) (fails : Nat → Bool) : Job → Node → Option Node
  | .leaf args, .fn o fid =>
    -- the function saw `args`; the node's inputs are whatever it holds now
    some (.fn { o.leafRun fails fid args with ins := o.ins } fid)
  | .shared, .comp o k l ks => some (run cfg fails (.honour false) o.ins [] (.comp o k l ks))
  | .copy (some (.comp so _ sl sks)), .comp o k _ ks =>
    -- the copy was serialised at submission
    some (mergeOrFail cfg o k sl [] ks so.ins so.out (runKids cfg fails (.honour true) so.ins sl [] KS.init sks))
  | .copy _, .comp o k l ks =>
    -- … or when the job was picked up: the object as it is now
    some (mergeOrFail cfg o k l [] ks o.ins o.out (runKids cfg fails (.honour true) o.ins l [] KS.init ks))
  | _, _ => none

def complete (cfg : Cfg) (fails : Nat → Bool) (s : Sess) : Sess × Res :=
  match s.job with
  | none => (s, .notOut)
  | some j =>
    match finish cfg fails j s.node with
    | some n => ({ s with node := n, job := none }, .ok)
    | none => (s, .notOut)

def edit (s : Sess) : Edit → Sess × Res
  | .setIn k v =>
    if lockedTop s.node then (s, .locked) else ({ s with node := assign k v s.node }, .ok)
  | .fetch =>
    if lockedTop s.node && s.ext.any (fun e => match e with | some v => !isNd v | none => false) then (s, .locked)
    else ({ s with node := fetchTop s.ext s.node.own.ins.length s.node }, .ok)
  | .connect k v => ({ s with ext := setNth s.ext k (some v) }, .ok)
  | .disconnect k => ({ s with ext := setNth s.ext k none }, .ok)
  | .rerun =>
    if lockedTop s.node && s.ext.any (fun e => match e with | some v => !isNd v | none => false) then (s, .locked)
    else
      let n1 := fetchTop s.ext s.node.own.ins.length s.node
      ({ s with node := n1 }, .readiness)   -- only used while the node is out: `running` refuses the run

  | .setKid j k v =>
    match s.node with
    | .comp o .wf l ks =>
      match ks[j]? with
      | some kid =>
        if kid.own.ioMine && kid.own.running then (s, .locked)
        else ({ s with node := .comp o .wf l (assignKid ⟨j, kid.own.gen, k⟩ v 0 ks) }, .ok)
      | none => (s, .raised)
    | _ => (s, .raised)                -- static IO panels do not expose child channels

def edits (s : Sess) : List Edit → Sess
  | [] => s
  | e :: es => edits (edit s e).1 es

end PwVerif.Remote
