import PwVerif.Model.Util
/-!
# Executor handles (transcription of `Runnable._parse_executor`, the executor branch of `Runnable._run`,
`Runnable._finish_run`, and of who ever calls `shutdown`)

An executor object has an identity (its index in `pools`) and is live or shut down.  A node's `executor`
attribute is a live object (`inst h`) or construction instructions `(callable, args, kwargs)`; what the
callable hands out is up to the user: a new pool on every call, the *same* pool on every call (the shared
executor use case named in `_parse_executor`'s docstring), or a pool that is already shut down (e.g. it was
created in a `with` block that has ended).

`run()` with an executor: readiness gate, `_parse_executor`, `running = True`, `executor.submit` — which raises
`RuntimeError` on a pool that is shut down — register the done-callback.  /repo never shuts any executor down
(`executor_shutdown` is the user's call).
-/
namespace PwVerif.ExecH
open PwVerif

inductive PS | live | down
  deriving Repr, DecidableEq

inductive Factory
  | fresh                 -- a new live pool on every call
  | shared (h : Nat)      -- the same pool on every call, whatever state it is in
  | freshDown             -- a new pool that is already shut down when it is handed out
  deriving Repr, DecidableEq

inductive Setting
  | inst (h : Nat)
  | instr (f : Factory)
  deriving Repr, DecidableEq

structure Cfg where
  /-- an executor obtained from instructions is shut down by a done-callback after the job (/repo: never) -/
  shutdownBuilt : Bool
  /-- a submission the executor refuses settles the node as failed (/repo as pinned: it stays `running`) -/
  settleRefused : Bool
  deriving Repr, DecidableEq

structure Job where
  node : Nat
  pool : Nat
  built : Bool            -- the pool came out of instructions in this very run
  deriving Repr, DecidableEq

structure St where
  pools   : List PS
  jobs    : List Job
  running : Nat → Bool
  failed  : Nat → Bool
  runs    : Nat → Nat     -- completed runs per node

inductive Op
  | submit (node : Nat) (s : Setting)
  | complete (i : Nat)    -- the i-th outstanding job finishes (any order)
  deriving Repr, DecidableEq

inductive Res | future | refused | notReady | ok | noJob
  deriving Repr, DecidableEq

def poolState (pools : List PS) (h : Nat) : PS := (pools[h]?).getD .down

/-- `_parse_executor`: the pool to submit to, the pools afterwards, and whether it was built here -/
def parse (pools : List PS) : Setting → Nat × List PS × Bool
  | .inst h => (h, pools, false)
  | .instr .fresh => (pools.length, pools ++ [.live], true)
  | .instr (.shared h) => (h, pools, true)
  | .instr .freshDown => (pools.length, pools ++ [.down], true)

def setNth {α} : List α → Nat → α → List α
  | [], _, _ => []
  | _ :: xs, 0, v => v :: xs
  | x :: xs, n + 1, v => x :: setNth xs n v

def eraseIdx' {α} : List α → Nat → List α
  | [], _ => []
  | _ :: xs, 0 => xs
  | x :: xs, n + 1 => x :: eraseIdx' xs n

def step (cfg : Cfg) (s : St) : Op → St × Res
  | .submit node set =>
    if s.running node || s.failed node then (s, .notReady)
    else
      let (h, pools, built) := parse s.pools set
      let s1 := { s with pools := pools, running := updF s.running node true }
      if poolState pools h == .down then
        -- `executor.submit` raises RuntimeError("cannot schedule new futures after shutdown")
        if cfg.settleRefused then
          ({ s1 with running := updF s1.running node false, failed := updF s.failed node true }, .refused)
        else (s1, .refused)
      else ({ s1 with jobs := s.jobs ++ [{ node, pool := h, built }] }, .future)
  | .complete i =>
    match s.jobs[i]? with
    | none => (s, .noJob)
    | some j =>
      let pools := if cfg.shutdownBuilt && j.built then setNth s.pools j.pool .down else s.pools
      ({ s with pools := pools, jobs := eraseIdx' s.jobs i, running := updF s.running j.node false,
                runs := updF s.runs j.node (s.runs j.node + 1) }, .ok)

def runOps (cfg : Cfg) (s : St) : List Op → St × List Res
  | [] => (s, [])
  | o :: os =>
    let (s1, r) := step cfg s o
    let (s2, rs) := runOps cfg s1 os
    (s2, r :: rs)

def St.init (pools : List PS) : St :=
  { pools, jobs := [], running := fun _ => false, failed := fun _ => false, runs := fun _ => 0 }

def Cfg.pinned : Cfg := { shutdownBuilt := false, settleRefused := false }
def Cfg.repaired : Cfg := { shutdownBuilt := false, settleRefused := true }

end PwVerif.ExecH
