import PwVerif.Model.FuncWrap
/-!
# Output labels of a macro scraped from its creator (C09, interface clause) — transcription of
`Macro._scrape_output_labels` (`pyiron_workflow/nodes/macro.py`) on top of C17's transcription of
`ParseOutput` (`FuncWrap.parseOutput`: the source texts of the returned expressions)

    self_argument = first parameter name
    cleaned = [re.sub("^" + re.escape(self_argument + "."), "", label) for label in scraped]
    any "." left in a cleaned label  ->  ValueError

`re.escape` makes the whole prefix, the dot included, literal: a label is shortened only when it
literally starts with `<self_argument>.`.
-/
namespace PwVerif.MacroLabels
open PwVerif

def stripL (p l : List Char) : List Char :=
  if (p ++ ['.']).isPrefixOf l then l.drop (p.length + 1) else l

/-- strip exactly the literal prefix `<selfArg>.` -/
def strip (selfArg label : String) : String := String.ofList (stripL selfArg.toList label.toList)

/-- the rule with an unescaped dot (`^<selfArg>.` as a regular expression: any one character after the
name) — NOT what the code does; kept to show what the literal rule excludes -/
def stripWild (selfArg label : String) : String :=
  let p := selfArg.toList
  let l := label.toList
  if p.isPrefixOf l && decide (p.length < l.length) then String.ofList (l.drop (p.length + 1)) else label

inductive Err | multipleReturns | dotLeft
  deriving Repr, DecidableEq

/-- `Macro._get_output_labels` for a creator without declared labels: `none` = the creator returns nothing -/
def scrapedLabels (selfArg : String) (rets : List FuncWrap.RetStmt) : Except Err (Option (List String)) :=
  match FuncWrap.parseOutput rets with
  | .error _ => .error .multipleReturns
  | .ok none => .ok none
  | .ok (some ls) =>
    let cleaned := ls.map (strip selfArg)
    if cleaned.any (fun l => l.toList.contains '.') then .error .dotLeft else .ok (some cleaned)

/-! ## the source slice of a returned element

`ParseOutput.get_string` cuts the text of a returned element out of the source line with the column
offsets of the `ast` node — which count UTF-8 BYTES. -/

/-- the characters of `l` whose first byte lies in `[a, b)` (the line cut as bytes: what the code does) -/
def cutBytes : List Char → Nat → Nat → Nat → List Char
  | [], _, _, _ => []
  | c :: cs, pos, a, b =>
    (if a ≤ pos ∧ pos < b then [c] else []) ++ cutBytes cs (pos + c.utf8Size) a b

/-- the same offsets used as CHARACTER positions (not what the code does) -/
def cutChars (l : List Char) (a b : Nat) : List Char := (l.drop a).take (b - a)

/-- byte offset at which the first occurrence of `w` starts in `l` -/
def byteLen (l : List Char) : Nat := (l.map Char.utf8Size).sum

end PwVerif.MacroLabels
