/-!
# Model of `pyiron_workflow.type_hinting` (property C04) — core Lean only

* `Hint`   the supported hint grammar (a nested inductive), `Arg` = what `typing.get_args`
           can hand to the recursive comparison (a hint, `Ellipsis`, or a parameter *list*);
* `ms`     `type_hint_is_as_or_more_specific_than`, transcribed branch by branch, indexed by
           fuel; `none` = the recursion does not come back (`RecursionError`);
* `tg`     `typeguard.check_type` (4.4.2, default `collection_check_strategy = FIRST_ITEM`);
* `isinst` `isinstance(value, hint)` with `none` = `TypeError`;
* `admits` `valid_value` = `isinstance` first, typeguard only on `TypeError`;
* `Cfg`    switches between the code as pinned and as repaired.
-/
namespace PwVerif.Hint

/-! ## classes -/

/-- the finite class lattice; `uA ⊃ uB ⊃ uC` and `uD` are user classes, `func` is
`types.FunctionType`, `callable` is `collections.abc.Callable` (bare), `noneT` is `NoneType` -/
inductive Cls
  | object | int | bool | float | str | list | set | frozenset | dict | tuple | type | noneT
  | callable | func | uA | uB | uC | uD
  /-- `collections.abc.Sequence` / `collections.abc.Mapping` (abstract: `list`, `tuple`, `str` / `dict`
  are registered below them) -/
  | sequence | mapping
  deriving DecidableEq, Repr, Inhabited

def Cls.all : List Cls :=
  [.object, .int, .bool, .float, .str, .list, .set, .frozenset, .dict, .tuple, .type, .noneT,
   .callable, .func, .uA, .uB, .uC, .uD, .sequence, .mapping]

/-- `issubclass(x, y)` -/
def Cls.sub : Cls → Cls → Bool
  | _, .object => true
  | .bool, .int => true
  | .type, .callable => true
  | .func, .callable => true
  | .uB, .uA => true
  | .uC, .uA => true
  | .uC, .uB => true
  | .list, .sequence => true
  | .tuple, .sequence => true
  | .str, .sequence => true
  | .dict, .mapping => true
  | x, y => x == y

/-- `inspect.signature(cls)` as far as `typeguard.check_callable` looks at it:
`some (mandatory positional, positional)`; `none` = "no signature found" (check skipped) -/
def Cls.sig : Cls → Option (Nat × Nat)
  | .object => some (0, 0)
  | .float => some (0, 1)
  | .list => some (0, 1)
  | .tuple => some (0, 1)
  | .uA => some (0, 0)
  | .uB => some (0, 0)
  | .uC => some (0, 0)
  | .uD => some (0, 0)
  | .callable => some (0, 0)
  | .sequence => some (0, 0)
  | .mapping => some (0, 0)
  | .func => some (2, 5)
  | _ => none

/-! ## literal values -/

inductive Lit
  | i (n : Int) | b (x : Bool) | s (x : String) | none
  deriving DecidableEq, Repr

/-- Python `==` between literal values: `True == 1`, `False == 0` -/
def Lit.pyEq : Lit → Lit → Bool
  | .i n, .i m => n == m
  | .b x, .b y => x == y
  | .s x, .s y => x == y
  | .none, .none => true
  | .i n, .b x => n == (if x then 1 else 0)
  | .b x, .i n => n == (if x then 1 else 0)
  | _, _ => false

/-! ## hints -/

/-- `typing.get_origin` of a subscripted generic (or of a bare `typing` alias) -/
inductive Org | list | set | dict | tuple | type | callable | literal | seq | mapping
  deriving DecidableEq, Repr

def Org.cls : Org → Option Cls
  | .list => some .list | .set => some .set | .dict => some .dict | .tuple => some .tuple
  | .type => some .type | .callable => some .callable | .literal => none
  | .seq => some .sequence | .mapping => some .mapping

/-- `hint_origin in [dict, tuple, Callable]` -/
def Org.ordered : Org → Bool
  | .dict => true | .tuple => true | .callable => true | _ => false

/-- the bare aliases of `typing` that have an origin but no arguments -/
inductive Alias | list | set | dict | tuple | type | callable | seq | mapping
  deriving DecidableEq, Repr

def Alias.org : Alias → Org
  | .list => .list | .set => .set | .dict => .dict | .tuple => .tuple | .type => .type
  | .callable => .callable | .seq => .seq | .mapping => .mapping

def Alias.cls : Alias → Cls
  | .list => .list | .set => .set | .dict => .dict | .tuple => .tuple | .type => .type
  | .callable => .callable | .seq => .sequence | .mapping => .mapping

inductive Hint
  | cls (c : Cls)
  /-- the object `None` as a generic argument (`list[None]`, `Callable[[int], None]`) -/
  | noneVal
  /-- `X | Y` (`types.UnionType`) -/
  | unionNew (hs : List Hint)
  /-- `typing.Union[X, Y]`, `typing.Optional[X]` -/
  | unionOld (hs : List Hint)
  | literal (ls : List Lit)
  | annotated (h : Hint)
  | listOf (a : Hint)
  | setOf (a : Hint)
  | dictOf (k v : Hint)
  /-- `tuple[X, Y]`; `tupleFix []` is `tuple[()]` -/
  | tupleFix (args : List Hint)
  /-- `tuple[X, ...]` -/
  | tupleVar (a : Hint)
  | typeOf (a : Hint)
  /-- `Callable[[c1, …], r]` (`some`) or `Callable[..., r]` (`none`) -/
  | callableOf (ps : Option (List Cls)) (r : Hint)
  /-- `typing.Any` -/
  | any
  /-- a bare alias of `typing`: `typing.List`, `typing.Set`, `typing.Dict`, `typing.Tuple`, `typing.Type`,
  `typing.Callable`, `typing.Sequence`, `typing.Mapping` — an origin and *no* arguments -/
  | bare (g : Alias)
  /-- `collections.abc.Sequence[X]` / `typing.Sequence[X]` -/
  | seqOf (a : Hint)
  /-- `collections.abc.Mapping[K, V]` / `typing.Mapping[K, V]` -/
  | mapOf (k v : Hint)
  deriving Repr, Inhabited

/-- what the recursion of the comparison can be called with -/
inductive Arg
  | h (x : Hint)
  | ell
  | prm (cs : List Cls)
  deriving Repr, Inhabited

/-- `_get_type_hints`: one `Annotated` layer is looked through (typing flattens nested ones) -/
def strip : Hint → Hint
  | .annotated h => strip h
  | h => h

def Arg.strip : Arg → Arg
  | .h x => .h (PwVerif.Hint.strip x)
  | a => a

def origin : Hint → Option Org
  | .listOf _ => some .list
  | .setOf _ => some .set
  | .dictOf _ _ => some .dict
  | .tupleFix _ => some .tuple
  | .tupleVar _ => some .tuple
  | .typeOf _ => some .type
  | .callableOf _ _ => some .callable
  | .literal _ => some .literal
  | .bare g => some g.org
  | .seqOf _ => some .seq
  | .mapOf _ _ => some .mapping
  | _ => none

/-- `typing.get_args` of a subscripted generic (not used for `Literal`) -/
def pyArgs : Hint → List Arg
  | .listOf a => [.h a]
  | .setOf a => [.h a]
  | .dictOf k v => [.h k, .h v]
  | .tupleFix as => as.map .h
  | .tupleVar a => [.h a, .ell]
  | .typeOf a => [.h a]
  | .callableOf none r => [.ell, .h r]
  | .callableOf (some ps) r => [.prm ps, .h r]
  | .seqOf a => [.h a]
  | .mapOf k v => [.h k, .h v]
  | _ => []

/-- `hasattr(hint, "__args__")`: everything subscripted, not the bare `typing` aliases -/
def subscripted : Arg → Bool
  | .h (.bare _) => false
  | _ => true

/-! ## configuration: pinned vs repaired behaviour -/

structure Cfg where
  /-- `type_hint_to_tuple` also expands `typing.Union` (fix C04-old-union) -/
  unionOldExpanded : Bool
  /-- the `TypeError → ==` fallback also demands equal types (fix C04-literal-eq) -/
  literalTypeStrict : Bool
  /-- `valid_value` uses typeguard only (hypothetical; the pinned code tries `isinstance` first) -/
  tgOnly : Bool
  /-- fix C04-args-rule: arguments of every origin but `Literal` are compared by position, and an empty
  argument tuple on the receiving side counts as "unspecified" only for a hint that was never subscripted
  (`typing.Tuple`, not `tuple[()]`). Pinned: only `dict | tuple | Callable` are positional, the rest
  uses the subset rule, and empty receiving arguments always accept. -/
  argsFix : Bool
  deriving DecidableEq, Repr

def Cfg.pinned : Cfg := ⟨false, false, false, false⟩
/-- the tree as it is now (`972e5e8`, `a851bde` applied) -/
def Cfg.now : Cfg := ⟨true, true, false, false⟩
/-- the tree after the proposed patch `fixes/C04-args-rule.patch` -/
def Cfg.argsFixed : Cfg := ⟨true, true, false, true⟩
/-- after the two proposed patches -/
def Cfg.patched : Cfg := ⟨true, true, false, false⟩
def Cfg.repaired : Cfg := ⟨true, true, true, true⟩

/-! ## the comparison -/

/-- lazy `any(g(x) for x in xs)`; `none` (an exception) propagates -/
def anyL {α} (g : α → Option Bool) : List α → Option Bool
  | [] => some false
  | x :: xs => match g x with
    | none => none
    | some true => some true
    | some false => anyL g xs

/-- lazy `all(g(x) for x in xs)` -/
def allL {α} (g : α → Option Bool) : List α → Option Bool
  | [] => some true
  | x :: xs => match g x with
    | none => none
    | some false => some false
    | some true => allL g xs

/-- lazy `all(f(h, o) for o, h in zip(os, hs))` -/
def allZip {α} (f : α → α → Option Bool) : List α → List α → Option Bool
  | h :: hs, o :: os => match f h o with
    | none => none
    | some false => some false
    | some true => allZip f hs os
  | _, _ => some true

def isUnion : Arg → Bool
  | .h (.unionNew _) => true
  | .h (.unionOld _) => true
  | _ => false

/-- `type_hint_to_tuple` -/
def toTuple (cfg : Cfg) : Arg → List Arg
  | .h (.unionNew hs) => hs.map .h
  | .h (.unionOld hs) => if cfg.unionOldExpanded then hs.map .h else [.h (.unionOld hs)]
  | a => [a]

def litLeq (cfg : Cfg) (l m : Lit) : Bool :=
  if cfg.literalTypeStrict then l == m else l.pyEq m

/-- both origins `None`: `issubclass`, on `TypeError` `==` -/
def leafLe : Arg → Arg → Bool
  | .h (.cls a), .h (.cls b) => a.sub b
  | .h .noneVal, .h .noneVal => true
  | .h .any, .h .any => true
  | .h .any, .h (.cls .object) => true
  | .ell, .ell => true
  | .prm a, .prm b => a == b
  | _, _ => false

def argOrigin : Arg → Option Org
  | .h x => origin x
  | _ => none

def argArgs : Arg → List Arg
  | .h x => pyArgs x
  | _ => []

/-- body of `type_hint_is_as_or_more_specific_than` after `_get_type_hints` (both sides already
looked through `Annotated`); `rec` is the recursive call -/
def msBody (cfg : Cfg) (rec : Arg → Arg → Option Bool) (h o : Arg) : Option Bool :=
  if isUnion h || isUnion o then
    allL (fun x => anyL (fun y => rec x y) (toTuple cfg o)) (toTuple cfg h)
  else
    match argOrigin h, argOrigin o with
    | none, none => some (leafLe h o)
    | some g, none =>
      match o with
      | .h (.cls c) => some (g.cls == some c)
      | _ => some false
    | none, some _ => some false
    | some g, some g' =>
      if g != g' then some false
      else
        match h, o with
        | .h (.literal ls), .h (.literal ms') =>
          if ls.isEmpty && !ms'.isEmpty then some false
          else some (ls.all fun l => ms'.any fun m => litLeq cfg l m)
        | _, _ =>
          let ha := argArgs h
          let oa := argArgs o
          if ha.isEmpty && !oa.isEmpty then some false
          else if cfg.argsFix then
            if oa.isEmpty then some (!subscripted o || (subscripted h && ha.isEmpty))
            else if oa.length == ha.length then allZip rec ha oa
            else some false
          else if g.ordered then
            if oa.isEmpty then some true
            else if oa.length == ha.length then allZip rec ha oa
            else some false
          else
            allL (fun x => anyL (fun y => rec x y) oa) ha

/-- `type_hint_is_as_or_more_specific_than(hint, other)`; `none` = no answer within `fuel`
nested calls -/
def ms (cfg : Cfg) : Nat → Arg → Arg → Option Bool
  | 0, _, _ => none
  | fuel + 1, hint, other => msBody cfg (ms cfg fuel) hint.strip other.strip

/-- size used for the fuel bound -/
def size : Hint → Nat
  | .cls _ => 1
  | .noneVal => 1
  | .unionNew hs => 1 + sizeL hs
  | .unionOld hs => 1 + sizeL hs
  | .literal _ => 1
  | .annotated h => 1 + size h
  | .listOf a => 1 + size a
  | .setOf a => 1 + size a
  | .dictOf k v => 1 + size k + size v
  | .tupleFix as => 1 + sizeL as
  | .tupleVar a => 2 + size a
  | .typeOf a => 1 + size a
  | .callableOf _ r => 2 + size r
  | .any => 1
  | .bare _ => 1
  | .seqOf a => 1 + size a
  | .mapOf k v => 1 + size k + size v
where
  sizeL : List Hint → Nat
    | [] => 0
    | h :: hs => size h + sizeL hs

def Arg.size : Arg → Nat
  | .h x => PwVerif.Hint.size x
  | _ => 1

/-- the comparison as the library calls it, with the fuel that `C04_total` shows sufficient -/
def compare (cfg : Cfg) (h o : Hint) : Option Bool :=
  ms cfg (size h + size o) (.h h) (.h o)

/-! ## values -/

inductive V
  | i (n : Int) | b (x : Bool) | f (tag : Nat) | s (x : String) | none
  | l (xs : List V) | t (xs : List V) | st (xs : List V) | fs (xs : List V)
  /-- a dict: keys and values in insertion order -/
  | d (ks : List V) (vs : List V)
  /-- a class object -/
  | k (c : Cls)
  /-- a plain function: mandatory positional, positional, `*args` -/
  | fn (mand npos : Nat) (va : Bool)
  /-- an instance of a user class -/
  | inst (c : Cls)
  deriving Repr, Inhabited

/-- `type(v)` -/
def V.type : V → Cls
  | .i _ => .int | .b _ => .bool | .f _ => .float | .s _ => .str | .none => .noneT
  | .l _ => .list | .t _ => .tuple | .st _ => .set | .fs _ => .frozenset | .d _ _ => .dict
  | .k _ => .type | .fn _ _ _ => .func | .inst c => c

def V.toLit : V → Option Lit
  | .i n => some (.i n) | .b x => some (.b x) | .s x => some (.s x) | .none => some .none
  | _ => Option.none

/-- `isinstance(v, c)` -/
def isinstCls (c : Cls) (v : V) : Bool := v.type.sub c

/-- typeguard on a plain class: `float` admits ints (`check_number`), `set` admits any
`AbstractSet` (`check_set`) -/
def tgCls (c : Cls) (v : V) : Bool :=
  isinstCls c v
    || (c == .float && (v.type == .int || v.type == .bool))
    || (c == .set && v.type == .frozenset)

/-- `check_literal`: `args.index(value)` (first `==` match), then `type(arg) is type(value)` -/
def litAdmits (ls : List Lit) (v : V) : Bool :=
  match v.toLit with
  | Option.none => false
  | some x =>
    match ls.find? (fun l => l.pyEq x) with
    | some l => l == x
    | Option.none => false

def first? : List V → Option V
  | [] => Option.none
  | x :: _ => some x

/-- first character of a string, as a string (what iterating a `str` yields) -/
def strFirst (x : String) : Option V :=
  match x.toList with
  | [] => Option.none
  | c :: _ => some (.s (String.singleton c))

/-- `isinstance(v, Sequence)` and, if so, its first item (`none` inside = empty) -/
def seqFirst : V → Option (Option V)
  | .l xs => some (first? xs)
  | .t xs => some (first? xs)
  | .s x => some (strFirst x)
  | _ => Option.none

/-- `check_callable`'s arity test -/
def arityOk (v : V) (n : Nat) : Bool :=
  match v with
  | .fn mand npos va => !(decide (mand > n)) && !( !va && decide (npos < n))
  | .k c => match c.sig with
    | some (mand, npos) => !(decide (mand > n)) && !(decide (npos < n))
    | Option.none => true
  | _ => true

def isCallable (v : V) : Bool := v.type.sub .callable

mutual
/-- `typeguard.check_type_internal(value, hint)` passes -/
def tg : Hint → V → Bool
  | .cls c, v => tgCls c v
  | .noneVal, v => v.type == .noneT
  | .unionNew hs, v => tgAny hs v
  | .unionOld hs, v => tgAny hs v
  | .literal ls, v => litAdmits ls v
  | .annotated h, v => tg h v
  | .listOf a, .l xs => (match first? xs with | some x => tg a x | Option.none => true)
  | .listOf _, _ => false
  | .setOf a, .st xs => (match first? xs with | some x => tg a x | Option.none => true)
  | .setOf a, .fs xs => (match first? xs with | some x => tg a x | Option.none => true)
  | .setOf _, _ => false
  | .dictOf kh vh, .d ks vs =>
    (match first? ks with | some x => tg kh x | Option.none => true)
      && (match first? vs with | some x => tg vh x | Option.none => true)
  | .dictOf _ _, _ => false
  | .tupleFix as, .t xs => tgZip as xs
  | .tupleFix _, _ => false
  | .tupleVar a, .t xs => (match first? xs with | some x => tg a x | Option.none => true)
  | .tupleVar _, _ => false
  | .typeOf a, .k c => tgType a c
  | .typeOf _, _ => false
  | .callableOf ps _, v =>
    isCallable v && (match ps with | some cs => arityOk v cs.length | Option.none => true)
  | .any, _ => true
  | .bare g, v => tgCls g.cls v
  | .seqOf a, v =>
    (match seqFirst v with
     | Option.none => false
     | some Option.none => true
     | some (some x) => tg a x)
  | .mapOf kh vh, .d ks vs =>
    (match first? ks with | some x => tg kh x | Option.none => true)
      && (match first? vs with | some x => tg vh x | Option.none => true)
  | .mapOf _ _, _ => false
def tgAny : List Hint → V → Bool
  | [], _ => false
  | h :: hs, v => tg h v || tgAny hs v
/-- fixed-length tuple: same length, element-wise -/
def tgZip : List Hint → List V → Bool
  | [], [] => true
  | h :: hs, x :: xs => tg h x && tgZip hs xs
  | _, _ => false
/-- `check_class`: `issubclass(value, expected)` through unions -/
def tgType : Hint → Cls → Bool
  | .cls c, k => k.sub c
  | .unionNew hs, k => tgTypeAny hs k
  | .unionOld hs, k => tgTypeAny hs k
  | .annotated h, k => tgType h k
  | .any, _ => true
  | _, _ => false
def tgTypeAny : List Hint → Cls → Bool
  | [], _ => false
  | h :: hs, k => tgType h k || tgTypeAny hs k
end

mutual
/-- `isinstance(value, hint)`; `none` = `TypeError`. `old` = we are a member of a `typing.Union`, whose
`__instancecheck__` asks `issubclass(type(value), member)` — the same for classes, but `False` instead of a
`TypeError` for `typing.Any` -/
def isinst (old : Bool) : Hint → V → Option Bool
  | .cls c, v => some (isinstCls c v)
  | .bare g, v => some (isinstCls g.cls v)
  | .any, _ => if old then some false else Option.none
  | .unionNew hs, v => isinstAny false hs v
  | .unionOld hs, v => isinstAny true hs v
  | _, _ => Option.none
def isinstAny (old : Bool) : List Hint → V → Option Bool
  | [], _ => some false
  | h :: hs, v => match isinst old h v with
    | Option.none => Option.none
    | some true => some true
    | some false => isinstAny old hs v
end

/-- `valid_value(value, hint)` -/
def admits (cfg : Cfg) (h : Hint) (v : V) : Bool :=
  if cfg.tgOnly then tg h v
  else match isinst false h v with
    | some b => b
    | Option.none => tg h v

/-! ## channels: where the comparison is consulted -/

structure Chan where
  hint : Option Hint
  strict : Bool
  deriving Repr

/-- `DataChannel._valid_connection` (`out` the output, `inp` the input) -/
def validConnection (cfg : Cfg) (out inp : Chan) : Option Bool :=
  match out.hint, inp.hint with
  | some ho, some hi => if !inp.strict then some true else compare cfg ho hi
  | _, _ => some true

/-- `DataChannel.value_receiver` setter's hint test (`self` pushes its values to `partner`) -/
def validReceiver (cfg : Cfg) (self partner : Chan) : Option Bool :=
  match self.hint, partner.hint with
  | some hs, some hp => if partner.strict then compare cfg hs hp else some true
  | _, _ => some true

/-! ## predicates over all sub-hints (hypotheses of the partial theorems) -/

mutual
/-- `p` holds at the hint and at every hint nested in it -/
def every (p : Hint → Bool) : Hint → Bool
  | .cls c => p (.cls c)
  | .noneVal => p .noneVal
  | .unionNew hs => p (.unionNew hs) && everyL p hs
  | .unionOld hs => p (.unionOld hs) && everyL p hs
  | .literal ls => p (.literal ls)
  | .annotated h => p (.annotated h) && every p h
  | .listOf a => p (.listOf a) && every p a
  | .setOf a => p (.setOf a) && every p a
  | .dictOf k v => p (.dictOf k v) && every p k && every p v
  | .tupleFix as => p (.tupleFix as) && everyL p as
  | .tupleVar a => p (.tupleVar a) && every p a
  | .typeOf a => p (.typeOf a) && every p a
  | .callableOf ps r => p (.callableOf ps r) && every p r
  | .any => p .any
  | .bare g => p (.bare g)
  | .seqOf a => p (.seqOf a) && every p a
  | .mapOf k v => p (.mapOf k v) && every p k && every p v
def everyL (p : Hint → Bool) : List Hint → Bool
  | [] => true
  | h :: hs => every p h && everyL p hs
end

def notOldUnion : Hint → Bool
  | .unionOld _ => false
  | _ => true

def notEmptyTuple : Hint → Bool
  | .tupleFix [] => false
  | _ => true

/-- no two-parameter generic that the pinned code compares with the subset rule -/
def notMapOf : Hint → Bool
  | .mapOf _ _ => false
  | _ => true

/-- all literal values of the hint lie in `S` -/
def litsIn (S : Lit → Bool) : Hint → Bool
  | .literal ls => ls.all S
  | _ => true

/-- no `Literal[...]` lists two values that are `==` but of different type (`1`/`True`) -/
def litClean : Hint → Bool
  | .literal ls => ls.all fun a => ls.all fun b => !(a.pyEq b) || a == b
  | _ => true


/-- hypotheses of the soundness theorems on the *receiving* hint `o` -/
def okOther (cfg : Cfg) (S : Lit → Bool) (h : Hint) : Bool :=
  litsIn S h && litClean h && (cfg.argsFix || (notEmptyTuple h && notMapOf h))

/-- the value's type is one on which `isinstance` and typeguard never disagree -/
def plainValue (v : V) : Bool :=
  v.type != .int && v.type != .bool && v.type != .frozenset

mutual
/-- at every position `isinstance` can reach (top level, through unions) it answers like typeguard for this
value: no `float` / `set` class (or bare `typing.Set`) unless the value is plain, no `typing.Any` inside a
`typing.Union` -/
def agreesAt (old : Bool) (v : V) : Hint → Bool
  | .cls c => plainValue v || (c != .float && c != .set)
  | .bare g => plainValue v || g != .set
  | .any => !old
  | .unionNew hs => agreesAtL false v hs
  | .unionOld hs => agreesAtL true v hs
  | _ => true
def agreesAtL (old : Bool) (v : V) : List Hint → Bool
  | [] => true
  | h :: hs => agreesAt old v h && agreesAtL old v hs
end

end PwVerif.Hint
