/-! Shared helpers for the executable models (core Lean only). -/
namespace PwVerif

/-- pointwise update of a total function -/
def updF {α} (f : Nat → α) (a : Nat) (v : α) : Nat → α := fun x => if x = a then v else f x

@[simp] theorem updF_same {α} (f : Nat → α) (a : Nat) (v : α) : updF f a v a = v := by simp [updF]
@[simp] theorem updF_other {α} (f : Nat → α) (a : Nat) (v : α) (x : Nat) (h : x ≠ a) :
    updF f a v x = f x := by simp [updF, h]

end PwVerif
