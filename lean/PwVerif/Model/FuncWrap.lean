/-!
# FuncWrap — how node classes wrap their defining object (model slice of C17)

Transcribes, for *data* values only (a `HasChannel` value would mean "connect", that is C12/C03):

* `HasIO.set_input_values`                      (pyiron_workflow/io.py)
* `StaticNode._setup_node` + `Node._after_node_setup` + `Node.run`'s gate (readiness)
* `Function._on_run / process_run_result / _outputs_to_run_return`   (nodes/function.py)
* `InputsToList / InputsToDict / InputsToDataframe / ListToOutputs / DataclassNode`
  and `FromManyInputs/ToManyOutputs.process_run_result`              (nodes/transform.py)
* `Node._outputs_to_run_return` on a cache hit                        (node.py)

Next to it stands `pyBindPartial / pyCall`: what *Python's own call* binds for a function whose
parameters are all positional-or-keyword.  It is written in a different style (one pass that consumes
the parameter list) on purpose; `Proofs/FuncWrap.lean` shows the two agree.

Values are free terms.  Core Lean only.
-/
namespace PwVerif.FuncWrap

/-- values: `nd` = `NOT_DATA`; `atom` = a python object that is fully described by what it prints (an int,
a str, `None`: nobody compares these by identity); `obj id kind` = a python object WITH AN IDENTITY: `id`
is what `is` compares, `kind` is all that `==`, `repr` and a copy can see of it (a sentinel `object()`, a
marker instance, a mutable default list, a class or function object, an object whose `__eq__` lies, one
that refuses to be copied …) — two `obj` with the same `kind` and different `id` are "an equal copy", not
"the same object"; `node tag keys vs` = any compound (`tuple`, `list`, `dict` with keys, a dataclass
instance `dc`, a table `df`, or the free application `app<i>` of an uninterpreted function symbol to its
bound arguments) -/
inductive Val where
  | nd
  | atom (s : String)
  | obj (id : Nat) (kind : String)
  | node (tag : String) (keys : List String) (vs : List Val)
  deriving Repr, Inhabited

/-- python's `a is b` on objects with identity -/
def Val.sameObj : Val → Val → Bool
  | .obj i _, .obj j _ => i == j
  | _, _ => false

/-- all that `==` / `repr` can tell: the kind, not the identity -/
def Val.looksLike : Val → Val → Bool
  | .obj _ k, .obj _ k' => k == k'
  | .atom s, .atom t => s == t
  | .nd, .nd => true
  | _, _ => false

/-- `copy.deepcopy(v)` of an object with identity: the same kind under the fresh identity `fresh` (values
without identity are their own copies) -/
def Val.copyAs (fresh : Nat) : Val → Val
  | .obj _ k => .obj fresh k
  | v => v

def Val.isData : Val → Bool
  | .nd => false
  | _ => true

def Val.tuple (vs : List Val) : Val := .node "tuple" [] vs
def Val.list (vs : List Val) : Val := .node "list" [] vs
def Val.dict (kvs : List (String × Val)) : Val := .node "dict" (kvs.map (·.1)) (kvs.map (·.2))

/-- an ordered panel of data channels: label and current value -/
abbrev Panel := List (String × Val)

def labels (p : Panel) : List String := p.map (·.1)
def values (p : Panel) : List Val := p.map (·.2)

/-! ## `set_input_values` -/

inductive SetErr where
  | tooMany | clash | unknown
  deriving Repr, DecidableEq

/-- `self.inputs[k] = v` for a data value -/
def assign (st : Panel) (k : String) (v : Val) : Panel :=
  st.map fun p => if p.1 = k then (p.1, v) else p

/-- `for k, v in kwargs.items(): self.inputs[k] = v` -/
def assignAll (st : Panel) (kvs : List (String × Val)) : Panel :=
  kvs.foldl (fun s kv => assign s kv.1 kv.2) st

def hasKey (kvs : List (String × Val)) (k : String) : Bool := kvs.any fun q => q.1 == k

/--
```python
if len(args) > len(self.inputs.labels): raise ValueError
keyed_args = dict(zip(self.inputs.labels, args, strict=False))
if len(set(keyed_args.keys()).intersection(kwargs.keys())) > 0: raise ValueError
kwargs.update(keyed_args)           # no common key at this point: the new keys are appended in order
self._ensure_all_input_keys_present(kwargs.keys(), self.inputs.labels)   # ValueError
for k, v in kwargs.items(): self.inputs[k] = v
```
All checks precede every assignment, so a refused call leaves the panel untouched. -/
def setInputValues (st : Panel) (args : List Val) (kw : List (String × Val)) : Except SetErr Panel :=
  if args.length > st.length then .error .tooMany
  else
    let keyed := (labels st).zip args
    if keyed.any (fun p => hasKey kw p.1) then .error .clash
    else
      let all := kw ++ keyed
      if all.any (fun p => !(labels st).contains p.1) then .error .unknown
      else .ok (assignAll st all)

/-! ## Python's own argument binding (the reference) -/

inductive PyErr where
  | tooManyPositional | multipleValues | unexpectedKeyword | missing
  deriving Repr, DecidableEq

def eraseKey (kw : List (String × Val)) (k : String) : List (String × Val) := kw.filter fun q => q.1 != k

/-- `inspect.Signature.bind_partial(*args, **kw)` for positional-or-keyword parameters `names`:
walk the parameters; a positional value is consumed first, a keyword for an already filled parameter
is "multiple values", keywords left over at the end are "unexpected". -/
def pyBindPartial : List String → List Val → List (String × Val) → Except PyErr (List (String × Option Val))
  | [], [], kw => if kw.isEmpty then .ok [] else .error .unexpectedKeyword
  | [], _ :: _, _ => .error .tooManyPositional
  | n :: ns, a :: as, kw =>
    if hasKey kw n then .error .multipleValues
    else (pyBindPartial ns as kw).map fun r => (n, some a) :: r
  | n :: ns, [], kw =>
    (pyBindPartial ns [] (eraseKey kw n)).map fun r => (n, kw.lookup n) :: r

/-- a parameter: name and default (`none` = required) -/
structure Param where
  name : String
  dflt : Option Val
  deriving Repr

abbrev Sig := List Param

/-- later bindings override earlier ones, defaults fill the rest; `none` = still missing -/
def mergeBind (sig : Sig) (b1 b2 : List (String × Option Val)) : List (Option Val) :=
  match sig, b1, b2 with
  | p :: ps, x :: xs, y :: ys => (y.2 <|> x.2 <|> p.dflt) :: mergeBind ps xs ys
  | _, _, _ => []

def allSome : List (Option Val) → Option (List Val)
  | [] => some []
  | none :: _ => none
  | some v :: r => (allSome r).map (v :: ·)

/-- the arguments Python hands to the body for `f(**{**bound(a1,k1), **bound(a2,k2)})` (values in
parameter order), or its refusal -/
def pyArgs (sig : Sig) (a1 : List Val) (k1 : List (String × Val)) (a2 : List Val)
    (k2 : List (String × Val)) : Except PyErr (List Val) :=
  match pyBindPartial (sig.map (·.name)) a1 k1 with
  | .error e => .error e
  | .ok b1 =>
    match pyBindPartial (sig.map (·.name)) a2 k2 with
    | .error e => .error e
    | .ok b2 =>
      match allSome (mergeBind sig b1 b2) with
      | none => .error .missing
      | some vs => .ok vs

/-- Python evaluating that call; `F` = the function body as a map from the parameter values (in
parameter order) to the returned object -/
def pyCall2 (sig : Sig) (F : List Val → Val) (a1 : List Val) (k1 : List (String × Val))
    (a2 : List Val) (k2 : List (String × Val)) : Except PyErr Val :=
  (pyArgs sig a1 k1 a2 k2).map F

/-- plain `f(*args, **kw)` -/
def pyCall (sig : Sig) (F : List Val → Val) (args : List Val) (kw : List (String × Val)) : Except PyErr Val :=
  pyCall2 sig F [] [] args kw

/-! ## The node -/

inductive Outcome where
  | ret (v : Val)            -- what `node(*a, **k)` returned
  | valueError               -- refused by `set_input_values`
  | readiness                -- `ReadinessError`: some input is `NOT_DATA`
  | notIterable              -- `TypeError` of `zip(outputs, result)` for a non-iterable result
  | runError                 -- the transformer body raised (KeyError / AttributeError / ValueError / TypeError)
  | typeError                -- python refused the call `f(**inputs)` itself (a positional-only parameter by keyword …)
  deriving Repr

structure Node where
  ins : Panel
  outs : Panel
  deriving Repr

/-- `StaticNode._setup_node`: one input per previewed entry holding its default (`NOT_DATA` if none),
one output per label holding `NOT_DATA` -/
def mkNode (sig : Sig) (outLabels : List String) : Node :=
  { ins := sig.map fun p => (p.name, p.dflt.getD .nd), outs := outLabels.map fun l => (l, .nd) }

/-- `Node.__init__(*args, **kwargs)` ⇒ `set_input_values`; an error aborts the construction -/
def construct (n0 : Node) (args : List Val) (kw : List (String × Val)) : Except SetErr Node :=
  (setInputValues n0.ins args kw).map fun i => { n0 with ins := i }

def ready (p : Panel) : Bool := p.all fun c => c.2.isData

/-- iterating a python object: tuples and lists yield their items, atoms are not iterable -/
def unpack : Val → Option (List Val)
  | .node "tuple" _ vs => some vs
  | .node "list" _ vs => some vs
  | _ => none

/-- `for out, value in zip(self.outputs, values, strict=False): out.value = value` -/
def zipOut : Panel → List Val → Panel
  | (l, _) :: os, v :: vs => (l, v) :: zipOut os vs
  | os, _ => os

/-- `Function._outputs_to_run_return` -/
def runReturn (outs : Panel) : Val :=
  match values outs with
  | [v] => v
  | vs => .tuple vs

/-- `Function.process_run_result` followed by `_outputs_to_run_return` -/
def processRunResult (outs : Panel) (res : Val) : Option Panel :=
  if outs.length = 1 then some (zipOut outs [res])
  else (unpack res).map (zipOut outs)

/-- the part of `node(*args, **kw)` common to every static node: `set_input_values`, then the readiness
gate of `Node.run`; on success the input values (= the keyword arguments handed to the body, in
parameter order) -/
def gate (n : Node) (args : List Val) (kw : List (String × Val)) : Node × Except Outcome (List Val) :=
  match setInputValues n.ins args kw with
  | .error _ => (n, .error .valueError)
  | .ok ins =>
    let n1 := { n with ins := ins }
    if ready ins then (n1, .ok (values ins)) else (n1, .error .readiness)

/-- `Function.process_run_result` + `_outputs_to_run_return` on the object the function returned -/
def finish (n : Node) (res : Val) : Node × Outcome :=
  match processRunResult n.outs res with
  | none => (n, .notIterable)
  | some outs => ({ n with outs := outs }, .ret (runReturn outs))

/-- `node(*args, **kw)` for a function node: the gate, the function applied to the input values by
keyword (= in parameter order), result zipped onto the outputs. -/
def call (F : List Val → Val) (n : Node) (args : List Val) (kw : List (String × Val)) : Node × Outcome :=
  match gate n args kw with
  | (n1, .error o) => (n1, o)
  | (n1, .ok vs) => finish n1 (F vs)

/-! ## Transformers -/

def itemLabels (pre : String) (n : Nat) : List String := (List.range n).map fun i => pre ++ toString i

def noDefault (ls : List String) : Sig := ls.map fun l => { name := l, dflt := none }

/-- `inputs_to_list(n)` -/
def inputsToListNode (n : Nat) : Node := mkNode (noDefault (itemLabels "item_" n)) ["list"]
/-- `inputs_to_dict(spec)`: keys with optional defaults -/
def inputsToDictNode (spec : Sig) : Node := mkNode spec ["dict"]
/-- `inputs_to_dataframe(n)` -/
def inputsToDataframeNode (n : Nat) : Node := mkNode (noDefault (itemLabels "row_" n)) ["df"]
/-- `list_to_outputs(n)` -/
def listToOutputsNode (n : Nat) : Node := mkNode (noDefault ["list"]) (itemLabels "item_" n)

/-- `df_dict[key].append(value)`; `none` = `KeyError` -/
def appendRow : List (String × List Val) → List (String × Val) → Option (List (String × List Val))
  | acc, [] => some acc
  | acc, (k, v) :: r =>
    if acc.any (fun c => c.1 == k) then
      appendRow (acc.map fun c => if c.1 = k then (c.1, c.2 ++ [v]) else c) r
    else none

def appendRows : List (String × List Val) → List (List (String × Val)) → Option (List (String × List Val))
  | acc, [] => some acc
  | acc, row :: rows => (appendRow acc row).bind fun a => appendRows a rows

def asDict : Val → Option (List (String × Val))
  | .node "dict" ks vs => some (ks.zip vs)
  | _ => none

def allDicts : List Val → Option (List (List (String × Val)))
  | [] => some []
  | v :: r => (asDict v).bind fun d => (allDicts r).map (d :: ·)

def Val.df (cols : List (String × List Val)) : Val := .node "df" (cols.map (·.1)) (cols.map fun c => Val.list c.2)

/-- pandas' own check: all columns have one length (NOT: as many entries as there are rows) -/
def sameLen : List (String × List Val) → Bool
  | [] => true
  | c :: cs => cs.all fun d => d.2.length == c.2.length

/-- `InputsToDataframe._on_run`: first row creates the columns, later rows append by key; pandas
refuses columns of unequal length -/
def dfBuild (rows : List Val) : Option Val :=
  match allDicts rows with
  | none => none
  | some [] => some (Val.df [])
  | some (r0 :: rest) =>
    match appendRows (r0.map fun kv => (kv.1, [kv.2])) rest with
    | none => none
    | some cols => if sameLen cols then some (Val.df cols) else none

inductive XfKind where
  | toList | toDict | toDf
  deriving Repr, DecidableEq

/-- `_on_run` of the many-inputs transformers -/
def xfBody (k : XfKind) (ins : Panel) : Option Val :=
  match k with
  | .toList => some (Val.list (values ins))
  | .toDict => some (Val.dict ins)
  | .toDf => dfBuild (values ins)

/-- `node(*args, **kw)` for `FromManyInputs` nodes: `process_run_result` stores the object on the single
output and returns it as it is -/
def xfCall (k : XfKind) (n : Node) (args : List Val) (kw : List (String × Val)) : Node × Outcome :=
  match gate n args kw with
  | (n1, .error o) => (n1, o)
  | (n1, .ok _) =>
    match xfBody k n1.ins with
    | none => (n1, .runError)
    | some v => ({ n1 with outs := n1.outs.map fun o => (o.1, v) }, .ret v)

/-- `ToManyOutputs.process_run_result`: `for k, v in run_output.items(): self.outputs[k].value = v`;
an item beyond the last output raises *after* the earlier ones were stored -/
def storeItems : Panel → Nat → List Val → Panel × Bool
  | outs, _, [] => (outs, true)
  | outs, i, v :: vs =>
    let l := "item_" ++ toString i
    if (labels outs).contains l then storeItems (assign outs l v) (i + 1) vs else (outs, false)

/-- `node(*args, **kw)` for `list_to_outputs(n)`; returns the dictionary `{item_i: v_i}` -/
def unpackCall (n : Node) (args : List Val) (kw : List (String × Val)) : Node × Outcome :=
  match gate n args kw with
  | (n1, .error o) => (n1, o)
  | (n1, .ok vals) =>
    match vals.head? >>= unpack with
    | none => (n1, .runError)
    | some vs =>
      let r := storeItems n1.outs 0 vs
      let n2 := { n1 with outs := r.1 }
      if r.2 then (n2, .ret (Val.dict ((itemLabels "item_" vs.length).zip vs))) else (n2, .runError)

/-- the two behaviours of the tree that differ between pinned and repaired code -/
structure Cfg where
  /-- `dataclass_node_factory` passes the class through `dataclasses.dataclass` again even when it
  already is one (pinned: `true`) -/
  recast : Bool
  /-- a cache hit of a transformer returns the outputs *panel* (`DotDict`) instead of the object the
  first run returned (pinned: `true`) -/
  cachedPanel : Bool
  /-- `inputs_to_dict_factory` names the class after `hash(specification)` and `classfactory` keeps one class
  per NAME: a second specification with the same hash gets the class of the first (pinned: `true`) -/
  dictByHash : Bool := true
  /-- `dataclass_node_factory` names the class after `dataclass.__name__`: a second dataclass of the same
  name gets the node class of the first (pinned: `true`) -/
  dcByName : Bool := true
  deriving Repr, DecidableEq

def Cfg.pinned : Cfg := { recast := true, cachedPanel := true, dictByHash := true, dcByName := true }
def Cfg.repaired : Cfg := { recast := false, cachedPanel := false, dictByHash := false, dcByName := false }

/-! ## `classfactory`: the registry of the classes made so far

`pyiron_snippets.factory.classfactory` calls the factory function for `(name, bases, dict)` and then hands
back `class_registry[name]` if that name was made before.  `ident` stands for the defining object (the
dataclass; the input specification); `name` is what the factory derives from it (`dataclass.__name__`;
`"InputsToDict" + str(hash(specification))`) — two different defining objects can have the same name. -/

structure RegEntry (α : Type) where
  name : String
  ident : Nat
  cls : α

/-- the class handed out for the defining object `ident` named `name`, `fresh` being the class the factory
would build for it; `byName` = look the registry up by name alone (pinned), else by name and defining object -/
def classFor {α : Type} (byName : Bool) (reg : List (RegEntry α)) (name : String) (ident : Nat) (fresh : α) :
    α × List (RegEntry α) :=
  match reg.find? (fun e => e.name == name && (byName || e.ident == ident)) with
  | some e => (e.cls, reg)
  | none => (fresh, ⟨name, ident, fresh⟩ :: reg)

/-- a whole session: classes requested one after the other (`mk` = what the factory builds for a defining
object); the classes handed out, in order -/
def classesFor {α : Type} (byName : Bool) (mk : Nat → α) : List (RegEntry α) → List (String × Nat) → List α
  | _, [] => []
  | reg, (name, ident) :: rest =>
    let r := classFor byName reg name ident (mk ident)
    r.1 :: classesFor byName mk r.2 rest

/-- `Node._before_run` on a cache hit (same inputs, last run succeeded): `_outputs_to_run_return()`.
`Function` overrides it consistently with the first run; the transformers inherit `Node`'s, which returns
`DotDict(outputs.to_value_dict())`. -/
def xfAgain (cfg : Cfg) (n : Node) : Val :=
  if cfg.cachedPanel then Val.dict n.outs
  else match values n.outs with
    | [v] => v
    | _ => Val.dict n.outs

def fnAgain (n : Node) : Val := runReturn n.outs

/-- `list_to_outputs`: first run returns the dictionary of the stored items, a cache hit the whole outputs panel (`DotDict`, a dictionary too) -/
def unpackAgain (n : Node) : Val := Val.dict n.outs

/-- the registry consulted by name and by a test `same` on the defining objects (the repaired
`inputs_to_dict_factory` compares the specifications: keys, hints, and the defaults with its own notion of
"the same default") -/
def classForBy {α : Type} (same : Nat → Nat → Bool) (reg : List (RegEntry α)) (name : String) (ident : Nat)
    (fresh : α) : α × List (RegEntry α) :=
  match reg.find? (fun e => e.name == name && same e.ident ident) with
  | some e => (e.cls, reg)
  | none => (fresh, ⟨name, ident, fresh⟩ :: reg)

def classesForBy {α : Type} (same : Nat → Nat → Bool) (mk : Nat → α) :
    List (RegEntry α) → List (String × Nat) → List α
  | _, [] => []
  | reg, (name, ident) :: rest =>
    let r := classForBy same reg name ident (mk ident)
    r.1 :: classesForBy same mk r.2 rest

/-! ## Dataclass nodes -/

inductive Dflt where
  | none
  | value (v : Val)
  | factory (v : Val)      -- `field(default_factory=g)` with `g()` = `v`
  deriving Repr

structure Field where
  name : String
  dflt : Dflt
  deriving Repr

def Dflt.hasDefault : Dflt → Bool
  | .none => false
  | _ => true

/-- `dataclasses.dataclass` applied to a class that already went through it: the class attribute of a
`default_factory` field was deleted by the first pass, so the second pass sees that field without any
default (and rebuilds `__dataclass_fields__` accordingly, while the old `__init__` stays). -/
def recastField (f : Field) : Field :=
  match f.dflt with
  | .factory _ => { f with dflt := .none }
  | _ => f

/-- "non-default argument follows default argument" -/
def orderOk : List Field → Bool
  | [] => true
  | f :: r => (if f.dflt.hasDefault then r.all (fun g => g.dflt.hasDefault) else true) && orderOk r

/-- the fields the node class reads from `dataclass.__dataclass_fields__`; `none` = the factory raised
`TypeError` while defining the class -/
def nodeFields (cfg : Cfg) (already : Bool) (fs : List Field) : Option (List Field) :=
  if cfg.recast && already then
    let fs' := fs.map recastField
    if orderOk fs' then some fs' else none
  else some fs

/-- `_build_inputs_preview` (default or `NOT_DATA`) then `DataclassNode._setup_node` (call the default
factory of every input still holding `NOT_DATA`) -/
def dcNode (fs : List Field) : Node :=
  { ins := fs.map fun f => (f.name, match f.dflt with | .none => .nd | .value v => v | .factory v => v),
    outs := [("dataclass", .nd)] }

/-- the class-level preview of a dataclass node: a `default_factory` shows up only on instances -/
def dcPreview (fs : List Field) : Panel :=
  fs.map fun f => (f.name, match f.dflt with | .value v => v | _ => .nd)

def Val.dc (ins : Panel) : Val := .node "dc" (labels ins) (values ins)

/-- `node(*args, **kw)` for a dataclass node: `self.dataclass(**inputs)` -/
def dcCall (n : Node) (args : List Val) (kw : List (String × Val)) : Node × Outcome :=
  match gate n args kw with
  | (n1, .error o) => (n1, o)
  | (n1, .ok _) => ({ n1 with outs := n1.outs.map fun o => (o.1, Val.dc n1.ins) }, .ret (Val.dc n1.ins))

/-- Python building the dataclass itself: `D(*args, **kw)` binds like any call, a field left out takes
its default or a fresh `default_factory()` value -/
def dcSig (fs : List Field) : Sig :=
  fs.map fun f => { name := f.name, dflt := match f.dflt with | .none => none | .value v => some v | .factory v => some v }

def pyDataclass (fs : List Field) (a1 : List Val) (k1 : List (String × Val)) (a2 : List Val)
    (k2 : List (String × Val)) : Except PyErr Val :=
  pyCall2 (dcSig fs) (fun vs => Val.dc ((fs.map (·.name)).zip vs)) a1 k1 a2 k2

/-! ## The definition layer: signature and return statement ↦ class-level preview ↦ instance IO

Transcribes `ScrapesIO._build_inputs_preview / _build_outputs_preview / _validate*`
(mixin/preview.py), `ParseOutput.get_parsed_output` (output_parser.py), `Function._build_outputs_preview`
(nodes/function.py) and `StaticNode._setup_node` (nodes/static_io.py).

What python's `inspect` / `ast` do with the *text* of the definition is an input of this layer: the
model is handed the parameter list (name, annotation, default), the list of `return` statements that
`ast.walk` finds, each either bare or carrying an expression that is an `ast.Tuple` of element texts or
one other expression text, and the evaluated return annotation with its `typing.get_args`. -/

/-- a type hint, printed; `none` = no hint -/
abbrev Hint := Option String

/-- an annotation as `inspect.signature(..., eval_str=True)` reports it -/
inductive Ann where
  | empty                 -- `inspect.Parameter.empty`
  | none_                 -- the object `None`
  | obj (h : String)      -- any other object, printed
  deriving Repr, DecidableEq

/-- `None` is replaced by `type(None)`, no annotation means no hint -/
def Ann.hint : Ann → Hint
  | .empty => none
  | .none_ => some "builtins.NoneType"
  | .obj h => some h

structure FParam where
  name : String
  ann : Ann
  dflt : Option Val
  deriving Repr

/-- `inspect.signature(cls.__init__).parameters.keys()` of a node class -/
def initKeywords : List String :=
  ["self", "args", "label", "parent", "delete_existing_savefiles", "autoload", "autorun", "checkpoint", "kwargs"]

inductive DefErr where
  | reservedName      -- ValueError: argument name conflicts with `__init__`
  | multipleReturns   -- ValueError of `ParseOutput.node_return`
  | degenerate        -- ValueError of `_validate_degeneracy`
  | countMismatch     -- ValueError of `_validate_return_count`
  | presence          -- TypeError of `_validate_return_count` (labels without returned values)
  | hintCount         -- ValueError: number of tuple hints ≠ number of labels
  | variadic          -- (repaired tree only) a `*args` / `**kwargs` parameter under whatever name
  deriving Repr, DecidableEq

/-- one entry of `preview_inputs()`: label ↦ (hint, default) -/
structure InPrev where
  label : String
  hint : Hint
  dflt : Val
  deriving Repr

/-- `ScrapesIO._build_inputs_preview` (function nodes: `_io_defining_function_uses_self = False`) -/
def previewInputs : List FParam → Except DefErr (List InPrev)
  | [] => .ok []
  | p :: ps =>
    if initKeywords.contains p.name then .error .reservedName
    else (previewInputs ps).map fun r => { label := p.name, hint := p.ann.hint, dflt := p.dflt.getD .nd } :: r

/-- the expression of a `return` statement as `ParseOutput` distinguishes it -/
inductive RetExpr where
  | tuple (elts : List String)   -- `ast.Tuple`: the source texts of its elements
  | single (src : String)        -- any other expression: its source text
  deriving Repr

inductive RetStmt where
  | bare                          -- `return`
  | value (e : RetExpr)           -- `return <e>`
  deriving Repr

/-- `ParseOutput(fn).output`: more than one `return` anywhere in the source is refused; no return, a bare
return and `return None` give `None`; a tuple gives its element texts; anything else its own text -/
def parseOutput : List RetStmt → Except DefErr (Option (List String))
  | [] => .ok none
  | [.bare] => .ok none
  | [.value (.tuple es)] => .ok (some es)
  | [.value (.single s)] => .ok (if s = "None" then none else some [s])
  | _ :: _ :: _ => .error .multipleReturns

/-- the return annotation as `inspect.signature` reports it, with `typing.get_args` of the object -/
inductive RetAnn where
  | empty
  | none_
  | obj (h : String) (args : List String)
  deriving Repr

structure FnDef where
  params : List FParam
  rets : List RetStmt
  declared : Option (List String)   -- `*output_labels` (`None` when there are none)
  validate : Bool
  retAnn : RetAnn
  deriving Repr

/-- `_get_output_labels`: the declared labels, else the scraped ones -/
def getOutputLabels (d : FnDef) : Except DefErr (Option (List String)) :=
  match d.declared with
  | some ls => .ok (some ls)
  | none => parseOutput d.rets

def hasDup : List String → Bool
  | [] => false
  | x :: r => r.contains x || hasDup r

/-- `_validate()` = `_validate_degeneracy(); _validate_return_count()` (the source is available, so the
`OSError` escape is never taken) -/
def validateLabels (d : FnDef) : Except DefErr Unit :=
  match getOutputLabels d with
  | .error e => .error e
  | .ok labels =>
    if (match labels with | some ls => hasDup ls | none => false) then .error .degenerate
    else
      match parseOutput d.rets with
      | .error e => .error e
      | .ok scraped =>
        match labels, scraped with
        | none, none => .ok ()
        | some ls, some rs => if ls.length = rs.length then .ok () else .error .countMismatch
        | _, _ => .error .presence

/-- the hints zipped onto the labels by `_build_outputs_preview` -/
def outHints (ra : RetAnn) (nlabels : Nat) : Except DefErr (List Hint) :=
  match ra with
  | .empty => .ok (List.replicate nlabels none)
  | .none_ =>
    if nlabels > 1 then .error .hintCount      -- `get_args(NoneType) = ()`
    else .ok [some "builtins.NoneType"]
  | .obj h args =>
    if nlabels > 1 then (if args.length = nlabels then .ok (args.map some) else .error .hintCount)
    else .ok [some h]

/-- `zip(labels, hints, strict=False)` -/
def zipLH : List String → List Hint → List (String × Hint)
  | l :: ls, h :: hs => (l, h) :: zipLH ls hs
  | _, _ => []

/-- `dict(pairs)`: a repeated key keeps its first position and takes the later value -/
def dictInsert (acc : List (String × Hint)) (kv : String × Hint) : List (String × Hint) :=
  if acc.any (fun p => p.1 == kv.1) then acc.map (fun p => if p.1 = kv.1 then (p.1, kv.2) else p)
  else acc ++ [kv]

def asDict' (l : List (String × Hint)) : List (String × Hint) := l.foldl dictInsert []

/-- `Function._build_outputs_preview`: validation (if switched on), labels, hints, `dict(zip(…))`; a
function without a returned value gets the single output `None` hinted `NoneType` -/
def previewOutputs (d : FnDef) : Except DefErr (List (String × Hint)) :=
  match (if d.validate then validateLabels d else .ok ()) with
  | .error e => .error e
  | .ok () =>
    match getOutputLabels d with
    | .error e => .error e
    | .ok labels =>
      let ls := labels.getD []
      match outHints d.retAnn ls.length with
      | .error e => .error e
      | .ok hs =>
        let pre := asDict' (zipLH ls hs)
        .ok (if pre.isEmpty then [("None", some "builtins.NoneType")] else pre)

/-- `Class.preview_io()` of a function node class; the decorators call it while the class is being
defined, so an error here means there is no node class -/
def fnPreview (d : FnDef) : Except DefErr (List InPrev × List (String × Hint)) :=
  match previewInputs d.params with
  | .error e => .error e
  | .ok pin =>
    match previewOutputs d with
    | .error e => .error e
    | .ok pout => .ok (pin, pout)

/-- a data channel of an instance -/
structure Chan where
  label : String
  hint : Hint
  dflt : Val
  value : Val
  deriving Repr

/-- `StaticNode._setup_node`: one `InputData(label, default, type_hint)` per entry of `preview_inputs()`
(its value starts as the default), one output per entry of `preview_outputs()` (value `NOT_DATA`) -/
def setupIns (pin : List InPrev) : List Chan :=
  pin.map fun p => { label := p.label, hint := p.hint, dflt := p.dflt, value := p.dflt }

def setupOuts (pout : List (String × Hint)) : List Chan :=
  pout.map fun o => { label := o.1, hint := o.2, dflt := .nd, value := .nd }

/-- the value view of the channels (what the run-time part of the model works on) -/
def chanPanel (cs : List Chan) : Panel := cs.map fun c => (c.label, c.value)

def setupNode (pin : List InPrev) (pout : List (String × Hint)) : Node :=
  { ins := chanPanel (setupIns pin), outs := chanPanel (setupOuts pout) }

/-- the signature of the definition as the run-time part sees it -/
def FnDef.sig (d : FnDef) : Sig := d.params.map fun p => { name := p.name, dflt := p.dflt }

/-- how many objects the (single) return statement returns -/
def retCount : List RetStmt → Nat
  | [.value (.tuple es)] => es.length
  | [.value (.single s)] => if s = "None" then 0 else 1
  | _ => 0

/-! ### the class-level previews of the transformers -/

def xfInPreview (ls : List String) (h : Hint) : List InPrev := ls.map fun l => { label := l, hint := h, dflt := .nd }

def listPreview (n : Nat) : List InPrev × List (String × Hint) :=
  (xfInPreview (itemLabels "item_" n) none, [("list", some "builtins.list")])
def dfPreview (n : Nat) : List InPrev × List (String × Hint) :=
  (xfInPreview (itemLabels "row_" n) (some "builtins.dict"), [("df", some "pandas.core.frame.DataFrame")])
def unpackPreview (n : Nat) : List InPrev × List (String × Hint) :=
  (xfInPreview ["list"] (some "builtins.list"), (itemLabels "item_" n).map fun l => (l, none))
/-- `inputs_to_dict(spec)`: the specification *is* the input preview, key ↦ (hint, default); a plain
list of keys stands for (no hint, `NOT_DATA`) each -/
def dictPreview (spec : List InPrev) : List InPrev × List (String × Hint) :=
  (spec, [("dict", some "builtins.dict")])
/-- dataclass node: one input per field, hinted with the field's type, defaulting to the field's plain
default (a `default_factory` is applied to instances only); the output is hinted with the class -/
def dcInPreview : List Field → List Hint → List InPrev
  | f :: fs, h :: hs =>
    { label := f.name, hint := h, dflt := match f.dflt with | .value v => v | _ => .nd } :: dcInPreview fs hs
  | _, _ => []

/-! ## Two readings the code does NOT have (kept for the witnesses in `Props/C17.lean`)

The labels `item_0 … item_{n-1}` are created, kept and iterated in *channel creation order* (python `dict`
insertion order, `itemLabels` above); nothing in the pinned code sorts them.  Sorting them as strings is a
different order from `n = 11` on (`item_10 < item_2`).  And `_setup_node` hands every instance the default
*object* of the preview, not a copy of it. -/

/-- python's `<` on `str` (code point by code point, a proper prefix is smaller) -/
def lexLt : List Char → List Char → Bool
  | [], [] => false
  | [], _ :: _ => true
  | _ :: _, [] => false
  | a :: as, b :: bs => a.toNat < b.toNat || (a.toNat == b.toNat && lexLt as bs)

def insertLex (s : String) : List String → List String
  | [] => [s]
  | t :: r => if lexLt s.toList t.toList then s :: t :: r else t :: insertLex s r

/-- `sorted(labels)` -/
def sortLex (l : List String) : List String := l.foldr insertLex []

/-- `[d[k] for k in sorted(d)]`: the list a *sorting* `InputsToList._on_run` would build -/
def listBodySorted (ins : Panel) : Val :=
  Val.list ((sortLex (labels ins)).filterMap fun l => ins.lookup l)

/-- a `_setup_node` that gave each instance `deepcopy(default)`: the `i`-th input holds a copy under the
fresh identity `fresh i` -/
def setupInsCopied (fresh : Nat → Nat) : Nat → List InPrev → List Chan
  | _, [] => []
  | i, p :: ps =>
    { label := p.label, hint := p.hint, dflt := p.dflt.copyAs (fresh i), value := p.dflt.copyAs (fresh i) }
      :: setupInsCopied fresh (i + 1) ps

end PwVerif.FuncWrap
