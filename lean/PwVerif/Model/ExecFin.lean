import PwVerif.Model.Exec
/-! Finite presentation of a wired composite (what the harness observes on the real objects) and a
decidable well-formedness check whose soundness is proved in `Proofs/ExecFin.lean`. -/
namespace PwVerif.Exec

structure FinDag where
  n        : Nat
  slots    : List (List (List Nat))    -- node i ↦ its input slots ↦ ordered upstream nodes
  down     : List (List Nat)           -- node j ↦ receivers of its `ran` signal, in firing order
  starters : List Nat
  onExec   : List Bool
  fails    : List Bool
  rank     : List Nat                  -- a topological ranking (checked, not trusted)
  deriving Repr

def FinDag.toDag (f : FinDag) : Dag :=
  { slots := fun i => f.slots.getD i [], down := fun i => f.down.getD i [],
    starters := f.starters, onExec := fun i => f.onExec.getD i false,
    fails := fun i => f.fails.getD i false }

def FinDag.rankF (f : FinDag) (i : Nat) : Nat := f.rank.getD i 0

def allLt (n : Nat) (l : List Nat) : Bool := l.all (· < n)

/-- decidable counterpart of `WF` + acyclicity for a finite presentation -/
def FinDag.check (f : FinDag) : Bool :=
  let d := f.toDag
  f.slots.length ≤ f.n && f.down.length ≤ f.n &&
  (List.range f.n).all (fun i => allLt f.n (d.deps i) && allLt f.n (d.down i)) &&
  allLt f.n f.starters &&
  (List.range f.n).all (fun i => (List.range f.n).all (fun j =>
      ((d.down j).contains i == (d.deps i).contains j))) &&
  (List.range f.n).all (fun j => decide (d.down j).Nodup) &&
  (List.range f.n).all (fun i => !(d.deps i).contains i) &&
  decide f.starters.Nodup &&
  f.starters.all (fun i => (d.deps i).isEmpty) &&
  (List.range f.n).all (fun i => (d.deps i).all (fun j => !(d.deps j).isEmpty || f.starters.contains j)) &&
  (List.range f.n).all (fun i => (d.deps i).all (fun j => f.rankF j < f.rankF i))

end PwVerif.Exec
