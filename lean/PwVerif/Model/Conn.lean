import PwVerif.Model.Util
/-!
# Connection graph (transcription of `pyiron_workflow/channels.py` + `io.py`)

Channels are natural numbers. `conns a` is the ordered `connections` list of channel `a`
(index 0 = newest = fetch priority / first to fire).  Every mutating entry point of the
library is a composition of the two primitives `connect1` / `disconnect1`
(`Channel.connect` for one `other`, `Channel.disconnect` for one `other`).
-/
namespace PwVerif.Conn
open PwVerif

inductive Kind | dataIn | dataOut | sigIn | sigOut
  deriving DecidableEq, Repr, Inhabited

/-- `isinstance(other, self.connection_conjugate())`; an accumulating input signal is an
input signal, so both share `sigIn`. -/
def Kind.conj : Kind → Kind → Bool
  | .dataIn, .dataOut => true
  | .dataOut, .dataIn => true
  | .sigIn, .sigOut => true
  | .sigOut, .sigIn => true
  | _, _ => false

structure G where
  kind  : Nat → Kind
  owner : Nat → Nat
  /-- `_valid_connection`: outcome of the hint comparison for this pair (a parameter;
  its content is C04's subject) -/
  valid : Nat → Nat → Bool
  conns : Nat → List Nat

inductive Res | ok | typeErr | connErr
  deriving DecidableEq, Repr

/-- `Channel.connect(other)` for a single `other` -/
def connect1 (g : G) (a b : Nat) : G × Res :=
  if b ∈ g.conns a then (g, .ok)
  else if (g.kind a).conj (g.kind b) then
    if g.valid a b then
      ({ g with conns := updF (updF g.conns a (b :: g.conns a)) b (a :: g.conns b) }, .ok)
    else (g, .connErr)
  else (g, .typeErr)

/-- `Channel.connect(*others)`: stops at the first refusal, earlier ones stay -/
def connect (g : G) (a : Nat) : List Nat → G × Res
  | [] => (g, .ok)
  | b :: bs =>
    match connect1 g a b with
    | (g', .ok) => connect g' a bs
    | (g', r) => (g', r)

/-- `Channel.disconnect(other)` for a single `other`, including the reflexive call -/
def disconnect1 (g : G) (a b : Nat) : G :=
  if b ∈ g.conns a then
    let g1 := { g with conns := updF g.conns a ((g.conns a).erase b) }
    if a ∈ g1.conns b then { g1 with conns := updF g1.conns b ((g1.conns b).erase a) }
    else g1
  else g

def disconnect (g : G) (a : Nat) (bs : List Nat) : G := bs.foldl (fun g b => disconnect1 g a b) g

/-- `disconnect_all`: the argument tuple is a snapshot of the list -/
def disconnectAll (g : G) (a : Nat) : G := disconnect g a (g.conns a)

/-- panel / node level `disconnect()`: every listed channel in turn -/
def disconnectChans (g : G) (chans : List Nat) : G := chans.foldl disconnectAll g

/-- `Channel.copy_connections(other)`: connect to each of `other`'s connections, on a
refusal disconnect everything recorded in `new_connections` (which includes partners that
were already connected before) and re-raise. -/
def copyConnsAux (g : G) (a : Nat) : List Nat → List Nat → G × Res
  | [], _ => (g, .ok)
  | c :: cs, done =>
    match connect1 g a c with
    | (g', .ok) => copyConnsAux g' a cs (done ++ [c])
    | (g', r) => (disconnect g' a done, r)

def copyConns (g : G) (a b : Nat) : G × Res := copyConnsAux g a (g.conns b) []

/-- inner loop of `HasIO._copy_connections` over the targets of one channel of `other`;
`my = none` stands for "this object has no channel with that label" (KeyError) -/
def copyIoTargets (g : G) (my : Option Nat) (failHard : Bool) :
    List Nat → List (Nat × Nat) → G × List (Nat × Nat) × Bool
  | [], new => (g, new, false)
  | t :: ts, new =>
    match my with
    | none => if failHard then (g, new, true) else copyIoTargets g my failHard ts new
    | some m =>
      match connect1 g m t with
      | (g', .ok) => copyIoTargets g' my failHard ts (new ++ [(m, t)])
      | (g', _) => if failHard then (g', new, true) else copyIoTargets g' my failHard ts new

def copyIoPairs (g : G) (failHard : Bool) :
    List (Option Nat × Nat) → List (Nat × Nat) → G × List (Nat × Nat) × Bool
  | [], new => (g, new, false)
  | (my, o) :: ps, new =>
    match copyIoTargets g my failHard (g.conns o) new with
    | (g', new', true) => (g', new', true)
    | (g', new', false) => copyIoPairs g' failHard ps new'

def undoPairs (g : G) (new : List (Nat × Nat)) : G :=
  new.foldl (fun g (p : Nat × Nat) => disconnect1 g p.1 p.2) g

/-- `HasIO._copy_connections(other, fail_hard)` over the zipped panels; `pairs` lists, in
panel order, `other`'s channels with this object's counterpart (if any) -/
def copyIo (g : G) (failHard : Bool) (pairs : List (Option Nat × Nat)) : G × Res :=
  match copyIoPairs g failHard pairs [] with
  | (g', new, true) => (undoPairs g' new, .connErr)
  | (g', _, false) => (g', .ok)

inductive Op
  | copyIo (failHard : Bool) (pairs : List (Option Nat × Nat))
  | connect (a : Nat) (bs : List Nat)
  | disconnect (a : Nat) (bs : List Nat)
  | disconnectAll (a : Nat)
  | disconnectChans (cs : List Nat)
  | copyConns (a b : Nat)
  deriving Repr

def step (g : G) : Op → G × Res
  | .connect a bs => connect g a bs
  | .disconnect a bs => (disconnect g a bs, .ok)
  | .disconnectAll a => (disconnectAll g a, .ok)
  | .disconnectChans cs => (disconnectChans g cs, .ok)
  | .copyConns a b => copyConns g a b
  | .copyIo fh ps => copyIo g fh ps

def run (g : G) (ops : List Op) : G := ops.foldl (fun g o => (step g o).1) g

end PwVerif.Conn
