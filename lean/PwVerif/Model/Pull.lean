import PwVerif.Model.Conn
/-!
# Pull (transcription of `Node.run_data_tree`, `Node.pull`, `Node.__call__`,
`topology.get_nodes_in_data_tree`, `set_run_connections_according_to_linear_dag`,
`_set_new_run_connections_with_fallback_recovery`, `InputSignals.disconnect_run`,
`OutputSignal.__call__`, `AccumulatingInputSignal.__call__`, `Composite._on_run` as a driver)

One flat world: nodes are natural numbers, every node owns six signal channels
`ch i k = 6*i + k`:

    k = 0 run   1 accumulate_and_run        (input signals)
    k = 2 ran   3 failed   4 true   5 false (output signals; 4/5 only exist on `If` nodes)

Signal connections live in a `Conn.G` (ordered lists, head = newest = fires first), data
dependencies in `deps i` (owners of the upstream channels of `i`'s inputs, siblings of `i`).
Composite nodes (macros, workflows) are nodes too: `parent i` is the owner of `i`,
`starting p` the `starting_nodes` list of composite `p`, `automate p` the workflow flag.

Nondeterminism of the implementation that is not the property's subject is an input: `order` is
the iteration order of the `set` returned by `get_nodes_in_data_tree`, `chain` the list returned
by `toposort_flatten` (ties broken by the temporary labels, which contain `id(node)`).  The
model checks that both are what they must be (same members as the closure, no duplicates, `chain`
topologically sorted) and the theorems quantify over every such pair.
-/
namespace PwVerif.Pull
open PwVerif PwVerif.Conn

/-- behaviours that differ between the pinned code and the proposed repair -/
structure Cfg where
  /-- also cut (and later restore) `failed`/`true`/`false` of the closure nodes (pinned: no) -/
  cutAllOutputs : Bool
  /-- the parent that drives the upstream run emits its own `ran`/`failed` afterwards (pinned: yes) -/
  parentEmits : Bool
  /-- `automate_execution` of a workflow parent is put back in the `finally` (pinned: only on success) -/
  automateInFinally : Bool
  /-- the `finally` block puts back the remembered connection *lists* (pinned: it re-connects the
  remembered pairs, which prepends them and so reverses firing orders) -/
  restoreLists : Bool
  /-- a pull that needs its parent to drive an upstream run is refused when that parent has an
  executor (pinned: the parent — in its temporary shape — is handed to the executor, nobody waits,
  nothing upstream has run when the target runs) -/
  refuseDriverExec : Bool
  deriving Repr, DecidableEq

def Cfg.pinned : Cfg :=
  { cutAllOutputs := false, parentEmits := true, automateInFinally := false, restoreLists := false,
    refuseDriverExec := false }
def Cfg.repaired : Cfg :=
  { cutAllOutputs := true, parentEmits := false, automateInFinally := true, restoreLists := true,
    refuseDriverExec := true }

/-- a label is the user's label plus, during a pull, the suffix `str(id(node))`
(string concatenation is taken to be injective on these pairs) -/
structure Label where
  base : Nat
  tag : Option Nat
  deriving DecidableEq, Repr

def ch (i k : Nat) : Nat := 6 * i + k

structure World where
  n        : Nat                       -- node ids are `< n`
  g        : G                         -- signal connections
  deps     : Nat → List Nat
  parent   : Nat → Option Nat
  isWf     : Nat → Bool                -- the composite is a `Workflow` (else a macro)
  label    : Nat → Label
  starting : Nat → List Nat
  automate : Nat → Bool
  hasExec  : Nat → Bool                -- `node.executor is not None`
  fails    : Nat → Bool                -- the wrapped function raises
  truth    : Nat → Option Bool         -- `If` nodes: the branch signal fired after a successful run
  running  : Nat → Bool                -- status flag `running` (a run in flight elsewhere, or a stale flag)
  hit      : Nat → Bool                -- the node's cache answers (`use_cache` and unchanged input; C05's subject)
  -- dynamic part
  log      : List Nat                  -- executed leaf nodes, in order
  recv     : Nat → List (Label × Nat)  -- `received_signals` of accumulating inputs (scoped labels)
  failed   : Nat → Bool                -- status flag `failed`

/-! ## upstream closure -/

/-- the loop over the input connections: the first upstream whose recursion blows up ends it
(the exception propagates), otherwise the union of the results -/
def dfsAll (rec : Nat → Option (List Nat)) : List Nat → Option (List Nat)
  | [] => some []
  | j :: js =>
    match rec j with
    | none => none
    | some a => (dfsAll rec js).map (a ++ ·)

/-- `get_nodes_in_data_tree`: recursive union over the input connections; running out of `fuel`
stands for Python's `RecursionError` (⇒ `CircularDataFlowError`) -/
def dfs (deps : Nat → List Nat) : Nat → Nat → Option (List Nat)
  | 0, _ => none
  | f + 1, i => (dfsAll (dfs deps f) (deps i)).map (i :: ·)

def closureOf (w : World) (t : Nat) : Option (List Nat) := dfs w.deps (w.n + 1) t

/-- every node's data upstreams appear before it -/
def topoOk (deps : Nat → List Nat) : List Nat → List Nat → Bool
  | _, [] => true
  | seen, x :: xs => (deps x).all (· ∈ seen) && topoOk deps (x :: seen) xs

def sameMembers (a b : List Nat) : Bool := a.all (· ∈ b) && b.all (· ∈ a)

def validOrder (cl order : List Nat) : Bool := decide order.Nodup && sameMembers order cl

def validChain (w : World) (cl chain : List Nat) : Bool :=
  decide chain.Nodup && sameMembers chain cl && topoOk w.deps [] chain

/-! ## signal propagation -/

inductive Item
  | fire (c r : Nat)     -- output channel `c` calls its connection `r`
  | raise                -- the exception of a failed node continues to propagate (after its `failed` emission)
  deriving Repr, DecidableEq

/-- `dfs`: no running parent, `emit()` calls the receivers directly (depth first, an exception
unwinds everything); `bfs`: the running parent queues `(firing, receiving)` pairs and pops them
first-in-first-out, collecting exceptions -/
inductive Mode | dfs | bfs
  deriving Repr, DecidableEq

structure X where
  log    : List Nat
  recv   : Nat → List (Label × Nat)
  failed : Nat → Bool
  stack  : List Item
  errs   : Nat
  raised : Bool

structure Env where
  g     : G
  label : Nat → Label
  fails : Nat → Bool
  truth : Nat → Option Bool
  running : Nat → Bool
  hit   : Nat → Bool

def fireAll (e : Env) (c : Nat) : List Item := (e.g.conns c).map (Item.fire c)

/-- `emitting_channels` × their live connection lists -/
def emitItems (e : Env) (i : Nat) (ok : Bool) : List Item :=
  if ok then
    fireAll e (ch i 2) ++
      (match e.truth i with
       | some true => fireAll e (ch i 4)
       | some false => fireAll e (ch i 5)
       | none => [])
  else fireAll e (ch i 3)

/-- `node.run()` of a leaf node reached through a signal or as a starting node -/
def startNode (e : Env) (m : Mode) (x : X) (i : Nat) : X :=
  if x.failed i || e.running i then
    -- ReadinessError: the function is not called
    match m with
    | .dfs => { x with raised := true, stack := [] }
    | .bfs => { x with errs := x.errs + 1 }
  else if e.hit i then
    -- cache hit: the function is not called, the node emits as if it had just run
    match m with
    | .dfs => { x with stack := emitItems e i true ++ x.stack }
    | .bfs => { x with stack := x.stack ++ emitItems e i true }
  else if e.fails i then
    match m with
    | .dfs => { x with log := x.log ++ [i], failed := updF x.failed i true,
                       stack := emitItems e i false ++ [.raise] ++ x.stack }
    | .bfs => { x with log := x.log ++ [i], failed := updF x.failed i true,
                       stack := x.stack ++ emitItems e i false, errs := x.errs + 1 }
  else
    match m with
    | .dfs => { x with log := x.log ++ [i], stack := emitItems e i true ++ x.stack }
    | .bfs => { x with log := x.log ++ [i], stack := x.stack ++ emitItems e i true }

def scopedL (e : Env) (c : Nat) : Label × Nat := (e.label (c / 6), c % 6)

def step (e : Env) (m : Mode) (x : X) : X :=
  match x.stack with
  | [] => x
  | .raise :: _ => { x with raised := true, stack := [] }
  | .fire c r :: rest =>
    let x0 := { x with stack := rest }
    if r % 6 = 0 then startNode e m x0 (r / 6)
    else
      let rc := if scopedL e c ∈ x0.recv r then x0.recv r else scopedL e c :: x0.recv r
      if (e.g.conns r).all (fun c' => scopedL e c' ∈ rc) then
        startNode e m { x0 with recv := updF x0.recv r [] } (r / 6)
      else { x0 with recv := updF x0.recv r rc }

def runFuel (e : Env) (m : Mode) : Nat → X → X
  | 0, x => x
  | f + 1, x => if x.stack.isEmpty then x else runFuel e m f (step e m x)

/-! ## temporary rewiring -/

/-- `disconnect_all` returning the destroyed pairs `(self, other)` in list order -/
def cutRec (g : G) : List Nat → G × List (Nat × Nat)
  | [] => (g, [])
  | c :: cs =>
    let here := (g.conns c).map (fun b => (c, b))
    let r := cutRec (disconnectAll g c) cs
    (r.1, here ++ r.2)

def runChans (i : Nat) : List Nat := [ch i 0, ch i 1]
/-- per node: `signals.disconnect_run()` then `signals.output.ran.disconnect_all()` -/
def cutChans (order : List Nat) : List Nat := order.flatMap (fun i => [ch i 0, ch i 1, ch i 2])
def otherOutChans (order : List Nat) : List Nat := order.flatMap (fun i => [ch i 3, ch i 4, ch i 5])

/-- `a >> b` for consecutive members of the execution order: `b.run.connect(a.ran)` -/
def wire (g : G) : List Nat → G
  | a :: b :: rest => wire (connect1 g (ch b 0) (ch a 2)).1 (b :: rest)
  | _ => g

def reconnect (g : G) (pairs : List (Nat × Nat)) : G :=
  pairs.foldl (fun g p => (connect1 g p.1 p.2).1) g

def disconnectRun (g : G) (i : Nat) : G := disconnectChans g (runChans i)

/-- `node.label = node.label + str(id(node))` for every member of the closure -/
def relabel (lab : Nat → Label) (order : List Nat) : Nat → Label :=
  fun i => if i ∈ order then { base := (lab i).base, tag := some i } else lab i

/-- `node.label = label_map[modified_label]`: the remembered labels are put back -/
def unlabel (saved lab : Nat → Label) (order : List Nat) : Nat → Label :=
  fun i => if i ∈ order then saved i else lab i

inductive Outcome | ok | cyclic | execRefused | mixedScope | failed | stuck | badObs
  deriving Repr, DecidableEq

def World.env (w : World) : Env :=
  { g := w.g, label := w.label, fails := w.fails, truth := w.truth, running := w.running, hit := w.hit }
def World.x (w : World) : X :=
  { log := w.log, recv := w.recv, failed := w.failed, stack := [], errs := 0, raised := false }
def World.absorb (w : World) (x : X) : World := { w with log := x.log, recv := x.recv, failed := x.failed }

/-- the run of the upstream part: parentless ⇒ `starter.run()`; with a parent ⇒ the parent runs
with `starting_nodes = [starter]`, and (pinned) emits its own signal afterwards, one level up,
where its own parent is not running.  Returns the world and whether an exception came out. -/
def drive (cfg : Cfg) (w : World) (t starter : Nat) (fuel : Nat) : World × Outcome :=
  match w.parent t with
  | none =>
    let x := runFuel w.env .dfs fuel (startNode w.env .dfs w.x starter)
    (w.absorb x, if !x.stack.isEmpty then .stuck else if x.raised then .failed else .ok)
  | some p =>
    if w.failed p || w.running p then (w, .failed)        -- ReadinessError of the parent
    else if w.hasExec p then (w, .ok)   -- the parent's run is submitted, a future comes back, nothing has run
    else if (List.range w.n).any (fun i => decide (w.parent i = some p) && w.running i) then
      -- a child is marked running: the parent tries to resume "a broken process" by label, which
      -- raises (the labels are the temporary ones, or the child refuses): nothing runs, the parent fails
      ({ w with failed := updF w.failed p true }, .failed)
    else
      let x := runFuel w.env .bfs fuel (startNode w.env .bfs w.x starter)
      if !x.stack.isEmpty then (w.absorb x, .stuck)
      else
        let bad := decide (x.errs > 0)
        let w1 := w.absorb { x with failed := if bad then updF x.failed p true else x.failed }
        if w.isWf p || !cfg.parentEmits then (w1, if bad then .failed else .ok)
        else
          -- `_run_finally` of the macro: `emit()` (its parent is not running)
          let x1 := runFuel w1.env .dfs fuel { w1.x with stack := emitItems w1.env p (!bad) }
          (w1.absorb x1,
           if !x1.stack.isEmpty then .stuck else if bad || x1.raised then .failed else .ok)

/-- the graph surgery before anything runs: cut `run`/`accumulate_and_run`/`ran` of the closure
(remembering the pairs), chain the execution order; unless the target is alone: (repair) cut the
remaining output signals of the closure, cut the target's own run inputs.
Returns the rewired graph and the remembered pairs. -/
def prepare (cfg : Cfg) (g : G) (t : Nat) (order chain : List Nat) : G × List (Nat × Nat) :=
  let cut := cutRec g (cutChans order)
  let g2 := wire cut.1 chain
  if chain.headD t = t then (g2, cut.2)
  else
    let extra := if cfg.cutAllOutputs then cutRec g2 (otherOutChans order) else (g2, [])
    (disconnectRun extra.1 t, cut.2 ++ extra.2)

/-- the `finally` block on the graph: `disconnect_run` on every closure node, re-connect the pairs -/
def restoreG (g : G) (order : List Nat) (pairs : List (Nat × Nat)) : G :=
  reconnect (order.foldl disconnectRun g) pairs

/-- the `else` branch of the `try` block: the parent's starting nodes (and a workflow's
`automate_execution`) are overridden, the starter / the parent runs, the workflow hack is reverted
(pinned: only when no exception came out) -/
def runUpstream (cfg : Cfg) (w : World) (t starter fuel : Nat) : World × Outcome :=
  match w.parent t with
  | none => drive cfg w t starter fuel
  | some p =>
    let wb := { w with starting := updF w.starting p [starter],
                       automate := if w.isWf p then updF w.automate p false else w.automate }
    let r := drive cfg wb t starter fuel
    if w.isWf p && (cfg.automateInFinally || r.2 = .ok) then
      ({ r.1 with automate := updF r.1.automate p (w.automate p) }, r.2)
    else r

/-- every signal channel of the closure and everything connected to one (before the surgery) -/
def savedChans (g : G) (order : List Nat) : List Nat :=
  let own := order.flatMap (fun i => [ch i 0, ch i 1, ch i 2, ch i 3, ch i 4, ch i 5])
  own ++ own.flatMap g.conns

/-- (repair) the remembered connection lists are assigned back -/
def restoreLists (g0 g : G) (order : List Nat) : G :=
  let saved := savedChans g0 order
  { g with conns := fun c => if c ∈ saved then g0.conns c else g.conns c }

/-- the `finally` block: labels back, graph restored, the parent's starting nodes back -/
def finish (cfg : Cfg) (w0 w3 : World) (t : Nat) (order : List Nat) (pairs : List (Nat × Nat)) : World :=
  let w4 := { w3 with label := unlabel w0.label w3.label order,
                      g := if cfg.restoreLists then restoreLists w0.g w3.g order
                           else restoreG w3.g order pairs }
  match w0.parent t with
  | some p => { w4 with starting := updF w4.starting p (w0.starting p) }
  | none => w4

/-- (repair) something upstream would have to be run by a parent that has an executor -/
def driverExecRefused (cfg : Cfg) (w : World) (t : Nat) (cl : List Nat) : Bool :=
  cfg.refuseDriverExec && cl.any (· ≠ t) &&
    (match w.parent t with | some p => w.hasExec p | none => false)

/-- `run_data_tree` without the recursion into the parent: everything between the closure
computation and the end of the `finally` block -/
def upstream (cfg : Cfg) (w : World) (t : Nat) (order chain : List Nat) (fuel : Nat) :
    World × Outcome :=
  match closureOf w t with
  | none => (w, .cyclic)
  | some cl =>
    if cl.any w.hasExec || driverExecRefused cfg w t cl then (w, .execRefused)
    else if !validOrder cl order then (w, .badObs)
    else if !order.all (fun i => w.parent i = w.parent t) then
      -- `nodes_to_data_digraph` refuses; the wiring helper puts back the very connection lists
      -- it had cut (it remembers the lists, not the pairs), `run_data_tree` the labels
      (w, .mixedScope)
    else if !validChain w cl chain then (w, .badObs)
    else
      let starter := chain.headD t
      let prep := prepare cfg w.g t order chain
      let w2 := { w with g := prep.1, label := relabel w.label order }
      let r := if starter = t then (w2, Outcome.ok) else runUpstream cfg w2 t starter fuel
      (finish cfg w r.1 t order prep.2, r.2)

/-- `run_data_tree(run_parent_trees_too)`: the targets from the root-most ancestor down to the
node itself, each level completed (including its `finally`) before the next begins -/
def upstreamLevels (cfg : Cfg) (obs : Nat → List Nat × List Nat) (fuel : Nat) :
    World → List Nat → World × Outcome
  | w, [] => (w, .ok)
  | w, t :: ts =>
    match upstream cfg w t (obs t).1 (obs t).2 fuel with
    | (w', .ok) => upstreamLevels cfg obs fuel w' ts
    | r => r

def ancestors (w : World) : Nat → Nat → List Nat
  | 0, _ => []
  | f + 1, i => match w.parent i with
    | some p => ancestors w f p ++ [i]
    | none => [i]

/-- the node's own run at the end of `pull`: `emit_ran_signal=False`, nothing is emitted -/
def runTarget (w : World) (t : Nat) : World × Outcome :=
  if w.failed t || w.running t then (w, .failed)
  else if w.hit t then (w, .ok)
  else if w.fails t then ({ w with log := w.log ++ [t], failed := updF w.failed t true }, .failed)
  else ({ w with log := w.log ++ [t] }, .ok)

/-- `node.pull(run_parent_trees_too=parents)`; `node()` is `parents = true` -/
def pull (cfg : Cfg) (w : World) (t : Nat) (parents : Bool) (obs : Nat → List Nat × List Nat)
    (fuel : Nat) : World × Outcome :=
  let levels := if parents then ancestors w (w.n + 1) t else [t]
  match upstreamLevels cfg obs fuel w levels with
  | (w', .ok) => runTarget w' t
  | r => r

end PwVerif.Pull
