import PwVerif.Model.FuncWrap
import PwVerif.Model.Proto
open PwVerif PwVerif.FuncWrap PwVerif.Proto

/-! Line-protocol driver for the FuncWrap model (C17).

    cfg <recast 0|1> <cachedPanel 0|1>
    def fn <nout> <ret>*        ret = t<i> (free term i of all parameters) | p<j> (parameter j) |
                                 T:<ret>,<ret>,… (ONE returned object that is a tuple)
    param <name> <default|->    (appends a parameter to the current `fn` definition)
    def list <n> | def df <n> | def unpack <n> | def dict <name>=<default|->* |
    def dc <already 0|1> <name>:<n|v|f>:<val>*
    inst <npos> <val>^npos <key>=<val>*
    call <npos> <val>^npos <key>=<val>*
    again
-/

partial def showVal : Val → String
  | .nd => "ND"
  | .atom s => s
  | .node tag [] vs => tag ++ "(" ++ ",".intercalate (vs.map showVal) ++ ")"
  | .node tag ks vs => tag ++ "(" ++ ",".intercalate ((ks.zip vs).map fun kv => kv.1 ++ "=" ++ showVal kv.2) ++ ")"

def isTok (c : Char) : Bool := !(c == '(' || c == ')' || c == ',' || c == '=')

/-- value grammar: ND | atom | tag(v,…) | tag(k=v,…) -/
partial def parseVal (cs : List Char) : Option (Val × List Char) :=
  let tok := cs.takeWhile isTok
  let rest := cs.dropWhile isTok
  if tok.isEmpty then none
  else match rest with
    | '(' :: r =>
      let tag := String.ofList tok
      match r with
      | ')' :: r' => some (.node tag [] [], r')
      | _ => parseItems tag [] [] r
    | _ =>
      let s := String.ofList tok
      some (if s == "ND" then .nd else .atom s, rest)
where
  parseItems (tag : String) (ks : List String) (vs : List Val) (cs : List Char) : Option (Val × List Char) :=
    -- an item is  key=value  or  value
    let tok := cs.takeWhile isTok
    let rest := cs.dropWhile isTok
    let item : Option (Option String × Val × List Char) :=
      match rest with
      | '=' :: r => (parseVal r).map fun (v, r') => (some (String.ofList tok), v, r')
      | _ => (parseVal cs).map fun (v, r') => (none, v, r')
    match item with
    | none => none
    | some (k, v, r) =>
      let ks' := match k with | some k => ks ++ [k] | none => ks
      let vs' := vs ++ [v]
      match r with
      | ',' :: r' => parseItems tag ks' vs' r'
      | ')' :: r' => if ks'.isEmpty || ks'.length == vs'.length then some (.node tag ks' vs', r') else none
      | _ => none

def parseValS (s : String) : Option Val :=
  match parseVal s.toList with
  | some (v, []) => some v
  | _ => none

inductive Ret where
  | term (i : Nat)
  | param (j : Nat)
  | tup (rs : List Ret)

partial def parseRet (s : String) : Option Ret :=
  if s.startsWith "T:" then
    ((s.drop 2).toString.splitOn ",").mapM parseRet |>.map Ret.tup
  else if s.startsWith "t" then (s.drop 1).toString.toNat?.map Ret.term
  else if s.startsWith "p" then (s.drop 1).toString.toNat?.map Ret.param
  else none

partial def evalRet (vs : List Val) : Ret → Val
  | .term i => .node ("app" ++ toString i) [] vs
  | .param j => vs.getD j .nd
  | .tup rs => Val.tuple (rs.map (evalRet vs))

/-- the function body: no return statement / `return None` ⇒ the atom `None`; one expression ⇒ it;
several ⇒ a tuple -/
def body (rets : List Ret) (vs : List Val) : Val :=
  match rets with
  | [] => .atom "None"
  | [r] => evalRet vs r
  | rs => Val.tuple (rs.map (evalRet vs))

inductive Kind where
  | none
  | fn (sig : Sig) (nout : Nat) (rets : List Ret)
  | xf (k : XfKind)
  | unpack
  | dc

structure St where
  cfg : Cfg := Cfg.pinned
  kind : Kind := .none
  proto : Option Node := none      -- the freshly set-up node of the current definition
  node : Option Node := none
  ranOk : Bool := false

def showPanel (p : Panel) : String := "[" ++ ",".intercalate (p.map fun c => c.1 ++ "=" ++ showVal c.2) ++ "]"
def showVals (p : Panel) : String := "[" ++ ",".intercalate (p.map fun c => showVal c.2) ++ "]"

def parseArgs (ws : List String) : Option (List Val × List (String × Val)) :=
  match ws with
  | [] => none
  | n :: rest =>
    match n.toNat? with
    | none => none
    | some n =>
      if rest.length < n then none
      else
        let pos := (rest.take n).mapM parseValS
        let kws := (rest.drop n).mapM fun w =>
          match w.splitOn "=" with
          | k :: v :: more => (parseValS ("=".intercalate (v :: more))).map fun v => (k, v)
          | _ => none
        match pos, kws with
        | some p, some k => some (p, k)
        | _, _ => none

def outLabels (n : Nat) : List String := (List.range n).map fun i => "o" ++ toString i

def protoOf (s : St) : Option Node :=
  match s.kind with
  | .fn sig nout _ => some (mkNode sig (outLabels nout))
  | _ => s.proto

def showOutcome (n : Node) : Outcome → String
  | .ret v => s!"call ret={showVal v} outs={showVals n.outs} ins={showPanel n.ins}"
  | .valueError => s!"call ValueError ins={showPanel n.ins}"
  | .readiness => s!"call Readiness ins={showPanel n.ins}"
  | .notIterable => s!"call NotIterable ins={showPanel n.ins}"
  | .runError => s!"call RunError outs={showVals n.outs} ins={showPanel n.ins}"

def parseField (w : String) : Option Field :=
  match w.splitOn ":" with
  | [name, "n", _] => some ⟨name, .none⟩
  | [name, "v", v] => (parseValS v).map fun v => ⟨name, .value v⟩
  | [name, "f", v] => (parseValS v).map fun v => ⟨name, .factory v⟩
  | _ => none

def parseSpec (w : String) : Option Param :=
  match w.splitOn "=" with
  | [name, "-"] => some ⟨name, none⟩
  | name :: v :: more => (parseValS ("=".intercalate (v :: more))).map fun v => ⟨name, some v⟩
  | _ => none

def init : St := {}

def step (s : St) (ws : List String) : St × List String :=
  match ws with
  | ["cfg", a, b] =>
    match a, b with
    | "0", "0" => ({ s with cfg := ⟨false, false⟩ }, [])
    | "0", "1" => ({ s with cfg := ⟨false, true⟩ }, [])
    | "1", "0" => ({ s with cfg := ⟨true, false⟩ }, [])
    | "1", "1" => ({ s with cfg := ⟨true, true⟩ }, [])
    | _, _ => (s, ["bad-op"])
  | "def" :: "fn" :: nout :: rets =>
    match nout.toNat?, rets.mapM parseRet with
    | some nout, some rets =>
      ({ s with kind := .fn [] nout rets, proto := none, node := none, ranOk := false }, [])
    | _, _ => (s, ["bad-op"])
  | ["param", name, d] =>
    match s.kind with
    | .fn sig nout rets =>
      if d == "-" then ({ s with kind := .fn (sig ++ [⟨name, none⟩]) nout rets }, [])
      else match parseValS d with
        | some v => ({ s with kind := .fn (sig ++ [⟨name, some v⟩]) nout rets }, [])
        | none => (s, ["bad-op"])
    | _ => (s, ["bad-op"])
  | ["def", "list", n] =>
    match n.toNat? with
    | some n => ({ s with kind := .xf .toList, proto := some (inputsToListNode n), node := none, ranOk := false },
        [s!"def ok ins={showPanel (inputsToListNode n).ins}"])
    | none => (s, ["bad-op"])
  | ["def", "df", n] =>
    match n.toNat? with
    | some n => ({ s with kind := .xf .toDf, proto := some (inputsToDataframeNode n), node := none, ranOk := false },
        [s!"def ok ins={showPanel (inputsToDataframeNode n).ins}"])
    | none => (s, ["bad-op"])
  | ["def", "unpack", n] =>
    match n.toNat? with
    | some n => ({ s with kind := .unpack, proto := some (listToOutputsNode n), node := none, ranOk := false },
        [s!"def ok ins={showPanel (listToOutputsNode n).ins} nouts={n}"])
    | none => (s, ["bad-op"])
  | "def" :: "dict" :: spec =>
    match spec.mapM parseSpec with
    | some sig => ({ s with kind := .xf .toDict, proto := some (inputsToDictNode sig), node := none, ranOk := false },
        [s!"def ok ins={showPanel (inputsToDictNode sig).ins}"])
    | none => (s, ["bad-op"])
  | "def" :: "dc" :: already :: fields =>
    match (if already == "1" then some true else if already == "0" then some false else none),
          fields.mapM parseField with
    | some al, some fs =>
      match nodeFields s.cfg al fs with
      | none => ({ s with kind := .none, proto := none, node := none, ranOk := false }, ["def err"])
      | some fs' => ({ s with kind := .dc, proto := some (dcNode fs'), node := none, ranOk := false },
          [s!"def ok ins={showPanel (dcPreview fs')}"])
    | _, _ => (s, ["bad-op"])
  | ["show"] =>
    match protoOf s with
    | some n => (s, [s!"def ok ins={showPanel n.ins} nouts={n.outs.length}"])
    | none => (s, ["bad-op"])
  | "inst" :: rest =>
    match protoOf s, parseArgs rest with
    | some n0, some (a, k) =>
      match construct n0 a k with
      | .ok n => ({ s with node := some n, ranOk := false }, [s!"inst ok ins={showPanel n.ins}"])
      | .error _ => ({ s with node := none, ranOk := false }, ["inst ValueError"])
    | _, _ => (s, ["bad-op"])
  | "call" :: rest =>
    match s.node, parseArgs rest with
    | some n, some (a, k) =>
      let r : Node × Outcome :=
        match s.kind with
        | .fn _ _ rets => call (body rets) n a k
        | .xf kd => xfCall kd n a k
        | .unpack => unpackCall n a k
        | .dc => dcCall n a k
        | .none => (n, .valueError)
      let ok := match r.2 with | .ret _ => true | _ => false
      ({ s with node := some r.1, ranOk := ok }, [showOutcome r.1 r.2])
    | _, _ => (s, ["bad-op"])
  | ["again"] =>
    match s.node, s.ranOk with
    | some n, true =>
      let v := match s.kind with
        | .fn _ _ _ => fnAgain n
        | .unpack => unpackAgain n
        | _ => xfAgain s.cfg n
      (s, [s!"again ret={showVal v}"])
    | _, _ => (s, ["bad-op"])
  | _ => (s, ["bad-op"])

def main : IO Unit := Proto.run init step
