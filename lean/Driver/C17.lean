import PwVerif.Model.FuncWrap
import PwVerif.Model.PyAst
import PwVerif.Model.Kinds
import PwVerif.Model.DcMro
import PwVerif.Model.Proto
open PwVerif PwVerif.FuncWrap PwVerif.PyAst PwVerif.Kinds PwVerif.DcMro PwVerif.Proto

/-! Line-protocol driver for the FuncWrap model (C17).

    cfg <recast 0|1> <cachedPanel 0|1> <dictByHash 0|1> <dcByName 0|1> <walkNested 0|1> <byteCols 0|1>
        <variadicByName 0|1> <posOnlyByKeyword 0|1> <rawDataclassFields 0|1>
        <runNamesFree 0|1> <dictSameByEq 0|1>
    srcline <code points of one line of the dedented source, comma separated | ->     (appends a source line)
    stmt <depth> leaf | inner0 | inner1 | retbare | retother <l0> <c0> <l1> <c1> | rettuple (<l0> <c0> <l1> <c1>)*
                                 (the statement tree of the function body as python's `ast` gives it, in pre-order;
                                 inner1 = nested def / async def / class; when present, `show` reads the return
                                 statements off this tree and the source lines instead of the retstmt lines)
    regkey <class name> <defining object> [<its class under `==` of the defaults>]   (the next `def dict` / `def dc` goes through the class registry: the name
                                 the factory derives — hash of the specification, `__name__` of the dataclass — and
                                 a number standing for the defining object itself)
    def fn <validate 0|1> <declared: - | l1,l2,…> <ret>*
                                 ret = t<i> (free term i of all parameters) | p<j> (parameter j) |
                                 I<i>:<k> (free term i if parameter k `is` its default object, else term i+50) |
                                 T:<ret>,<ret>,… (ONE returned object that is a tuple): what the body computes
    values: ND | atom | @<id>.<kind> (an object with identity <id>) | tag(v,…) | tag(k=v,…)
    param <name> <default|-> <annotation: - | None | hint> [po|pk|vp|ko|vk]     (appends a parameter; kind, default pk)
    retstmt bare | retstmt single <text…> | retstmt tuple      (appends a `return` statement as ast sees it)
    retelt <text…>                                             (appends an element text to the last tuple)
    retann - | None | <hint> <get_args hint>*
    show                         (class-level preview of the `fn` definition, or its refusal)
    def list <n> | def df <n> | def unpack <n> | def dict <name>:<hint|->=<default|->* |
    def dc <already 0|1> <name>:<n|v|f>:<val>:<hint>[:cv|iv|i0]*     (cv = ClassVar, iv = InitVar, i0 = field(init=False))
    dcbase <decorated 0|1> <field>*          (appends an ancestor class, base-most first, for the next `def dc`; with
                                 ancestors or member options the field table is computed along the MRO)
    inst <npos> <val>^npos <key>=<val>*
    io                           (labels, hints, defaults and values of the instance's channels)
    call <npos> <val>^npos <key>=<val>*
    again
-/

partial def showVal : Val → String
  | .nd => "ND"
  | .atom s => s
  | .obj i k => "@" ++ toString i ++ "." ++ k
  | .node tag [] vs => tag ++ "(" ++ ",".intercalate (vs.map showVal) ++ ")"
  | .node tag ks vs => tag ++ "(" ++ ",".intercalate ((ks.zip vs).map fun kv => kv.1 ++ "=" ++ showVal kv.2) ++ ")"

def isTok (c : Char) : Bool := !(c == '(' || c == ')' || c == ',' || c == '=')

/-- `@<id>.<kind>`: an object with an identity; anything else starting with `@` is malformed -/
def parseObj (s : String) : Option Val :=
  match (s.drop 1).toString.splitOn "." with
  | [i, k] => if k.isEmpty then none else i.toNat?.map fun i => Val.obj i k
  | _ => none

/-- value grammar: ND | atom | tag(v,…) | tag(k=v,…) -/
partial def parseVal (cs : List Char) : Option (Val × List Char) :=
  let tok := cs.takeWhile isTok
  let rest := cs.dropWhile isTok
  if tok.isEmpty then none
  else match rest with
    | '(' :: r =>
      let tag := String.ofList tok
      match r with
      | ')' :: r' => some (.node tag [] [], r')
      | _ => parseItems tag [] [] r
    | _ =>
      let s := String.ofList tok
      if s.startsWith "@" then (parseObj s).map fun v => (v, rest)
      else some (if s == "ND" then .nd else .atom s, rest)
where
  parseItems (tag : String) (ks : List String) (vs : List Val) (cs : List Char) : Option (Val × List Char) :=
    -- an item is  key=value  or  value
    let tok := cs.takeWhile isTok
    let rest := cs.dropWhile isTok
    let item : Option (Option String × Val × List Char) :=
      match rest with
      | '=' :: r => (parseVal r).map fun (v, r') => (some (String.ofList tok), v, r')
      | _ => (parseVal cs).map fun (v, r') => (none, v, r')
    match item with
    | none => none
    | some (k, v, r) =>
      let ks' := match k with | some k => ks ++ [k] | none => ks
      let vs' := vs ++ [v]
      match r with
      | ',' :: r' => parseItems tag ks' vs' r'
      | ')' :: r' => if ks'.isEmpty || ks'.length == vs'.length then some (.node tag ks' vs', r') else none
      | _ => none

def parseValS (s : String) : Option Val :=
  match parseVal s.toList with
  | some (v, []) => some v
  | _ => none

inductive Ret where
  | term (i : Nat)
  | param (j : Nat)
  | isdef (i k : Nat)
  | tup (rs : List Ret)

partial def parseRet (s : String) : Option Ret :=
  if s.startsWith "T:" then
    ((s.drop 2).toString.splitOn ",").mapM parseRet |>.map Ret.tup
  else if s.startsWith "I" then
    match (s.drop 1).toString.splitOn ":" with
    | [i, k] => match i.toNat?, k.toNat? with
      | some i, some k => some (Ret.isdef i k)
      | _, _ => none
    | _ => none
  else if s.startsWith "t" then (s.drop 1).toString.toNat?.map Ret.term
  else if s.startsWith "p" then (s.drop 1).toString.toNat?.map Ret.param
  else none

partial def evalRet (dfl : List (Option Val)) (vs : List Val) : Ret → Val
  | .term i => .node ("app" ++ toString i) [] vs
  | .param j => vs.getD j .nd
  | .isdef i k =>
    -- `_T(i, …) if <parameter k> is <its default object> else _T(i + 50, …)`
    if (vs.getD k .nd).sameObj ((dfl.getD k none).getD .nd) then .node ("app" ++ toString i) [] vs
    else .node ("app" ++ toString (i + 50)) [] vs
  | .tup rs => Val.tuple (rs.map (evalRet dfl vs))

/-- the function body: no return statement / `return None` ⇒ the atom `None`; one expression ⇒ it;
several ⇒ a tuple -/
def body (dfl : List (Option Val)) (rets : List Ret) (vs : List Val) : Val :=
  match rets with
  | [] => .atom "None"
  | [r] => evalRet dfl vs r
  | rs => Val.tuple (rs.map (evalRet dfl vs))

inductive Kind where
  | none
  | fn (d : FnDef) (rets : List Ret)
  | xf (k : XfKind)
  | unpack
  | dc
  | dcm (tbl inputs : List DField)

abbrev Preview := List InPrev × List (String × Hint)

/-- what the registry keeps of a made class -/
structure Made where
  kind : Kind
  pv : Preview
  proto : Node

/-- one statement of the pre-order stream -/
inductive STok where
  | leaf
  | ret (v : Option RetVal)
  | inner (scope : Bool)

/-- the siblings at depth `d` from the front of the stream, and what is left -/
partial def buildStmts (d : Nat) : List (Nat × STok) → List PStmt × List (Nat × STok)
  | [] => ([], [])
  | (d', t) :: rest =>
    if d' != d then ([], (d', t) :: rest)
    else match t with
      | .leaf => let (sibs, r) := buildStmts d rest; (.leaf :: sibs, r)
      | .ret v => let (sibs, r) := buildStmts d rest; (.ret v :: sibs, r)
      | .inner sc =>
        let (kids, r1) := buildStmts (d + 1) rest
        let (sibs, r2) := buildStmts d r1
        (.inner sc kids :: sibs, r2)

def spansOf : List Nat → Option (List Span)
  | [] => some []
  | a :: b :: c :: d :: r => (spansOf r).map (⟨a, b, c, d⟩ :: ·)
  | _ => none

def parseDField (w : String) : Option DField :=
  match w.splitOn ":" with
  | name :: k :: v :: h :: opts =>
    let dflt : Option Dflt :=
      if k == "n" then some .none
      else if k == "v" then (parseValS v).map Dflt.value
      else if k == "f" then (parseValS v).map Dflt.factory
      else none
    let ko : Option (FKind × Bool) :=
      match opts with
      | [] => some (.field, true)
      | ["cv"] => some (.classVar, true)
      | ["iv"] => some (.initVar, true)
      | ["i0"] => some (.field, false)
      | _ => none
    match dflt, ko with
    | some d, some (kd, ini) => some { name := name, dflt := d, kind := kd, init := ini, hint := (if h == "-" then none else some h) }
    | _, _ => none
  | _ => none

structure St where
  chain : List DClass := []
  rawDc : Bool := true
  sameByEq : Bool := true
  src : List (List Char) := []
  stmts : List (Nat × STok) := []
  kinds : List PKind := []
  scfg : ScrapeCfg := ScrapeCfg.pinned
  kcfg : KindCfg := KindCfg.pinned
  reg : List (RegEntry Made) := []
  key : Option (String × Nat) := none
  cfg : Cfg := Cfg.pinned
  kind : Kind := .none
  pv : Option Preview := none      -- the class-level preview of the current definition
  proto : Option Node := none      -- the freshly set-up node of the current definition
  node : Option Node := none
  ranOk : Bool := false

def showPanel (p : Panel) : String := "[" ++ ",".intercalate (p.map fun c => c.1 ++ "=" ++ showVal c.2) ++ "]"
def showVals (p : Panel) : String := "[" ++ ",".intercalate (p.map fun c => showVal c.2) ++ "]"

def parseArgs (ws : List String) : Option (List Val × List (String × Val)) :=
  match ws with
  | [] => none
  | n :: rest =>
    match n.toNat? with
    | none => none
    | some n =>
      if rest.length < n then none
      else
        let pos := (rest.take n).mapM parseValS
        let kws := (rest.drop n).mapM fun w =>
          match w.splitOn "=" with
          | k :: v :: more => (parseValS ("=".intercalate (v :: more))).map fun v => (k, v)
          | _ => none
        match pos, kws with
        | some p, some k => some (p, k)
        | _, _ => none

def showHint (h : Hint) : String := h.getD "-"

def showPreview (pv : Preview) : String :=
  "ins=[" ++ ",".intercalate (pv.1.map fun p => s!"{p.label}:{showHint p.hint}={showVal p.dflt}") ++ "] outs=["
    ++ ",".intercalate (pv.2.map fun o => s!"{o.1}:{showHint o.2}") ++ "]"

/-- the instance's channels: labels, hints and defaults from `_setup_node`, values from the live node -/
def showIO (pv : Preview) (n : Node) : String :=
  let ins := (setupIns pv.1).zip n.ins
  let outs := (setupOuts pv.2).zip n.outs
  "io ins=[" ++ ",".intercalate (ins.map fun (c, v) => s!"{c.label}:{showHint c.hint}:{showVal c.dflt}={showVal v.2}")
    ++ "] outs=[" ++ ",".intercalate (outs.map fun (c, v) => s!"{c.label}:{showHint c.hint}={showVal v.2}") ++ "]"

/-- a refused definition is observed by the TYPE of the exception the library raises (the kinds below differ in the
wording of the message only): all `ValueError`, except labels without returned values, a `TypeError` -/
def showDefErr : DefErr → String
  | .presence => "TypeError"
  | _ => "ValueError"

def parseHint (w : String) : Hint := if w == "-" then none else some w

def showOutcome (n : Node) : Outcome → String
  | .ret v => s!"call ret={showVal v} outs={showVals n.outs} ins={showPanel n.ins}"
  | .valueError => s!"call ValueError ins={showPanel n.ins}"
  | .readiness => s!"call Readiness ins={showPanel n.ins}"
  | .notIterable => s!"call TypeError ins={showPanel n.ins}"
  | .runError => s!"call RunError outs={showVals n.outs} ins={showPanel n.ins}"
  | .typeError => s!"call TypeError ins={showPanel n.ins}"

def parseField (w : String) : Option (Field × Hint) :=
  match w.splitOn ":" with
  | [name, "n", _, h] => some (⟨name, .none⟩, parseHint h)
  | [name, "v", v, h] => (parseValS v).map fun v => (⟨name, .value v⟩, parseHint h)
  | [name, "f", v, h] => (parseValS v).map fun v => (⟨name, .factory v⟩, parseHint h)
  | _ => none

/-- `<name>:<hint|->=<default|->` -/
def parseSpec (w : String) : Option InPrev :=
  match w.splitOn "=" with
  | nh :: v :: more =>
    match nh.splitOn ":" with
    | [name, h] =>
      let d := "=".intercalate (v :: more)
      if d == "-" then some ⟨name, parseHint h, .nd⟩
      else (parseValS d).map fun v => ⟨name, parseHint h, v⟩
    | _ => none
  | _ => none

/-- the class for a definition: straight from the factory, or through the registry when a `regkey` is pending -/
def defMade (s : St) (byName : Bool) (fresh : Made) : St × List String :=
  let (m, reg) : Made × List (RegEntry Made) :=
    match s.key with
    | none => (fresh, s.reg)
    | some (name, ident) => classFor byName s.reg name ident fresh
  ({ s with reg := reg, key := none, kind := m.kind, pv := some m.pv, proto := some m.proto, node := none, ranOk := false },
    [s!"def ok {showPreview m.pv}"])

def defXf (s : St) (k : Kind) (pv : Preview) : St × List String :=
  defMade s s.cfg.dictByHash ⟨k, pv, setupNode pv.1 pv.2⟩

def joinWords (ws : List String) : String := " ".intercalate ws

def init : St := {}

def step (s : St) (ws : List String) : St × List String :=
  match ws with
  | "cfg" :: flags =>
    let bit (w : String) : Option Bool := if w == "1" then some true else if w == "0" then some false else none
    match flags.mapM bit with
    | some [a, b, c, d, e, f, g, h, i, j, k] =>
      ({ s with cfg := ⟨a, b, c, d⟩, scfg := ⟨e, f⟩, kcfg := ⟨g, h, j⟩, rawDc := i, sameByEq := k }, [])
    | _ => (s, ["bad-op"])
  | ["srcline", cps] =>
    match s.kind with
    | .fn _ _ =>
      if cps == "-" then ({ s with src := s.src ++ [[]] }, [])
      else match (cps.splitOn ",").mapM String.toNat? with
        | some ns => ({ s with src := s.src ++ [ns.map Char.ofNat] }, [])
        | none => (s, ["bad-op"])
    | _ => (s, ["bad-op"])
  | "stmt" :: depth :: what =>
    match s.kind, depth.toNat? with
    | .fn _ _, some d =>
      let tok : Option STok :=
        match what with
        | ["leaf"] => some .leaf
        | ["inner0"] => some (.inner false)
        | ["inner1"] => some (.inner true)
        | ["retbare"] => some (.ret none)
        | "retother" :: ns =>
          match ns.mapM String.toNat? with
          | some [a, b, c, e] => some (.ret (some (.other ⟨a, b, c, e⟩)))
          | _ => none
        | "rettuple" :: ns => (ns.mapM String.toNat?).bind spansOf |>.map fun sps => .ret (some (.tuple sps))
        | _ => none
      match tok with
      | some t => ({ s with stmts := s.stmts ++ [(d, t)] }, [])
      | none => (s, ["bad-op"])
    | _, _ => (s, ["bad-op"])
  | ["regkey", name, ident] =>
    match ident.toNat? with
    | some i => ({ s with key := some (name, i) }, [])
    | none => (s, ["bad-op"])
  | ["regkey", name, ident, eqc] =>
    -- the registry of a tree that compares defaults with `==` cannot tell two objects of one `==` class apart
    match ident.toNat?, eqc.toNat? with
    | some i, some c => ({ s with key := some (name, if s.sameByEq then c else i) }, [])
    | _, _ => (s, ["bad-op"])
  | "def" :: "fn" :: validate :: decl :: rets =>
    match (if validate == "1" then some true else if validate == "0" then some false else none),
          rets.mapM parseRet with
    | some v, some rets =>
      let declared := if decl == "-" then none else some (decl.splitOn ",")
      ({ s with kind := .fn { params := [], rets := [], declared := declared, validate := v, retAnn := .empty } rets,
                src := [], stmts := [], kinds := [],
                pv := none, proto := none, node := none, ranOk := false }, [])
    | _, _ => (s, ["bad-op"])
  | "param" :: name :: d :: a :: kd =>
    let kind : Option PKind :=
      match kd with
      | [] => some .posOrKw
      | ["pk"] => some .posOrKw
      | ["po"] => some .posOnly
      | ["vp"] => some .varPos
      | ["ko"] => some .kwOnly
      | ["vk"] => some .varKw
      | _ => none
    match s.kind, kind with
    | .fn fd rets, some k =>
      let ann : Ann := if a == "-" then .empty else if a == "None" then .none_ else .obj a
      if d == "-" then
        ({ s with kinds := s.kinds ++ [k], kind := .fn { fd with params := fd.params ++ [⟨name, ann, none⟩] } rets }, [])
      else match parseValS d with
        | some v =>
          ({ s with kinds := s.kinds ++ [k], kind := .fn { fd with params := fd.params ++ [⟨name, ann, some v⟩] } rets }, [])
        | none => (s, ["bad-op"])
    | _, _ => (s, ["bad-op"])
  | "retstmt" :: what =>
    match s.kind, what with
    | .fn fd rets, ["bare"] => ({ s with kind := .fn { fd with rets := fd.rets ++ [.bare] } rets }, [])
    | .fn fd rets, ["tuple"] => ({ s with kind := .fn { fd with rets := fd.rets ++ [.value (.tuple [])] } rets }, [])
    | .fn fd rets, "single" :: w :: ws =>
      ({ s with kind := .fn { fd with rets := fd.rets ++ [.value (.single (joinWords (w :: ws)))] } rets }, [])
    | _, _ => (s, ["bad-op"])
  | "retelt" :: w :: ws =>
    match s.kind with
    | .fn fd rets =>
      match fd.rets.reverse with
      | .value (.tuple es) :: before =>
        ({ s with kind := .fn { fd with rets := (.value (.tuple (es ++ [joinWords (w :: ws)])) :: before).reverse } rets }, [])
      | _ => (s, ["bad-op"])
    | _ => (s, ["bad-op"])
  | "retann" :: h :: args =>
    match s.kind with
    | .fn fd rets =>
      let ra : Option RetAnn :=
        if h == "-" then (if args.isEmpty then some .empty else none)
        else if h == "None" then (if args.isEmpty then some .none_ else none)
        else some (.obj h args)
      match ra with
      | some ra => ({ s with kind := .fn { fd with retAnn := ra } rets }, [])
      | none => (s, ["bad-op"])
    | _ => (s, ["bad-op"])
  | ["show"] =>
    match s.kind with
    | .fn fd0 rets =>
      -- the return statements: read off the statement tree and the source lines when these were given
      let built := buildStmts 0 s.stmts
      if !built.2.isEmpty then (s, ["bad-op"]) else
      let fd : FnDef := if s.stmts.isEmpty then fd0 else { fd0 with rets := retStmts s.scfg s.src built.1 }
      let kps : List KParam := (fd.params.zip s.kinds).map fun (p, k) => ⟨p.name, k, p.dflt⟩
      let s := { s with kind := .fn fd rets }
      match previewKinds s.kcfg kps with
      | .error e => ({ s with pv := none, proto := none, node := none, ranOk := false }, [s!"def err {showDefErr e}"])
      | .ok _ =>
      match fnPreview fd with
      | .ok pv => ({ s with pv := some pv, proto := some (setupNode pv.1 pv.2), node := none, ranOk := false },
          [s!"def ok {showPreview pv}"])
      | .error e => ({ s with pv := none, proto := none, node := none, ranOk := false }, [s!"def err {showDefErr e}"])
    | _ => (s, ["bad-op"])
  | ["def", "list", n] =>
    match n.toNat? with
    | some n => defXf s (.xf .toList) (listPreview n)
    | none => (s, ["bad-op"])
  | ["def", "df", n] =>
    match n.toNat? with
    | some n => defXf s (.xf .toDf) (dfPreview n)
    | none => (s, ["bad-op"])
  | ["def", "unpack", n] =>
    match n.toNat? with
    | some n => defXf s .unpack (unpackPreview n)
    | none => (s, ["bad-op"])
  | "def" :: "dict" :: spec =>
    match spec.mapM parseSpec with
    | some sp => defXf s (.xf .toDict) (dictPreview sp)
    | none => (s, ["bad-op"])
  | "dcbase" :: deco :: fields =>
    match (if deco == "1" then some true else if deco == "0" then some false else none), fields.mapM parseDField with
    | some d, some fs => ({ s with chain := s.chain ++ [⟨d, fs⟩] }, [])
    | _, _ => (s, ["bad-op"])
  | "def" :: "dc" :: already :: fields =>
    if !s.chain.isEmpty || fields.any (fun w => (w.splitOn ":").length > 4) then
      -- a class hierarchy / members with options: the field table along the MRO
      match (if already == "1" then some true else if already == "0" then some false else none),
            fields.mapM parseDField with
      | some al, some fs =>
        let tbl := nodeTable false s.chain ⟨al, fs⟩
        let ins := inputFields s.rawDc tbl
        let pv : Preview := (dcInPreview (ins.map (·.toField)) (ins.map (·.hint)), [("dataclass", some "*")])
        let s := { s with chain := [] }
        defMade s s.cfg.dcByName ⟨.dcm tbl ins, pv, dcNode (ins.map (·.toField))⟩
      | _, _ => ({ s with chain := [] }, ["bad-op"])
    else
    match (if already == "1" then some true else if already == "0" then some false else none),
          fields.mapM parseField with
    | some al, some fhs =>
      match nodeFields s.cfg al (fhs.map (·.1)) with
      | none => ({ s with key := none, kind := .none, pv := none, proto := none, node := none, ranOk := false }, ["def err TypeError"])
      | some fs' =>
        let pv : Preview := (dcInPreview fs' (fhs.map (·.2)), [("dataclass", some "*")])
        defMade s s.cfg.dcByName ⟨.dc, pv, dcNode fs'⟩
    | _, _ => (s, ["bad-op"])
  | "inst" :: rest =>
    match s.proto, parseArgs rest with
    | some n0, some (a, k) =>
      match construct n0 a k with
      | .ok n => ({ s with node := some n, ranOk := false }, [s!"inst ok ins={showPanel n.ins}"])
      | .error _ => ({ s with node := none, ranOk := false }, ["inst ValueError"])
    | _, _ => (s, ["bad-op"])
  | ["io"] =>
    match s.pv, s.node with
    | some pv, some n => (s, [showIO pv n])
    | _, _ => (s, ["bad-op"])
  | "call" :: rest =>
    match s.node, parseArgs rest with
    | some n, some (a, k) =>
      let r : Node × Outcome :=
        match s.kind with
        | .fn fd rets =>
          callK s.kcfg (body (fd.params.map (·.dflt)) rets)
            ((fd.params.zip s.kinds).map fun (p, kd) => ⟨p.name, kd, p.dflt⟩) n a k
        | .xf kd => xfCall kd n a k
        | .unpack => unpackCall n a k
        | .dc => dcCall n a k
        | .dcm tbl ins => dcCallM tbl ins n a k
        | .none => (n, .valueError)
      let ok := match r.2 with | .ret _ => true | _ => false
      ({ s with node := some r.1, ranOk := ok }, [showOutcome r.1 r.2])
    | _, _ => (s, ["bad-op"])
  | ["again"] =>
    match s.node, s.ranOk with
    | some n, true =>
      let v := match s.kind with
        | .fn _ _ => fnAgain n
        | .unpack => unpackAgain n
        | _ => xfAgain s.cfg n
      (s, [s!"again ret={showVal v}"])
    | _, _ => (s, ["bad-op"])
  | _ => (s, ["bad-op"])

def main : IO Unit := Proto.run init step
