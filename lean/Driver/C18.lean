import PwVerif.Model.Inject
import PwVerif.Model.Proto
open PwVerif PwVerif.Inject PwVerif.Proto

/-! Line-protocol driver for the Inject model (C18).  Strings travel hex-encoded (UTF-8).

    cfg pinned|repaired                           how operands are printed into the label
    cfg slice strict|python                       the function of the Slice node
    cfg hash salted|stable                        does the label depend on the interpreter session?
    cfg key label|ident                           channels enter the key by scoped label (/repo) or as objects
    rename <c<cid>|n<k>> <hex scoped label>       the node owning the channel was relabelled
    unchild <parent> <hex label>                  a name among the parent's children is given up (relabel, removal)
    edit                                          any edit above the parents (root relabelled, parent composite
                                                  adopted / moved / orphaned / relabelled): nothing changes
        -> edit <children of parent 0> <1> <2>
    chan <cid> <parent|-> <hex scoped label>      a source output channel and its owner's parent
    child <parent> <hex label>                    a name already taken among the parent's children
    inj <owner> <dunder> <operand>*               owner/operand: c<cid> | n<k> (output of injected node k)
                                                  operand also: r:<hex type name>:<hex str>:<hex repr>
        -> node <k> <Class> <new 0|1> <children of the parent | -> <input labels>
    inj … !                                       the same, and the constructor of the new node raised (its auto-run
                                                  failed): the node is not kept as a child
    slice <owner> <operand> <operand> <operand> <fff>   x[a:b:c] with a channel-like component; one flag per
                                                  component: N value is None, V other value, U no data yet
        -> slice <kSlice> <new> <kGetItem> <new> <children | ->
        -> slice <kSlice> 1 - - <children | ->          the new Slice node raised while auto-running
    slice … <fff> !                               the constructor of the new GetItem node raised
    reload                                        pickle round trip of the parents: nothing changes
    restart                                       save, new interpreter session, load: children unchanged, but
                                                  (cfg hash salted) `hash` is a different function from now on
        -> restart <children of parent 0> <1> <2>
        -> reload <children of parent 0> <1> <2>

`hash` is modelled by interning: the k-th distinct key of session s hashes to "k" (session 0) or "s.k".
-/

def hexVal (c : Char) : Option Nat :=
  if '0' ≤ c ∧ c ≤ '9' then some (c.toNat - '0'.toNat)
  else if 'a' ≤ c ∧ c ≤ 'f' then some (c.toNat - 'a'.toNat + 10)
  else none

def hexBytes : List Char → Option (List UInt8)
  | [] => some []
  | [_] => none
  | a :: b :: r =>
    match hexVal a, hexVal b, hexBytes r with
    | some x, some y, some bs => some (UInt8.ofNat (16 * x + y) :: bs)
    | _, _, _ => none

/-- "-" stands for the empty string -/
def unhex (s : String) : Option String :=
  if s == "-" then some ""
  else (hexBytes s.toList).bind fun bs => String.fromUTF8? (ByteArray.mk bs.toArray)

structure DSt where
  printer : Printer := .pinned
  sliceFn : SliceFn := .strict
  salted : Bool := true
  identKey : Bool := false
  session : Nat := 0
  st : St := { children := fun _ => [], next := 0 }
  keys : List Key := []
  chans : List (Nat × Option Nat × String) := []   -- channel id ↦ (parent of its owner, scoped label)
  extra : Nat := 0

def hashOf (keys : List Key) : Key → String := fun k => toString (keys.idxOf k)

/-- the hash function of interpreter session `n` -/
def hashIn (session : Nat) (keys : List Key) : Key → String := fun k =>
  if session == 0 then hashOf keys k else toString session ++ "." ++ hashOf keys k

def intern (keys : List Key) (k : Key) : List Key := if keys.contains k then keys else keys ++ [k]

def parseDunder : String → Option Dunder
  | "getattr" => some .getattr | "getitem" => some .getitem | "lt" => some .lt | "le" => some .le
  | "eq" => some .eq | "ne" => some .ne | "gt" => some .gt | "ge" => some .ge | "bool" => some .bool
  | "len" => some .len | "contains" => some .contains | "add" => some .add | "sub" => some .sub
  | "mul" => some .mul | "rmul" => some .rmul | "matmul" => some .matmul | "truediv" => some .truediv
  | "floordiv" => some .floordiv | "mod" => some .mod | "pow" => some .pow | "and" => some .and
  | "xor" => some .xor | "or" => some .or | "neg" => some .neg | "pos" => some .pos | "abs" => some .abs
  | "invert" => some .invert | "int" => some .int | "float" => some .float | "round" => some .round
  | _ => none

def chanRef (s : DSt) (w : String) : Option (Nat × Option Nat × String) :=
  let id? : Option Nat :=
    if w.startsWith "c" then (w.drop 1).toString.toNat?
    else if w.startsWith "n" then (w.drop 1).toString.toNat?.map (· + 1000)
    else none
  id?.bind fun id => (s.chans.lookup id).map fun x => (id, x.1, x.2)

/-- how a channel enters the key -/
def keyName (s : DSt) (id : Nat) (sc : String) : String := if s.identKey then "#" ++ toString id else sc

def parseOperand (s : DSt) (w : String) : Option Operand :=
  if w.startsWith "r:" then
    match w.splitOn ":" with
    | [_, t, a, b] =>
      match unhex t, unhex a, unhex b with
      | some t, some a, some b => some (.raw t a b)
      | _, _, _ => none
    | _ => none
  else (chanRef s w).map fun (id, _, sc) => .chan id (keyName s id sc)

def parseComp : Char → Option Comp
  | 'N' => some .isNone | 'V' => some .val | 'U' => some .noData | _ => none

/-- three flags N|V|U ↦ (ready, start is None, stop is None, step is None) as the Slice node sees them -/
def parseFlags (w : String) : Option (Bool × Bool × Bool × Bool) :=
  match w.toList.mapM parseComp with
  | some [x, y, z] => some (sliceView x y z)
  | _ => none

def count (s : DSt) (parent : Option Nat) : String :=
  match parent with
  | none => "-"
  | some p => toString (s.st.children p).length

/-- register the output channel of a freshly made node -/
def regNode (s : DSt) (k : Nat) (parent : Option Nat) (lab cls : String) : DSt :=
  { s with chans := s.chans ++ [(k + 1000, parent, lab ++ "__" ++ outLabel cls)] }

def init : DSt := {}

def step (s : DSt) (ws : List String) : DSt × List String :=
  match ws with
  | ["cfg", "pinned"] => ({ s with printer := .pinned }, [])
  | ["cfg", "repaired"] => ({ s with printer := .repaired }, [])
  | ["cfg", "slice", "strict"] => ({ s with sliceFn := .strict }, [])
  | ["cfg", "slice", "python"] => ({ s with sliceFn := .python }, [])
  | ["cfg", "key", "label"] => ({ s with identKey := false }, [])
  | ["cfg", "key", "ident"] => ({ s with identKey := true }, [])
  | ["edit"] => (s, [s!"edit {(s.st.children 0).length} {(s.st.children 1).length} {(s.st.children 2).length}"])
  | ["rename", ch, sc] =>
    match chanRef s ch, unhex sc with
    | some (id, _, _), some sc =>
      ({ s with chans := s.chans.map fun (i, p, l) => if i == id then (i, p, sc) else (i, p, l) }, [])
    | _, _ => (s, ["bad-op"])
  | ["unchild", par, lab] =>
    match par.toNat?, unhex lab with
    | some par, some lab =>
      if ((s.st.children par).lookup lab).isNone then (s, ["bad-op"]) else
      ({ s with st := { s.st with children := updF s.st.children par ((s.st.children par).filter (·.1 != lab)) } }, [])
    | _, _ => (s, ["bad-op"])
  | ["cfg", "hash", "salted"] => ({ s with salted := true }, [])
  | ["cfg", "hash", "stable"] => ({ s with salted := false }, [])
  | ["restart"] =>
    let s' := if s.salted then { s with session := s.session + 1, keys := [] } else s
    (s', [s!"restart {(s.st.children 0).length} {(s.st.children 1).length} {(s.st.children 2).length}"])
  | ["reload"] => (s, [s!"reload {(s.st.children 0).length} {(s.st.children 1).length} {(s.st.children 2).length}"])
  | ["chan", cid, par, sc] =>
    match cid.toNat?, (if par == "-" then some none else par.toNat?.map some), unhex sc with
    | some cid, some par, some sc =>
      if cid ≥ 1000 || (s.chans.lookup cid).isSome then (s, ["bad-op"])
      else ({ s with chans := s.chans ++ [(cid, par, sc)] }, [])
    | _, _, _ => (s, ["bad-op"])
  | ["child", par, lab] =>
    match par.toNat?, unhex lab with
    | some par, some lab =>
      let ch := s.st.children par ++ [(lab, 1000000 + s.extra)]
      ({ s with st := { s.st with children := updF s.st.children par ch }, extra := s.extra + 1 }, [])
    | _, _ => (s, ["bad-op"])
  | "inj" :: owner :: dn :: ops0 =>
    let raised := ops0.getLast? == some "!"
    let ops := if raised then ops0.dropLast else ops0
    match chanRef s owner, parseDunder dn, ops.mapM (parseOperand s) with
    | some (oid, parent, sc), some d, some ops =>
      let e : Expr := { owner := oid, slabel := keyName s oid sc, cls := dispatch d, ops := ops }
      let keys := intern s.keys (key s.printer e)
      let H := hashIn s.session keys
      let r := injectX (label H s.printer) s.st parent e raised
      let isNew := r.2 == s.st.next
      let s1 := { s with st := r.1, keys := keys }
      let s2 := if isNew then regNode s1 r.2 parent (label H s.printer e) e.cls else s1
      if ops.length != arity d then (s, ["bad-op"]) else
      (s2, [s!"node {r.2} {e.cls} {if isNew then 1 else 0} {count s2 parent} {",".intercalate (clsInputs e.cls)}"])
    | _, _, _ => (s, ["bad-op"])
  | "slice" :: owner :: a :: b :: c :: flags :: rest =>
    if rest != [] && rest != ["!"] then (s, ["bad-op"]) else
    let gRaised := rest == ["!"]
    match chanRef s owner, parseOperand s a, parseOperand s b, parseOperand s c, parseFlags flags with
    | some (oid, parent, sc0), some a, some b, some c, some (ready, sN, bN, cN) =>
      let sc := keyName s oid sc0
      let so : Nat × String := if s.identKey then (0, "") else (oid, sc)
      let es : Expr := { owner := so.1, slabel := so.2, cls := "Slice", ops := [a, b, c] }
      let keys1 := intern s.keys (key s.printer es)
      let slab := label (hashIn s.session keys1) s.printer es
      -- the id the Slice node has or will get, to name the GetItem operand before the call
      let kS : Nat := match parent with
        | none => s.st.next
        | some p => ((s.st.children p).lookup slab).getD s.st.next
      let newS := kS == s.st.next
      if newS && sliceRaises s.sliceFn ready sN bN cN then
        let r := getitemSliceX (hashIn s.session keys1) s.printer s.sliceFn s.st parent oid sc a b c (· + 1000) ready sN bN cN false so
        let s1 := { s with st := r.1, keys := keys1 }
        let s2 := regNode s1 r.2.1 parent slab "Slice"
        (s2, [s!"slice {r.2.1} 1 {match r.2.2 with | some g => toString g | none => "-"} - {count s2 parent}"])
      else
      let item := Operand.chan (kS + 1000) (slab ++ "__slice")
      let eg : Expr := { owner := oid, slabel := sc, cls := "GetItem", ops := [item] }
      let keys2 := intern keys1 (key s.printer eg)
      let H := hashIn s.session keys2
      let r := getitemSliceX H s.printer s.sliceFn s.st parent oid sc a b c (· + 1000) ready sN bN cN gRaised so
      match r.2.2 with
      | none => (s, ["bad-op"])   -- unreachable: the raising case was handled above
      | some kG =>
      let newG := kG == (if newS then s.st.next + 1 else s.st.next)
      let s1 := { s with st := r.1, keys := keys2 }
      let s2 := if newS then regNode s1 r.2.1 parent slab "Slice" else s1
      let s3 := if newG then regNode s2 kG parent (label H s.printer eg) "GetItem" else s2
      (s3, [s!"slice {r.2.1} {if newS then 1 else 0} {kG} {if newG then 1 else 0} {count s3 parent}"])
    | _, _, _, _, _ => (s, ["bad-op"])
  | _ => (s, ["bad-op"])

def main : IO Unit := Proto.run init step
