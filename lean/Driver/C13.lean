import PwVerif.Model.Tree
import PwVerif.Model.Proto
open PwVerif PwVerif.Tree PwVerif.Proto

/-!
Line protocol of the ownership model.  Labels are written `=text` (so the empty label is `=`),
"none" is `-`.

    cfg f1 f2 f3 f4 f5 f6 f7 f8 f9     variant flags (0/1), see `Tree.Cfg`
    decl <id> leaf|macro|wf <strict 0/1> <reserved labels…>
    new <c> <=label> <p|->             add <p> <c> <=label|-> <-|0|1>
    setattr <p> <=key> <c>             setparent <c> <p|->
    remove <p> <c>                     removelbl <p> <=label>
    replace <p> <old> <new>            setstart <p> <ids…>
    replacelbl <p> <=label> <new>
    newfail <c> <=label> <p|->         constructor whose set-up raises after `Lexical.__init__`
    newwith <c> <=label> <fails 0/1> <kids…>   `Workflow(label, *kids)`
    replacecls <p> <=key> <new>        `p.key = NodeClass`: a fresh instance `new` replaces the child `key`
    reload <c>                         `c.save(); c.load()` in place
    copy <c> <c'>                      `c' = copy.copy(c)` for a composite `c`
    newmacro <m> <=label> <p|-> <u> <starting…>   constructor of a macro with its inner child `u`
    syncnode <c> <=label> <p|->  /  syncchildren <p> <=key> <id> …   re-synchronise from an observed state
    q <op…>                            same op, prints only when it does not return `ok`
-/

structure St where
  cfg : Cfg
  t : Tree
  alive : List Nat

def init : St :=
  { cfg := Cfg.pinned, t := empty (fun _ => .leaf) (fun _ => true) (fun _ => []), alive := [] }

def parseLabel (w : String) : Option Str :=
  match w.toList with
  | '=' :: r => some r
  | _ => none

def parseOptNat (w : String) : Option (Option Nat) :=
  if w = "-" then some none else (w.toNat?).map some

def parseOptLabel (w : String) : Option (Option Str) :=
  if w = "-" then some none else (parseLabel w).map some

def parseOptBool (w : String) : Option (Option Bool) :=
  if w = "-" then some none else if w = "0" then some (some false) else if w = "1" then some (some true) else none

def parseFlag (w : String) : Option Bool :=
  if w = "0" then some false else if w = "1" then some true else none

def parseKind : String → Option Kind
  | "leaf" => some .leaf | "macro" => some .macro | "wf" => some .workflow | _ => none

def showOutcome : Outcome → String
  | .ok => "ok" | .typeError => "TypeError" | .valueError => "ValueError"
  | .cyclicPathError => "CyclicPathError" | .attributeError => "AttributeError"
  | .parentMostError => "ParentMostError" | .keyError => "KeyError"
  | .duplicationError => "DuplicationError" | .recursionError => "RecursionError"
  | .noMethod => "noMethod" | .unreachable => "unreachable" | .setupError => "SetupError"
  | .runtimeError => "RuntimeError"

def showStr (s : Str) : String := String.ofList s

def obs (s : St) : String :=
  let nodes := s.alive.map fun c =>
    let par := match s.t.parent c with | some p => toString p | none => "-"
    s!"n{c}={showStr (s.t.label c)}^{par}"
  let comps := (s.alive.filter fun c => (s.t.kind c).isComposite).map fun p =>
    -- the statement fixes neither the order of the children nor that of the starting nodes: by id
    let chs := ((s.t.children p).toArray.qsort fun a b => a.2 < b.2 || (a.2 == b.2 && showStr a.1 < showStr b.1)).toList
    let sts := ((s.t.starting p).toArray.qsort fun a b => a < b).toList
    let ch := ",".intercalate (chs.map fun e => s!"{showStr e.1}>{e.2}")
    let st := ",".intercalate (sts.map toString)
    "c" ++ toString p ++ "[" ++ ch ++ "]{" ++ st ++ "}"
  " ".intercalate nodes ++ " | " ++ " ".intercalate comps

def insertSorted (l : List Nat) (c : Nat) : List Nat :=
  if c ∈ l then l else (l.filter (· < c)) ++ [c] ++ (l.filter (· > c))

def parseOp (ws : List String) : Option Op :=
  match ws with
  | ["new", c, l, p] =>
    match c.toNat?, parseLabel l, parseOptNat p with
    | some c, some l, some p => some (.new c l p)
    | _, _, _ => none
  | ["add", p, c, l, s] =>
    match p.toNat?, c.toNat?, parseOptLabel l, parseOptBool s with
    | some p, some c, some l, some s => some (.add p c l s)
    | _, _, _, _ => none
  | ["setattr", p, k, c] =>
    match p.toNat?, parseLabel k, c.toNat? with
    | some p, some k, some c => some (.setattr p k c)
    | _, _, _ => none
  | ["setparent", c, p] =>
    match c.toNat?, parseOptNat p with
    | some c, some p => some (.setparent c p)
    | _, _ => none
  | ["remove", p, c] =>
    match p.toNat?, c.toNat? with
    | some p, some c => some (.remove p c)
    | _, _ => none
  | ["removelbl", p, l] =>
    match p.toNat?, parseLabel l with
    | some p, some l => some (.removeLabel p l)
    | _, _ => none
  | ["replace", p, o, n] =>
    match p.toNat?, o.toNat?, n.toNat? with
    | some p, some o, some n => some (.replace p o n)
    | _, _, _ => none
  | ["replacelbl", p, l, n] =>
    match p.toNat?, parseLabel l, n.toNat? with
    | some p, some l, some n => some (.replaceLabel p l n)
    | _, _, _ => none
  | "setstart" :: p :: l =>
    match p.toNat?, nats l with
    | some p, some l => some (.setStarting p l)
    | _, _ => none
  | _ => none

def applyOp (s : St) (op : Op) : St × Outcome :=
  let (t, r) := Tree.step s.cfg s.t op
  let alive := match op, r with
    | .new c _ _, .ok => insertSorted s.alive c
    | _, _ => s.alive
  ({ s with t, alive }, r)

def step (s : St) (ws : List String) : St × List String :=
  match ws with
  | ["cfg", a, b, c, d, e, f, g, i, j] =>
    match parseFlag a, parseFlag b, parseFlag c, parseFlag d, parseFlag e, parseFlag f, parseFlag g,
        parseFlag i, parseFlag j with
    | some a, some b, some c, some d, some e, some f, some g, some i, some j =>
      ({ s with cfg := ⟨a, b, c, d, e, f, g, i, j, 64⟩ }, [])
    | _, _, _, _, _, _, _, _, _ => (s, ["bad-op"])
  | ["copy", c, c'] =>
    match c.toNat?, c'.toNat? with
    | some c, some c' =>
      if c ∈ s.alive ∧ c' ∉ s.alive ∧ (s.t.kind c).isComposite then
        let s' := (copyOps s.t c c').foldl (fun acc op => (applyOp acc op).1) s
        (s', ["ok | " ++ obs s'])
      else (s, ["bad-op"])
    | _, _ => (s, ["bad-op"])
  | ["reload", c] =>
    match c.toNat? with
    | some c =>
      if c ∈ s.alive then
        let s' := { s with t := loadInPlace s.cfg s.t c }
        (s', ["ok | " ++ obs s'])
      else (s, ["bad-op"])
    | none => (s, ["bad-op"])
  | ["newfail", c, l, p] =>
    match c.toNat?, parseLabel l, parseOptNat p with
    | some c, some l, some p =>
      let (t, r) := Tree.step s.cfg s.t (.newFail c l p)
      -- the object is bound to no name: it stays visible exactly as far as a live composite lists it
      let listed := s.alive.any fun q => decide (c ∈ vals (t.children q))
      let s' := { s with t, alive := if listed then insertSorted s.alive c else s.alive }
      (s', [showOutcome r ++ " | " ++ obs s'])
    | _, _, _ => (s, ["bad-op"])
  | "newwith" :: c :: l :: f :: kids =>
    match c.toNat?, parseLabel l, parseFlag f, nats kids with
    | some c, some l, some f, some kids =>
      let (t, r) := Tree.step s.cfg s.t (.newWith c l kids f)
      -- a workflow whose constructor raised is reachable only through the nodes that still name it
      let named := s.alive.any fun k => decide (t.parent k = some c)
      let s' := { s with t, alive := if r = .ok ∨ named then insertSorted s.alive c else s.alive }
      (s', [showOutcome r ++ " | " ++ obs s'])
    | _, _, _, _ => (s, ["bad-op"])
  | ["replacecls", p, k, n] =>
    match p.toNat?, parseLabel k, n.toNat? with
    | some p, some k, some n =>
      if n ∈ s.alive then (s, ["bad-op"]) else
      -- `replacement(label=owned_node_instance.label)`, then `replace_child(key, instance)`
      let (s1, r1) := applyOp s (.new n k none)
      if r1 = .ok then
        let (s2, r2) := applyOp s1 (.replaceLabel p k n)
        let s3 := if r2 = .ok then s2 else { s2 with alive := s2.alive.filter (· != n) }
        (s3, [showOutcome r2 ++ " | " ++ obs s3])
      else (s, [showOutcome r1 ++ " | " ++ obs s])
    | _, _, _ => (s, ["bad-op"])
  | "decl" :: id :: k :: st :: res =>
    match id.toNat?, parseKind k, parseFlag st, res.mapM parseLabel with
    | some id, some k, some st, some res =>
      ({ s with t := { s.t with kind := updF s.t.kind id k, strict := updF s.t.strict id st,
                                reserved := updF s.t.reserved id res } }, [])
    | _, _, _, _ => (s, ["bad-op"])
  | "newmacro" :: m :: l :: p :: u :: st =>
    -- the constructor of a macro: `Lexical.__init__` (label, parent), then its graph creator does
    -- `self.u = UserInput(0)`; the starting nodes are the observed result of its DAG wiring
    match m.toNat?, parseLabel l, parseOptNat p, u.toNat?, nats st with
    | some m, some l, some p, some u, some st =>
      let (s1, r) := applyOp s (.new m l p)
      if r = .ok then
        let (s2, r2) := applyOp s1 (.new u "UserInput".toList none)
        let (s3, r3) := applyOp s2 (.setattr m "u".toList u)
        if r2 = .ok ∧ r3 = .ok then
          let (s4, _) := applyOp s3 (.setStarting m st)
          (s4, ["ok | " ++ obs s4])
        else
          -- the constructor raises: the macro object is bound to no name; it (and its inner child)
          -- stay visible exactly as far as a live composite still lists them
          let keepM := p.isSome
          let keepU := keepM && decide (u ∈ vals (s3.t.children m))
          let alive := s3.alive.filter fun x => (x != m || keepM) && (x != u || keepU)
          let s4 := { s3 with alive }
          (s4, [showOutcome (if r2 = .ok then r3 else r2) ++ " | " ++ obs s4])
      else (s1, [showOutcome r ++ " | " ++ obs s1])
    | _, _, _, _, _ => (s, ["bad-op"])
  | ["syncnode", c, l, p] =>
    -- state observed on the implementation after an operation whose failure is not part of this model
    match c.toNat?, parseLabel l, parseOptNat p with
    | some c, some l, some p =>
      ({ s with t := { s.t with label := updF s.t.label c l, parent := updF s.t.parent c p } }, [])
    | _, _, _ => (s, ["bad-op"])
  | "syncchildren" :: p :: kv =>
    let rec pairs : List String → Option (List (Str × Nat))
      | [] => some []
      | k :: v :: r =>
        match parseLabel k, v.toNat?, pairs r with
        | some k, some v, some r => some ((k, v) :: r)
        | _, _, _ => none
      | _ => none
    match p.toNat?, pairs kv with
    | some p, some l => ({ s with t := { s.t with children := updF s.t.children p l } }, [])
    | _, _ => (s, ["bad-op"])
  | "q" :: rest =>
    match parseOp rest with
    | some op =>
      let (s', r) := applyOp s op
      (s', if r = .ok then [] else ["quiet-fail " ++ showOutcome r])
    | none => (s, ["bad-op"])
  | _ =>
    match parseOp ws with
    | some op =>
      let (s', r) := applyOp s op
      (s', [showOutcome r ++ " | " ++ obs s'])
    | none => (s, ["bad-op"])

def main : IO Unit := Proto.run init step
