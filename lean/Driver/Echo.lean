import PwVerif.Model.Util
partial def loop (h : IO.FS.Stream) (n : Nat) : IO Unit := do
  let line ← h.getLine
  if line.isEmpty then return ()
  IO.println s!"{n} {line.trimAscii.toString}"
  loop h (n+1)
def main : IO Unit := do loop (← IO.getStdin) 0
