import PwVerif.Model.ForLoop
import PwVerif.Proofs.BridgeC16C01
import PwVerif.Model.Proto
open PwVerif PwVerif.ForLoop PwVerif.Proto PwVerif.BridgeC16C01

/-! Line-protocol driver of the for-loop model. Labels and values are strings; the body
function of output `o` with symbol `g` is the term constructor `g(arg,…)`.

    in <label> <default|->        body input (declaration order)
    out <label> <symbol> <column> body output, its function symbol, its column name
    iter <k>… | zip <k>…          looped keys            form df|lists      cache on|off
    gatecache on|off  clearonfail on|off      cache policy of the library on refused / failed runs
    startabort on|off                         does a failing starting node abort the composite run
    mapkeys <k>…                   keys of the output_column_map argument
    checkcols on|off               does class creation refuse column names that are not pairwise distinct
    begin                          make the for-node class and instance  → children | mk err <kind>
    set <k> nd | one <v> | many <v>…
    run <completed body indices>   → res / outputs / children / wiring   (runq: res / outputs)
    rrun <completed…>              as run, but the node itself is shipped to a by-value executor and merged back
    tamper                         a body copy and its collectors were edited and run by hand (silent)
    reload                         pickle round trip at rest → rl / outputs / children
    snaprun <completed…>           as run; then the state becomes the copy restored from a pickle taken while the
                                   bodies of THIS run were out → snap ok / outputs / children   |  snap none
    data <k> missing|nolen|<n>    then   maps <-|=k,k,…> <-|=k,…>   (pure `dictionary_to_index_maps`)
-/

structure DSt where
  ins : List (String × Option String) := []
  outs : List (String × String × String) := []
  iterOn : List String := []
  zipOn : List String := []
  asDf : Bool := true
  useCache : Bool := true
  gateCache : Bool := false
  clearOnFail : Bool := false
  startAbort : Bool := false
  mapKeys : List String := []
  checkCols : Bool := false
  cur : Cur String String := []
  st : St String String := { children := [], outs := .df none, cached := none }
  begun : Bool := false
  data : List (String × DLen) := []

def DSt.spec (d : DSt) : Spec String String :=
  { bodyInputs := d.ins.map (·.1)
    bodyDefault := fun k => (d.ins.lookup k).bind id
    outputs := d.outs.map (·.1)
    iterOn := d.iterOn
    zipOn := d.zipOn
    asDf := d.asDf
    useCache := d.useCache
    gateCache := d.gateCache
    clearOnFail := d.clearOnFail
    startAbort := d.startAbort
    colmap := fun o => ((d.outs.lookup o).map (·.2)).getD o
    mapKeys := d.mapKeys
    checkCols := d.checkCols
    bodyFn := fun o args => (((d.outs.lookup o).map (·.1)).getD "?") ++ "(" ++ ",".intercalate args ++ ")"
    listVal := fun vs => "[" ++ ",".intercalate vs ++ "]" }

def showErr : Err → String
  | .key => "Key" | .type => "Type" | .noKeys => "Value:noKeys" | .allZero => "Value:allZero"

def showRes : Res → String
  | .ok => "res ok"
  | .readiness => "res err Readiness"
  | .failedChild => "res err FailedChild"
  | .raised e => "res err " ++ showErr e
  | .labelClash => "res err LabelClash"

def showMkErr : MkErr → String
  | .unmapped => "mk err Unmapped" | .nonexistent => "mk err Nonexistent" | .columns => "mk err Columns"

def showList (o : Option (List String)) : String :=
  match o with
  | none => "ND"
  | some vs => "[" ++ "|".intercalate vs ++ "]"

def showOuts : Outs String String → String
  | .df none => "df ND"
  | .df (some rows) =>
    let cols := match rows with | [] => [] | r :: _ => r.map (·.1)
    "df cols=" ++ "|".intercalate cols ++ " rows=" ++
      ";".intercalate (rows.map fun r => "|".intercalate (r.map (·.2)))
  | .lists cols => "lists " ++ " ".intercalate (cols.map fun c => c.1 ++ "=" ++ showList c.2)

def showChild : Child String → String
  | .input k => k
  | .item k i => s!"item:{k}:{i}"
  | .body n => s!"body:{n}"
  | .rowc n => s!"rowc:{n}"
  | .dataframe => "dataframe"
  | .colc c => s!"colc:{c}"

def showChildren (cs : List (Child String)) : String := "ch " ++ " ".intercalate (cs.map showChild)

def showMaps : Except Err (List (Dict String)) → String
  | .error e => "maps err " ++ showErr e
  | .ok ms => "maps ok " ++ ";".intercalate (ms.map fun m => ",".intercalate (m.map fun kv => s!"{kv.1}:{kv.2}"))

def parseKeys (w : String) : Option (Option (List String)) :=
  if w = "-" then some none
  else if w.startsWith "=" then
    let body := (w.drop 1).toString
    some (some (if body = "" then [] else body.splitOn ","))
  else none

def setCur (cur : Cur String String) (k : String) (v : InVal String) : Cur String String :=
  cur.map fun kv => if kv.1 = k then (kv.1, v) else kv

/-- the data wiring of the present sub-graph as the C16→C01 bridge describes it (`forSlots`): every
non-input child with the first upstream of each of its input channels -/
def showWire (sp : Spec String String) (st : St String String) : List String :=
  if !decide (columns sp).Nodup then [] else
  let P := nIn sp
  let nameOf (id : Nat) : String :=
    let x := id / 5
    if id % 5 = 0 then sp.bodyInputs.getD x "?"
    else if id % 5 = 1 then s!"item:{sp.bodyInputs.getD (x % P) "?"}:{x / P}"
    else if id % 5 = 2 then s!"body:{x}"
    else if id % 5 = 3 then (if sp.asDf then s!"rowc:{x}" else s!"colc:{(collectorLabels sp).getD x "?"}")
    else "dataframe"
  let idOf : Child String → Option Nat
    | .input _ => none
    | .item k i => some (itemId P (pos sp k) i)
    | .body n => some (bodyId n)
    | .rowc n => some (rowId n)
    | .dataframe => some dfId
    | .colc c => some (rowId ((collectorLabels sp).idxOf c))
  ["wire " ++ " ".intercalate (st.children.filterMap fun c =>
    (idOf c).map fun id =>
      showChild c ++ "[" ++ ",".intercalate ((forSlots sp st.maps id).map fun slot =>
        match slot with | [] => "" | u :: _ => nameOf u) ++ "]")]

def doRun (d : DSt) (ord : List String) (quiet : Bool) : DSt × List String :=
  match nats ord with
  | none => (d, ["bad-op"])
  | some order =>
    if !d.begun then (d, ["bad-op"]) else
    let (st, r) := run d.spec d.st d.cur order
    let d' := { d with st }
    (d', [showRes r, showOuts st.outs] ++
      (if quiet then [] else [showChildren st.children] ++ showWire d.spec st))

def doSnapRun (d : DSt) (ord : List String) : DSt × List String :=
  let pre := d.st
  let (d1, out) := doRun d ord false
  if out = ["bad-op"] then (d, out) else
  match midRun d.spec pre d.cur with
  | some st' => ({ d1 with st := st' }, out ++ ["snap ok", showOuts st'.outs, showChildren st'.children])
  | none => (d1, out ++ ["snap none"])

def step (d : DSt) (ws : List String) : DSt × List String :=
  match ws with
  | ["in", k, dflt] =>
    if d.begun then (d, ["bad-op"])
    else ({ d with ins := d.ins ++ [(k, if dflt = "-" then none else some dflt)] }, [])
  | ["out", o, sym, col] =>
    if d.begun then (d, ["bad-op"]) else ({ d with outs := d.outs ++ [(o, sym, col)] }, [])
  | "iter" :: ks => if d.begun then (d, ["bad-op"]) else ({ d with iterOn := ks }, [])
  | "zip" :: ks => if d.begun then (d, ["bad-op"]) else ({ d with zipOn := ks }, [])
  | ["form", "df"] => if d.begun then (d, ["bad-op"]) else ({ d with asDf := true }, [])
  | ["form", "lists"] => if d.begun then (d, ["bad-op"]) else ({ d with asDf := false }, [])
  | ["cache", "on"] => if d.begun then (d, ["bad-op"]) else ({ d with useCache := true }, [])
  | ["cache", "off"] => if d.begun then (d, ["bad-op"]) else ({ d with useCache := false }, [])
  | ["gatecache", "on"] => if d.begun then (d, ["bad-op"]) else ({ d with gateCache := true }, [])
  | ["gatecache", "off"] => if d.begun then (d, ["bad-op"]) else ({ d with gateCache := false }, [])
  | ["clearonfail", "on"] => if d.begun then (d, ["bad-op"]) else ({ d with clearOnFail := true }, [])
  | ["startabort", "on"] => if d.begun then (d, ["bad-op"]) else ({ d with startAbort := true }, [])
  | ["startabort", "off"] => if d.begun then (d, ["bad-op"]) else ({ d with startAbort := false }, [])
  | ["clearonfail", "off"] => if d.begun then (d, ["bad-op"]) else ({ d with clearOnFail := false }, [])
  | ["checkcols", "on"] => if d.begun then (d, ["bad-op"]) else ({ d with checkCols := true }, [])
  | ["checkcols", "off"] => if d.begun then (d, ["bad-op"]) else ({ d with checkCols := false }, [])
  | "mapkeys" :: ks => if d.begun then (d, ["bad-op"]) else ({ d with mapKeys := ks }, [])
  | ["begin"] =>
    if d.begun then (d, ["bad-op"]) else
    let sp := d.spec
    let cur : Cur String String := d.ins.map fun (k, dflt) =>
      if k ∈ d.iterOn ++ d.zipOn then (k, .nd)
      else (k, match dflt with | some v => .one v | none => .nd)
    match mk sp with
    | .error e => (d, [showMkErr e])      -- no class, no node: everything that follows is refused
    | .ok st =>
      let d' := { d with begun := true, cur, st }
      (d', [showChildren d'.st.children])
  | ["set", k, "nd"] =>
    if d.begun ∧ k ∈ d.cur.map (·.1) then ({ d with cur := setCur d.cur k .nd }, []) else (d, ["bad-op"])
  | ["set", k, "one", v] =>
    if d.begun ∧ k ∈ d.cur.map (·.1) then ({ d with cur := setCur d.cur k (.one v) }, []) else (d, ["bad-op"])
  | "set" :: k :: "many" :: vs =>
    if d.begun ∧ k ∈ d.cur.map (·.1) then ({ d with cur := setCur d.cur k (.many vs) }, []) else (d, ["bad-op"])
  | "run" :: ord => doRun d ord false
  | "runq" :: ord => doRun d ord true
  | "rrun" :: ord =>     -- the loop node itself on a by-value executor
    (match nats ord with
     | none => (d, ["bad-op"])
     | some order =>
       if !d.begun then (d, ["bad-op"]) else
       let (st, r) := runByValue d.spec d.st d.cur order
       ({ d with st }, [showRes r, showOuts st.outs, showChildren st.children] ++ showWire d.spec st))
  | "snaprun" :: ord => doSnapRun d ord
  | ["tamper"] =>      -- hand edit of the sub-graph (what it leaves in the outputs is not compared)
    if !d.begun then (d, ["bad-op"]) else ({ d with st := tamper d.st d.st.outs }, [])
  | ["reload"] =>
    if !d.begun then (d, ["bad-op"]) else
    let st := reload d.st
    ({ d with st }, ["rl", showOuts st.outs, showChildren st.children])
  | ["data", k, v] =>
    let dl : Option DLen :=
      if v = "missing" then some .missing else if v = "nolen" then some .nolen else v.toNat?.map .len
    match dl with
    | some dl => ({ d with data := (k, dl) :: d.data }, [])
    | none => (d, ["bad-op"])
  | ["maps", n, z] =>
    match parseKeys n, parseKeys z with
    | some n, some z =>
      (d, [showMaps (indexMapsOf (fun k => (d.data.lookup k).getD .missing) n z)])
    | _, _ => (d, ["bad-op"])
  | _ => (d, ["bad-op"])

def main : IO Unit := Proto.run ({} : DSt) step
