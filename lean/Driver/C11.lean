import PwVerif.Model.Pull
import PwVerif.Model.Proto
open PwVerif PwVerif.Conn PwVerif.Pull PwVerif.Proto

/-! Line-protocol driver for C11: the world is built by `n/node/deps/conns/starting/automate/exec/
fails/truth` lines, `obs` lines carry the set-iteration-dependent orders observed on the
implementation, every `pull` line is answered by the canonical observation of every model
variant (tag = the three `Cfg` switches). -/

structure St where
  vs    : List (String × Cfg × World)
  obs   : List (Nat × (List Nat × List Nat))
  comps : List Nat
  wfs   : List Nat
  fuel  : Nat
  n     : Nat

def world0 : World :=
  { n := 0,
    g := { kind := fun c => if c % 6 < 2 then .sigIn else .sigOut, owner := fun c => c / 6,
           valid := fun _ _ => true, conns := fun _ => [] },
    deps := fun _ => [], parent := fun _ => none, isWf := fun _ => false,
    label := fun i => { base := i, tag := none }, starting := fun _ => [], automate := fun _ => true,
    hasExec := fun _ => false, fails := fun _ => false, truth := fun _ => none,
    running := fun _ => false, hit := fun _ => false,
    log := [], recv := fun _ => [], failed := fun _ => false }

/-- rebuild a finite map as a table (the interpreter otherwise walks an ever longer chain of
`updF` closures); outside `< k` nothing is ever touched, so the initial default is returned -/
@[noinline] def tabLookup {α} (a : Array α) (dflt : Nat → α) : Nat → α :=
  fun i => if h : i < a.size then a[i] else dflt i

/-- the table of a finite map; a value (not a function), hence computed when it is bound -/
def tabOf {α} (k : Nat) (f : Nat → α) : Array α := (Array.range k).map f

/-- rebuild every finite map of the world as a table (the interpreter otherwise walks an ever longer
chain of closures); outside `< n` nothing is ever touched, so the initial default is returned.
The tables are bound by `let` in a function that returns a structure: they are evaluated once, here. -/
def compact (w : World) : World :=
  let aConns := tabOf (6 * w.n) w.g.conns
  let aLabel := tabOf w.n w.label
  let aStart := tabOf w.n w.starting
  let aAuto := tabOf w.n w.automate
  let aRecv := tabOf (6 * w.n) w.recv
  let aFailed := tabOf w.n w.failed
  { w with
    g := { w.g with conns := tabLookup aConns world0.g.conns },
    label := tabLookup aLabel world0.label,
    starting := tabLookup aStart world0.starting,
    automate := tabLookup aAuto world0.automate,
    recv := tabLookup aRecv world0.recv,
    failed := tabLookup aFailed world0.failed }

def bit (b : Bool) : String := if b then "1" else "0"

def variants : List (String × Cfg × World) :=
  [false, true].flatMap fun a => [false, true].flatMap fun b => [false, true].flatMap fun c =>
    [false, true].flatMap fun d => [false, true].map fun e =>
    (s!"V{bit a}{bit b}{bit c}{bit d}{bit e}",
     ({ cutAllOutputs := a, parentEmits := !b, automateInFinally := c, restoreLists := d,
        refuseDriverExec := e } : Cfg), world0)

def init : St := { vs := variants, obs := [], comps := [], wfs := [], fuel := 4000, n := 0 }

def St.mapW (s : St) (f : World → World) : St :=
  { s with vs := s.vs.map fun (t, c, w) => (t, c, f w) }

def showOutcome : Outcome → String
  | .ok => "ok" | .cyclic => "cyclic" | .execRefused => "exec" | .mixedScope => "mixed"
  | .failed => "failed" | .stuck => "stuck" | .badObs => "bad-obs"

def range (n : Nat) : List Nat := List.range n

def obsLines (s : St) (tag : String) (w0 w : World) (o : Outcome) : List String :=
  let chans := (range (6 * w.n)).filter fun c => !(w.g.conns c).isEmpty
  [ s!"{tag} outcome {showOutcome o}",
    s!"{tag} log {showNats (w.log.drop w0.log.length)}",
    s!"{tag} conns " ++ " ".intercalate (chans.map fun c => s!"{c}:{showNats (w.g.conns c)}"),
    s!"{tag} relabelled {showNats ((range w.n).filter fun i => (w.label i).tag.isSome)}",
    s!"{tag} starting " ++ " ".intercalate (s.comps.map fun p => s!"{p}:{showNats (w.starting p)}"),
    s!"{tag} automate " ++ " ".intercalate (s.wfs.map fun p => s!"{p}:{bit (w.automate p)}"),
    s!"{tag} failed {showNats ((range w.n).filter fun i => w.failed i)}",
    -- every connection list is literally the one from before the pull
    s!"{tag} ordered {bit ((range (6 * w.n)).all fun c => w.g.conns c == w0.g.conns c)}" ]

def splitSlash (ws : List String) : Option (List String × List String) :=
  match ws.span (· ≠ "/") with
  | (a, "/" :: b) => some (a, b)
  | _ => none

def step (s : St) (ws : List String) : St × List String :=
  match ws with
  | ["n", k] =>
    match k.toNat? with
    | some k => if s.n ≠ 0 then (s, ["bad-op"]) else ({ (s.mapW fun w => { w with n := k }) with n := k }, [])
    | none => (s, ["bad-op"])
  | "variants" :: tags =>
    -- evaluate only the listed variants (before the world is built)
    if s.n ≠ 0 || tags.isEmpty || tags.any (fun t => !(variants.any (·.1 = t))) then (s, ["bad-op"])
    else ({ s with vs := s.vs.filter fun v => tags.contains v.1 }, [])
  | ["fuel", k] =>
    match k.toNat? with
    | some k => ({ s with fuel := k }, [])
    | none => (s, ["bad-op"])
  | ["node", i, p, kind, base] =>
    let par : Option (Option Nat) := if p = "-" then some none else (p.toNat?).map some
    match i.toNat?, par, base.toNat? with
    | some i, some par, some base =>
      if kind ∉ ["leaf", "wf", "macro"] || i ≥ s.n || (match par with | some p => decide (p ≥ s.n) | none => false)
      then (s, ["bad-op"]) else
      let s1 := s.mapW fun w =>
        { w with parent := updF w.parent i par, isWf := updF w.isWf i (kind = "wf"),
                 label := updF w.label i { base := base, tag := none } }
      ({ s1 with comps := if kind = "leaf" then s1.comps else s1.comps ++ [i],
                 wfs := if kind = "wf" then s1.wfs ++ [i] else s1.wfs }, [])
    | _, _, _ => (s, ["bad-op"])
  | "deps" :: i :: js =>
    match i.toNat?, nats js with
    | some i, some js =>
      if i ≥ s.n || js.any (· ≥ s.n) then (s, ["bad-op"]) else
      (s.mapW fun w => { w with deps := updF w.deps i js }, [])
    | _, _ => (s, ["bad-op"])
  | "conns" :: c :: xs =>
    match c.toNat?, nats xs with
    | some c, some xs =>
      if c ≥ 6 * s.n || xs.any (· ≥ 6 * s.n) then (s, ["bad-op"]) else
      (s.mapW fun w => { w with g := { w.g with conns := updF w.g.conns c xs } }, [])
    | _, _ => (s, ["bad-op"])
  | "starting" :: p :: xs =>
    match p.toNat?, nats xs with
    | some p, some xs =>
      if p ≥ s.n || xs.any (· ≥ s.n) then (s, ["bad-op"]) else
      (s.mapW fun w => { w with starting := updF w.starting p xs }, [])
    | _, _ => (s, ["bad-op"])
  | ["automate", p, b] =>
    match p.toNat?, b.toNat? with
    | some p, some b =>
      if p ≥ s.n || b > 1 then (s, ["bad-op"]) else
      (s.mapW fun w => { w with automate := updF w.automate p (b ≠ 0) }, [])
    | _, _ => (s, ["bad-op"])
  | "exec" :: is =>
    match nats is with
    | some is =>
      if is.any (· ≥ s.n) then (s, ["bad-op"]) else (s.mapW fun w => { w with hasExec := fun i => i ∈ is }, [])
    | none => (s, ["bad-op"])
  | "fails" :: is =>
    match nats is with
    | some is =>
      if is.any (· ≥ s.n) then (s, ["bad-op"]) else (s.mapW fun w => { w with fails := fun i => i ∈ is }, [])
    | none => (s, ["bad-op"])
  | "unfail" :: is =>
    -- the user clears `failed` flags by hand between two pulls
    match nats is with
    | some is =>
      if is.any (· ≥ s.n) then (s, ["bad-op"]) else
      (s.mapW fun w => { w with failed := fun i => if i ∈ is then false else w.failed i }, [])
    | none => (s, ["bad-op"])
  | "running" :: is =>
    match nats is with
    | some is =>
      if is.any (· ≥ s.n) then (s, ["bad-op"]) else (s.mapW fun w => { w with running := fun i => i ∈ is }, [])
    | none => (s, ["bad-op"])
  | "hit" :: is =>
    match nats is with
    | some is =>
      if is.any (· ≥ s.n) then (s, ["bad-op"]) else (s.mapW fun w => { w with hit := fun i => i ∈ is }, [])
    | none => (s, ["bad-op"])
  | ["truth", i, b] =>
    match i.toNat?, b.toNat? with
    | some i, some b =>
      if i ≥ s.n || b > 1 then (s, ["bad-op"]) else
      (s.mapW fun w => { w with truth := updF w.truth i (some (b ≠ 0)) }, [])
    | _, _ => (s, ["bad-op"])
  | "obs" :: t :: rest =>
    match t.toNat?, splitSlash rest with
    | some t, some (a, b) =>
      match nats a, nats b with
      | some a, some b =>
        if t ≥ s.n || a.any (· ≥ s.n) || b.any (· ≥ s.n) then (s, ["bad-op"]) else
        ({ s with obs := (t, (a, b)) :: s.obs.filter (·.1 ≠ t) }, [])
      | _, _ => (s, ["bad-op"])
    | _, _ => (s, ["bad-op"])
  | ["pull", t, par] =>
    match t.toNat?, par.toNat? with
    | some t, some par =>
      if t ≥ s.n || par > 1 then (s, ["bad-op"]) else
      let look : Nat → List Nat × List Nat := fun x =>
        match s.obs.find? (·.1 = x) with
        | some (_, o) => o
        | none => ([], [])
      let res := s.vs.map fun (tag, cfg, w) =>
        let r := pull cfg w t (par ≠ 0) look s.fuel
        ((tag, cfg, compact r.1), obsLines s tag w r.1 r.2)
      ({ s with vs := res.map (·.1), obs := [] }, (res.map (·.2)).flatten)
    | _, _ => (s, ["bad-op"])
  | _ => (s, ["bad-op"])

def main : IO Unit := Proto.run init step
