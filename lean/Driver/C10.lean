import PwVerif.Model.RemoteRoutes
import PwVerif.Model.ExecHandles
import PwVerif.Model.Proto
open PwVerif.Remote PwVerif.Proto

/-!
Line protocol of the C10 model driver.

    cfg <keepIO> <dropDetached> <keepKidExe> <lockAtReceiver> <cancelQuiet>     (0/1 each)
    cancel | lose | cancelat <path> | loseat <path>      the executor withdraws / loses the job
    fails <fid> ...
    fn <fid> <exe> <lnk> <n> <v1..vn> <r1..rn>      push a leaf: values, then per slot `-` or the sibling position
    comp <kind> <exe> <lnk> <nkids> <n> <v1..vn> <r1..rn> <l1..ln>   pops <nkids>; links `-` or `j.s`
    top                                             the node on the stack becomes the (parentless) top node
    run | submit <snap> | complete | set <k> <v> | fetch | connect <k> <v> | disconnect <k> | rerun | setkid <j> <k> <v> | dump
    submitat <path> <snap> | completeat <path> | setat <path> <k> <v>      path: r | j.k...
    pcfg <shutdownBuilt> <settleRefused> | pools <live|down>... | psubmit <node> inst <h>|fresh|shared <h>|freshdown | pcomplete <i>

Values: dot-separated tokens, `-` = NOT_DATA.  exe: n | is | iv | xs | xv.  kind: macro | for | wf.
Every op answers `res <token>`, the dump of the whole graph, `end`.
-/

structure DSt where
  cfg : Cfg
  atRecv : Bool
  quiet : Bool
  fails : List Nat
  stack : List Node
  sess : Option Sess
  tainted : Bool
  jobsAt : List (String × Job)
  pcfg : PwVerif.ExecH.Cfg
  pst : PwVerif.ExecH.St

def DSt.init : DSt :=
  { cfg := Cfg.pinned, atRecv := true, quiet := false, fails := [], stack := [], sess := none, tainted := false, jobsAt := [],
    pcfg := PwVerif.ExecH.Cfg.pinned, pst := PwVerif.ExecH.St.init [] }

def parsePath (w : String) : Option (List Nat) :=
  if w == "r" then some [] else (w.splitOn ".").mapM String.toNat?

def showPS : PwVerif.ExecH.PS → String
  | .live => "live"
  | .down => "down"

def showPRes : PwVerif.ExecH.Res → String
  | .future => "future" | .refused => "refused" | .notReady => "notReady" | .ok => "ok" | .noJob => "noJob"

def parseSetting : List String → Option PwVerif.ExecH.Setting
  | ["inst", h] => h.toNat?.map .inst
  | ["fresh"] => some (.instr .fresh)
  | ["shared", h] => h.toNat?.map fun h => .instr (.shared h)
  | ["freshdown"] => some (.instr .freshDown)
  | _ => none

def parseVal (w : String) : Option Val :=
  if w == "-" then some [] else (w.splitOn ".").mapM String.toNat?

def parseExe : String → Option Exe
  | "n" => some .none
  | "is" => some (.inst false)
  | "iv" => some (.inst true)
  | "xs" => some (.instr false)
  | "xv" => some (.instr true)
  | _ => none

def parseKind : String → Option CK
  | "macro" => some .macro
  | "for" => some .forLike
  | "wf" => some .wf
  | _ => none

def parseRef (w : String) : Option (Option Ref) :=
  if w == "-" then some none else (w.toNat?).map fun j => some ⟨j, 0, 0⟩

def parseLink (w : String) : Option (Option Ref) :=
  if w == "-" then some none
  else match w.splitOn "." with
    | [a, b] => match a.toNat?, b.toNat? with
      | some j, some s => some (some ⟨j, 0, s⟩)
      | _, _ => none
    | _ => none

def parseBool : String → Option Bool
  | "0" => some false
  | "1" => some true
  | _ => none

def showVal (v : Val) : String := if v.isEmpty then "-" else ".".intercalate (v.map toString)
def showVals (vs : List Val) : String := if vs.isEmpty then "." else ";".intercalate (vs.map showVal)
def b01 (b : Bool) : String := if b then "1" else "0"

def showExe : Exe → String
  | .none => "n"
  | .inst _ => "i"
  | .instr _ => "x"

def showKind : Node → String
  | .fn _ fid => s!"fn{fid}"
  | .comp _ .macro _ _ => "macro"
  | .comp _ .forLike _ _ => "for"
  | .comp _ .wf _ _ => "wf"

def genOf (gens : List Nat) (j : Nat) : Option Nat := gens[j]?

def showIn (gens : List Nat) : Option Ref → String
  | none => "-"
  | some r => if genOf gens r.pos == some r.gen then toString r.pos else s!"{r.pos}!"

def insertKey (k : Nat × String) : List (Nat × String) → List (Nat × String)
  | [] => [k]
  | x :: xs => if k.1 ≤ x.1 then k :: x :: xs else x :: insertKey k xs

def showOutRefs (gens : List Nat) (rs : List Ref) : String :=
  let keyed := rs.map fun r =>
    (r.pos * 1000 + r.slot * 2 + (if genOf gens r.pos == some r.gen then 0 else 1),
     s!"{r.pos}.{r.slot}" ++ (if genOf gens r.pos == some r.gen then "" else "!"))
  let sorted := keyed.foldr insertKey []
  if sorted.isEmpty then "." else ",".intercalate (sorted.map (·.2))

def showLink (gens : List Nat) : Option Ref → String
  | none => "-"
  | some r => s!"{r.pos}.{r.slot}" ++ (if genOf gens r.pos == some r.gen then "" else "!")

def joinOr (l : List String) : String := if l.isEmpty then "." else ",".intercalate l

def pstateLine (s : PwVerif.ExecH.St) (nodes : Nat) : String :=
  let flags := (List.range nodes).map fun n => s!"{n}:{b01 (s.running n)}{b01 (s.failed n)}{s.runs n}"
  s!"pstate pools={joinOr (s.pools.map showPS)} nodes={joinOr flags} jobs={s.jobs.length}"


mutual
def dumpNode (path : String) (gens : List Nat) : Node → List String
  | .fn o fid =>
    [s!"{path} fn{fid} i={showVals o.ins} o={showVal o.out} r={b01 o.running} f={b01 o.failed} e={showExe o.exe} p={b01 o.hasParent} d={b01 o.detached} m={b01 o.ioMine} k={b01 o.outLinked} in={joinOr (o.inRefs.map (showIn gens))} out={showOutRefs gens o.outRefs}"]
  | .comp o k links kids =>
    let kg := kids.map fun n => n.own.gen
    (s!"{path} {showKind (.comp o k links [])} i={showVals o.ins} o={showVal o.out} r={b01 o.running} f={b01 o.failed} e={showExe o.exe} p={b01 o.hasParent} d={b01 o.detached} m={b01 o.ioMine} k={b01 o.outLinked} in={joinOr (o.inRefs.map (showIn gens))} out={showOutRefs gens o.outRefs} ln={joinOr (links.map (showLink kg))}")
      :: dumpKids path kg 0 kids
def dumpKids (path : String) (kg : List Nat) (i : Nat) : List Node → List String
  | [] => []
  | n :: ns => dumpNode (path ++ "." ++ toString i) kg n ++ dumpKids path kg (i + 1) ns
end

def showExt (ext : List (Option Val)) : String :=
  joinOr (ext.map fun e => match e with | none => "-" | some v => showVal v)

def dumpSess (s : Sess) : List String :=
  dumpNode "0" [] s.node ++ [s!"ext {showExt s.ext} job={b01 s.job.isSome}", "end"]

def showRes : Res → String
  | .ok => "ok" | .future => "future" | .locked => "locked" | .readiness => "readiness"
  | .raised => "raised" | .notOut => "notOut"

/-- connection ends on the output side, derived from the input side of the siblings -/
def outRefsFor (kids : List Node) (j : Nat) : List Ref :=
  let rec slots (i s : Nat) : List (Option Ref) → List Ref
    | [] => []
    | some r :: rs => (if r.pos == j then [⟨i, 0, s⟩] else []) ++ slots i (s + 1) rs
    | none :: rs => slots i (s + 1) rs
  let rec go (i : Nat) : List Node → List Ref
    | [] => []
    | n :: ns => slots i 0 n.own.inRefs ++ go (i + 1) ns
  go 0 kids

def adoptKids (kids : List Node) : List Node :=
  let rec go (j : Nat) : List Node → List Node
    | [] => []
    | n :: ns => n.setOwn { n.own with hasParent := true, outRefs := outRefsFor kids j } :: go (j + 1) ns
  go 0 kids

def mkOwn (vals : List Val) (refs : List (Option Ref)) (e : Exe) (lnk : Bool) : Own :=
  { label := 0, ins := vals, out := nd, running := false, failed := false, exe := e, hasParent := false,
    detached := false, gen := 0, ioMine := true, outLinked := lnk, inRefs := refs, outRefs := [] }

def runTop (cfg : Cfg) (fails : Nat → Bool) (s : Sess) : Sess × Res :=
  let n1 := fetchTop s.ext s.node.own.ins.length s.node
  if !ready n1 then ({ s with node := n1 }, .readiness)
  else
    let r := run cfg fails (.honour false) n1.own.ins [] n1
    ({ s with node := r }, if r.own.failed then .raised else .ok)

def reply (st : DSt) (s : Sess) (r : Res) : DSt × List String :=
  let t := st.tainted || !(adopted s.node)
  ({ st with sess := some s, tainted := t }, s!"res {showRes r}" :: dumpSess s)

def onSess (st : DSt) (heavy : Bool) (f : Sess → Sess × Res) : DSt × List String :=
  match st.sess with
  | none => (st, ["bad-op"])
  | some s =>
    if st.tainted && heavy then (st, ["res unmodelled", "end"])
    else let (s', r) := f s; reply st s' r

def outcomeTop (st : DSt) (failsF : Nat → Bool) (oc : Outcome) (s : Sess) : Sess × Res :=
  match s.job with
  | none => (s, .notOut)
  | some j =>
    match finishO st.cfg failsF st.quiet oc j s.node with
    | some n => ({ s with node := n, job := none }, .ok)
    | none => (s, .notOut)

def outcomeAt (st : DSt) (failsF : Nat → Bool) (oc : Outcome) (path : String) : DSt × List String :=
  match parsePath path, st.sess with
  | some pth, some s =>
    if st.tainted then (st, ["res unmodelled", "end"]) else
    match st.jobsAt.find? (·.1 == path) with
    | none => reply st s .notOut
    | some (_, job) =>
      match finishOAt st.cfg failsF st.quiet oc job pth s.node with
      | some r =>
        let (st', out) := reply st { s with node := r } .ok
        ({ st' with jobsAt := st.jobsAt.filter (·.1 != path) }, out)
      | none => reply st s .notOut
  | _, _ => (st, ["bad-op"])

def step (st : DSt) (ws : List String) : DSt × List String :=
  let failsF := fun fid => st.fails.contains fid
  match ws with
  | ["cfg", a, b, c, d, e] =>
    match parseBool a, parseBool b, parseBool c, parseBool d, parseBool e with
    | some a, some b, some c, some d, some e =>
      ({ st with cfg := { keepIO := a, dropDetached := b, keepKidExe := c }, atRecv := d, quiet := e }, [])
    | _, _, _, _, _ => (st, ["bad-op"])
  | ["setexeat", path, e] =>
    -- the `executor` attribute of the node at `path` is assigned (it is no input: never locked)
    match parsePath path, parseExe e, st.sess with
    | some pth, some e, some s =>
      if st.tainted then (st, ["res unmodelled", "end"]) else
      match updateAt (fun m => some (m.setOwn { m.own with exe := e })) pth s.node with
      | some r => reply st { s with node := r } .ok
      | none => reply st s .notOut
    | _, _, _ => (st, ["bad-op"])
  | ["cancel"] => onSess st true (outcomeTop st failsF .cancelled)
  | ["lose"] => onSess st true (outcomeTop st failsF .lost)
  | ["cancelat", path] => outcomeAt st failsF .cancelled path
  | ["loseat", path] => outcomeAt st failsF .lost path
  | ["pcfg", a, b] =>
    match parseBool a, parseBool b with
    | some a, some b => ({ st with pcfg := { shutdownBuilt := a, settleRefused := b } }, [])
    | _, _ => (st, ["bad-op"])
  | "pools" :: ws =>
    match ws.mapM (fun w => if w == "live" then some PwVerif.ExecH.PS.live else if w == "down" then some .down else none) with
    | some ps => ({ st with pst := PwVerif.ExecH.St.init ps }, [pstateLine (PwVerif.ExecH.St.init ps) 3])
    | none => (st, ["bad-op"])
  | "psubmit" :: node :: rest =>
    match node.toNat?, parseSetting rest with
    | some node, some set =>
      let (s', r) := PwVerif.ExecH.step st.pcfg st.pst (.submit node set)
      ({ st with pst := s' }, [s!"pres {showPRes r}", pstateLine s' 3])
    | _, _ => (st, ["bad-op"])
  | ["pcomplete", i] =>
    match i.toNat? with
    | some i =>
      let (s', r) := PwVerif.ExecH.step st.pcfg st.pst (.complete i)
      ({ st with pst := s' }, [s!"pres {showPRes r}", pstateLine s' 3])
    | none => (st, ["bad-op"])
  | ["submitat", path, b] =>
    match parsePath path, parseBool b with
    | some pth, some b =>
      match st.sess with
      | none => (st, ["bad-op"])
      | some s =>
        if st.tainted then (st, ["res unmodelled", "end"]) else
        match submitAt b pth s.node with
        | some (r, job) =>
          let (st', out) := reply st { s with node := r } .future
          ({ st' with jobsAt := (path, job) :: st.jobsAt }, out)
        | none => reply st s .readiness
    | _, _ => (st, ["bad-op"])
  | ["completeat", path] =>
    match parsePath path, st.sess with
    | some pth, some s =>
      if st.tainted then (st, ["res unmodelled", "end"]) else
      match st.jobsAt.find? (·.1 == path) with
      | none => reply st s .notOut
      | some (_, job) =>
        match finishAt st.cfg failsF job pth s.node with
        | some r =>
          let (st', out) := reply st { s with node := r } .ok
          ({ st' with jobsAt := st.jobsAt.filter (·.1 != path) }, out)
        | none => reply st s .notOut
    | _, _ => (st, ["bad-op"])
  | ["setat", path, k, v] =>
    match parsePath path, k.toNat?, parseVal v, st.sess with
    | some pth, some k, some v, some s =>
      if st.tainted then (st, ["res unmodelled", "end"]) else
      match assignAt st.atRecv k v pth s.node with
      | some r => reply st { s with node := r } .ok
      | none => reply st s .locked
    | _, _, _, _ => (st, ["bad-op"])
  | "fails" :: fs =>
    match nats fs with
    | some l => ({ st with fails := l }, [])
    | none => (st, ["bad-op"])
  | "fn" :: fid :: e :: lnk :: n :: rest =>
    match fid.toNat?, parseExe e, parseBool lnk, n.toNat? with
    | some fid, some e, some lnk, some n =>
      if rest.length ≠ 2 * n then (st, ["bad-op"]) else
      match (rest.take n).mapM parseVal, (rest.drop n).mapM parseRef with
      | some vals, some refs => ({ st with stack := .fn (mkOwn vals refs e lnk) fid :: st.stack }, [])
      | _, _ => (st, ["bad-op"])
    | _, _, _, _ => (st, ["bad-op"])
  | "comp" :: k :: e :: lnk :: nk :: n :: rest =>
    match parseKind k, parseExe e, parseBool lnk, nk.toNat?, n.toNat? with
    | some k, some e, some lnk, some nk, some n =>
      if rest.length ≠ 3 * n ∨ st.stack.length < nk then (st, ["bad-op"]) else
      match (rest.take n).mapM parseVal, ((rest.drop n).take n).mapM parseRef,
            (rest.drop (2 * n)).mapM parseLink with
      | some vals, some refs, some links =>
        let kids := adoptKids (st.stack.take nk).reverse
        ({ st with stack := .comp (mkOwn vals refs e lnk) k links kids :: st.stack.drop nk }, [])
      | _, _, _ => (st, ["bad-op"])
    | _, _, _, _, _ => (st, ["bad-op"])
  | ["top"] =>
    match st.stack with
    | [n] =>
      let s : Sess := { node := n, job := none, ext := n.own.ins.map fun _ => none }
      ({ st with stack := [], sess := some s }, "res ok" :: dumpSess s)
    | _ => (st, ["bad-op"])
  | ["dump"] => onSess st false fun s => (s, .ok)
  | ["run"] => onSess st true (runTop st.cfg failsF)
  | ["submit", b] =>
    match parseBool b with
    | some b => onSess st true fun s =>
        -- without an executor setting `run()` simply runs here and returns the outputs
        if s.node.own.exe == Exe.none then runTop st.cfg failsF s else submit b s
    | none => (st, ["bad-op"])
  | ["complete"] => onSess st true (complete st.cfg failsF)
  | ["set", k, v] =>
    match k.toNat?, parseVal v with
    | some k, some v => onSess st true fun s =>
        match assignAt st.atRecv k v [] s.node with
        | some r => ({ s with node := r }, .ok)
        | none => (s, .locked)
    | _, _ => (st, ["bad-op"])
  | ["setkid", j, k, v] =>
    match j.toNat?, k.toNat?, parseVal v with
    | some j, some k, some v => onSess st true fun s => edit s (.setKid j k v)
    | _, _, _ => (st, ["bad-op"])
  | ["fetch"] => onSess st true fun s => edit s .fetch
  | ["connect", k, v] =>
    match k.toNat?, parseVal v with
    | some k, some v => onSess st true fun s => edit s (.connect k v)
    | _, _ => (st, ["bad-op"])
  | ["disconnect", k] =>
    match k.toNat? with
    | some k => onSess st true fun s => edit s (.disconnect k)
    | none => (st, ["bad-op"])
  | ["rerun"] => onSess st true fun s =>
      -- a run request: refused while the node is out; otherwise (its executor setting was taken away) it runs here
      if !s.node.own.running && s.node.own.exe == Exe.none then runTop st.cfg failsF s else edit s .rerun
  | _ => (st, ["bad-op"])

def main : IO Unit := PwVerif.Proto.run DSt.init step
