import PwVerif.Model.Cache
import PwVerif.Model.CacheTree
import PwVerif.Model.CacheForest
import PwVerif.Model.CacheFetchTree
import PwVerif.Model.CacheCmp
import PwVerif.Model.CacheSer
import PwVerif.Model.CacheGate
import PwVerif.Model.Proto
open PwVerif.Cache PwVerif.Proto
open PwVerif.CacheTree (T Src K KidK KCfg Sem St)
open PwVerif.CacheForest (TC Kids Root)

/-! Driver for C05.
Node level: `beh v:kind …`, then `set v | run | submit | complete | clearfailed | cancel | drop | resetrunning`;
every op prints `R …` (/repo before b54ba0f), `S …` (after b54ba0f), `N …` (+ f3b0474) and `H …` (/repo now: + 9a3aae7), cached and
uncached twin each.
Composite level: `tleaf | tcomp | tsetin | tremove | treplace` at a path, `trun` prints, for the current key (`Tcur`)
and the proposed key (`Tprop`): hit or miss, what the cached composite and its cache-free twin return, and the key;
and for the whole tree of caches (`F`, `Model/CacheForest.lean`, key as /repo has it now): hit or miss of the root, the
outputs of its children, and which function nodes actually executed (everything else answered from some cache). -/

structure DSt where
  beh : List (Nat × Outcome)
  rc : N   -- current tree, cached
  ru : N   -- current tree, uncached
  sc : N   -- proposed, cached
  su : N   -- proposed, uncached
  nc : N   -- KeyboardInterrupt caught in the callback only (before 9a3aae7), cached
  nu : N   -- …, uncached
  hc : N   -- /repo now (every BaseException fails the run), cached
  hu : N   -- …, uncached
  cur : St String
  prop : St String
  forest : Root String
  forestP : Root String          -- … where a child run by hand drops the root's record (proposed)
  gc : PwVerif.CacheGate.N       -- readiness gate / use_cache switch histories, node under test
  gu : PwVerif.CacheGate.N       -- …, cache-free twin
  zc : PwVerif.CacheSer.N        -- serialized-result histories, cached
  zu : PwVerif.CacheSer.N        -- …, cache-free twin
  fetch : PwVerif.CacheFetchTree.St String
  vsame : List ((Nat × Nat) × (Bool × Bool))   -- (current value, remembered value) ↦ (`==` truthy, … and same type/shape)
  vdesc : List (Nat × Nat)                       -- value ↦ what the function returns
  vc : PwVerif.CacheCmp.St Nat Nat               -- hit test of /repo: `==`
  vp : PwVerif.CacheCmp.St Nat Nat               -- proposed: type, shape, `==`

def St0 : St String := { vals := [], kids := [], outs := [], cache := none }
def DSt.init : DSt :=
  { beh := [], rc := N.init, ru := N.init, sc := N.init, su := N.init, nc := N.init, nu := N.init, hc := N.init, hu := N.init, cur := St0, prop := St0, forest := { kids := [], cache := none }, forestP := { kids := [], cache := none },
    gc := PwVerif.CacheGate.N.init true, gu := PwVerif.CacheGate.N.init false,
    zc := PwVerif.CacheSer.N.init, zu := PwVerif.CacheSer.N.init, fetch := { body := [], cache := none }, vsame := [], vdesc := [],
    vc := PwVerif.CacheCmp.St.init, vp := PwVerif.CacheCmp.St.init }

def showR : R → String
  | .ret none => "ret:ND"
  | .ret (some v) => s!"ret:F({v})"
  | .future => "future" | .readiness => "readiness" | .raised => "raised" | .locked => "locked" | .unit => "unit"
  | .interrupted => "interrupted" | .fatal => "fatal" | .procraised => "procraised" | .escaped => "escaped"

def showVis (n : N) : String :=
  let o := match n.out with | none => "ND" | some v => s!"F({v})"
  s!"{n.inp},{o},{n.running},{n.failed}"

def apply (s : DSt) (op : Op) : DSt × List String :=
  let beh := fun v => (s.beh.lookup v).getD .ok
  let (rc, r1) := step Cfg.repaired beh true s.rc op
  let (ru, r2) := step Cfg.repaired beh false s.ru op
  let (sc, r3) := step Cfg.proposed beh true s.sc op
  let (su, r4) := step Cfg.proposed beh false s.su op
  let (nc, r5) := step Cfg.kbdOnly beh true s.nc op
  let (nu, r6) := step Cfg.kbdOnly beh false s.nu op
  let (hc, r7) := step Cfg.now beh true s.hc op
  let (hu, r8) := step Cfg.now beh false s.hu op
  ({ s with rc, ru, sc, su, nc, nu, hc, hu },
   [s!"R c={showR r1} u={showR r2} vc={showVis rc} vu={showVis ru} q={rc.jobs.length}/{ru.jobs.length}",
    s!"S c={showR r3} u={showR r4} vc={showVis sc} vu={showVis su} q={sc.jobs.length}/{su.jobs.length}",
    s!"N c={showR r5} u={showR r6} vc={showVis nc} vu={showVis nu} q={nc.jobs.length}/{nu.jobs.length}",
    s!"H c={showR r7} u={showR r8} vc={showVis hc} vu={showVis hu} q={hc.jobs.length}/{hu.jobs.length}"])

def parseBeh (w : String) : Option (Nat × Outcome) :=
  match w.splitOn ":" with
  | [v, k] =>
    match v.toNat?, k with
    | some v, "ok" => some (v, .ok)
    | some v, "exc" => some (v, .exc)
    | some v, "kbd" => some (v, .kbd)
    | some v, "fatal" => some (v, .fatal)
    | some v, "procbad" => some (v, .procbad)
    | _, _ => none
  | _ => none

/-! ### composite level -/

def strSem : Sem String :=
  { F := fun c args => if c == 99 then args.headD "ND" else s!"f{c}({",".intercalate args})",  -- 99 = UserInput (identity)
    atom := fun v => if v == 0 then "d" else s!"a{v}",
    nd := "ND" }

def FUEL : Nat := 64

def parseSrc (w : String) : Option Src :=
  let rest := (w.drop 1).toString
  match w.take 1 |>.toString, rest.toNat? with
  | "v", some n => some (.val n)
  | "c", some n => some (.conn n)
  | "l", some n => some (.link n)
  | "m", _ => ((rest.splitOn ".").mapM String.toNat?).map Src.multi     -- m3.0 = connections to 3 and 0, 3 first
  | _, _ => none

def parsePath (w : String) : Option (List Nat) :=
  if w == "-" then some [] else (w.splitOn ".").mapM String.toNat?

def showSrc : Src → String
  | .val v => s!"v{v}"
  | .conn s => s!"c{s}"
  | .link i => s!"l{i}"
  | .multi sibs => "m" ++ ".".intercalate (sibs.map toString)

partial def showK : K → String
  | .mk kids subs =>
    let rec go : List KidK → List K → List String
      | [], _ => []
      | k :: ks, subs =>
        let cls := match k.cls with | none => "-" | some c => toString c
        let ins := ",".intercalate (k.ins.map showSrc)
        if k.isComp then
          match subs with
          | sub :: rest => s!"{k.label}:{cls}:C{k.ret}:({ins})[{showK sub}]" :: go ks rest
          | [] => s!"{k.label}:{cls}:C{k.ret}:({ins})[?]" :: go ks []
        else s!"{k.label}:{cls}:L:({ins})" :: go ks subs
    "|".intercalate (go kids subs)

def showOuts (o : List (Nat × String)) : String :=
  ";".intercalate (o.map (fun p => s!"{p.1}={p.2}"))

def hasKid (l : Nat) (kids : List (Nat × T)) : Bool := (PwVerif.CacheTree.lookup l kids).isSome

/-- does the composite at `path` exist -/
def pathOk : List Nat → List (Nat × T) → Bool
  | [], _ => true
  | l :: p, kids =>
    match PwVerif.CacheTree.lookup l kids with
    | some (.comp _ _ ks) => pathOk p ks
    | _ => false

def kidsAt : List Nat → List (Nat × T) → List (Nat × T)
  | [], kids => kids
  | l :: p, kids =>
    match PwVerif.CacheTree.lookup l kids with
    | some (.comp _ _ ks) => kidsAt p ks
    | _ => []

/-- an edit of the children of the composite at `path`; `structural` = made through add/remove/replace_child.
`gc` is the same edit on the tree with all its caches. -/
def editTree (s : DSt) (path : List Nat) (structural : Bool) (f : List (Nat × T) → List (Nat × T))
    (gc : Kids String → Kids String) : DSt :=
  let g := fun (st : St String) =>
    let kids := PwVerif.CacheTree.atPath f path st.kids
    let op : PwVerif.CacheTree.Op String := if structural && path.isEmpty then .structural kids else .edit kids
    (PwVerif.CacheTree.step strSem KCfg.current FUEL true st op).1
  let fe : Root String → Root String := fun r =>
    Root.mk (PwVerif.CacheForest.atPathC structural gc path r.kids)
      (if structural && path.isEmpty then none else r.cache)
  { s with cur := g s.cur, prop := g s.prop, forest := fe s.forest, forestP := fe s.forestP }

/-- the function nodes whose cache entry changed in a run = those that executed (a hit leaves it, a miss rewrites it) -/
partial def executed : Kids String → Kids String → List String
  | (_, .leaf c _ _ c0) :: r0, (_, .leaf _ _ o1 c1) :: r1 =>
    (if c0 != c1 && c != 99 then [o1] else []) ++ executed r0 r1
  | (_, .comp _ _ k0 _ _) :: r0, (_, .comp _ _ k1 _ _) :: r1 => executed k0 k1 ++ executed r0 r1
  | _, _ => []

def insertSorted (x : String) : List String → List String
  | [] => [x]
  | y :: ys => if x ≤ y then x :: y :: ys else y :: insertSorted x ys

def forestRun1 (tag : String) (r : Root String) : Root String × String :=
  let h := r.hit KCfg.proposed
  match PwVerif.CacheForest.stepC strSem KCfg.proposed FUEL r .run with
  | some (r', some outs) =>
    let calls := (executed r.kids r'.kids).foldr insertSorted []
    (r', s!"{tag} hit={h} c={showOuts outs} calls={",".intercalate calls}")
  | _ => (r, s!"{tag} none")

def forestRun (s : DSt) : DSt × List String :=
  let (f1, l1) := forestRun1 "F" s.forest
  let (f2, l2) := forestRun1 "FP" s.forestP
  ({ s with forest := f1, forestP := f2 }, [l1, l2])

/-- child `l` of the root is run by hand (outside a run of the graph) -/
def forestHand (s : DSt) (path : List Nat) (l : Nat) : DSt × List String :=
  let one := fun (tag : String) (clear : Bool) (r : Root String) =>
    let op : PwVerif.CacheForest.Op String := if path.isEmpty then .handRun l clear else .handRunAt path l clear
    match PwVerif.CacheForest.stepC strSem KCfg.proposed FUEL r op with
    | some (r', _) =>
      let calls := (executed r.kids r'.kids).foldr insertSorted []
      (r', s!"{tag} hand {l} calls={",".intercalate calls}")
    | none => (r, s!"{tag} none")
  let (f1, l1) := one "F" false s.forest
  let (f2, l2) := one "FP" true s.forestP
  ({ s with forest := f1, forestP := f2 }, [l1, l2])

def gApply (s : DSt) (op : PwVerif.CacheGate.Op) : DSt × List String :=
  let (gc, r1) := PwVerif.CacheGate.step true true false s.gc op
  let (gu, r2) := PwVerif.CacheGate.step true true true s.gu op
  let sh := fun (r : PwVerif.CacheGate.R) => match r with
    | .ret none => "ret:ND" | .ret (some v) => s!"ret:F({v})" | .readiness => "readiness" | .refused => "refused" | .unit => "unit"
  let so := fun (n : PwVerif.CacheGate.N) => match n.out with | none => "ND" | some v => s!"F({v})"
  ({ s with gc, gu }, [s!"G c={sh r1} u={sh r2} oc={so gc} ou={so gu}"])

def showZR : PwVerif.CacheSer.R → String
  | .ret none => "ret:ND" | .ret (some v) => s!"ret:F({v})" | .future => "future" | .readiness => "readiness"
  | .waiting => "waiting" | .locked => "locked" | .unit => "unit"

def zApply (s : DSt) (op : PwVerif.CacheSer.Op) : DSt × List String :=
  let (zc, r1) := PwVerif.CacheSer.step true true s.zc op
  let (zu, r2) := PwVerif.CacheSer.step true false s.zu op
  let vis := fun (n : PwVerif.CacheSer.N) =>
    let o := match n.out with | none => "ND" | some v => s!"F({v})"
    s!"{n.inp},{o},{n.running}"
  ({ s with zc, zu }, [s!"Z c={showZR r1} u={showZR r2} vc={vis zc} vu={vis zu}"])

def treeRun (s : DSt) : DSt × List String :=
  let one := fun (c : KCfg) (st : St String) (tag : String) =>
    let h := PwVerif.CacheTree.hit c st
    let r := PwVerif.CacheTree.step strSem c FUEL true st .run
    let u := PwVerif.CacheTree.step strSem c FUEL false st .run
    (r.1, [s!"{tag} hit={h} c={showOuts (r.2.getD [])} u={showOuts (u.2.getD [])}",
           s!"{tag}key {showK (PwVerif.CacheTree.key c st.kids)}"])
  let (cur, l1) := one KCfg.current s.cur "Tcur"
  let (prop, l2) := one KCfg.proposed s.prop "Tprop"
  let (s', l3) := forestRun s
  ({ s' with cur, prop }, l1 ++ l2 ++ l3)

/-! ### values held by the channels at every depth (`Model/CacheFetchTree.lean`): `ftleaf | ftcomp | ftassign | ftcut | ftrun` -/
section FetchTree
open PwVerif.CacheFetchTree (In Nd)

/-- `v:<term>` free, `c<sib>:<term>` connected, `l<i>:<term>` linked — each with the value the channel holds -/
def parseIn (w : String) : Option (In String) :=
  match w.splitOn ":" with
  | [hd, val] =>
    let rest := (hd.drop 1).toString
    match hd.take 1 |>.toString with
    | "v" => if rest.isEmpty then some (.free val) else none
    | "c" => rest.toNat?.map (fun n => .conn n val)
    | "l" => rest.toNat?.map (fun n => .link n val)
    | _ => none
  | _ => none

def showIn : In String → String
  | .free v => v
  | .conn _ h => h
  | .link _ h => h

partial def showNds : List (Nd String) → String
  | ks => " ".intercalate (ks.map fun
    | .leaf l _ ins _ => s!"{l}[{"|".intercalate (ins.map showIn)}]"
    | .comp l _ ins kids _ => s!"{l}[{"|".intercalate (ins.map showIn)}]" ++ "{" ++ showNds kids ++ "}")

def ftEdit (s : DSt) (path : List Nat) (g : List (Nd String) → List (Nd String)) : DSt :=
  { s with fetch := { s.fetch with body := PwVerif.CacheFetchTree.atPath g path s.fetch.body } }

def ftRun (s : DSt) : DSt × List String :=
  let hit := match s.fetch.cache with
    | none => false
    | some snap => PwVerif.CacheFetchTree.sameLB snap s.fetch.body
  let r := PwVerif.CacheFetchTree.step strSem.F strSem.nd true true true s.fetch .run
  ({ s with fetch := r.1 }, [s!"FT hit={hit} c={showOuts (r.2.getD [])} st={showNds r.1.body}"])

end FetchTree

def step' (s : DSt) (ws : List String) : DSt × List String :=
  match ws with
  | "beh" :: vs => match vs.mapM parseBeh with
    | some vs => ({ s with beh := vs }, [])
    | none => (s, ["bad-op"])
  | ["set", v] => match v.toNat? with
    | some v => apply s (.set v)
    | none => (s, ["bad-op"])
  | ["run"] => apply s .run
  | ["submit"] => apply s .submit
  | ["complete"] => apply s .complete
  | ["clearfailed"] => apply s .clearFailed
  | ["cancel"] => apply s .cancel
  | ["drop"] => apply s .drop
  | ["resetrunning"] => apply s .resetRunning
  | "tleaf" :: p :: l :: c :: srcs =>
    match parsePath p, l.toNat?, c.toNat?, srcs.mapM parseSrc with
    | some p, some l, some c, some srcs =>
      if pathOk p s.cur.kids && !hasKid l (kidsAt p s.cur.kids) then
        (editTree s p true (fun ks => ks ++ [(l, .leaf c srcs)])
          (fun ks => ks ++ [(l, PwVerif.CacheForest.freshLeaf strSem c srcs)]), [])
      else (s, ["bad-op"])
    | _, _, _, _ => (s, ["bad-op"])
  | "tcomp" :: p :: l :: r :: srcs =>
    match parsePath p, l.toNat?, r.toNat?, srcs.mapM parseSrc with
    | some p, some l, some r, some srcs =>
      if pathOk p s.cur.kids && !hasKid l (kidsAt p s.cur.kids) then
        (editTree s p true (fun ks => ks ++ [(l, .comp r srcs [])])
          (fun ks => ks ++ [(l, .comp r srcs [] strSem.nd none)]), [])
      else (s, ["bad-op"])
    | _, _, _, _ => (s, ["bad-op"])
  | ["tsetin", p, l, i, src] =>
    match parsePath p, l.toNat?, i.toNat?, parseSrc src with
    | some p, some l, some i, some src =>
      if pathOk p s.cur.kids && hasKid l (kidsAt p s.cur.kids) then
        (editTree s p false (PwVerif.CacheTree.mapKid l (T.setIn i src))
          (PwVerif.CacheForest.mapKidC l (TC.setIn i src)), [])
      else (s, ["bad-op"])
    | _, _, _, _ => (s, ["bad-op"])
  | ["tremove", p, l] =>
    match parsePath p, l.toNat? with
    | some p, some l =>
      if pathOk p s.cur.kids && hasKid l (kidsAt p s.cur.kids) then
        (editTree s p true (PwVerif.CacheTree.removeKid l) (PwVerif.CacheForest.removeKidC l), [])
      else (s, ["bad-op"])
    | _, _ => (s, ["bad-op"])
  | ["treplace", p, l, c] =>
    match parsePath p, l.toNat?, c.toNat? with
    | some p, some l, some c =>
      match PwVerif.CacheTree.lookup l (kidsAt p s.cur.kids) with
      | some (.leaf _ ins) =>
        if pathOk p s.cur.kids then
          -- `replace_child` = remove + add: the replacement (same label, same IO) goes to the end of the dictionary
          (editTree s p true (fun ks => PwVerif.CacheTree.removeKid l ks ++ [(l, .leaf c ins)])
            (fun ks => PwVerif.CacheForest.removeKidC l ks ++ [(l, PwVerif.CacheForest.freshLeaf strSem c ins)]), [])
        else (s, ["bad-op"])
      | _ => (s, ["bad-op"])
    | _, _, _ => (s, ["bad-op"])
  | ["trun"] => treeRun s
  | ["thandrun", p, l] => match parsePath p, l.toNat? with
    | some p, some l => forestHand s p l
    | _, _ => (s, ["bad-op"])
  | "gset" :: [v] => match v.toNat? with
    | some v => gApply s (.set v)
    | none => (s, ["bad-op"])
  | ["grun"] => gApply s .run
  | ["gexec"] => gApply s .execute
  | ["glaxon"] => gApply s .laxOn
  | ["glaxoff"] => gApply s .laxOff
  | ["gcacheon"] => gApply s .cacheOn
  | ["gcacheoff"] => gApply s .cacheOff
  | ["zset", v] => match v.toNat? with
    | some v => zApply s (.set v)
    | none => (s, ["bad-op"])
  | ["zrun"] => zApply s .run
  | ["zsubmit"] => zApply s .ssubmit
  | ["zwork"] => zApply s .work
  | ["zdeliver"] => zApply s .deliver
  | "ftleaf" :: p :: l :: c :: ins =>
    match parsePath p, l.toNat?, c.toNat?, ins.mapM parseIn with
    | some p, some l, some c, some ins => (ftEdit s p (fun ks => ks ++ [.leaf l c ins strSem.nd]), [])
    | _, _, _, _ => (s, ["bad-op"])
  | "ftcomp" :: p :: l :: r :: ins =>
    match parsePath p, l.toNat?, r.toNat?, ins.mapM parseIn with
    | some p, some l, some r, some ins => (ftEdit s p (fun ks => ks ++ [.comp l r ins [] strSem.nd]), [])
    | _, _, _, _ => (s, ["bad-op"])
  | ["ftassign", p, l, i, v] =>
    match parsePath p, l.toNat?, i.toNat? with
    | some p, some l, some i =>
      (ftEdit s p (PwVerif.CacheFetchTree.mapNd l (PwVerif.CacheFetchTree.Nd.mapIns
        (PwVerif.CacheFetchTree.setAt i (PwVerif.CacheFetchTree.assignIn v)))), [])
    | _, _, _ => (s, ["bad-op"])
  | ["ftcut", p, l, i] =>
    match parsePath p, l.toNat?, i.toNat? with
    | some p, some l, some i =>
      (ftEdit s p (PwVerif.CacheFetchTree.mapNd l (PwVerif.CacheFetchTree.Nd.mapIns
        (PwVerif.CacheFetchTree.setAt i PwVerif.CacheFetchTree.cutIn))), [])
    | _, _, _ => (s, ["bad-op"])
  | ["ftrun"] => ftRun s
  | ["vsame", a, b, c, p] =>
    match a.toNat?, b.toNat?, c.toNat?, p.toNat? with
    | some a, some b, some c, some p => ({ s with vsame := ((a, b), (c != 0, p != 0)) :: s.vsame }, [])
    | _, _, _, _ => (s, ["bad-op"])
  | ["vdesc", a, d] =>
    match a.toNat?, d.toNat? with
    | some a, some d => ({ s with vdesc := (a, d) :: s.vdesc }, [])
    | _, _ => (s, ["bad-op"])
  | ["vset", a] =>
    match a.toNat? with
    | some a =>
      ({ s with vc := (PwVerif.CacheCmp.step (fun _ _ => false) id true s.vc (.set a)).1,
                vp := (PwVerif.CacheCmp.step (fun _ _ => false) id true s.vp (.set a)).1 }, [])
    | none => (s, ["bad-op"])
  | ["vrun"] =>
    let F := fun v => (s.vdesc.lookup v).getD 0
    let sameC := fun v c => ((s.vsame.lookup (v, c)).map (·.1)).getD false
    let sameP := fun v c => ((s.vsame.lookup (v, c)).map (·.2)).getD false
    let one := fun (same : Nat → Nat → Bool) (st : PwVerif.CacheCmp.St Nat Nat) (tag : String) =>
      let hit := match st.inp, st.cached with | some v, some c => same v c | _, _ => false
      let r := PwVerif.CacheCmp.step same F true st .run
      let u := PwVerif.CacheCmp.step same F false st .run
      let sh := fun (x : Option (Option Nat)) => match x with | some (some d) => toString d | _ => "ND"
      (r.1, s!"{tag} hit={hit} c={sh r.2} u={sh u.2}")
    let (vc, l1) := one sameC s.vc "VC"
    let (vp, l2) := one sameP s.vp "VP"
    ({ s with vc, vp }, [l1, l2])
  | _ => (s, ["bad-op"])

def main : IO Unit := PwVerif.Proto.run DSt.init step'
