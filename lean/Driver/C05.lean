import PwVerif.Model.Cache
import PwVerif.Model.Proto
open PwVerif.Cache PwVerif.Proto

structure DSt where
  bad : List Nat
  pc : N   -- pinned, cached
  pu : N   -- pinned, uncached
  rc : N   -- repaired, cached
  ru : N   -- repaired, uncached

def DSt.init : DSt := { bad := [], pc := N.init, pu := N.init, rc := N.init, ru := N.init }

def showR : R → String
  | .ret none => "ret:ND"
  | .ret (some v) => s!"ret:F({v})"
  | .future => "future" | .readiness => "readiness" | .raised => "raised" | .locked => "locked" | .unit => "unit"

def showVis (n : N) : String :=
  let o := match n.out with | none => "ND" | some v => s!"F({v})"
  s!"{n.inp},{o},{n.running},{n.failed}"

def apply (s : DSt) (op : Op) : DSt × List String :=
  let bad := fun v => s.bad.contains v
  let (pc, r1) := step Cfg.pinned bad true s.pc op
  let (pu, r2) := step Cfg.pinned bad false s.pu op
  let (rc, r3) := step Cfg.repaired bad true s.rc op
  let (ru, r4) := step Cfg.repaired bad false s.ru op
  ({ s with pc, pu, rc, ru },
   [s!"P c={showR r1} u={showR r2} vc={showVis pc} vu={showVis pu}",
    s!"R c={showR r3} u={showR r4} vc={showVis rc} vu={showVis ru}"])

def step' (s : DSt) (ws : List String) : DSt × List String :=
  match ws with
  | "bad" :: vs => match nats vs with
    | some vs => ({ s with bad := vs }, [])
    | none => (s, ["bad-op"])
  | ["set", v] => match v.toNat? with
    | some v => apply s (.set v)
    | none => (s, ["bad-op"])
  | ["run"] => apply s .run
  | ["submit"] => apply s .submit
  | ["complete"] => apply s .complete
  | ["clearfailed"] => apply s .clearFailed
  | _ => (s, ["bad-op"])

def main : IO Unit := PwVerif.Proto.run DSt.init step'
