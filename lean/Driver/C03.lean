import PwVerif.Model.Data
import PwVerif.Model.Proto
open PwVerif PwVerif.Conn PwVerif.Data PwVerif.Proto

/-!
Line protocol of the C03 model driver.

    setup (no output):
      chan <c> di|do <owner> <hinted 0|1> <strict 0|1>
      ins <n> <c>...            outs <n> <c>...
      reject <c> <k>            the hint of channel c rejects data value k
      hintbad <a> <b>           hint of a is NOT as-or-more-specific than hint of b
      recv <a> <b>              value link present after construction (macro input → child input, …)
      fuel <k>                  recursion limit for receiver chains
    operations (one output line each: outcome + full observation):
      set <c> <v>               v = ND | <k>
      assign <c> <v>|@<o>       panel attribute assignment (value or channel)
      setinputs <c>=<v>|<c>=@<o> ...
      fetch <c>                 fetchall <n>
      link <a> <b>|-            value_receiver setter
      connect <a> <b>           disconnect <a> <b>
      copyvalues hard|soft <m|->:<o> ... / <m|->:<o> ...     (input pairs / output pairs)
      run <n> <c>=<v>|<c>=@<o> ...
      strict <c> 0|1            flag <n> <running 0|1> <failed 0|1>
      rt <scope c>... [| I=<c,..> RO=<a:b,..> MI=<c,..> RI=<a:b,..> KO=<c,..> CO=<c,..> RM=<a:b,..>]...
                                pickle round trip of the object with channels `scope`; one `|` group per
                                composite, innermost first (the seven fields of `Data.Comp`)
      submit <n> <c>=<v>...     run with an executor: admission only     complete <n>   the job finishes
      replace <n> P=<c,..> Q=<c,..>   node n replaced by a fresh instance of its class; P / Q = inputs / outputs of its parent
      mutate <k> <k'>           the mutable object that was value k is changed in place into value k'
    setup, continued:
      cache <n> 0|1             use_cache of node n
      kids <n> <k>...           children of composite n in execution order      deps <k> <d>...
      wire <a> <b>              connection present after construction (a.connect(b), silent)
      quiet <n>...              nodes whose function does not write to the harness' call log
      cfg <revIter> <pushIn> <pushOut> <ownOnly> <allIn>   (0|1 each) variant of __getstate__ / __setstate__
                                (current tree: 1 0 0 1 0)
-/

structure St where
  s : S
  chans : List Nat
  nodes : List Nat
  rejects : List (Nat × Nat)
  hintbad : List (Nat × Nat)
  fuel : Nat
  cfg : Cfg
  /-- nodes whose wrapped function does not write to the harness' call log (plain sources) -/
  quiet : List Nat

def St.params (st : St) : Params :=
  { admits := fun c v => match v with
      | .nd => true
      | .d k => !(st.rejects.contains (c, k))
      | .nd2 => false
    hintOk := fun a b => !(st.hintbad.contains (a, b))
    fn := fun _ args => args
    -- the current tree: `NotData.__reduce__` names the global singleton, data is copied by value
    copyVal := id
    cfg := st.cfg }

def init0 : St :=
  { s := Data.init (fun _ => .dataIn) (fun _ => 0) (fun _ => false) (fun _ => true) (fun _ => []) (fun _ => []),
    chans := [], nodes := [], rejects := [], hintbad := [], fuel := 40, cfg := Cfg.repaired, quiet := [] }

def showVal : Val → String
  | .nd => "ND"
  | .d k => toString k
  | .nd2 => "ND2"

def parseVal (w : String) : Option Val :=
  if w = "ND" then some .nd else if w = "ND2" then some .nd2 else w.toNat?.map .d

def parseArg (w : String) : Option Arg :=
  if w.startsWith "@" then (w.drop 1).toNat?.map .ch else (parseVal w).map .v

def parseKw (ws : List String) : Option (List (Nat × Arg)) :=
  ws.mapM fun w =>
    match w.splitOn "=" with
    | [c, a] => match c.toNat?, parseArg a with
      | some c, some a => some (c, a)
      | _, _ => none
    | _ => none

def parsePairs (ws : List String) : Option (List (Option Nat × Nat)) :=
  ws.mapM fun w =>
    match w.splitOn ":" with
    | [m, o] => match o.toNat? with
      | some o => if m = "-" then some (none, o) else (m.toNat?).map fun m => (some m, o)
      | none => none
    | _ => none

def parseCsv (w : String) : Option (List Nat) :=
  if w = "" then some [] else (w.splitOn ",").mapM (·.toNat?)

def parseMap (w : String) : Option (List (Nat × Nat)) :=
  if w = "" then some [] else
    (w.splitOn ",").mapM fun x =>
      match x.splitOn ":" with
      | [a, b] => match a.toNat?, b.toNat? with
        | some a, some b => some (a, b)
        | _, _ => none
      | _ => none

def field (key w : String) : Option String :=
  if w.startsWith (key ++ "=") then some (w.drop (key.length + 1)).toString else none

def parseComp (ws : List String) : Option Comp :=
  match ws with
  | [i, ro, mi, ri, ko, co, rm] =>
    match (field "I" i).bind parseCsv, (field "RO" ro).bind parseMap, (field "MI" mi).bind parseCsv,
          (field "RI" ri).bind parseMap, (field "KO" ko).bind parseCsv, (field "CO" co).bind parseCsv,
          (field "RM" rm).bind parseMap with
    | some i, some ro, some mi, some ri, some ko, some co, some rm =>
      some { ins := i, resOut := ro, mins := mi, resIn := ri, kouts := ko, couts := co, resMOut := rm }
    | _, _, _, _, _, _, _ => none
  | _ => none

/-- split a token list at every "|" -/
def groups : List String → List (List String)
  | [] => [[]]
  | w :: ws =>
    match groups ws with
    | [] => [[w]]
    | g :: gs => if w = "|" then [] :: g :: gs else (w :: g) :: gs

def parseBit (w : String) : Option Bool :=
  if w = "0" then some false else if w = "1" then some true else none

def showErr : Err → String
  | .runtime => "Runtime" | .type => "Type" | .recursion => "Recursion" | .conn => "Conn"
  | .value => "Value" | .copy => "ValueCopy" | .readiness => "Readiness" | .serial => "Serial"
  | .child => "FailedChild" | .replace => "Replace"

/-- the outcome as the harness can see it: `invoked` = the call log grew during the operation -/
def showOut (grew : Bool) : Out → String
  | .ok => "ok"
  | .err e => showErr e
  | .invoked none => if grew then "invoked" else "ok"
  | .invoked (some e) => if grew then "invoked+" ++ showErr e else showErr e
  | .hit => "ok"
  | .submitted => "submitted"

def bit (b : Bool) : String := if b then "1" else "0"

def obs (st : St) : String :=
  let s := st.s
  let vals := " ".intercalate (st.chans.map fun c => s!"{c}={showVal (s.val c)}")
  let conns := " ".intercalate (st.chans.map fun c => s!"{c}={showNats (s.conns c)}")
  let flags := " ".intercalate (st.nodes.map fun n => s!"{n}={bit (s.running n)}{bit (s.failed n)}")
  let calls := ";".intercalate ((s.calls.filter fun (n, _) => !st.quiet.contains n).map fun (n, args) => s!"{n}(" ++ ",".intercalate (args.map showVal) ++ ")")
  s!"| V {vals} | C {conns} | F {flags} | K {calls}"

def doOp (st : St) (op : Data.Op) : St × List String :=
  let (s', out) := Data.step st.params st.fuel st.s op
  let st' := { st with s := s' }
  let res := match op with
    | .complete _ => if out.isInvoked then "completed" else "ok"
    | _ => showOut (((s'.calls.drop st.s.calls.length).filter fun (n, _) => !st.quiet.contains n).length > 0) out
  (st', [res ++ " " ++ obs st'])

def addNode (st : St) (n : Nat) : St :=
  if st.nodes.contains n then st else { st with nodes := st.nodes ++ [n] }

def stepLine (st : St) (ws : List String) : St × List String :=
  let bad : St × List String := (st, ["bad-op"])
  match ws with
  | ["chan", c, k, o, h, sf] =>
    match c.toNat?, o.toNat?, parseBit h, parseBit sf with
    | some c, some o, some h, some sf =>
      let kind? : Option Kind := if k = "di" then some .dataIn else if k = "do" then some .dataOut else none
      match kind? with
      | some kd =>
        let s := st.s
        ({ st with s := { s with kind := updF s.kind c kd, owner := updF s.owner c o,
                                 hinted := updF s.hinted c h, strict := updF s.strict c sf },
                   chans := st.chans ++ [c] }, [])
      | none => bad
    | _, _, _, _ => bad
  | "ins" :: n :: cs =>
    match n.toNat?, nats cs with
    | some n, some cs => (addNode { st with s := { st.s with ins := updF st.s.ins n cs } } n, [])
    | _, _ => bad
  | "outs" :: n :: cs =>
    match n.toNat?, nats cs with
    | some n, some cs => (addNode { st with s := { st.s with outs := updF st.s.outs n cs } } n, [])
    | _, _ => bad
  | ["reject", c, k] =>
    match c.toNat?, k.toNat? with
    | some c, some k => ({ st with rejects := (c, k) :: st.rejects }, [])
    | _, _ => bad
  | ["hintbad", a, b] =>
    match a.toNat?, b.toNat? with
    | some a, some b => ({ st with hintbad := (a, b) :: st.hintbad }, [])
    | _, _ => bad
  | "quiet" :: ns =>
    match nats ns with
    | some ns => ({ st with quiet := st.quiet ++ ns }, [])
    | none => bad
  | ["cache", n, b] =>
    match n.toNat?, parseBit b with
    | some n, some b => ({ st with s := { st.s with useCache := updF st.s.useCache n b } }, [])
    | _, _ => bad
  | "kids" :: n :: ks =>
    match n.toNat?, nats ks with
    | some n, some ks => ({ st with s := { st.s with kids := updF st.s.kids n ks } }, [])
    | _, _ => bad
  | "deps" :: n :: ks =>
    match n.toNat?, nats ks with
    | some n, some ks => ({ st with s := { st.s with deps := updF st.s.deps n ks } }, [])
    | _, _ => bad
  | ["wire", a, b] =>
    match a.toNat?, b.toNat? with
    | some a, some b => ({ st with s := (connectS st.params st.s a b).1 }, [])
    | _, _ => bad
  | "submit" :: n :: kw =>
    match n.toNat?, parseKw kw with
    | some n, some kw => doOp st (.submit n kw)
    | _, _ => bad
  | ["replace", n, pi, po] =>
    match n.toNat?, (field "P" pi).bind parseCsv, (field "Q" po).bind parseCsv with
    | some n, some pi, some po => doOp st (.replace n pi po)
    | _, _, _ => bad
  | ["mutate", k, k'] =>
    match k.toNat?, k'.toNat? with
    | some k, some k' => doOp st (.mutate k k')
    | _, _ => bad
  | ["complete", n] =>
    match n.toNat? with
    | some n => doOp st (.complete n)
    | none => bad
  | ["recv", a, b] =>
    match a.toNat?, b.toNat? with
    | some a, some b => ({ st with s := { st.s with recv := updF st.s.recv a (some b) } }, [])
    | _, _ => bad
  | ["fuel", k] =>
    match k.toNat? with
    | some k => ({ st with fuel := k }, [])
    | none => bad
  | ["set", c, v] =>
    match c.toNat?, parseVal v with
    | some c, some v => doOp st (.set c v)
    | _, _ => bad
  | ["assign", c, a] =>
    match c.toNat?, parseArg a with
    | some c, some a => doOp st (.assign c a)
    | _, _ => bad
  | "setinputs" :: kw =>
    match parseKw kw with
    | some kw => doOp st (.setInputs kw)
    | none => bad
  | ["fetch", c] =>
    match c.toNat? with
    | some c => doOp st (.fetch c)
    | none => bad
  | ["fetchall", n] =>
    match n.toNat? with
    | some n => doOp st (.fetchAll n)
    | none => bad
  | ["link", a, b] =>
    match a.toNat? with
    | some a =>
      if b = "-" then doOp st (.link a none)
      else match b.toNat? with
        | some b => doOp st (.link a (some b))
        | none => bad
    | none => bad
  | "connectm" :: a :: bs =>
    match a.toNat?, nats bs with
    | some a, some bs => doOp st (.connectMany a bs)
    | _, _ => bad
  | ["connect", a, b] =>
    match a.toNat?, b.toNat? with
    | some a, some b => doOp st (.connect a b)
    | _, _ => bad
  | ["disconnect", a, b] =>
    match a.toNat?, b.toNat? with
    | some a, some b => doOp st (.disconnect a b)
    | _, _ => bad
  | "copyvalues" :: mode :: rest =>
    let fh? : Option Bool := if mode = "hard" then some true else if mode = "soft" then some false else none
    let pin := rest.takeWhile (· ≠ "/")
    let pout := (rest.dropWhile (· ≠ "/")).drop 1
    if !rest.contains "/" then bad
    else match fh?, parsePairs pin, parsePairs pout with
      | some fh, some pin, some pout => doOp st (.copyValues fh pin pout)
      | _, _, _ => bad
  | "run" :: n :: kw =>
    match n.toNat?, parseKw kw with
    | some n, some kw => doOp st (.run n kw)
    | _, _ => bad
  | ["strict", c, b] =>
    match c.toNat?, parseBit b with
    | some c, some b => doOp st (.setStrict c b)
    | _, _ => bad
  | ["cfg", r, p, q, o, a] =>
    match parseBit r, parseBit p, parseBit q, parseBit o, parseBit a with
    | some r, some p, some q, some o, some a => ({ st with cfg := ⟨r, p, q, o, a⟩ }, [])
    | _, _, _, _, _ => bad
  | "rt" :: rest =>
    match groups rest with
    | scope :: comps =>
      match nats scope, comps.mapM parseComp with
      | some scope, some comps => doOp st (.roundTrip scope comps)
      | _, _ => bad
    | [] => bad
  | ["flag", n, r, f] =>
    match n.toNat?, parseBit r, parseBit f with
    | some n, some r, some f => doOp st (.flag n r f)
    | _, _, _ => bad
  | _ => bad

def main : IO Unit := Proto.run init0 stepLine
