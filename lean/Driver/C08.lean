import PwVerif.Model.Recovery
import PwVerif.Model.Storage
import PwVerif.Model.ExecFin
import PwVerif.Model.Proto
open PwVerif PwVerif.Exec PwVerif.Recovery PwVerif.Proto

/-!
Driver for C08.  A case describes the ownership tree as a list of *levels* (one per composite, inner
levels first, the root last); node ids are global.  For every level the first run is `Exec.step`
(macro children fail iff their own level fails; the macro on the way to a checkpointing node is cut
while it is running), the file is `Recovery.snapshot`, the resumed run is `Recovery.rstep`.
-/

inductive Tok | at (h k : Nat) | sleep (k : Nat)

structure Level where
  id : Nat
  own : List Nat
  f : FinDag                       -- wiring of the first run, leaf faults, executors
  down2 : List (List Nat)          -- wiring observed for the resumed run
  starters2 : List Nat
  exec2 : List Bool
  macros : List (Nat × Nat)        -- (node, level id)
  ui : List (Nat × Nat)            -- (node, macro input index)
  vlink : List (Nat × Nat × Nat)   -- (node, slot, macro input index)
  preset : List (Nat × Nat)        -- value-linked inputs (node, slot) assigned DIRECTLY before the first run
  outNode : Nat
  sched : List Tok
  sched2 : List Tok
  kbd : List Nat                   -- leaves whose fault is a KeyboardInterrupt (ends the loop of every level at once)
  down3 : List (List Nat)          -- wiring observed for the run resumed from the SECOND recovery file
  starters3 : List Nat
  sched3 : List Tok
  cutT : Nat                       -- schedule tokens of THIS level consumed before the checkpoint save
  order : List Nat                 -- the children in the order the composite lists them

structure DSt where
  n : Nat
  rc : RCfg
  levels : List Level
  cur : Option Level
  dirty : List Nat
  cut : Option (Nat × Nat × Nat)   -- checkpoint: (level id, node, schedule tokens consumed before the save)
  keyAfterRun : Bool               -- a composite's `_cached_internals` describe the state AFTER its run
  cp : List Nat                    -- leaves whose output only cloudpickle can serialise
  ckptMore : List Nat              -- further checkpointing nodes (flat graphs)
  fails2 : List Nat                -- leaves that raise in the resumed run (flat graphs)
  clearAll : Bool                  -- `running` is cleared too (checkpoint / interrupt: the process is gone)
  clearAll2 : Bool                 -- the same for the second recovery file
  suppress : Bool                  -- the first run was `run(raise_run_exceptions=False)`: no file, resumed in place
  cont : Option CCfg               -- restart with the `running` flags kept (`_serialize_result`), flat graphs
  fparents : List (Nat × Nat)      -- ownership tree given directly (failure events outside a run of the root)
  flabels : List (Nat × String)
  fevents : List (Nat × List Nat)  -- (node that raised, nodes running at that moment)
  fnorec : List Nat                -- nodes whose `recovery` is switched off
  kbd2 : List Nat

def emptyFin (n : Nat) : FinDag :=
  { n := n, slots := List.replicate n [], down := List.replicate n [], starters := [],
    onExec := List.replicate n false, fails := List.replicate n false, rank := List.replicate n 0 }

def DSt.init : DSt :=
  { n := 0, rc := RCfg.now, levels := [], cur := none, dirty := [], cut := none, keyAfterRun := true,
    cp := [], ckptMore := [], fails2 := [], kbd2 := [], clearAll := true, clearAll2 := true, suppress := false, cont := none,
    fparents := [], flabels := [], fevents := [], fnorec := [] }

def setAt {α} (l : List α) (i : Nat) (v : α) (dflt : α) : List α :=
  let l' := if l.length ≤ i then l ++ List.replicate (i + 1 - l.length) dflt else l
  l'.set i v

def findLevel (ls : List Level) (id : Nat) : Option Level := ls.find? (·.id == id)
def Level.isMacro (l : Level) (i : Nat) : Bool := l.macros.any (·.1 == i)
def Level.isUi (l : Level) (i : Nat) : Bool := l.ui.any (·.1 == i)

/-! ### scheduling: the recorded completions injected into the canonical order -/

def pickCanon (s : S) (rest : List Nat) (sched : List Tok) : Except String (Act × List Tok × Bool) :=
  match rest with
  | _ :: _ => .ok (.start, sched, false)
  | [] =>
    match s.queue with
    | _ :: _ => .ok (.deliver, sched, false)
    | [] =>
      match s.running with
      | [] => .ok (.exit, sched, false)
      | _ :: _ =>
        match sched with
        | .sleep k :: more => .ok (.complete k, more, true)
        | _ => .error "stuck-idle"

def pick (s : S) (sched : List Tok) (ev : Nat) : Except String (Act × List Tok × Bool) :=
  match s.phase with
  | .exited => .error "exited"
  | .aborted => .error "aborted"
  | .run rest =>
    match sched with
    | .at h k :: more => if h == ev then .ok (.complete k, more, true) else pickCanon s rest sched
    | _ => pickCanon s rest sched

def drive {σ} (getS : σ → S) (stepf : σ → Act → Option σ) (stop : S → Nat → Bool) (exactCut : Bool) :
    Nat → σ → List Tok → Nat → Nat → σ × String
  | 0, x, _, _, _ => (x, "fuel")
  | fuel + 1, x, sched, ev, used =>
    let s := getS x
    -- a completion recorded for this very moment happens inside the callback that is still unwinding
    let pendingNow := match sched with | .at h _ :: _ => h == ev | _ => false
    if stop s used && !(pendingNow && !exactCut) then (x, "cut") else
    match pick s sched ev with
    | .error e => (x, e)
    | .ok (a, sched', tokUsed) =>
      match stepf x a with
      | none => (x, "stuck-" ++ (match a with | .start => "start" | .deliver => "deliver" | .complete k => s!"complete-{k}" | .exit => "exit"))
      | some x' =>
        let s' := getS x'
        let ev' := if tokUsed || s'.doneLog.length > s.doneLog.length then ev + 1 else ev
        drive getS stepf stop exactCut fuel x' sched' ev' (if tokUsed then used + 1 else used)

/-! ### the first run of every level up to the cut -/

inductive Mode | fresh | toEnd | ckpt (c T : Nat) | chain (m T : Nat)

def fuelOf (n : Nat) : Nat := 4 * (n + 2) * (n + 2) + 16

def cutDag (l : Level) (macroFails : Nat → Bool) (chainM : Option Nat) : Dag :=
  let d := l.f.toDag
  { d with fails := fun i => d.fails i || macroFails i, onExec := fun i => d.onExec i || chainM == some i }

/-- how does the first run of level `lid` end when nothing outside stops it: (does it raise, was it ended
by a KeyboardInterrupt).  An interrupt is not caught by the `except Exception` of the drain loop: the loop of
the level ends at once, its composite fails with it, and so on upwards. -/
def levelEnd (ls : List Level) : Nat → Nat → Bool × Bool
  | 0, _ => (false, false)
  | fuel + 1, lid =>
    match findLevel ls lid with
    | none => (false, false)
    | some l =>
      let sub := fun i => match l.macros.find? (·.1 == i) with
        | some (_, lid2) => levelEnd ls fuel lid2
        | none => (false, false)
      let d := cutDag l (fun i => (sub i).1) none
      let isKbd := fun i => l.kbd.contains i || (sub i).2
      let (s, fin) := drive id (step Cfg.repaired d) (fun s _ => l.own.any (fun i => isKbd i && s.st i == .failed))
        false (fuelOf l.f.n) (init d) l.sched 0 0
      (!s.errs.isEmpty || fin == "aborted" || fin == "cut", fin == "cut")

def levelFails (ls : List Level) (fuel lid : Nat) : Bool := (levelEnd ls fuel lid).1

/-- the children of level `l` whose failure is an interrupt -/
def kbdNodes (ls : List Level) (l : Level) (i : Nat) : Bool :=
  l.kbd.contains i || (match l.macros.find? (·.1 == i) with
    | some (_, lid2) => (levelEnd ls ls.length lid2).2
    | none => false)

def subtreeHas (ls : List Level) : Nat → Nat → Nat → Bool
  | 0, _, _ => false
  | fuel + 1, lid, target =>
    lid == target ||
    (match findLevel ls lid with
     | none => false
     | some l => l.macros.any (fun (_, lid2) => subtreeHas ls fuel lid2 target))

def modeFor (ls : List Level) (l : Level) (cut : Option (Nat × Nat × Nat)) (T : Nat) : Mode :=
  match cut with
  | none => .toEnd
  | some (lidC, c, _) =>
    if l.id == lidC then .ckpt c (max T l.cutT)
    else match l.macros.find? (fun (_, lid2) => subtreeHas ls ls.length lid2 lidC) with
      | some (g, _) => .chain g (max T l.cutT)
      | none => .toEnd

structure LvlCut where
  l : Level
  s : S
  fin : String
  d : Dag
  parent : Option (Nat × Nat)   -- (parent level id, macro node)

def cutLevel (ls : List Level) (l : Level) (mode : Mode) : S × String × Dag :=
  let mf := fun i => match l.macros.find? (·.1 == i) with
    | some (_, lid2) => levelFails ls ls.length lid2
    | none => false
  match mode with
  | .fresh => let d := cutDag l mf none; (init d, "fresh", d)
  | .toEnd =>
    let d := cutDag l mf none
    let (s, fin) := drive id (step Cfg.repaired d)
      (fun s _ => l.own.any (fun i => kbdNodes ls l i && s.st i == .failed)) false (fuelOf l.f.n) (init d) l.sched 0 0
    (s, fin, d)
  | .ckpt c T =>
    let d := cutDag l mf none
    let (s, fin) := drive id (step Cfg.repaired d) (fun s used => s.st c == .done && used ≥ T) true (fuelOf l.f.n)
      (init d) l.sched 0 0
    (s, fin, d)
  | .chain m T =>
    let d := cutDag l mf (some m)
    let (s, fin) := drive id (step Cfg.repaired d) (fun s used => s.st m == .out && used ≥ T) true (fuelOf l.f.n)
      (init d) l.sched 0 0
    (s, fin, d)

/-- the cut of level `l` and of everything below it -/
def assign (ls : List Level) (cut : Option (Nat × Nat × Nat)) :
    Nat → Level → Mode → Option (Nat × Nat) → List LvlCut
  | 0, _, _, _ => []
  | fuel + 1, l, mode, parent =>
    let (s, fin, d) := cutLevel ls l mode
    let here : LvlCut := { l, s, fin, d, parent }
    let below := l.macros.map fun (g, lid2) =>
      match findLevel ls lid2 with
      | none => []
      | some l2 =>
        let childMode : Mode :=
          match mode with
          | .fresh => .fresh
          | _ =>
            match s.st g with
            | .idle => .fresh
            | .out => modeFor ls l2 cut 0        -- the macro on the way to the checkpointing node
            | _ => .toEnd
        assign ls cut fuel l2 childMode (some (l.id, g))
    here :: below.flatten

/-! ### rendering: macro terms are expanded through the sub-graph, macro inputs substituted -/

/-- is macro input `k` of level `lid` ever assigned while the graph runs (a connection above it is fetched, or the
link chain above it ends in one)?  Only then does the value link push a value onto the child input. -/
partial def pushed (st : DSt) (lid k : Nat) : Bool :=
  match st.levels.filterMap (fun p => (p.macros.find? (·.2 == lid)).map fun (m, _) => (p, m)) with
  | [] => false
  | (p, m) :: _ =>
    let connected := !(((p.f.slots.getD m []).getD k []).isEmpty)
    match p.vlink.find? (fun (x : Nat × Nat × Nat) => x.1 == m && x.2.1 == k) with
    | some (_, _, k') => connected || pushed st p.id k'
    | none => connected

/-- what a value-linked input holds: the macro input's value, unless it was assigned directly and nothing pushes -/
def linked (st : DSt) (l : Level) (g idx k : Nat) (env : List String) : String :=
  if l.preset.contains (g, idx) && !pushed st l.id k then "p" else env.getD k "?"

structure View where
  st : DSt
  outs : Nat → Nat → Val           -- level id ↦ node ↦ output
  args : Nat → Nat → List Val      -- level id ↦ node ↦ inputs of its last admitted run
  parentOf : Nat → Option (Nat × Nat)

partial def showExp (v : View) (lid : Nat) (env : List String) : Val → String
  | .nd => "ND"
  | .d => "d"
  | .app f args =>
    match findLevel v.st.levels lid with
    | none => "?"
    | some l =>
      let g := if f ≥ v.st.n then f - v.st.n else f
      let dirty := f ≥ v.st.n
      match l.ui.find? (·.1 == g) with
      | some (_, k) => env.getD k "?"
      | none =>
        match l.macros.find? (·.1 == g) with
        | some (_, lid2) =>
          let env2 := (List.range args.length).map fun idx =>
            match l.vlink.find? (fun (x : Nat × Nat × Nat) => x.1 == g && x.2.1 == idx) with
            | some (_, _, k) => linked v.st l g idx k env
            | none => showExp v lid env (args.getD idx .nd)
          match findLevel v.st.levels lid2 with
          | none => "?"
          | some l2 => showExp v lid2 env2 (v.outs lid2 l2.outNode)
        | none =>
          let rendered := (List.range args.length).map fun idx =>
            match l.vlink.find? (fun (x : Nat × Nat × Nat) => x.1 == g && x.2.1 == idx) with
            | some (_, _, k) => linked v.st l g idx k env
            | none =>
              match args.getD idx .nd with
              | .d => if dirty && v.st.dirty.contains g then "e" else "d"
              | a => showExp v lid env a
          s!"f{g}(" ++ ",".intercalate rendered ++ ")"

/-- the values of a level's macro inputs, as its parent level sees them -/
partial def envOf (v : View) (lid : Nat) : List String :=
  match v.parentOf lid with
  | none => []
  | some (plid, g) =>
    let penv := envOf v plid
    let args := v.args plid g
    match findLevel v.st.levels plid with
    | none => []
    | some pl =>
      (List.range args.length).map fun idx =>
        match pl.vlink.find? (fun (x : Nat × Nat × Nat) => x.1 == g && x.2.1 == idx) with
        | some (_, _, k) => linked v.st pl g idx k penv
        | none => showExp v plid penv (args.getD idx .nd)

def showSt : Exec.St → String
  | .idle => "idle" | .out => "out" | .done => "done" | .failed => "failed"

def uniqSorted (l : List Nat) : List Nat :=
  (List.range ((l.foldl max 0) + 1)).filter (fun x => l.contains x)

/-! ### who writes which file -/

def forestOf (st : DSt) (rootId : Nat) : Forest :=
  { parent := fun i =>
      if i == rootId then none
      else match st.levels.find? (fun l => l.own.contains i) with
        | none => none
        | some l =>
          -- the macro node that owns level `l` (none: `l` is the root level)
          match (st.levels.map fun p => p.macros.filter (fun (_, lid) => lid == l.id)).flatten with
          | (g, _) :: _ => some g
          | [] => some rootId,
    recovery := fun _ => true }

def pathOf (f : Forest) (rootId : Nat) (fuel : Nat) (n : Nat) : String :=
  "/".intercalate ((f.chain fuel n).reverse.map fun i => if i == rootId then "w" else s!"n{i}")

/-- did anything inside level `lid` change between the cached run and the reloaded graph: a leaf with
new input values, or (unfaithful restore) a multiply connected input -/
partial def innerChanged (st : DSt) (lid : Nat) : Bool :=
  match findLevel st.levels lid with
  | none => false
  | some l =>
    l.own.any (fun i => st.dirty.contains i) ||
    (!st.rc.faithfulOrder && l.f.slots.any (fun sl => sl.any (fun cs => cs.length > 1))) ||
    l.macros.any (fun (p : Nat × Nat) => innerChanged st p.2)

/-- `_internal_cache_key` of a composite covers the unconnected inputs of ALL its descendants. The children
of a NESTED macro get theirs (through value links) when that macro fetches — during the run of the outer
composite. A key recorded before the run therefore never matches again once a nested macro has a
connected input: such a composite cannot answer from its cache. -/
partial def selfInvalid (st : DSt) (lid : Nat) : Bool :=
  match findLevel st.levels lid with
  | none => false
  | some l => l.macros.any fun (p : Nat × Nat) =>
      (l.f.slots.getD p.1 []).any (fun cs => !cs.isEmpty) || selfInvalid st p.2

/-- `linkChanged i`: a value link of this level pushes a changed macro input onto an input of the (macro) child `i` —
its inputs differ from the cached ones although no connection of this level says so -/
def compSetL (st : DSt) (l : Level) (linkChanged : Nat → Bool) : Nat → Bool :=
  rerunSet st.rc l.isMacro (fun i => match l.macros.find? (·.1 == i) with
    | some (_, lid2) => innerChanged st lid2 || (!st.keyAfterRun && selfInvalid st lid2) || linkChanged i
    | none => false)

def compSet (st : DSt) (l : Level) : Nat → Bool := compSetL st l (fun _ => false)

def resumedDag (st : DSt) (c : LvlCut) : Dag :=
  let dl := reloadDag st.rc c.parent.isNone c.d
  { slots := dl.slots, down := fun i => c.l.down2.getD i [], starters := c.l.starters2,
    onExec := fun i => c.l.exec2.getD i false, fails := fun _ => false }

def resumeStart (st : DSt) (comp : Nat → Bool) (d : Dag) (s : S) : RS :=
  if st.clearAll then resumeFromC st.rc comp d s else resumeFromFailed st.rc comp d s

/-- a level (and everything below it) whose composite answered from its cache: nothing runs -/
partial def notrunTree (st : DSt) (cuts : List LvlCut) (lid : Nat) : List (Nat × RS × RS × String) :=
  match cuts.find? (fun (c : LvlCut) => c.l.id == lid) with
  | none => []
  | some c =>
    let rs0 := resumeStart st (compSet st c.l) (resumedDag st c) c.s
    (lid, rs0, rs0, "notrun") :: (c.l.macros.map fun (p : Nat × Nat) => notrunTree st cuts p.2).flatten

structure LvlRun where
  rs0 : RS
  rs : RS
  fin : String
  below : List (List (Nat × RS × RS × String))
  md : List Nat

/-- The resumed run of level `lid` (head of the result) and of everything below it.
`envChanged k`: the value of macro input `k` of this level differs from the one of the first run.
A macro child whose sub-graph now ends in a different value, a `UserInput` child / value-linked child
fed by a changed macro input, and a leaf that got new inputs are nodes whose function changed.
Which macro children changed is only known after they have been run with the inputs this level
gives them: iterate (the macro children of a level form a DAG, so this settles). -/
partial def resumeTree (st : DSt) (cuts : List LvlCut) (lid : Nat) (envChanged : List Bool) :
    List (Nat × RS × RS × String) :=
  match cuts.find? (fun (c : LvlCut) => c.l.id == lid) with
  | none => []
  | some c =>
    let l := c.l
    let d2 : Dag := resumedDag st c
    let envDirty : Nat → Bool := fun i =>
      (match l.ui.find? (·.1 == i) with | some (_, k) => envChanged.getD k false | none => false) ||
      l.vlink.any (fun (x : Nat × Nat × Nat) => x.1 == i && !l.isMacro i && envChanged.getD x.2.2 false)
    let runWith : List Nat → LvlRun := fun macroDirty =>
      let fx : Fix := { dirty := fun i => st.dirty.contains i || envDirty i || macroDirty.contains i, off := st.n }
      let linkChanged : Nat → Bool := fun i =>
        l.vlink.any (fun (x : Nat × Nat × Nat) => x.1 == i && l.isMacro i && envChanged.getD x.2.2 false)
      let rs0 := resumeStart st (compSetL st l linkChanged) d2 c.s
      let (rs, fin) := drive (·.s) (rstepF (fun i => st.fails2.contains i) fx Cfg.repaired d2)
        (fun s _ => st.kbd2.any (fun i => s.st i == St.failed)) false (fuelOf l.f.n) rs0 l.sched2 0 0
      let below : List (Nat × Nat × List (Nat × RS × RS × String)) := l.macros.map fun (p : Nat × Nat) =>
        let g := p.1
        let a1 := c.s.args g
        let a2 := rs.s.args g
        let ch : List Bool := (List.range (max a1.length a2.length)).map fun idx =>
          match l.vlink.find? (fun (x : Nat × Nat × Nat) => x.1 == g && x.2.1 == idx) with
          | some (_, _, k) => envChanged.getD k false
          | none => c.s.st g != St.idle && decide (a1.getD idx Val.nd ≠ a2.getD idx Val.nd)
        -- a composite child that answered from its cache does not run its sub-graph
        let hit := rs.fcalls g == 0 && rs.s.st g == St.done
        (g, p.2, if hit then notrunTree st cuts p.2 else resumeTree st cuts p.2 ch)
      let md : List Nat := (below.filter fun (q : Nat × Nat × List (Nat × RS × RS × String)) =>
        match q.2.2, cuts.find? (fun (c2 : LvlCut) => c2.l.id == q.2.1) with
        | (_, _, rs2, _) :: _, some c2 =>
          c.s.st q.1 == St.done && decide (c2.s.out c2.l.outNode ≠ rs2.s.out c2.l.outNode)
        | _, _ => false).map (·.1)
      { rs0, rs, fin, below := below.map (·.2.2), md }
    let guess := (List.range (l.macros.length + 1)).foldl (fun g _ => (runWith g).md) []
    let r := runWith guess
    (l.id, r.rs0, r.rs, r.fin) :: r.below.flatten

/-! ### one case -/

def runCase (st0 : DSt) : List String :=
  -- a graph resumed in place keeps what a load may lose
  let st : DSt := if st0.suppress then { st0 with rc := st0.rc.inPlace } else st0
  match st.levels.getLast? with
  | none => ["bad-op"]
  | some root =>
    let ls := st.levels
    let depthFuel := ls.length + 2
    let rootMode := modeFor ls root st.cut (match st.cut with | some (_, _, T) => T | none => 0)
    let cuts := assign ls st.cut depthFuel root rootMode none
    let cutOf := fun lid => cuts.find? (·.l.id == lid)
    let parentOf := fun lid => (cutOf lid).bind (·.parent)
    -- the resumed run of every level, inner levels first: a macro that had completed before the cut and
    -- whose sub-graph now ends in a different value (a leaf inside got new inputs, or the reload changed
    -- the fetch priority inside) is a node whose function changed
    let resumed := resumeTree st cuts root.id []
    let resOf := fun lid => resumed.find? (·.1 == lid)
    let viewCut : View :=
      { st, outs := fun lid i => match cutOf lid with | some c => c.s.out i | none => .nd,
        args := fun lid i => match cutOf lid with | some c => c.s.args i | none => [],
        parentOf }
    let viewRes : View :=
      { st, outs := fun lid i => match resOf lid with | some (_, _, rs, _) => rs.s.out i | none => .nd,
        args := fun lid i => match resOf lid, cutOf lid with
          | some (_, _, _, "notrun"), some c => c.s.args i     -- nothing ran: the inputs of the first run stand
          | some (_, _, rs, _), _ => rs.s.args i
          | none, _ => [],
        parentOf }
    -- files
    let rootId := st.n
    let forest := forestOf st rootId
    let allNodes := List.range (st.n + 1)
    let failedLeaves := (cuts.map fun c => c.l.own.filter (fun i => c.s.st i == .failed && !c.l.isMacro i)).flatten
    let rootFailed := match cutOf root.id with
      | some c => !c.s.errs.isEmpty || c.fin == "aborted" || (c.fin == "cut" && st.cut.isNone)
      | none => false
    -- files: every save goes through the storage model (C19): what is on disk after the saves up to the cut
    let cpDoneAt := fun (sts : List (Level × (Nat → St))) =>
      sts.any fun (l, stf) => l.own.any (fun i => st.cp.contains i && stf i == .done)
    let content := fun (b : Bool) => if b then Storage.Content.pickleFails else Storage.Content.ok
    let cutStates := cuts.map fun c => (c.l, c.s.st)
    let showFS := fun (dir : String) (name : String) (fs : Storage.FS) =>
      (if fs.cpckl != .absent then [s!"{dir}/{name}.cpckl"] else []) ++
      (if fs.pckl != .absent then [s!"{dir}/{name}.pckl"] else [])
    let stCfg := Storage.Cfg.current
    let rootDir := fun (n : Nat) => pathOf forest rootId depthFuel n
    let (files, fsRec) : List String × Storage.FS :=
      match st.cut with
      | some (_, c, _) =>
        -- the checkpoints written so far, in the order the nodes finished (several only in flat graphs)
        let savers := c :: st.ckptMore
        let dl := match cutOf root.id with | some rc => rc.s.doneLog | none => []
        let saves : List Bool :=
          if st.ckptMore.isEmpty then [cpDoneAt cutStates]
          else
            -- earlier saves: what had completed when that node finished; the LAST one (the cut) sees the whole cut
            -- state — completions nested in the saving node's own finishing callback come before its save
            let early := (List.range dl.length).filterMap fun k =>
              if savers.contains (dl.getD k 0) then some ((dl.take (k + 1)).any (fun i => st.cp.contains i)) else none
            early.dropLast ++ [cpDoneAt cutStates]
        let fs := saves.foldl (fun fs b => Storage.saveFS stCfg fs (content b) Storage.Cls.graph 1) Storage.FS.init
        (showFS (rootDir (forest.checkpointDir depthFuel c)) "picklestorage" fs, Storage.FS.init)
      | none =>
        if rootFailed then
          let fs := Storage.saveFS stCfg Storage.FS.init (content (cpDoneAt cutStates)) Storage.Cls.graph 1
          (((forest.recoveryFilesR (fun n => !(st.suppress && n == rootId)) depthFuel allNodes failedLeaves).map
            fun n => showFS (rootDir n) "recovery" fs).flatten, if st.suppress then Storage.FS.init else fs)
        else ([], Storage.FS.init)
    let perLevel := ls.map fun l =>
      let tag := s!"L{l.id}"
      match cutOf l.id, resOf l.id with
      | some c, some (_, _, rs, fin) =>
        let f2 : FinDag := { l.f with down := l.down2, starters := l.starters2, onExec := l.exec2 }
        let sn := snapshot st.rc c.s
        let envC := envOf viewCut l.id
        let envR := envOf viewRes l.id
        let leaves := l.own.filter (fun i => !l.isMacro i && !l.isUi i)
        -- a run ended by an interrupt: the caller sees the KeyboardInterrupt
        let fin := if fin == "cut" then "aborted" else fin
        let outcome := if fin == "aborted" then "aborted" else if fin == "exited" then (if rs.s.errs.isEmpty then "ok" else "failedchild") else fin
        [ s!"{tag} wf {l.f.check} {f2.check}",
          s!"{tag} cut flags " ++ " ".intercalate (l.own.map fun i =>
              s!"{i}:" ++ (if sn.failed i then "F" else if sn.running i then "R" else "-")),
          s!"{tag} cut out " ++ " ".intercalate (l.own.map fun i =>
              s!"{i}:" ++ (if l.isMacro i then "*" else showExp viewCut l.id envC (c.s.out i))),
          s!"{tag} cut cache " ++ " ".intercalate (l.own.map fun i => s!"{i}:" ++
              (if l.isMacro i && !st.rc.keepCompositeCache then "0" else if (sn.cache i).isSome then "1" else "0")),
          s!"{tag} cut recv " ++ " ".intercalate (l.own.map fun i => s!"{i}:{showNats (uniqSorted (sn.received i))}"),
          s!"{tag} res end {fin}",
          s!"{tag} res outcome {outcome}",
          s!"{tag} res exec {showNats rs.s.execLog}",
          s!"{tag} res done {showNats rs.s.doneLog}",
          s!"{tag} res st " ++ " ".intercalate (l.own.map fun i => s!"{i}:{showSt (rs.s.st i)}"),
          -- a job that is still out when the run is cut has not called the function yet
          s!"{tag} res fcalls " ++ " ".intercalate (leaves.map fun i =>
              s!"{i}:{if rs.s.st i == .out then 0 else rs.fcalls i}"),
          s!"{tag} res out " ++ " ".intercalate (l.own.map fun i => s!"{i}:" ++ showExp viewRes l.id envR (rs.s.out i)) ]
      | _, _ => [s!"{tag} unreachable"]
    let refused := cuts.any fun c => loadRefused st.rc (c.l.vlink.map (·.1)) (snapshot st.rc c.s)
    -- a second failure (flat graphs): the second recovery file and the run resumed from it
    let history : List String :=
      match ls, cutOf root.id, resOf root.id with
      | [l], some c, some (_, _, rs2, fin2) =>
        if st.cut.isSome || !(fin2 == "cut" || !rs2.s.errs.isEmpty || fin2 == "aborted") then []
        else
          let completed2 := fun i => rs2.s.st i == .done || (rs2.s.st i == .idle && (rs2.cache i).isSome)
          let fs2 := Storage.saveFS stCfg fsRec (content (l.own.any fun i => st.cp.contains i && completed2 i))
            Storage.Cls.graph 2
          let sn2 := rs2.snapshot
          let d2 := resumedDag st c
          let d3 : Dag := { d2 with down := fun i => l.down3.getD i [], starters := l.starters3 }
          let rs0 := resumeInit st.rc (compSet st l) d3 (if st.clearAll2 then sn2.clearFlags else sn2.clearFailed)
          let fx3 : Fix := { dirty := fun _ => false, off := st.n }
          let (rs3, fin3) := drive (·.s) (rstep fx3 Cfg.repaired d3) (fun _ _ => false) false (fuelOf l.f.n) rs0 l.sched3 0 0
          let v3 : View := { st, outs := fun _ i => rs3.s.out i, args := fun _ i => rs3.s.args i, parentOf }
          let v2 : View := { st, outs := fun _ i => rs2.s.out i, args := fun _ i => rs2.s.args i, parentOf }
          let outcome := if fin3 == "aborted" then "aborted" else if fin3 == "exited" then (if rs3.s.errs.isEmpty then "ok" else "failedchild") else fin3
          [ "H files " ++ " ".intercalate (showFS (rootDir rootId) "recovery" fs2),
            "H cut flags " ++ " ".intercalate (l.own.map fun i =>
              s!"{i}:" ++ (if sn2.failed i then "F" else if sn2.running i then "R" else "-")),
            "H cut out " ++ " ".intercalate (l.own.map fun i => s!"{i}:" ++ showExp v2 l.id [] (rs2.s.out i)),
            "H cut cache " ++ " ".intercalate (l.own.map fun i => s!"{i}:" ++ (if (sn2.cache i).isSome then "1" else "0")),
            "H cut recv " ++ " ".intercalate (l.own.map fun i => s!"{i}:{showNats (uniqSorted (sn2.received i))}"),
            s!"H res end {fin3}",
            s!"H res outcome {outcome}",
            s!"H res exec {showNats rs3.s.execLog}",
            s!"H res done {showNats rs3.s.doneLog}",
            "H res st " ++ " ".intercalate (l.own.map fun i => s!"{i}:{showSt (rs3.s.st i)}"),
            "H res fcalls " ++ " ".intercalate (l.own.map fun i => s!"{i}:{rs3.fcalls i}"),
            "H res out " ++ " ".intercalate (l.own.map fun i => s!"{i}:" ++ showExp v3 l.id [] (rs3.s.out i)) ]
      | _, _, _ => []
    -- restart with the running flags kept: the first run goes on from the cut (or what the code keeps of it)
    let contLines : List String :=
      match st.cont, ls, cutOf root.id with
      | some cc, [l], some c =>
        -- the new process has no executors: what is triggered from here on runs locally
        let dc : Dag := { c.d with onExec := fun _ => false }
        if c.s.running.isEmpty then ["K skip"]    -- nothing out at the cut: that is an ordinary (fresh) resume
        else match continueFrom cc Cfg.repaired dc l.order c.s with
        | none => ["K end refused"]
        | some s1 =>
          let (s2, fin) := drive id (step Cfg.repaired dc) (fun _ _ => false) false (fuelOf l.f.n) s1 [] 0 0
          let v : View := { st, outs := fun _ i => s2.out i, args := fun _ i => s2.args i, parentOf }
          [ s!"K end {fin}",
            "K st " ++ " ".intercalate (l.own.map fun i => s!"{i}:{showSt (s2.st i)}"),
            "K calls " ++ " ".intercalate (l.own.map fun i => s!"{i}:{s2.calls i - c.s.calls i}"),
            "K out " ++ " ".intercalate (l.own.map fun i => s!"{i}:" ++ showExp v l.id [] (s2.out i)) ]
      | _, _, _ => []
    if st.cont.isSome then ["files " ++ " ".intercalate files] ++ contLines
    else if refused then ["files " ++ " ".intercalate files, "load-failed"]
    else ["files " ++ " ".intercalate files] ++ perLevel.flatten ++ history

/-- the recovery files after the recorded failure events, over the ownership tree given by `forest` lines -/
def scanEvents (st : DSt) : List String :=
  let f : Forest := { parent := fun i => (st.fparents.find? (·.1 == i)).map (·.2), recovery := fun i => !st.fnorec.contains i }
  let nodes := (st.flabels.map (·.1))
  let fuel := nodes.length + 1
  let evs : List FailEv := st.fevents.map fun (k, rs) => { node := k, running := fun i => rs.contains i }
  let label := fun i => match st.flabels.find? (·.1 == i) with | some (_, l) => l | none => s!"n{i}"
  let path := fun n => "/".intercalate ((f.chain fuel n).reverse.map label)
  ["files " ++ " ".intercalate ((f.recoveryFilesEv fuel nodes evs).map fun n => path n ++ "/recovery.pckl")]

def parseTok (w : String) : Option Tok :=
  match w.splitOn ":" with
  | ["s", k] => k.toNat?.map Tok.sleep
  | [h, k] => match h.toNat?, k.toNat? with
    | some h, some k => some (.at h k)
    | _, _ => none
  | _ => none

def parseBool (w : String) : Option Bool :=
  if w == "1" then some true else if w == "0" then some false else none

def withCur (s : DSt) (g : Level → Option Level) : DSt × List String :=
  match s.cur with
  | none => (s, ["bad-op"])
  | some l => match g l with
    | some l' => ({ s with cur := some l' }, [])
    | none => (s, ["bad-op"])

def step' (s : DSt) (ws : List String) : DSt × List String :=
  match ws with
  | ["cfg", r, dfl, cf, sr, fo, kc, ka] =>
    match parseBool r, parseBool dfl, parseBool cf, parseBool sr, parseBool fo, parseBool kc, parseBool ka with
    | some r, some dfl, some cf, some sr, some fo, some kc, some ka =>
      ({ s with rc := { cache := { Cache.Cfg.repaired with clearOnFail := cf }, dropInFlight := dfl,
                        resetReceived := r, silentRelink := sr, faithfulOrder := fo, keepCompositeCache := kc },
                keyAfterRun := ka }, [])
    | _, _, _, _, _, _, _ => (s, ["bad-op"])
  | ["n", n] => match n.toNat? with
    | some n => ({ s with n := n }, [])
    | none => (s, ["bad-op"])
  | ["level", lid] => match lid.toNat? with
    | some lid =>
      ({ s with cur := some { id := lid, own := [], f := emptyFin s.n, down2 := List.replicate s.n [], starters2 := [],
                               exec2 := List.replicate s.n false, macros := [], ui := [], vlink := [], preset := [], outNode := 0,
                               sched := [], sched2 := [], kbd := [], down3 := List.replicate s.n [], starters3 := [],
                               sched3 := [], cutT := 0, order := [] } }, [])
    | none => (s, ["bad-op"])
  | ["endlevel"] => match s.cur with
    | some l => ({ s with levels := s.levels ++ [l], cur := none }, [])
    | none => (s, ["bad-op"])
  | "own" :: is => match nats is with
    | some is => withCur s fun l => some { l with own := is }
    | none => (s, ["bad-op"])
  | "slot" :: i :: cs => match i.toNat?, nats cs with
    | some i, some cs => withCur s fun l =>
        some { l with f := { l.f with slots := setAt l.f.slots i (l.f.slots.getD i [] ++ [cs]) [] } }
    | _, _ => (s, ["bad-op"])
  | "down" :: j :: rs => match j.toNat?, nats rs with
    | some j, some rs => withCur s fun l => some { l with f := { l.f with down := setAt l.f.down j rs [] } }
    | _, _ => (s, ["bad-op"])
  | "down2" :: j :: rs => match j.toNat?, nats rs with
    | some j, some rs => withCur s fun l => some { l with down2 := setAt l.down2 j rs [] }
    | _, _ => (s, ["bad-op"])
  | "starters" :: ss => match nats ss with
    | some ss => withCur s fun l => some { l with f := { l.f with starters := ss } }
    | none => (s, ["bad-op"])
  | "starters2" :: ss => match nats ss with
    | some ss => withCur s fun l => some { l with starters2 := ss }
    | none => (s, ["bad-op"])
  | "exec" :: is => match nats is with
    | some is => withCur s fun l => some { l with f := { l.f with onExec := (List.range l.f.n).map (fun i => is.contains i) } }
    | none => (s, ["bad-op"])
  | "exec2" :: is => match nats is with
    | some is => withCur s fun l => some { l with exec2 := (List.range l.f.n).map (fun i => is.contains i) }
    | none => (s, ["bad-op"])
  | "fails" :: is => match nats is with
    | some is => withCur s fun l => some { l with f := { l.f with fails := (List.range l.f.n).map (fun i => is.contains i) } }
    | none => (s, ["bad-op"])
  | "rank" :: rs => match nats rs with
    | some rs => withCur s fun l => some { l with f := { l.f with rank := rs } }
    | none => (s, ["bad-op"])
  | ["macro", g, lid] => match g.toNat?, lid.toNat? with
    | some g, some lid => withCur s fun l => some { l with macros := l.macros ++ [(g, lid)] }
    | _, _ => (s, ["bad-op"])
  | ["ui", g, k] => match g.toNat?, k.toNat? with
    | some g, some k => withCur s fun l => some { l with ui := l.ui ++ [(g, k)] }
    | _, _ => (s, ["bad-op"])
  | ["preset", g, sl] => match g.toNat?, sl.toNat? with
    | some g, some sl => withCur s fun l => some { l with preset := l.preset ++ [(g, sl)] }
    | _, _ => (s, ["bad-op"])
  | ["vlink", g, sl, k] => match g.toNat?, sl.toNat?, k.toNat? with
    | some g, some sl, some k => withCur s fun l => some { l with vlink := l.vlink ++ [(g, sl, k)] }
    | _, _, _ => (s, ["bad-op"])
  | ["outnode", g] => match g.toNat? with
    | some g => withCur s fun l => some { l with outNode := g }
    | none => (s, ["bad-op"])
  | "sched" :: ts => match ts.mapM parseTok with
    | some ts => withCur s fun l => some { l with sched := ts }
    | none => (s, ["bad-op"])
  | "sched2" :: ts => match ts.mapM parseTok with
    | some ts => withCur s fun l => some { l with sched2 := ts }
    | none => (s, ["bad-op"])
  | "kbd" :: is => match nats is with
    | some is => withCur s fun l => some { l with kbd := is }
    | none => (s, ["bad-op"])
  | "down3" :: j :: rs => match j.toNat?, nats rs with
    | some j, some rs => withCur s fun l => some { l with down3 := setAt l.down3 j rs [] }
    | _, _ => (s, ["bad-op"])
  | "starters3" :: ss => match nats ss with
    | some ss => withCur s fun l => some { l with starters3 := ss }
    | none => (s, ["bad-op"])
  | "order" :: is => match nats is with
    | some is => withCur s fun l => some { l with order := is }
    | none => (s, ["bad-op"])
  | ["cutT", n] => match n.toNat? with
    | some n => withCur s fun l => some { l with cutT := n }
    | none => (s, ["bad-op"])
  | "sched3" :: ts => match ts.mapM parseTok with
    | some ts => withCur s fun l => some { l with sched3 := ts }
    | none => (s, ["bad-op"])
  | "cp" :: is => match nats is with
    | some is => ({ s with cp := is }, [])
    | none => (s, ["bad-op"])
  | "ckptmore" :: is => match nats is with
    | some is => ({ s with ckptMore := is }, [])
    | none => (s, ["bad-op"])
  | "fails2" :: is => match nats is with
    | some is => ({ s with fails2 := is }, [])
    | none => (s, ["bad-op"])
  | ["forest", i, pp, lab] => match i.toNat?, pp.toNat? with
    | some i, some pp => ({ s with fparents := s.fparents ++ [(i, pp)], flabels := s.flabels ++ [(i, lab)] }, [])
    | some i, none => if pp == "-" then ({ s with flabels := s.flabels ++ [(i, lab)] }, []) else (s, ["bad-op"])
    | _, _ => (s, ["bad-op"])
  | "fevent" :: k :: rs => match k.toNat?, nats rs with
    | some k, some rs => ({ s with fevents := s.fevents ++ [(k, rs)] }, [])
    | _, _ => (s, ["bad-op"])
  | ["fscan"] => (s, scanEvents s)
  | ["norecovery", i] => match i.toNat? with
    | some i => ({ s with fnorec := s.fnorec ++ [i] }, [])
    | none => (s, ["bad-op"])
  | ["continue", a, b] => match parseBool a, parseBool b with
    | some a, some b => ({ s with cont := some { keepQueue := a, iterateCopy := b } }, [])
    | _, _ => (s, ["bad-op"])
  | ["suppress", a] => match parseBool a with
    | some a => ({ s with suppress := a }, [])
    | none => (s, ["bad-op"])
  | ["clear", a, b] => match parseBool a, parseBool b with
    | some a, some b => ({ s with clearAll := a, clearAll2 := b }, [])
    | _, _ => (s, ["bad-op"])
  | "kbd2" :: is => match nats is with
    | some is => ({ s with kbd2 := is }, [])
    | none => (s, ["bad-op"])
  | "dirty" :: is => match nats is with
    | some is => ({ s with dirty := is }, [])
    | none => (s, ["bad-op"])
  | ["cut", "end"] => ({ s with cut := none }, [])
  | ["cut", "ckpt", lid, c, t] => match lid.toNat?, c.toNat?, t.toNat? with
    | some lid, some c, some t => ({ s with cut := some (lid, c, t) }, [])
    | _, _, _ => (s, ["bad-op"])
  | ["run"] => (s, runCase s)
  | _ => (s, ["bad-op"])

def main : IO Unit := Proto.run DSt.init step'
