import PwVerif.Model.Signal
import PwVerif.Model.Signal2
import PwVerif.Model.FlowExecQ
import PwVerif.Model.Proto
/-!
Line-protocol driver for C02.

Trigger level (one all-of trigger `acc` and one any-of trigger `any`, emitter channels are numbers):
  lab <chan> <label>            scoped label (a number) of an emitter channel (default: its own number)
  thist                         new history: both triggers disconnected, memory empty (labels stay)
  tconnect <any|acc> <chan>     tdisconnect <any|acc> <chan>     tdisconnectall <any|acc>
  arrive <any|acc> <chan>       the trigger is called with that emitter          poke <any|acc>
  emit <chan>                   the emitter is called: it calls whatever it is connected to
  script <act> …                top-level acts on the all-of trigger, act = A<n>|P|C<n>|D<n> [!] [ "[" act … "]" ]:
                                `!` the callback raises, `[ … ]` what it does on the trigger while it runs; one line per act:
                                `evs <performed> | fires <flags> | raised <0|1> | acc [conns] [received]`
 every one of them answers  `any <fires> [conns] | acc <fires> [conns] [received, sorted]`

Flow level (children of one composite are numbers, an emitting channel is 4*node + 0 ran|1 failed|2 true|3 false):
  node <i> <term|ident|add|lt|if|append> <useCache 0|1> <failAt: - or a,b,c>
  slot <i> <own: ND|d|N|n<k>|bT|bF>           appends one input channel to node i
  dconn <i> <slot> <src>                       data connection (newest first, duplicates ignored)
  sconn <sig> <node> <0 run | 1 accumulate_and_run>    signal connection (newest first on both sides)
  sdisc <sig> <node> <0|1>
  starters <i> …
  mconfig <P|R> <ui node> …                     the composite is a macro: its constructor's treatment of a hand-made wiring
  pre <sig> <node>                              child's all-of trigger heard this emitter before the run (stale memory)
  owner <i> <0|1>   macro <m>   mstarters <i> …   two composites: children of the macro child m of the workflow
  run2 <fuel> <steps>                           the workflow with its hand-wired macro child (two queues)
  heal <i> …   replace <i>   pull <i>   ddisc <i> <slot> <src>    edits between wiring and running (Model Part E)
  onexec <i> …   mid <c> <j> …   idle <j> …   xrun <fuel>   children on a controllable executor and the landing schedule
  roundtrip                                     state round trip of the composite (connections stored as strings and re-made)
  quiet <i>                                     the wrapped function of child i is not instrumented: leave it out of `calls`
  run <fuel>                                    prints the observations of one composite run
  rerun <fuel> <healed child> …                 the same composite runs again after `failed` was cleared on these children
-/
open PwVerif PwVerif.Signal PwVerif.Proto

structure St where
  -- trigger level
  lab : Nat → Label
  acc : Acc
  anyc : List Nat
  -- flow level
  n : Nat
  kinds : Nat → Kind
  cache : Nat → Bool
  failAt : Nat → List Nat
  slots : Nat → List Slot
  w : Wiring
  starters : List Nat
  quiet : List Nat
  rec0 : Nat → List Label
  last : Option (S Store)      -- how the previous run of this composite ended
  store0 : Store               -- what edits before the first run (a pull) have done to the children
  owner : Nat → Nat            -- two composites: 0 = child of the workflow, 1 = child of its macro child
  macroNode : Nat
  mStarters : List Nat
  execs : List Nat                       -- children on the controllable executor
  mids : List (Nat × List Nat)           -- during the c-th local function call these outstanding jobs land (choices)
  idles : List Nat                       -- which outstanding job lands when the loop has nothing to do (choices)

def init : St :=
  { lab := id, acc := { conns := [], received := [] }, anyc := [],
    n := 0, kinds := fun _ => .term 0, cache := fun _ => false, failAt := fun _ => [],
    slots := fun _ => [], w := Wiring.empty, starters := [], quiet := [],
    rec0 := fun _ => [], last := none, store0 := Store.init, owner := fun _ => 0, macroNode := 0, mStarters := [], execs := [], mids := [], idles := [] }

def insertSorted (x : Nat) : List Nat → List Nat
  | [] => [x]
  | y :: ys => if x ≤ y then x :: y :: ys else y :: insertSorted x ys

def sortNats (l : List Nat) : List Nat := l.foldr insertSorted []

def dedup (l : List Nat) : List Nat := l.foldr (fun x acc => if acc.contains x then acc else x :: acc) []

def tline (s : St) (fa fc : Nat) : String :=
  s!"any {fa} {showNats s.anyc} | acc {fc} {showNats s.acc.conns} {showNats (sortNats s.acc.received)}"

def b2n (b : Bool) : Nat := if b then 1 else 0

def joinOrDash (l : List String) : String := if l.isEmpty then "-" else " ".intercalate l

def parseVal (w : String) : Option Val :=
  match w with
  | "ND" => some .nd
  | "d" => some .d
  | "N" => some .none
  | "bT" => some (.bool true)
  | "bF" => some (.bool false)
  | _ => if w.startsWith "n" then (w.drop 1).toNat?.map Val.nat else none

partial def showVal : Val → String
  | .nd => "ND"
  | .d => "d"
  | .none => "N"
  | .nat k => toString k
  | .bool true => "T"
  | .bool false => "F"
  | .list l => "[" ++ ",".intercalate (l.map showVal) ++ "]"
  | .app f args => s!"f{f}(" ++ ",".intercalate (args.map showVal) ++ ")"

def parseKind (i : Nat) : String → Option Kind
  | "term" => some (.term i)
  | "ident" => some .ident
  | "add" => some .add
  | "lt" => some .lt
  | "if" => some .ifk
  | "append" => some .append
  | _ => none

def parseFail (w : String) : Option (List Nat) :=
  if w = "-" then some [] else (w.splitOn ",").mapM String.toNat?

def St.nodes (s : St) : Nat → Node := fun i =>
  { kind := s.kinds i, slots := s.slots i, useCache := s.cache i, failAt := s.failAt i }

def St.fin (s : St) : FinGraph :=
  { conns := (List.range (4 * s.n)).map s.w.out, accConns := (List.range s.n).map s.w.accIn,
    labs := List.range (4 * s.n), starters := s.starters }

def modifyNth {α} (l : List α) (k : Nat) (f : α → α) : List α :=
  match l, k with
  | [], _ => []
  | a :: as, 0 => f a :: as
  | a :: as, k + 1 => a :: modifyNth as k f

def runFrom (s : St) (fuel : Nat) (s0 : S Store) : S Store :=
  compositeRun (nodeSem s.nodes) s.fin.toGraph fuel s0

def runObs (s : St) (r : S Store) : List String :=
  let f := s.fin
  let st := r.store
  let ids := List.range s.n
  [ s!"wf {b2n f.check}",
    s!"fired {showNats r.fired}",
    s!"exec {showNats st.execLog}",
    s!"done {showNats st.doneLog}",
    "calls " ++ joinOrDash ((st.callLog.filter fun p => !s.quiet.contains p.1).map fun (i, a) => s!"{i}(" ++ ",".intercalate (a.map showVal) ++ ")"),
    "out " ++ joinOrDash (ids.map fun i => s!"{i}={showVal (st.out i)}"),
    s!"failed {showNats (ids.filter st.failed)}",
    s!"errs {showNats (sortNats (dedup r.errs))}",
    s!"queue {r.queue.length}",
    "rec " ++ joinOrDash ((ids.filter fun i => !(s.w.accIn i).isEmpty).map fun i =>
      s!"{i}:{showNats (sortNats (r.received i))}") ]

/-- script tokens: `A<n>` arrive, `P` poke, `C<n>` connect, `D<n>` disconnect; then optionally `!` (the callback
raises) and `[` acts `]` (what the callback does on the trigger while it runs) -/
def parseEvTok (w : String) : Option Ev :=
  if w = "P" then some .poke
  else if w.startsWith "A" then (w.drop 1).toNat?.map Ev.arrive
  else if w.startsWith "C" then (w.drop 1).toNat?.map Ev.connect
  else if w.startsWith "D" then (w.drop 1).toNat?.map Ev.disconnect
  else none

def showEvTok : Ev → String
  | .poke => "P"
  | .arrive e => s!"A{e}"
  | .connect e => s!"C{e}"
  | .disconnect e => s!"D{e}"

/-- acts up to the closing bracket (or the end at depth 0); returns the rest after the bracket -/
partial def parseActs (depth : Nat) : List String → Option (List Act × List String)
  | [] => if depth = 0 then some ([], []) else none
  | "]" :: rest => if depth = 0 then none else some ([], rest)
  | w :: rest =>
    match parseEvTok w with
    | none => none
    | some ev =>
      let (boom, rest1) := match rest with
        | "!" :: r => (true, r)
        | r => (false, r)
      let inner? : Option (List Act × List String) := match rest1 with
        | "[" :: r => parseActs (depth + 1) r
        | r => some ([], r)
      match inner? with
      | none => none
      | some (inner, rest2) =>
        match parseActs depth rest2 with
        | none => none
        | some (more, rest3) => some (Act.mk ev boom inner :: more, rest3)

def flagStr (l : List Bool) : String := String.join (l.map fun b => if b then "1" else "0")
open PwVerif.FlowExec in
/-- the loop with executor children under the harness's schedule: all starts, then deliveries; a landing scheduled for the
c-th local function call happens during that call; with nothing to deliver an outstanding job lands -/
partial def driveExec (s : St) (g : Graph) : Nat → X Nat → Nat → List Nat → X Nat
  | 0, x, _, _ => x
  | fuel + 1, x, c, idles =>
    let stp := xstep s.nodes (fun i => s.execs.contains i) (fun _ _ => 0) (fun _ => 0) g
    let landAll : X Nat → List Nat → X Nat := fun x js =>
      js.foldl (fun x j =>
        let fl := x.s.store.inflight
        if fl.isEmpty then x else (stp x (.complete (fl.getD (j % fl.length) 0))).getD x) x
    let localCall : X Nat → X Nat → Bool := fun x x1 =>
      let n0 := x.s.store.fs.st.callLog.length
      ((x1.s.store.fs.st.callLog.drop n0).any fun p => !s.execs.contains p.1)
    let doLocal : XAct → X Nat := fun a =>
      match stp x a with
      | none => x
      | some x1 =>
        if localCall x x1 then
          match s.mids.find? (fun m => m.1 == c + 1) with
          | some m => (stp (landAll x m.2) a).getD x1
          | none => x1
        else x1
    if x.phase = 0 then driveExec s g fuel ((stp x .begin).getD x) c idles
    else if x.phase ≠ 1 then x
    else if !x.rest.isEmpty then
      let x1 := doLocal .start
      driveExec s g fuel x1 (if localCall x x1 then c + 1 else c) idles
    else if !x.s.queue.isEmpty then
      let x1 := doLocal .deliver
      driveExec s g fuel x1 (if localCall x x1 then c + 1 else c) idles
    else if !x.s.store.inflight.isEmpty then
      let j := idles.headD 0
      driveExec s g fuel (landAll x [j]) c idles.tail
    else (stp x .finish).getD x

def parseTrig : String → Option Bool
  | "any" => some false
  | "acc" => some true
  | _ => none

def step (s : St) (ws : List String) : St × List String :=
  match ws with
  | ["lab", c, l] =>
    match c.toNat?, l.toNat? with
    | some c, some l => ({ s with lab := updF s.lab c l }, [])
    | _, _ => (s, ["bad-op"])
  | ["thist"] =>
    let s' := { s with acc := { conns := [], received := [] }, anyc := [] }
    (s', ["hist"])
  | ["tconnect", t, e] =>
    match parseTrig t, e.toNat? with
    | some true, some e => let s' := { s with acc := (s.acc.step s.lab (.connect e)).1 }; (s', [tline s' 0 0])
    | some false, some e => let s' := { s with anyc := (anyStep s.anyc (.connect e)).1 }; (s', [tline s' 0 0])
    | _, _ => (s, ["bad-op"])
  | ["tdisconnect", t, e] =>
    match parseTrig t, e.toNat? with
    | some true, some e => let s' := { s with acc := (s.acc.step s.lab (.disconnect e)).1 }; (s', [tline s' 0 0])
    | some false, some e => let s' := { s with anyc := (anyStep s.anyc (.disconnect e)).1 }; (s', [tline s' 0 0])
    | _, _ => (s, ["bad-op"])
  | ["ttrip"] =>
    -- the graph holding the triggers goes through a state round trip (pickle) between two events
    let s' := { s with acc := s.acc.roundtrip false }
    (s', [tline s' 0 0])
  | ["tdisconnectall", t] =>
    match parseTrig t with
    | some true =>
      let a := s.acc.conns.foldl (fun a e => (a.step s.lab (.disconnect e)).1) s.acc
      let s' := { s with acc := a }; (s', [tline s' 0 0])
    | some false =>
      let c := s.anyc.foldl (fun c e => (anyStep c (.disconnect e)).1) s.anyc
      let s' := { s with anyc := c }; (s', [tline s' 0 0])
    | none => (s, ["bad-op"])
  | ["arrive", t, e] =>
    match parseTrig t, e.toNat? with
    | some true, some e =>
      let (a, f) := s.acc.step s.lab (.arrive e)
      let s' := { s with acc := a }; (s', [tline s' 0 (b2n f)])
    | some false, some e =>
      let (c, f) := anyStep s.anyc (.arrive e)
      let s' := { s with anyc := c }; (s', [tline s' (b2n f) 0])
    | _, _ => (s, ["bad-op"])
  | ["poke", t] =>
    match parseTrig t with
    | some true =>
      let (a, f) := s.acc.step s.lab .poke
      let s' := { s with acc := a }; (s', [tline s' 0 (b2n f)])
    | some false =>
      let (c, f) := anyStep s.anyc .poke
      let s' := { s with anyc := c }; (s', [tline s' (b2n f) 0])
    | none => (s, ["bad-op"])
  | ["emit", e] =>
    match e.toNat? with
    | some e =>
      let (a, f) := s.acc.emit s.lab e
      let fa := callsFrom s.anyc e
      let s' := { s with acc := a }; (s', [tline s' fa (b2n f)])
    | none => (s, ["bad-op"])
  | "script" :: toks =>
    -- the all-of trigger driven by acts whose callbacks raise / come back (pinned: reset before the callback)
    match parseActs 0 toks with
    | some (acts, []) =>
      let rec go (a : Acc) (acts : List Act) (out : List String) : Acc × List String :=
        match acts with
        | [] => (a, out)
        | x :: rest =>
          let t := execTop true s.lab 500 a [x]
          go t.acc rest (out ++ [s!"evs {joinOrDash (t.evs.map showEvTok)} | fires {flagStr t.fires} | raised {b2n t.raised} | acc {showNats t.acc.conns} {showNats (sortNats t.acc.received)}"])
      let (a, out) := go s.acc acts []
      ({ s with acc := a }, out)
    | _ => (s, ["bad-op"])
  | ["node", i, k, c, fl] =>
    match i.toNat?, c.toNat?, parseFail fl with
    | some i, some c, some fl =>
      match parseKind i k with
      | some k =>
        if c ≤ 1 then
          ({ s with n := max s.n (i + 1), kinds := updF s.kinds i k, cache := updF s.cache i (c == 1),
                    failAt := updF s.failAt i fl, slots := updF s.slots i [] }, [])
        else (s, ["bad-op"])
      | none => (s, ["bad-op"])
    | _, _, _ => (s, ["bad-op"])
  | ["slot", i, v] =>
    match i.toNat?, parseVal v with
    | some i, some v =>
      if i < s.n then ({ s with slots := updF s.slots i (s.slots i ++ [{ own := v, conns := [] }]) }, [])
      else (s, ["bad-op"])
    | _, _ => (s, ["bad-op"])
  | ["dconn", i, k, src] =>
    match i.toNat?, k.toNat?, src.toNat? with
    | some i, some k, some src =>
      if i < s.n && src < s.n && k < (s.slots i).length then
        ({ s with slots := updF s.slots i (modifyNth (s.slots i) k fun sl =>
            if sl.conns.contains src then sl else { sl with conns := src :: sl.conns }) }, [])
      else (s, ["bad-op"])
    | _, _, _ => (s, ["bad-op"])
  | ["sconn", sg, r, a] =>
    match sg.toNat?, r.toNat?, a.toNat? with
    | some sg, some r, some a =>
      if sg < 4 * s.n && r < s.n && a ≤ 1 then
        ({ s with w := s.w.connect sg { node := r, acc := a == 1 } }, [])
      else (s, ["bad-op"])
    | _, _, _ => (s, ["bad-op"])
  | ["sdisc", sg, r, a] =>
    match sg.toNat?, r.toNat?, a.toNat? with
    | some sg, some r, some a =>
      if sg < 4 * s.n && r < s.n && a ≤ 1 then
        let rv : Recv := { node := r, acc := a == 1 }
        ({ s with w := { out := updF s.w.out sg ((s.w.out sg).erase rv),
                         runIn := if a == 1 then s.w.runIn else updF s.w.runIn r ((s.w.runIn r).erase sg),
                         accIn := if a == 1 then updF s.w.accIn r ((s.w.accIn r).erase sg) else s.w.accIn } }, [])
      else (s, ["bad-op"])
    | _, _, _ => (s, ["bad-op"])
  | "mconfig" :: v :: ui =>
    -- `Macro._configure_graph_execution`: P = as pinned (disconnect + reconnect), R = repaired (lists kept);
    -- then the UI nodes are put upstream of the starting nodes
    match (if v = "P" then some true else if v = "R" then some false else none), nats ui with
    | some pinned, some ui =>
      if ui.all (· < s.n) && !s.starters.isEmpty then
        let w1 := s.w.reconfigure pinned (List.range s.n)
        ({ s with w := w1.putUiFirst ui s.starters, starters := uiStarters ui s.starters }, [])
      else (s, ["bad-op"])
    | _, _ => (s, ["bad-op"])
  | ["pre", sg, r] =>
    -- before the run somebody called child r's all-of trigger with this emitter (without completing the round)
    match sg.toNat?, r.toNat? with
    | some sg, some r =>
      if sg < 4 * s.n && r < s.n then ({ s with rec0 := updF s.rec0 r (insertL sg (s.rec0 r)) }, [])
      else (s, ["bad-op"])
    | _, _ => (s, ["bad-op"])
  | ["owner", i, o] =>
    match i.toNat?, o.toNat? with
    | some i, some o => if i < s.n && o ≤ 1 then ({ s with owner := updF s.owner i o }, []) else (s, ["bad-op"])
    | _, _ => (s, ["bad-op"])
  | ["macro", m] =>
    match m.toNat? with
    | some m => if m < s.n then ({ s with macroNode := m }, []) else (s, ["bad-op"])
    | none => (s, ["bad-op"])
  | "mstarters" :: l =>
    match nats l with
    | some l => if l.all (fun i => i < s.n && s.owner i == 1) then ({ s with mStarters := l }, []) else (s, ["bad-op"])
    | none => (s, ["bad-op"])
  | ["run2", fuel, steps] =>
    -- the workflow with its hand-wired macro child: two queues (Model/Signal2.lean, the library's label trigger)
    match fuel.toNat?, steps.toNat? with
    | some fuel, some steps =>
      let ids := List.range s.n
      let two : Two := { g := s.fin.toGraph, owner := s.owner, macroNode := s.macroNode, mStarters := s.mStarters,
                         mChildren := ids.filter fun i => s.owner i == 1 }
      let r := runTwo labelTrig (nodeSem s.nodes) two fuel steps Store.init
      let st := r.store
      (s, [ s!"wf {b2n s.fin.check}",
            s!"fired {showNats r.fired}",
            "calls " ++ joinOrDash ((st.callLog.filter fun p => !s.quiet.contains p.1).map fun (i, a) =>
              s!"{i}(" ++ ",".intercalate (a.map showVal) ++ ")"),
            "out " ++ joinOrDash ((ids.filter (· != s.macroNode)).map fun i => s!"{i}={showVal (st.out i)}"),
            s!"failed {showNats (ids.filter fun i => if i = s.macroNode then r.mFailed else st.failed i)}",
            s!"errs {showNats (sortNats (dedup r.errs0))}",
            s!"queue {r.q0.length} {r.q1.length}",
            "rec " ++ joinOrDash ((ids.filter fun i => !(s.w.accIn i).isEmpty).map fun i =>
              s!"{i}:{showNats (sortNats (r.mem i))}") ])
    | _, _ => (s, ["bad-op"])
  | "heal" :: healed =>
    -- the user clears `failed` on these children (before any further edit and the next run)
    match nats healed, s.last with
    | some healed, some p =>
      if healed.all (· < s.n) then
        let st := p.store
        ({ s with last := some { p with store := { st with failed := fun i => if healed.contains i then false else st.failed i } } }, [])
      else (s, ["bad-op"])
    | _, _ => (s, ["bad-op"])
  | ["replace", i] =>
    -- `replace_child(i, fresh node of the same class)`: the transcribed re-seating (forth to a fresh object, and — only to
    -- keep the numbering — back), the replacement is not failed and has no cache, a replaced starting node goes last
    match i.toNat? with
    | some i =>
      if i < s.n then
        let w' := (s.w.replace false i s.n).replace false s.n i
        let f : Store → Store := fun st => { st with failed := updF st.failed i false, cached := updF st.cached i none }
        let s1 := match s.last with
          | some p => { s with last := some { p with store := f p.store } }
          | none => { s with store0 := f s.store0 }
        ({ s1 with w := w', starters := if s.starters.contains i then s.starters.erase i ++ [i] else s.starters }, [])
      else (s, ["bad-op"])
    | none => (s, ["bad-op"])
  | ["pull", i] =>
    -- `child.pull()` of a child without upstream data: it runs (no emission); the temporary wiring is undone
    match i.toNat? with
    | some i =>
      if i < s.n then
        let f : Store → Store := fun st => pullNode s.nodes st i
        let s1 := match s.last with
          | some p => { s with last := some { p with store := f p.store } }
          | none => { s with store0 := f s.store0 }
        ({ s1 with w := s.w.pull true [i] }, [])
      else (s, ["bad-op"])
    | none => (s, ["bad-op"])
  | ["ddisc", i, k, src] =>
    match i.toNat?, k.toNat?, src.toNat? with
    | some i, some k, some src =>
      if i < s.n && src < s.n && k < (s.slots i).length then
        ({ s with slots := updF s.slots i (modifyNth (s.slots i) k fun sl => { sl with conns := sl.conns.erase src }) }, [])
      else (s, ["bad-op"])
    | _, _, _ => (s, ["bad-op"])
  | "onexec" :: l =>
    match nats l with
    | some l => if l.all (· < s.n) then ({ s with execs := l }, []) else (s, ["bad-op"])
    | none => (s, ["bad-op"])
  | "mid" :: c :: js =>
    match c.toNat?, nats js with
    | some c, some js => ({ s with mids := s.mids ++ [(c, js)] }, [])
    | _, _ => (s, ["bad-op"])
  | "idle" :: js =>
    match nats js with
    | some js => ({ s with idles := js }, [])
    | none => (s, ["bad-op"])
  | ["xrun", fuel] =>
    -- one run of the composite with children on the executor (Model/FlowExec.lean), schedule as given by onexec / mid / idle
    match fuel.toNat? with
    | some fuel =>
      let g := s.fin.toGraph
      let x := driveExec s g fuel (FlowExec.X.init Store.init) 0 s.idles
      let r : S Store := { store := x.s.store.fs.st, received := x.s.received, queue := x.s.queue, errs := x.s.errs, fired := x.s.fired }
      (s, runObs s r ++ [s!"phase {x.phase} out {showNats x.s.store.inflight}"])
    | none => (s, ["bad-op"])
  | ["roundtrip"] =>
    -- the composite goes through __getstate__ / __setstate__ (pickle, save + load): connections re-made from the stored lists
    let ids := List.range s.n
    let sigs := List.range (4 * s.n)
    ({ s with w := s.w.roundtrip false ids sigs }, [])
  | ["quiet", i] =>
    match i.toNat? with
    | some i => if i < s.n then ({ s with quiet := i :: s.quiet }, []) else (s, ["bad-op"])
    | none => (s, ["bad-op"])
  | "starters" :: l =>
    match nats l with
    | some l => if l.all (· < s.n) then ({ s with starters := l }, []) else (s, ["bad-op"])
    | none => (s, ["bad-op"])
  | ["run", fuel] =>
    match fuel.toNat? with
    | some fuel =>
      let r := runFrom s fuel (S.init { s.store0 with callLog := [], execLog := [], doneLog := [] } s.rec0)
      ({ s with last := some r }, runObs s r)
    | none => (s, ["bad-op"])
  | "rerun" :: fuel :: healed =>
    -- the composite runs again: the listed children had `failed` cleared; outputs, caches, attempt counters and the
    -- all-of memories are what the previous run left; provenance, the call log shown and the queue start empty
    match fuel.toNat?, nats healed, s.last with
    | some fuel, some healed, some p =>
      if healed.all (· < s.n) then
        let st := p.store
        let st' := { st with failed := fun i => if healed.contains i then false else st.failed i,
                             execLog := [], doneLog := [], callLog := [] }
        let r := runFrom s fuel (S.init st' p.received)
        ({ s with last := some r }, "rerun" :: runObs s r)
      else (s, ["bad-op"])
    | _, _, _ => (s, ["bad-op"])
  | _ => (s, ["bad-op"])

def main : IO Unit := Proto.run init step
