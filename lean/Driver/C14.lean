import PwVerif.Model.Edit
import PwVerif.Model.Proto
open PwVerif PwVerif.Conn PwVerif.Edit PwVerif.Proto

/-! Line-protocol driver of the C14 model.  Set-up lines build the world (they print nothing),
operation lines print the exception class and the complete canonical state. -/

structure St where
  w     : W
  cfg   : Cfg
  nodes : List Nat      -- in creation order
  chans : List Nat
  invalid : List (Nat × Nat) := []
  noadmit : List (Nat × Nat) := []
  nolink  : List (Nat × Nat) := []
  static  : Bool := false   -- the static tables have been re-tabulated

def emptyW : W :=
  { t := Tree.empty (fun _ => .leaf) (fun _ => true) (fun _ => []),
    g := { kind := fun _ => .dataIn, owner := fun _ => 0, valid := fun _ _ => true, conns := fun _ => [] },
    io := fun _ => ⟨[], [], [], []⟩, clab := fun _ => "", val := fun _ => none, recv := fun _ => none,
    admits := fun _ _ => true, linkOk := fun _ _ => true, locked := fun _ => false,
    imap := fun _ => none, omap := fun _ => none, cached := fun _ => false }

def init : St := { w := emptyW, cfg := Cfg.pinned, nodes := [], chans := [] }

def parseKind : String → Option Kind
  | "di" => some .dataIn | "do" => some .dataOut | "si" => some .sigIn | "so" => some .sigOut
  | _ => none

def parseNodeKind : String → Option Tree.Kind
  | "leaf" => some .leaf | "macro" => some .macro | "wf" => some .workflow
  | _ => none

def parseBool : String → Option Bool
  | "1" => some true | "0" => some false | _ => none

def showErr : Err → String
  | .ok => "ok" | .valueError => "ValueError" | .connCopy => "ConnectionCopyError"
  | .valueCopy => "ValueCopyError" | .attrError => "AttributeError" | .typeError => "TypeError"
  | .cyclicPath => "CyclicPathError" | .parentMost => "ParentMostError"
  | .circular => "CircularDataFlowError" | .keyError => "KeyError"
  | .connErr => "ChannelConnectionError" | .recursion => "RecursionError" | .badObs => "bad-obs"

def showOpt : Option Nat → String
  | none => "-" | some v => toString v

def obs (s : St) (e : Err) : List String :=
  let w := s.w
  let tree := " ".intercalate (s.nodes.map fun n =>
    s!"{n}:{String.ofList (w.t.label n)}:{showOpt (w.t.parent n)}")
  let comps := s.nodes.filter fun n => (w.t.kind n).isComposite
  let kids := " ".intercalate (comps.map fun p =>
    s!"{p}:[" ++ ",".intercalate ((w.t.children p).map fun e => s!"{String.ofList e.1}={e.2}") ++ "]" ++
    showNats (w.t.starting p))
  let conn := " ".intercalate (s.chans.map fun c => s!"{c}:{showNats (w.g.conns c)}")
  let vals := " ".intercalate ((s.chans.filter fun c => w.g.kind c == .dataIn || w.g.kind c == .dataOut).map
    fun c => s!"{c}={showOpt (w.val c)}>{showOpt (w.recv c)}")
  let cache := " ".intercalate ((s.nodes.filter fun n => w.cached n).map toString)
  ["res " ++ showErr e, "tree " ++ tree, "kids " ++ kids, "conn " ++ conn, "data " ++ vals, "cache " ++ cache]

/-- re-tabulate the dynamic fields over the finite domain, so that the closures of successive
operations do not pile up (the model functions are total; only the listed ids are ever read) -/
def freeze (s : St) : St :=
  let w := s.w
  let conns := s.chans.map fun c => (c, w.g.conns c)
  let vals := s.chans.map fun c => (c, w.val c)
  let recvs := s.chans.map fun c => (c, w.recv c)
  let labels := s.nodes.map fun n => (n, w.t.label n)
  let parents := s.nodes.map fun n => (n, w.t.parent n)
  let kids := s.nodes.map fun n => (n, w.t.children n)
  let starts := s.nodes.map fun n => (n, w.t.starting n)
  let cached := s.nodes.map fun n => (n, w.cached n)
  let t' : Tree.Tree := { w.t with
    label := fun n => (labels.lookup n).getD []
    parent := fun n => (parents.lookup n).getD none
    children := fun n => (kids.lookup n).getD []
    starting := fun n => (starts.lookup n).getD [] }
  let g' : G := { w.g with conns := fun c => (conns.lookup c).getD [] }
  { s with w := { w with t := t', g := g', val := fun c => (vals.lookup c).getD none,
                         recv := fun c => (recvs.lookup c).getD none,
                         cached := fun n => (cached.lookup n).getD false } }

/-- the same for the static tables, once, before the first operation -/
def freezeStatic (s : St) : St :=
  if s.static then s
  else
    let w := s.w
    let kinds := s.chans.map fun c => (c, w.g.kind c)
    let owners := s.chans.map fun c => (c, w.g.owner c)
    let labs := s.chans.map fun c => (c, w.clab c)
    let ios := s.nodes.map fun n => (n, w.io n)
    let nk := s.nodes.map fun n => (n, w.t.kind n)
    let t' : Tree.Tree := { w.t with kind := fun n => (nk.lookup n).getD .leaf }
    let g' : G := { w.g with kind := fun c => (kinds.lookup c).getD .dataIn, owner := fun c => (owners.lookup c).getD 0 }
    freeze { s with static := true,
                    w := { w with t := t', g := g', clab := fun c => (labs.lookup c).getD "",
                                  io := fun n => (ios.lookup n).getD ⟨[], [], [], []⟩ } }

def addChan (io : NodeIO) (k : Kind) (c : Nat) : NodeIO :=
  match k with
  | .dataIn => { io with inp := io.inp ++ [c] }
  | .dataOut => { io with out := io.out ++ [c] }
  | .sigIn => { io with sin := io.sin ++ [c] }
  | .sigOut => { io with sout := io.sout ++ [c] }

/-- `S a b c U n x y U m z` → (start, up) -/
def parseDag : List String → Option (List Nat × List (Nat × List Nat))
  | "S" :: rest =>
    let startWs := rest.takeWhile (· ≠ "U")
    let tail := rest.dropWhile (· ≠ "U")
    match nats startWs with
    | none => none
    | some start =>
      let rec groups (fuel : Nat) (ws : List String) (acc : List (Nat × List Nat)) :
          Option (List (Nat × List Nat)) :=
        match fuel, ws with
        | _, [] => some acc
        | 0, _ => none
        | f + 1, "U" :: n :: more =>
          let mine := more.takeWhile (· ≠ "U")
          match n.toNat?, nats mine with
          | some n, some l => groups f (more.dropWhile (· ≠ "U")) (acc ++ [(n, l)])
          | _, _ => none
        | _, _ => none
      (groups (tail.length + 1) tail []).map fun up => (start, up)
  | _ => none

def setMapEntry (m : Option WfIO.KeyMap) (k v : String) : Option WfIO.KeyMap :=
  some ((m.getD []) ++ [(k, if v = "!" then WfIO.Target.disabled k else WfIO.Target.name v)])

def step (s : St) (ws : List String) : St × List String :=
  let w := s.w
  match ws with
  | ["cfg", a, b, c, d, e, f, h] =>
    match parseBool a, parseBool b, parseBool c, parseBool d, parseBool e, parseBool f, parseBool h with
    | some a, some b, some c, some d, some e, some f, some h => ({ s with cfg := ⟨a, b, c, d, e, f, h, 64⟩ }, [])
    | _, _, _, _, _, _, _ => (s, ["bad-op"])
  | ["node", n, k, l] =>
    match n.toNat?, parseNodeKind k with
    | some n, some k =>
      let t' : Tree.Tree := { w.t with kind := updF w.t.kind n k, label := updF w.t.label n l.toList }
      ({ s with nodes := s.nodes ++ [n], w := { w with t := t' } }, [])
    | _, _ => (s, ["bad-op"])
  | ["chan", c, k, o, l] =>
    match c.toNat?, parseKind k, o.toNat? with
    | some c, some k, some o =>
      let g' : G := { w.g with kind := updF w.g.kind c k, owner := updF w.g.owner c o }
      let w' : W := { w with g := g', io := updF w.io o (addChan (w.io o) k c), clab := updF w.clab c l }
      ({ s with chans := s.chans ++ [c], w := w' }, [])
    | _, _, _ => (s, ["bad-op"])
  | ["child", p, c] =>
    match p.toNat?, c.toNat? with
    | some p, some c =>
      let t' : Tree.Tree := { w.t with
        parent := updF w.t.parent c (some p)
        children := updF w.t.children p (w.t.children p ++ [(w.t.label c, c)]) }
      ({ s with w := { w with t := t' } }, [])
    | _, _ => (s, ["bad-op"])
  | "start" :: p :: l =>
    match p.toNat?, nats l with
    | some p, some l => ({ s with w := { w with t := { w.t with starting := updF w.t.starting p l } } }, [])
    | _, _ => (s, ["bad-op"])
  | "conns" :: c :: l =>
    match c.toNat?, nats l with
    | some c, some l => ({ s with w := { w with g := { w.g with conns := updF w.g.conns c l } } }, [])
    | _, _ => (s, ["bad-op"])
  | ["val", c, v] =>
    match c.toNat? with
    | some c =>
      if v = "-" then ({ s with w := { w with val := updF w.val c none } }, [])
      else match v.toNat? with
        | some v => ({ s with w := { w with val := updF w.val c (some v) } }, [])
        | none => (s, ["bad-op"])
    | none => (s, ["bad-op"])
  | ["recv", a, b] =>
    match a.toNat?, b.toNat? with
    | some a, some b => ({ s with w := { w with recv := updF w.recv a (some b) } }, [])
    | _, _ => (s, ["bad-op"])
  | ["invalid", a, b] =>
    match a.toNat?, b.toNat? with
    | some a, some b =>
      let l := (a, b) :: (b, a) :: s.invalid
      let g' : G := { w.g with valid := fun x y => !(l.contains (x, y)) }
      ({ s with invalid := l, w := { w with g := g' } }, [])
    | _, _ => (s, ["bad-op"])
  | ["noadmit", c, v] =>
    match c.toNat?, v.toNat? with
    | some c, some v =>
      let l := (c, v) :: s.noadmit
      ({ s with noadmit := l, w := { w with admits := fun x y => !(l.contains (x, y)) } }, [])
    | _, _ => (s, ["bad-op"])
  | ["nolink", a, b] =>
    match a.toNat?, b.toNat? with
    | some a, some b =>
      let l := (a, b) :: s.nolink
      ({ s with nolink := l, w := { w with linkOk := fun x y => !(l.contains (x, y)) } }, [])
    | _, _ => (s, ["bad-op"])
  | ["setlabel", n, l] =>
    match n.toNat? with
    | some n =>
      let t' : Tree.Tree := { w.t with label := updF w.t.label n l.toList }
      ({ s with w := { w with t := t' } }, [])
    | none => (s, ["bad-op"])
  | "setkids" :: p :: cs =>
    -- state observed after an operation that is not part of this model: the children of `p`, under their labels
    match p.toNat?, nats cs with
    | some p, some cs =>
      let t' : Tree.Tree := { w.t with children := updF w.t.children p (cs.map fun c => (w.t.label c, c)) }
      ({ s with w := { w with t := t' } }, [])
    | _, _ => (s, ["bad-op"])
  | ["setparent", c, p] =>
    match c.toNat? with
    | some c =>
      if p = "-" then
        let t' : Tree.Tree := { w.t with parent := updF w.t.parent c none }
        ({ s with w := { w with t := t' } }, [])
      else match p.toNat? with
        | some p =>
          let t' : Tree.Tree := { w.t with parent := updF w.t.parent c (some p) }
          ({ s with w := { w with t := t' } }, [])
        | none => (s, ["bad-op"])
    | none => (s, ["bad-op"])
  | ["cached", n, b] =>
    match n.toNat?, parseBool b with
    | some n, some b => ({ s with w := { w with cached := updF w.cached n b } }, [])
    | _, _ => (s, ["bad-op"])
  | ["unlocked", n] =>
    match n.toNat? with
    | some n => ({ s with w := { w with locked := updF w.locked n false } }, [])
    | none => (s, ["bad-op"])
  | ["locked", n] =>
    match n.toNat? with
    | some n => ({ s with w := { w with locked := updF w.locked n true } }, [])
    | none => (s, ["bad-op"])
  | ["imap", p, k, v] =>
    match p.toNat? with
    | some p => ({ s with w := { w with imap := updF w.imap p (setMapEntry (w.imap p) k v) } }, [])
    | none => (s, ["bad-op"])
  | ["omap", p, k, v] =>
    match p.toNat? with
    | some p => ({ s with w := { w with omap := updF w.omap p (setMapEntry (w.omap p) k v) } }, [])
    | none => (s, ["bad-op"])
  | ["replace", p, o, n] =>
    match p.toNat?, o.toNat?, n.toNat? with
    | some p, some o, some n =>
      let s := freezeStatic s
      let r := Edit.step s.cfg s.w (.replace p o n)
      let s' := freeze { s with w := r.1 }
      (s', obs s' r.2)
    | _, _, _ => (s, ["bad-op"])
  | ["replacelabel", p, l, n] =>
    match p.toNat?, n.toNat? with
    | some p, some n =>
      let s := freezeStatic s
      let r := Edit.step s.cfg s.w (.replaceLabel p l.toList n)
      let s' := freeze { s with w := r.1 }
      (s', obs s' r.2)
    | _, _ => (s, ["bad-op"])
  | ["copyio", me, other, ch, vh] =>
    match me.toNat?, other.toNat?, parseBool ch, parseBool vh with
    | some me, some other, some ch, some vh =>
      let s := freezeStatic s
      let r := Edit.step s.cfg s.w (.copyIo me other ch vh)
      let s' := freeze { s with w := r.1 }
      (s', obs s' r.2)
    | _, _, _, _ => (s, ["bad-op"])
  | ["copychan", a, b] =>
    match a.toNat?, b.toNat? with
    | some a, some b =>
      let s := freezeStatic s
      let r := Edit.step s.cfg s.w (.copyChan a b)
      let s' := freeze { s with w := r.1 }
      (s', obs s' r.2)
    | _, _ => (s, ["bad-op"])
  | "dag" :: p :: rest =>
    match p.toNat?, parseDag rest with
    | some p, some (start, up) =>
      let s := freezeStatic s
      let r := Edit.step s.cfg s.w (.dag p up start)
      let s' := freeze { s with w := r.1 }
      (s', obs s' r.2)
    | _, _ => (s, ["bad-op"])
  | ["show"] => (s, obs s .ok)
  | _ => (s, ["bad-op"])

def main : IO Unit := Proto.run init step
