import PwVerif.Model.Serial
import PwVerif.Model.Proto
open PwVerif PwVerif.Serial PwVerif.Proto

/-!
Line protocol of the serialisation model.

The harness describes the LIVE graph it observed on the real objects (one table row per node,
per channel, per connection list), then asks for round trips:

    node <id> <parent|-> <label> <cls> <l|m|f|w>
    flags <id> <running> <failed> <exec> <bodyexec>        exec = - | live | i<k>
    det <id> <l>*                                          `_detached_parent_path`
    din|dout <id> <label> <nd|k> <strict>
    sin|sout <id> <label>*
    recv <id> <k>* ; cached <id> <nd|k>* ; start <id> <l>* ; prov <id> <l>*
    ilink <id> <in> <child> <chan> ; olink <id> <child> <chan> <out>
    conn <id> <d|s> <i|o> <child> <chan> (<child> <chan>)*   one connection list of composite <id>
    refused <id> <child> <in> <child> <out>                   a data connection the hint check would refuse today
    build <id>            current graph := the tree below <id>, a root
    descend <label>       current graph := that child, to be pickled on its own
    view (<child> <chan>)*  the `_inputs` view the current (workflow) root carries, after `build`
    pickle <cfg> <x> <o> <v>  round trip (v = the view is not stored); <cfg> = six 0/1 digits ⟨revIter, firing, pushIn, pushOut, pushFor, keepCache⟩,
                          x = foreign connections are not stored, o = load() takes the channels over;
                          prints the observation
    fileload <cfg> <x> <o> <v> [cls]
    wfopts <id> <automate 0|1> <maps token>
    autoload <cfg> <own> <ctorLast> <ctorAuto> <ctorMaps|->   load by constructing `Cls(label, …)` where the file is
    inplace <label> <cfg> <k>   child <label> of the current graph does save(); load() in place (k = load keeps its place)
-/

structure Row where
  id : Nat
  parent : Option Nat
  core : Core

structure ConnRow where
  owner : Nat
  data : Bool
  inSide : Bool
  key : Addr
  vals : List Addr

structure St where
  rows : List Row
  conns : List ConnRow
  cur : Option (Node × Option Path)
  /-- the current graph came out of the pinned `Node.load`: its channels belong to a twin -/
  haunted : Bool
  /-- the `_inputs` view a workflow root carries (after `replace_child`), in panel order -/
  view : List Addr

def init : St := ⟨[], [], none, false, []⟩

def emptyCore (label cls : Nat) (kind : Kind) : Core :=
  { label, cls, kind, ins := [], outs := [], sigIns := [], sigOuts := [], received := [], running := false,
    failed := false, exec := .none, bodyExec := .none, cached := none, starting := [], inLinks := [],
    outLinks := [], detached := none, prov := [], refused := [], automate := true, maps := 0 }

def parseKind : String → Option Kind
  | "l" => some .leaf | "m" => some .macro | "f" => some .forLoop | "w" => some .workflow | _ => none
def showKind : Kind → String
  | .leaf => "l" | .macro => "m" | .forLoop => "f" | .workflow => "w"

def parseExec (s : String) : Option Exec :=
  if s = "-" then some .none
  else if s = "live" then some .live
  else if s.startsWith "i" then (s.drop 1).toNat?.map Exec.instr
  else none
def showExec : Exec → String
  | .none => "-" | .live => "live" | .instr k => s!"i{k}"

def parseVal (s : String) : Option Val :=
  if s = "nd" then some .nd else s.toNat?.map fun k => .t [k]
def showVal : Val → String
  | .nd => "nd"
  | .t l => ".".intercalate (l.map toString)

def parseBool : String → Option Bool
  | "0" => some false | "1" => some true | _ => none
def showBool (b : Bool) : String := if b then "1" else "0"

def updRow (s : St) (id : Nat) (f : Core → Core) : Option St :=
  if s.rows.any (·.id == id) then
    some { s with rows := s.rows.map fun r => if r.id == id then { r with core := f r.core } else r }
  else none

def pairsOf : List Nat → Option (List Addr)
  | [] => some []
  | a :: b :: r => (pairsOf r).map fun l => (a, b) :: l
  | [_] => none

def tableOf (s : St) (owner : Nat) (data inSide : Bool) : List (Addr × List Addr) :=
  (s.conns.filter fun c => c.owner == owner && c.data == data && c.inSide == inSide).map fun c => (c.key, c.vals)

partial def buildNode (s : St) (id : Nat) : Option Node :=
  match s.rows.find? (·.id == id) with
  | none => none
  | some r =>
    let kids := (s.rows.filter fun k => k.parent == some id).map (·.id)
    match kids.mapM (buildNode s) with
    | none => none
    | some ch =>
      some (.mk r.core ch (CG.ofTables (tableOf s id true true) (tableOf s id true false))
        (CG.ofTables (tableOf s id false true) (tableOf s id false false)))

def showPath (p : Path) : String := "/" ++ "/".intercalate (p.map toString)
def showAddr (a : Addr) : String := s!"{a.1}.{a.2}"
def showL (l : List Nat) : String := ",".intercalate (l.map toString)

def connLines (tag : String) (p : String) (dom : List Addr) (f : Addr → List Addr) : List String :=
  dom.filterMap fun a =>
    if (f a).isEmpty then none
    else some (s!"{tag} {p} {showAddr a} " ++ " ".intercalate ((f a).map showAddr))

partial def showNode (p : Path) : Node → List String
  | .mk c ch dg sg =>
    let q := p ++ [c.label]
    let ps := showPath q
    let det := match c.detached with
      | none => "-"
      | some d => showPath d
    let cached := match c.cached with
      | none => "-"
      | some l => "[" ++ ",".intercalate (l.map showVal) ++ "]"
    let head := s!"N {ps} {c.label} {c.cls} {showKind c.kind} {showBool c.running} {showBool c.failed} " ++
      s!"{showExec c.exec.strip} {showExec c.bodyExec.strip} det={det} start={showL c.starting} prov={showL c.prov} " ++
      s!"recv={showL c.received} cached={cached} auto={showBool c.automate} maps={c.maps}"
    let io (l : List DChan) := " ".intercalate (l.map fun d => s!"{d.label}={showVal d.val}/{showBool d.strict}")
    let links := " ".intercalate ((c.inLinks.map fun l => s!"i:{l.1}>{showAddr l.2}") ++
      (c.outLinks.map fun l => s!"o:{showAddr l.1}>{l.2}"))
    [head, s!"I {ps} {io c.ins}", s!"O {ps} {io c.outs}", s!"S {ps} in={showL c.sigIns} out={showL c.sigOuts}",
      s!"L {ps} {links}"] ++
    connLines "DI" ps (inDom ch) dg.inl ++ connLines "DO" ps (outDom ch) dg.outl ++
    connLines "SI" ps (sInDom ch) sg.inl ++ connLines "SO" ps (sOutDom ch) sg.outl ++
    (ch.map (showNode q)).flatten

def showErr : Err → String
  | .key => "key" | .attr => "attr" | .runtime => "runtime" | .type => "type" | .conn => "conn"

/-- `<r><f><pi><po><pf><k><v>`: revIter firing pushIn pushOut pushFor keepCache revalidate, one word of seven 0/1 -/
def parseCfg (w : String) : Option Cfg :=
  match w.toList.map fun ch => parseBool ch.toString with
  | [some r, some f, some pi, some po, some pf, some k, some v] => some ⟨r, f, pi, po, pf, k, v⟩
  | _ => none

def finish (s : St) (haunted : Bool) : Except Err Node → St × List String
  | .ok n => ({ s with cur := some (n, none), haunted := haunted }, showNode [] n)
  | .error e => ({ s with cur := none }, [s!"error {showErr e}"])

/-- one round trip of the current graph; `x` = connections to non-siblings are not stored,
`o` = `Node.load` takes the channels over (no twin), `vw` = a workflow's IO view is not stored -/
def roundTrip (s : St) (cfg : Cfg) (x o vw : Bool) (file : Bool) (cls : Option Nat) (own : Bool := false) :
    St × List String :=
  let wipe (r : Except Err Node) : Except Err Node :=
    match r with
    | .ok g => .ok (if vw then g else wipeView s.view g)
    | .error e => .error e
  match s.cur with
  | none => (s, ["bad-op"])
  | some (n, pp) =>
    let n := if x then closeUp n else n
    let twinOk : Except Err Unit :=
      if s.haunted then (match load cfg (twinOf n) with | .error e => .error e | .ok _ => .ok ()) else .ok ()
    match twinOk with
    | .error e => finish s false (.error e)
    | .ok _ =>
      if !dumpable n then finish s false (.error .key) else
      if file then
        finish s (!o) (wipe (fileLoadAt cfg (cls.getD n.core.cls) (if own then some none else none) (save pp n)))
      else finish s s.haunted (wipe (load cfg (save pp n)))

def chanOp (s : St) (io : String) (id label val strict : String) : St × List String :=
  let bad : St × List String := (s, ["bad-op"])
  if io = "din" ∨ io = "dout" then
    match id.toNat?, label.toNat?, parseVal val, parseBool strict with
    | some id, some label, some val, some strict =>
      let d : DChan := ⟨label, val, strict⟩
      match updRow s id fun c => if io = "din" then { c with ins := c.ins ++ [d] } else { c with outs := c.outs ++ [d] } with
      | some s' => (s', [])
      | none => bad
    | _, _, _, _ => bad
  else
    match id.toNat?, label.toNat?, val.toNat?, strict.toNat? with
    | some id, some a, some b, some c' =>
      let f : Core → Core := fun c =>
        if io = "ilink" then { c with inLinks := c.inLinks ++ [(a, (b, c'))] }
        else { c with outLinks := c.outLinks ++ [((a, b), c')] }
      match updRow s id f with
      | some s' => (s', [])
      | none => bad
    | _, _, _, _ => bad

def listOp (s : St) (kw id : String) (ls : List String) : St × List String :=
  let bad : St × List String := (s, ["bad-op"])
  match id.toNat?, nats ls with
  | some id, some ls =>
    let f : Core → Core := fun c =>
      if kw = "sin" then { c with sigIns := ls }
      else if kw = "sout" then { c with sigOuts := ls }
      else if kw = "recv" then { c with received := ls }
      else if kw = "start" then { c with starting := ls }
      else if kw = "prov" then { c with prov := ls }
      else { c with detached := some ls }
    match updRow s id f with
    | some s' => (s', [])
    | none => bad
  | _, _ => bad

def step (s : St) (ws : List String) : St × List String :=
  let bad : St × List String := (s, ["bad-op"])
  match ws with
  | ["node", id, par, label, cls, kind] =>
    match id.toNat?, label.toNat?, cls.toNat?, parseKind kind with
    | some id, some label, some cls, some kind =>
      let par? : Option (Option Nat) := if par = "-" then some none else par.toNat?.map some
      match par? with
      | some par =>
        if s.rows.any (·.id == id) then bad
        else ({ s with rows := s.rows ++ [⟨id, par, emptyCore label cls kind⟩] }, [])
      | none => bad
    | _, _, _, _ => bad
  | ["flags", id, run, fail, ex, bex] =>
    match id.toNat?, parseBool run, parseBool fail, parseExec ex, parseExec bex with
    | some id, some run, some fail, some ex, some bex =>
      match updRow s id fun c => { c with running := run, failed := fail, exec := ex, bodyExec := bex } with
      | some s' => (s', [])
      | none => bad
    | _, _, _, _, _ => bad
  | ["din", id, label, val, strict] => chanOp s "din" id label val strict
  | ["dout", id, label, val, strict] => chanOp s "dout" id label val strict
  | ["ilink", id, a, b, c] => chanOp s "ilink" id a b c
  | ["olink", id, a, b, c] => chanOp s "olink" id a b c
  | "cached" :: id :: vs =>
    match id.toNat?, vs.mapM parseVal with
    | some id, some vs =>
      match updRow s id fun c => { c with cached := some vs } with
      | some s' => (s', [])
      | none => bad
    | _, _ => bad
  | "conn" :: id :: fl :: side :: child :: chan :: rest =>
    match id.toNat?, child.toNat?, chan.toNat?, (nats rest).bind pairsOf with
    | some id, some child, some chan, some vals =>
      if (fl = "d" ∨ fl = "s") ∧ (side = "i" ∨ side = "o") then
        ({ s with conns := s.conns ++ [⟨id, fl = "d", side = "i", (child, chan), vals⟩] }, [])
      else bad
    | _, _, _, _ => bad
  | "sin" :: id :: ls => listOp s "sin" id ls
  | "sout" :: id :: ls => listOp s "sout" id ls
  | "recv" :: id :: ls => listOp s "recv" id ls
  | "start" :: id :: ls => listOp s "start" id ls
  | "prov" :: id :: ls => listOp s "prov" id ls
  | "det" :: id :: ls => listOp s "det" id ls
  | ["build", id] =>
    match id.toNat?.bind (buildNode s) with
    | some n => ({ s with cur := some (n, none), haunted := false, view := [] }, ["built"])
    | none => bad
  | ["descend", l] =>
    match l.toNat?, s.cur with
    | some l, some (.mk c ch _ _, pp) =>
      match ch.find? fun n => n.core.label == l with
      | some n => ({ s with cur := some (n, some (lexPath (c.forState pp).detached c.label)), view := [] }, ["descended"])
      | none => bad
    | _, _ => bad
  | ["pickle", w, x, o, vw] =>
    match parseCfg w, parseBool x, parseBool o, parseBool vw with
    | some cfg, some x, some o, some vw => roundTrip s cfg x o vw false none
    | _, _, _, _ => bad
  | ["fileload", w, x, o, vw] =>
    match parseCfg w, parseBool x, parseBool o, parseBool vw with
    | some cfg, some x, some o, some vw => roundTrip s cfg x o vw true none
    | _, _, _, _ => bad
  | ["fileloadown", w, x, o, vw] =>
    -- `Node.load` of a fresh parentless node that keeps its own (empty) detached path
    match parseCfg w, parseBool x, parseBool o, parseBool vw with
    | some cfg, some x, some o, some vw => roundTrip s cfg x o vw true none true
    | _, _, _, _ => bad
  | ["fileload", w, x, o, vw, cls] =>
    match parseCfg w, parseBool x, parseBool o, parseBool vw, cls.toNat? with
    | some cfg, some x, some o, some vw, some cls => roundTrip s cfg x o vw true (some cls)
    | _, _, _, _, _ => bad
  | ["wfopts", id, a, m] =>
    match id.toNat?, parseBool a, m.toNat? with
    | some id, some a, some m =>
      match updRow s id fun k => { k with automate := a, maps := m } with
      | some s' => (s', [])
      | none => bad
    | _, _, _ => bad
  | ["autoload", w, own, last, a, m] =>
    -- `Cls(label, automate_execution=a, maps=m)` finds the file the current graph's `save()` wrote
    match parseCfg w, parseBool own, parseBool last, parseBool a, s.cur with
    | some cfg, some own, some last, some a, some (n, pp) =>
      let maps? : Option (Option Nat) := if m = "-" then some none else m.toNat?.map some
      match maps? with
      | some maps =>
        finish s false (autoloadAt cfg last a maps n.core.cls (if own then some none else none) (save pp n))
      | none => bad
    | _, _, _, _, _ => bad
  | ["inplace", l, w, k] =>
    -- the child labelled <l> of the current graph loads, in place, the state it has just saved
    match l.toNat?, parseCfg w, k.toNat?, s.cur with
    | some l, some cfg, some k, some (n, pp) => finish s false (loadInPlace cfg k pp n l)
    | _, _, _, _ => bad
  | ["refused", id, a, b, c, d] =>
    match id.toNat?, a.toNat?, b.toNat?, c.toNat?, d.toNat? with
    | some id, some a, some b, some c, some d =>
      match updRow s id fun k => { k with refused := k.refused ++ [((a, b), (c, d))] } with
      | some s' => (s', [])
      | none => bad
    | _, _, _, _, _ => bad
  | "view" :: ls =>
    match (nats ls).bind pairsOf with
    | some v => ({ s with view := v }, [])
    | none => bad
  | _ => bad

def main : IO Unit := Proto.run init step
