import PwVerif.Model.ExecFin
import PwVerif.Model.Proto
open PwVerif PwVerif.Exec PwVerif.Proto

/-- scheduled completion: after `at` emission events, or at an idle point -/
inductive Tok | at (h k : Nat) | sleep (k : Nat)

structure DSt where
  f : FinDag
  sched : List Tok

def DSt.init : DSt :=
  { f := { n := 0, slots := [], down := [], starters := [], onExec := [], fails := [], rank := [] }, sched := [] }

def setAt {α} (l : List α) (i : Nat) (v : α) (dflt : α) : List α :=
  let l' := if l.length ≤ i then l ++ List.replicate (i + 1 - l.length) dflt else l
  l'.set i v

partial def showVal : Val → String
  | .nd => "ND"
  | .d => "d"
  | .app f args => s!"f{f}(" ++ ",".intercalate (args.map showVal) ++ ")"

def showSt : Exec.St → String
  | .idle => "idle" | .out => "out" | .done => "done" | .failed => "failed"

/-- the canonical scheduler with the recorded completions injected; `ev` counts emission events -/
def drive (cfg : Cfg) (d : Dag) : Nat → S → List Tok → Nat → S × String
  | 0, s, _, _ => (s, "fuel")
  | fuel + 1, s, sched, ev =>
    match s.phase with
    | .exited => (s, "exited")
    | .aborted => (s, "aborted")
    | .run rest =>
      match sched with
      | .at h k :: more =>
        if h = ev then
          match step cfg d s (.complete k) with
          | some s' => drive cfg d fuel s' more (ev + 1)
          | none => (s, s!"stuck-complete-{k}")
        else driveCanon cfg d fuel s sched ev rest
      | _ => driveCanon cfg d fuel s sched ev rest
where
  driveCanon (cfg : Cfg) (d : Dag) (fuel : Nat) (s : S) (sched : List Tok) (ev : Nat) (rest : List Nat) :
      S × String :=
    match rest with
    | _ :: _ =>
      match step cfg d s .start with
      | some s' => drive cfg d fuel s' sched (if s'.doneLog.length > s.doneLog.length then ev + 1 else ev)
      | none => (s, "stuck-start")
    | [] =>
      match s.queue with
      | _ :: _ =>
        match step cfg d s .deliver with
        | some s' => drive cfg d fuel s' sched (if s'.doneLog.length > s.doneLog.length then ev + 1 else ev)
        | none => (s, "stuck-deliver")
      | [] =>
        match s.running with
        | [] =>
          match step cfg d s .exit with
          | some s' => (s', "exited")
          | none => (s, "stuck-exit")
        | _ :: _ =>
          match sched with
          | .sleep k :: more =>
            match step cfg d s (.complete k) with
            | some s' => drive cfg d fuel s' more (ev + 1)
            | none => (s, s!"stuck-complete-{k}")
          | _ => (s, "stuck-idle")

def report (tag : String) (f : FinDag) (s : S) (fin : String) : List String :=
  let ids := List.range f.n
  let outcome := if fin = "aborted" then "aborted" else if fin = "exited" then (if s.errs.isEmpty then "ok" else "failedchild") else fin
  [ s!"{tag} end {fin}",
    s!"{tag} outcome {outcome}",
    s!"{tag} exec {showNats s.execLog}",
    s!"{tag} done {showNats s.doneLog}",
    s!"{tag} st " ++ " ".intercalate (ids.map fun i => s!"{i}:{showSt (s.st i)}"),
    s!"{tag} calls " ++ " ".intercalate (ids.map fun i => s!"{i}:{s.calls i}"),
    s!"{tag} out " ++ " ".intercalate (ids.map fun i => s!"{i}:{showVal (s.out i)}"),
    s!"{tag} errs {showNats s.errs}",
    s!"{tag} running {showNats s.running}" ]

def parseTok (w : String) : Option Tok :=
  match w.splitOn ":" with
  | ["s", k] => k.toNat?.map Tok.sleep
  | [h, k] => match h.toNat?, k.toNat? with
    | some h, some k => some (.at h k)
    | _, _ => none
  | _ => none

def step' (s : DSt) (ws : List String) : DSt × List String :=
  match ws with
  | ["n", n] => match n.toNat? with
    | some n => ({ s with f := { s.f with n := n, slots := List.replicate n [], down := List.replicate n [],
                                          onExec := List.replicate n false, fails := List.replicate n false,
                                          rank := List.replicate n 0 } }, [])
    | none => (s, ["bad-op"])
  | "slot" :: i :: cs => match i.toNat?, nats cs with
    | some i, some cs => ({ s with f := { s.f with slots := setAt s.f.slots i (s.f.slots.getD i [] ++ [cs]) [] } }, [])
    | _, _ => (s, ["bad-op"])
  | "down" :: j :: rs => match j.toNat?, nats rs with
    | some j, some rs => ({ s with f := { s.f with down := setAt s.f.down j rs [] } }, [])
    | _, _ => (s, ["bad-op"])
  | "starters" :: ss => match nats ss with
    | some ss => ({ s with f := { s.f with starters := ss } }, [])
    | none => (s, ["bad-op"])
  | "exec" :: is => match nats is with
    | some is => ({ s with f := { s.f with onExec := (List.range s.f.n).map (fun i => is.contains i) } }, [])
    | none => (s, ["bad-op"])
  | "fails" :: is => match nats is with
    | some is => ({ s with f := { s.f with fails := (List.range s.f.n).map (fun i => is.contains i) } }, [])
    | none => (s, ["bad-op"])
  | "rank" :: rs => match nats rs with
    | some rs => ({ s with f := { s.f with rank := rs } }, [])
    | none => (s, ["bad-op"])
  | "sched" :: ts => match ts.mapM parseTok with
    | some ts => ({ s with sched := ts }, [])
    | none => (s, ["bad-op"])
  | ["run"] =>
    let d := s.f.toDag
    let fuel := 4 * (s.f.n + 2) * (s.f.n + 2) + 16
    let variants : List (String × Cfg) :=
      [("P", Cfg.pinned), ("R", Cfg.repaired),
       ("X", { reportExecFailure := true, startAborts := true }),
       ("Y", { reportExecFailure := false, startAborts := false })]
    (s, [s!"wf {s.f.check}"] ++ (variants.map fun (t, c) =>
      let (st, fin) := drive c d fuel (init d) s.sched 0
      report t s.f st fin).flatten)
  | _ => (s, ["bad-op"])

def main : IO Unit := Proto.run DSt.init step'
