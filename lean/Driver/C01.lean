import PwVerif.Model.ExecFin
import PwVerif.Model.ExecFine
import PwVerif.Model.Proto
open PwVerif PwVerif.Exec PwVerif.Proto PwVerif.ExecFine

/-- scheduled completion: after `at` emission events, or at an idle point -/
inductive Tok | at (h k : Nat) | sleep (k : Nat)

/-- fine schedule token: at main-thread schedule point `p` (or late = after the run returned) the
first / second half of the callback of `k` runs -/
structure FTok where
  p : Option Nat
  first : Bool
  k : Nat

structure DSt where
  f : FinDag
  sched : List Tok
  fsched : List FTok := []
  /-- final state of the previous `run`, per variant -/
  last : List (String × Cfg × S) := []
  /-- children replaced by new objects between two runs: their outputs hold no data -/
  fresh : List Nat := []

def DSt.init : DSt :=
  { f := { n := 0, slots := [], down := [], starters := [], onExec := [], fails := [], rank := [] }, sched := [] }

def setAt {α} (l : List α) (i : Nat) (v : α) (dflt : α) : List α :=
  let l' := if l.length ≤ i then l ++ List.replicate (i + 1 - l.length) dflt else l
  l'.set i v

partial def showVal : Val → String
  | .nd => "ND"
  | .d => "d"
  | .app f args => s!"f{f}(" ++ ",".intercalate (args.map showVal) ++ ")"

def showSt : Exec.St → String
  | .idle => "idle" | .out => "out" | .done => "done" | .failed => "failed"

/-- the canonical scheduler with the recorded completions injected; `ev` counts emission events -/
def drive (cfg : Cfg) (d : Dag) : Nat → S → List Tok → Nat → S × String
  | 0, s, _, _ => (s, "fuel")
  | fuel + 1, s, sched, ev =>
    match s.phase with
    | .exited => (s, "exited")
    | .aborted => (s, "aborted")
    | .run rest =>
      match sched with
      | .at h k :: more =>
        if h = ev then
          match step cfg d s (.complete k) with
          | some s' => drive cfg d fuel s' more (ev + 1)
          | none => (s, s!"stuck-complete-{k}")
        else driveCanon cfg d fuel s sched ev rest
      | _ => driveCanon cfg d fuel s sched ev rest
where
  driveCanon (cfg : Cfg) (d : Dag) (fuel : Nat) (s : S) (sched : List Tok) (ev : Nat) (rest : List Nat) :
      S × String :=
    match rest with
    | _ :: _ =>
      match step cfg d s .start with
      | some s' => drive cfg d fuel s' sched (if s'.doneLog.length > s.doneLog.length then ev + 1 else ev)
      | none => (s, "stuck-start")
    | [] =>
      match s.queue with
      | _ :: _ =>
        match step cfg d s .deliver with
        | some s' => drive cfg d fuel s' sched (if s'.doneLog.length > s.doneLog.length then ev + 1 else ev)
        | none => (s, "stuck-deliver")
      | [] =>
        match s.running with
        | [] =>
          match step cfg d s .exit with
          | some s' => (s', "exited")
          | none => (s, "stuck-exit")
        | _ :: _ =>
          match sched with
          | .sleep k :: more =>
            match step cfg d s (.complete k) with
            | some s' => drive cfg d fuel s' more (ev + 1)
            | none => (s, s!"stuck-complete-{k}")
          | _ => (s, "stuck-idle")

def report (tag : String) (f : FinDag) (s : S) (fin : String) : List String :=
  let ids := List.range f.n
  let outcome := if fin = "aborted" then "aborted" else if fin = "exited" then (if s.errs.isEmpty then "ok" else "failedchild") else fin
  [ s!"{tag} end {fin}",
    s!"{tag} outcome {outcome}",
    s!"{tag} exec {showNats s.execLog}",
    s!"{tag} done {showNats s.doneLog}",
    s!"{tag} st " ++ " ".intercalate (ids.map fun i => s!"{i}:{showSt (s.st i)}"),
    s!"{tag} calls " ++ " ".intercalate (ids.map fun i => s!"{i}:{s.calls i}"),
    s!"{tag} out " ++ " ".intercalate (ids.map fun i => s!"{i}:{showVal (s.out i)}"),
    s!"{tag} errs {showNats s.errs}",
    s!"{tag} running {showNats s.running}" ]

/-- apply all tokens scheduled for point `p` -/
def applyToks (cfg : Cfg) (fc : FCfg) (d : Dag) (f : F) (p : Option Nat) :
    List FTok → Option (F × List FTok × Nat)
  | [] => some (f, [], 0)
  | t :: ts =>
    if t.p = p then
      match stepF cfg fc d f (if t.first then .cbFirst t.k else .cbSecond t.k) with
      | some f' => (applyToks cfg fc d f' p ts).map fun (g, r, n) => (g, r, n + 1)
      | none => none
    else some (f, t :: ts, 0)

/-- the canonical main thread (start all starters, drain the queue, idle, exit) with the recorded
callback halves injected at the main thread's schedule points: after every emission made on the main
thread (a local child completed) and at every idle `sleep` -/
def driveF (cfg : Cfg) (fc : FCfg) (d : Dag) : Nat → F → List FTok → Nat → F × String
  | 0, f, _, _ => (f, "fuel")
  | fuel + 1, f, toks, p =>
    let point (f' : F) (grew : Bool) : F × String :=
      if grew then
        match applyToks cfg fc d f' (some p) toks with
        | some (g, rest, _) => driveF cfg fc d fuel g rest (p + 1)
        | none => (f', s!"stuck-token-at-{p}")
      else driveF cfg fc d fuel f' toks p
    match f.core.phase with
    | .exited =>
      match applyToks cfg fc d f none toks with
      | some (g, [], _) => (g, "exited")
      | some (g, _, _) => (g, "tokens-left")
      | none => (f, "stuck-late-token")
    | .aborted => (f, "aborted")
    | .run (_ :: _) =>
      match stepF cfg fc d f .start with
      | some f' => point f' (f'.core.doneLog.length > f.core.doneLog.length)
      | none => (f, "stuck-start")
    | .run [] =>
      match f.core.queue with
      | _ :: _ =>
        match stepF cfg fc d f .deliver with
        | some f' => point f' (f'.core.doneLog.length > f.core.doneLog.length)
        | none => (f, "stuck-deliver")
      | [] =>
        match visRunning fc f with
        | [] =>
          match stepF cfg fc d f .exit with
          | some f' => driveF cfg fc d fuel f' toks p
          | none => (f, "stuck-exit")
        | _ :: _ =>
          match applyToks cfg fc d f (some p) toks with
          | some (g, rest, n) => if n = 0 then (f, s!"stuck-idle-at-{p}") else driveF cfg fc d fuel g rest (p + 1)
          | none => (f, s!"stuck-token-at-{p}")

def sortNats (l : List Nat) : List Nat := (l.toArray.qsort (· < ·)).toList

def reportF (tag : String) (fd : FinDag) (fc : FCfg) (f : F) (fin : String) : List String :=
  let ids := List.range fd.n
  let s := f.core
  [ s!"{tag} end {fin}",
    s!"{tag} exec {showNats s.execLog}",
    s!"{tag} doneset {showNats (sortNats s.doneLog)}",
    s!"{tag} st " ++ " ".intercalate (ids.map fun i => s!"{i}:{showSt (s.st i)}"),
    s!"{tag} calls " ++ " ".intercalate (ids.map fun i => s!"{i}:{s.calls i}"),
    s!"{tag} out " ++ " ".intercalate (ids.map fun i => s!"{i}:{showVal (s.out i)}"),
    s!"{tag} running {showNats (sortNats (visRunning fc f))}",
    s!"{tag} late {showNats f.late}" ]

def parseFTok (w : String) : Option FTok :=
  match w.splitOn ":" with
  | [p, h, k] =>
    let first? := if h = "F" then some true else if h = "T" then some false else none
    match first?, k.toNat? with
    | some b, some k =>
      if p = "L" then some { p := none, first := b, k := k }
      else p.toNat?.map fun p => { p := some p, first := b, k := k }
    | _, _ => none
  | _ => none

def parseTok (w : String) : Option Tok :=
  match w.splitOn ":" with
  | ["s", k] => k.toNat?.map Tok.sleep
  | [h, k] => match h.toNat?, k.toNat? with
    | some h, some k => some (.at h k)
    | _, _ => none
  | _ => none

def step' (s : DSt) (ws : List String) : DSt × List String :=
  match ws with
  | ["n", n] => match n.toNat? with
    | some n => ({ s with f := { s.f with n := n, slots := List.replicate n [], down := List.replicate n [],
                                          onExec := List.replicate n false, fails := List.replicate n false,
                                          rank := List.replicate n 0 } }, [])
    | none => (s, ["bad-op"])
  | "slot" :: i :: cs => match i.toNat?, nats cs with
    | some i, some cs => ({ s with f := { s.f with slots := setAt s.f.slots i (s.f.slots.getD i [] ++ [cs]) [] } }, [])
    | _, _ => (s, ["bad-op"])
  | "down" :: j :: rs => match j.toNat?, nats rs with
    | some j, some rs => ({ s with f := { s.f with down := setAt s.f.down j rs [] } }, [])
    | _, _ => (s, ["bad-op"])
  | "starters" :: ss => match nats ss with
    | some ss => ({ s with f := { s.f with starters := ss } }, [])
    | none => (s, ["bad-op"])
  | "exec" :: is => match nats is with
    | some is => ({ s with f := { s.f with onExec := (List.range s.f.n).map (fun i => is.contains i) } }, [])
    | none => (s, ["bad-op"])
  | "fails" :: is => match nats is with
    | some is => ({ s with f := { s.f with fails := (List.range s.f.n).map (fun i => is.contains i) } }, [])
    | none => (s, ["bad-op"])
  | "rank" :: rs => match nats rs with
    | some rs => ({ s with f := { s.f with rank := rs } }, [])
    | none => (s, ["bad-op"])
  | "sched" :: ts => match ts.mapM parseTok with
    | some ts => ({ s with sched := ts }, [])
    | none => (s, ["bad-op"])
  | "fsched" :: ts => match ts.mapM parseFTok with
    | some ts => ({ s with fsched := ts }, [])
    | none => (s, ["bad-op"])
  | ["frun"] =>
    let d := s.f.toDag
    let fuel := 8 * (s.f.n + 2) * (s.f.n + 2) + 32
    (s, [s!"wf {s.f.check}"] ++ ([("Fp", FCfg.pinned), ("Fr", FCfg.repaired)].map fun (t, fc) =>
      -- the state reported is the one at the moment the run returns; late tokens are applied after it
      let (st, fin) := driveF Cfg.repaired fc d fuel (initF d) s.fsched 0
      reportF t s.f fc st fin).flatten)
  | ["run"] =>
    let d := s.f.toDag
    let fuel := 4 * (s.f.n + 2) * (s.f.n + 2) + 16
    let variants : List (String × Cfg) :=
      [("P", Cfg.pinned), ("R", Cfg.repaired),
       ("X", { reportExecFailure := true, startAborts := true }),
       ("Y", { reportExecFailure := false, startAborts := false })]
    let results := variants.map fun (t, c) =>
      let (st, fin) := drive c d fuel (init d) s.sched 0
      (t, c, st, fin)
    ({ s with last := results.map fun (t, c, st, _) => (t, c, st) },
     [s!"wf {s.f.check}"] ++ (results.map fun (t, _, st, fin) => report t s.f st fin).flatten)
  | "fresh" :: is => match nats is with
    | some is => ({ s with fresh := is }, [])
    | none => (s, ["bad-op"])
  | ["rerun"] =>
    -- the composite is run again: new fault set / executor assignment / schedule were sent before
    let d := s.f.toDag
    let fuel := 4 * (s.f.n + 2) * (s.f.n + 2) + 16
    let results := (s.last.map fun (t, c, s1) =>
      [false, true].map fun reset =>
        let s1 := { s1 with out := fun i => if s.fresh.contains i then .nd else s1.out i,
                            received := fun i => if s.fresh.contains i then [] else s1.received i }
        let d' := rerunDag d s1 d.fails d.onExec
        let (st, fin) := drive c d' fuel (restart reset d s1 d.fails d.onExec) s.sched 0
        (t ++ (if reset then "z" else "k"), st, fin)).flatten
    (s, (results.map fun (t, st, fin) => report t s.f st fin).flatten)
  | _ => (s, ["bad-op"])

def main : IO Unit := Proto.run DSt.init step'
