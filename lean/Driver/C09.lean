import PwVerif.Model.Macro
import PwVerif.Model.Preview
import PwVerif.Model.MacroLabels
import PwVerif.Model.Proto
open PwVerif PwVerif.Macro PwVerif.Proto

/-! Line-protocol driver for C09.

    cfg <0|1> <0|1>                   dupRetRefused, unused parameter unlinked (0 = pinned dangling link)
    def <node>                        the top-level macro class (prefix token form, see `pNode`)
    build <n> (<k> <val>)*            instantiate with keyword arguments
    setin <path> <k> <val>            node_at_path.inputs[k].value = val   (`refused` when the chain refuses)
    replace <path> <j> <g>            child j of the macro at path becomes the term node F_g
    reload <path>                     the node at path is saved and loaded in place
    lock <path> | unlock <path>       mark the node at path running / not running (inputs locked)
    setout <path> <o> <val>           node_at_path.outputs[o].value = val
    setuiin <path> <k> <val>          UI node k of the macro at path: inputs.user_input.value = val
    setuiout <path> <k> <val>         … outputs.user_input.value = val
    resend <path> <k>                 node_at_path.inputs[k].value = (the value it holds)
    resendout <path> <o>              node_at_path.outputs[o].value = (the value it holds)
    run                               macro.run()
    call <n> (<k> <val>)*             macro(**kwargs)

  path: `-` (the macro itself) or child indices `0.2.1`.
  val:  ND | d | c<N> | i<N> (an int object) | A <f> <n> <val>*n
  node: L <f> <n> <src>*n
        M <nargs> (<val> <hint>)*  <nbody> <node>*  <nrets> <ret>*  <noh> <hint>*  <nsrc> <src>*
  src:  a <k> | o <j> <o> | k <val> | n            ret: a <k> | o <j> <o>
-/

abbrev P (α : Type) := List String → Option (α × List String)

def pNat : P Nat
  | w :: ws => w.toNat?.map (·, ws)
  | [] => none

partial def pVal : P Val
  | "ND" :: ws => some (.nd, ws)
  | "d" :: ws => some (.c 0, ws)
  | "A" :: ws => do
    let (f, ws) ← pNat ws
    let (n, ws) ← pNat ws
    let rec go (n : Nat) (acc : List Val) (ws : List String) : Option (List Val × List String) :=
      match n with
      | 0 => some (acc.reverse, ws)
      | n + 1 => do
        let (v, ws) ← pVal ws
        go n (v :: acc) ws
    let (as, ws) ← go n [] ws
    some (.app f as, ws)
  | w :: ws =>
    if w.startsWith "c" then
      match (w.drop 1).toNat? with
      | some n => if n = 0 || n ≥ 1000 then none else some (.c n, ws)
      | none => none
    else if w.startsWith "i" then
      -- an `int` object: constants from 1000 on
      match (w.drop 1).toNat? with
      | some n => some (.c (1000 + n), ws)
      | none => none
    else none
  | [] => none

def pMany {α} (p : P α) : Nat → P (List α)
  | 0, ws => some ([], ws)
  | n + 1, ws => do
    let (x, ws) ← p ws
    let (xs, ws) ← pMany p n ws
    some (x :: xs, ws)

def pSrc : P Src
  | "a" :: ws => do let (k, ws) ← pNat ws; some (.arg k, ws)
  | "o" :: ws => do let (j, ws) ← pNat ws; let (o, ws) ← pNat ws; some (.out j o, ws)
  | "k" :: ws => do let (v, ws) ← pVal ws; some (.const v, ws)
  | "n" :: ws => some (.none, ws)
  | _ => none

def pRet : P Ret
  | "a" :: ws => do let (k, ws) ← pNat ws; some (.arg k, ws)
  | "o" :: ws => do let (j, ws) ← pNat ws; let (o, ws) ← pNat ws; some (.out j o, ws)
  | _ => none

def pArg : P Arg := fun ws => do
  let (v, ws) ← pVal ws
  let (h, ws) ← pNat ws
  if h > 3 then none else some (⟨v, h⟩, ws)

def pCounted {α} (p : P α) : P (List α) := fun ws => do
  let (n, ws) ← pNat ws
  pMany p n ws

partial def pNode : P Node
  | "L" :: ws => do
    let (f, ws) ← pNat ws
    let (srcs, ws) ← pCounted pSrc ws
    some (.leaf f srcs, ws)
  | "M" :: ws => do
    let (args, ws) ← pCounted pArg ws
    let (body, ws) ← pCounted pNode ws
    let (rets, ws) ← pCounted pRet ws
    let (oh, ws) ← pCounted pNat ws
    let (srcs, ws) ← pCounted pSrc ws
    some (.mac args body rets oh srcs, ws)
  | _ => none

def pPath (w : String) : Option Path :=
  if w = "-" then some [] else (w.splitOn ".").mapM String.toNat?

partial def showVal : Val → String
  | .nd => "ND"
  | .c 0 => "d"
  | .c n => if n ≥ 1000 then s!"i{n - 1000}" else s!"c{n}"
  | .app f as => s!"f{f}(" ++ ",".intercalate (as.map showVal) ++ ")"

def showVals (f : Nat → Val) (n : Nat) : String := ",".intercalate ((List.range n).map fun k => showVal (f k))

def idxs {α} (l : List α) : List (Nat × α) := (List.range l.length).zip l

partial def showSt : Node → St → String
  | .leaf _ srcs, σ => s!"L[{showVals (σ.get .inp) srcs.length}|{showVal (σ.get .out 0)}]"
  | .mac args body rets _ _, σ =>
    let ui := (List.range args.length).filter (kept body rets)
    let uis := ",".intercalate (ui.map fun k => s!"{k}:{showVal (σ.get .uiIn k)}/{showVal (σ.get .uiOut k)}")
    let kids := " ".intercalate ((idxs body).map fun (j, n) => showSt n (σ.sub j))
    s!"M[{showVals (σ.get .inp) args.length}|{showVals (σ.get .out) rets.length}|{uis}|{kids}]"

def showRecv : Recv → String
  | .ui => "ui"
  | .child j i => s!"c{j}.{i}"
  | .orphan => "gone"
  | .none => "none"

def showPeer : Peer → String
  | .ui k => s!"u{k}"
  | .kid j o => s!"c{j}.{o}"

partial def showStatic (cfg : Cfg) : Node → String
  | .leaf _ _ => "L"
  | .mac args body rets _ _ =>
    let links := ",".intercalate ((List.range args.length).map fun k => showRecv (receiverOf cfg body rets k))
    let conns := ",".intercalate (((idxs body).map fun (j, n) =>
      (kidConns (kept body rets) n.srcs 0).map fun (i, p) => s!"{j}.{i}<{showPeer p}").flatten)
    let kids := ",".intercalate (body.map (showStatic cfg))
    s!"M(links=[{links}];conns=[{conns}];kids=[{kids}])"

partial def showIface : Node → String
  | .leaf _ _ => "L"
  | .mac args body rets oh _ =>
    let ins := ",".intercalate (args.map fun a => s!"{showVal a.dflt}:{a.hint}")
    let outs := ",".intercalate ((List.range rets.length).map fun r => toString (oh.getD r 0))
    let kids := ",".intercalate (body.map showIface)
    s!"M(in=[{ins}];out=[{outs}];kids=[{kids}])"

def pOptNat : P (Option Nat)
  | "-" :: ws => some (none, ws)
  | w :: ws => w.toNat?.map fun n => (some n, ws)
  | [] => none

def pOptLabels : P (Option (List Nat))
  | "-" :: ws => some (none, ws)
  | ws => do
    let (l, ws) ← pCounted pNat ws
    some (some l, ws)

def pCls : P (Option Nat × Option Nat × Option (List Nat)) := fun ws => do
  let (p, ws) ← pOptNat ws
  let (f, ws) ← pOptNat ws
  let (d, ws) ← pOptLabels ws
  some ((p, f, d), ws)

def pFn : P (Nat × List Nat) := fun ws => do
  let (f, ws) ← pNat ws
  let (l, ws) ← pCounted pNat ws
  some ((f, l), ws)

def pPreview (ws : List String) : Option (Nat × Preview.Classes × Nat × List Nat) := do
  let (variant, ws) ← pNat ws
  if variant > 1 then none
  let (cls, ws) ← pCounted pCls ws
  let (fns, ws) ← pCounted pFn ws
  let (reqs, ws) ← pCounted pNat ws
  if !ws.isEmpty then none
  -- a parent must be an earlier class
  if (idxs cls).any (fun (c, (p, _, _)) => match p with | some q => decide (c ≤ q) | none => false) then none
  if reqs.any (fun c => decide (cls.length ≤ c)) then none
  let cs : Preview.Classes :=
    { parent := fun c => match cls[c]? with | some (p, _, _) => p | none => none,
      ownFn := fun c => match cls[c]? with | some (_, f, _) => f | none => none,
      declared := fun c => match cls[c]? with | some (_, _, d) => d | none => none,
      scrape := fun f => match fns.find? (fun x => x.1 == f) with | some (_, l) => l | none => [],
      rootFn := 0 }
  some (variant, cs, cls.length, reqs)

structure DS where
  cfg : Cfg
  dfn : Option Node
  st : Option St
  dead : Bool
  pristine : Bool      -- no child-level input has been assigned so far (`den`/`flat` lines are printed)
  locked : List Path   -- nodes marked running (their inputs refuse assignments)

def init : DS := { cfg := Cfg.pinned, dfn := none, st := none, dead := false, pristine := true, locked := [] }

def pKw : P (Nat × Val) := fun ws => do
  let (k, ws) ← pNat ws
  let (v, ws) ← pVal ws
  some ((k, v), ws)

def applyKw (n : Node) (σ : St) (kw : List (Nat × Val)) : St :=
  kw.foldl (fun σ (k, v) => setIn n σ k v) σ

def flatOuts (n : Node) (σ : St) : Nat → Val :=
  let r := flat n (fun k => .const (σ.get .inp k)) 0
  let env := evalFlat r.1 0 (fun _ => .nd)
  fun o => (r.2 o).eval env

/-- some keyword argument refers to the child itself or to a later child (a data cycle closed by the
creator, only possible with a hand-wired flow): the body is not a DAG, `denote`/`flat` do not apply -/
partial def hasFwd : Node → Bool
  | .leaf _ _ => false
  | .mac _ body _ _ _ =>
    (idxs body).any fun (j, n) =>
      hasFwd n || n.srcs.any fun s => match s with | .out j' _ => decide (j ≤ j') | _ => false

def doRun (s : DS) (n : Node) (σ : St) : DS × List String :=
  if refused n σ then ({ s with st := some σ }, ["run refused", "st " ++ showSt n σ]) else
  match run n σ with
  | none => ({ s with dead := true }, ["run fail"])
  | some σ' =>
    let extra := if s.pristine && !hasFwd n then
        [s!"den [{showVals (denote n (σ.get .inp)) n.nout}]", s!"flat [{showVals (flatOuts n σ) n.nout}]"]
      else []
    ({ s with st := some σ' }, ["run ok", "st " ++ showSt n σ'] ++ extra)

/-- an op on a live state -/
def live (s : DS) (f : Node → St → DS × List String) : DS × List String :=
  if s.dead then (s, ["dead"])
  else match s.dfn, s.st with
    | some n, some σ => f n σ
    | _, _ => (s, ["nostate"])

def step (s : DS) (ws : List String) : DS × List String :=
  match ws with
  | ["cfg", a, b] =>
    match a.toNat?, b.toNat? with
    | some a, some b =>
      if a ≤ 1 ∧ b ≤ 1 then
        ({ s with cfg := { dupRetRefused := a == 1, unusedDangling := b == 0 } }, [])
      else (s, ["bad-op"])
    | _, _ => (s, ["bad-op"])
  | "def" :: rest =>
    match pNode rest with
    | some (n@(.mac ..), []) => ({ s with dfn := some n, st := none }, [])
    | _ => (s, ["bad-op"])
  | "build" :: rest =>
    match s.dfn, pCounted pKw rest with
    | some n, some (kw, []) =>
      if buildErr s.cfg n then ({ s with st := none }, ["build err"])
      else
        let σ := applyKw n (build n) kw
        ({ s with st := some σ, dead := false, pristine := true, locked := [] },
         ["build ok", "iface " ++ showIface n, "static " ++ showStatic s.cfg n, "st " ++ showSt n σ])
    | _, _ => (s, ["bad-op"])
  | "setin" :: p :: rest =>
    match pPath p, pKw rest with
    | some p, some ((k, v), []) =>
      live s fun n σ =>
        let r := pushInAt (fun q => s.locked.contains q) n σ p k v
        if r.2 then ({ s with st := some r.1, pristine := s.pristine && p.isEmpty }, ["st " ++ showSt n r.1])
        else ({ s with st := some r.1 }, ["refused", "st " ++ showSt n r.1])
    | _, _ => (s, ["bad-op"])
  | "setout" :: p :: rest =>
    match pPath p, pKw rest with
    | some p, some ((o, v), []) =>
      live s fun n σ =>
        let σ' := (setOutAt n σ p o v).1
        ({ s with st := some σ' }, ["st " ++ showSt n σ'])
    | _, _ => (s, ["bad-op"])
  | "setuiin" :: p :: rest =>
    match pPath p, pKw rest with
    | some p, some ((k, v), []) =>
      live s fun n σ =>
        let σ' := setUiInAt σ p k v
        ({ s with st := some σ', pristine := false }, ["st " ++ showSt n σ'])
    | _, _ => (s, ["bad-op"])
  | "setuiout" :: p :: rest =>
    match pPath p, pKw rest with
    | some p, some ((k, v), []) =>
      live s fun n σ =>
        let σ' := (setUiOutAt n σ p k v).1
        ({ s with st := some σ' }, ["st " ++ showSt n σ'])
    | _, _ => (s, ["bad-op"])
  | ["replace", p, j, g] =>
    -- child j (a term node) of the macro at path p is replaced by the term node F_g
    match pPath p, j.toNat?, g.toNat? with
    | some p, some j, some g =>
      live s fun n σ =>
        let n' := replaceAt n p j g
        let σ' := replaceState n' σ p j
        ({ s with dfn := some n', st := some σ' }, ["static " ++ showStatic s.cfg n', "st " ++ showSt n' σ'])
    | _, _, _ => (s, ["bad-op"])
  | ["reload", p] =>
    -- the node at path p is saved and loaded in place: same values, same links
    match pPath p with
    | some _ => live s fun n σ => (s, ["static " ++ showStatic s.cfg n, "st " ++ showSt n σ])
    | none => (s, ["bad-op"])
  | ["lock", p] =>
    match pPath p with
    | some p => live s fun _ _ => ({ s with locked := p :: s.locked }, [])
    | none => (s, ["bad-op"])
  | ["unlock", p] =>
    match pPath p with
    | some p => live s fun _ _ => ({ s with locked := s.locked.filter (· != p) }, [])
    | none => (s, ["bad-op"])
  | ["resend", p, k] =>
    -- `ch.value = ch.value` on an input: the value it already holds is assigned again
    match pPath p, k.toNat? with
    | some p, some k =>
      live s fun n σ =>
        let σ' := setInAt n σ p k ((σ.atPath p).get .inp k)
        ({ s with st := some σ' }, ["st " ++ showSt n σ'])
    | _, _ => (s, ["bad-op"])
  | ["resendout", p, o] =>
    match pPath p, o.toNat? with
    | some p, some o =>
      live s fun n σ =>
        let σ' := (setOutAt n σ p o ((σ.atPath p).get .out o)).1
        ({ s with st := some σ' }, ["st " ++ showSt n σ'])
    | _, _ => (s, ["bad-op"])
  | "lab" :: selfArg :: n :: texts =>
    -- scraped output labels of a creator: lab <first parameter> <n> <source text of each returned expression>
    match n.toNat? with
    | some n =>
      if texts.length ≠ n then (s, ["bad-op"]) else
      let rets : List FuncWrap.RetStmt :=
        match texts with
        | [] => []
        | [t] => [.value (.single t)]
        | ts => [.value (.tuple ts)]
      match MacroLabels.scrapedLabels selfArg rets with
      | .ok (some ls) => (s, ["lab [" ++ ",".intercalate ls ++ "]"])
      | .ok none => (s, ["lab none"])
      | .error _ => (s, ["lab err"])
    | none => (s, ["bad-op"])
  | "pv" :: rest =>
    -- per-class preview: pv <variant> <ncls> (<parent|-> <fn|-> <declared: - | n l*>)* <nfn> (<f> <n> l*)* <nreq> c*
    match pPreview rest with
    | some (variant, cs, ncls, reqs) =>
      let get := if variant = 1 then Preview.getRepaired cs ncls else Preview.getPinned cs ncls
      let out := Preview.runReqs get Preview.Cache.empty reqs
      (s, ["pv " ++ ";".intercalate (out.map showNats)])
    | none => (s, ["bad-op"])
  | ["run"] => live s fun n σ => doRun s n σ
  | "call" :: rest =>
    match pCounted pKw rest with
    | some (kw, []) => live s fun n σ => doRun s n (applyKw n σ kw)
    | _ => (s, ["bad-op"])
  | _ => (s, ["bad-op"])

def main : IO Unit := Proto.run init step
