import PwVerif.Model.WfIO
import PwVerif.Model.MapHeap
import PwVerif.Model.Proto
open PwVerif PwVerif.WfIO PwVerif.Proto

/-- driver state: the world, every channel id ever created with its printable name, the hint
table behind `admits`, and the outcome of a pending `kw` line -/
structure St where
  /-- the world; its two maps are always `HS.world` of the heap below -/
  w : W
  names : List (Nat × String)     -- id ↦ "child.chan"
  kw : Res
  /-- map objects with identity (`Model/MapHeap.lean`) and who stores which -/
  hp : List MObj
  sl : Slot → Option Nat
  /-- objects the user still holds: `orig.in`, `stale.in`, `other.in`, … ↦ reference -/
  refs : List (String × Nat)

def St.hs (s : St) : HS := { base := s.w, heap := s.hp, slot := s.sl }
def St.ofHS (s : St) (h : HS) : St := { s with w := h.world, hp := h.heap, sl := h.slot }

def sideWord : Side → String
  | .inputs => "in" | .outputs => "out"

def otherSlot : Side → Slot
  | .inputs => .otherIn | .outputs => .otherOut

def setRef (refs : List (String × Nat)) (k : String) (v : Option Nat) : List (String × Nat) :=
  let rest := refs.filter fun e => e.1 != k
  match v with
  | some r => rest ++ [(k, r)]
  | none => rest

def showRes : Res → String
  | .ok => "ok" | .dupErr => "dupErr" | .typeErr => "typeErr" | .connErr => "connErr"
  | .valueErr => "valueErr" | .refused => "refused" | .keyErr => "keyErr" | .kvDupErr => "kvDupErr"

def nameOf (s : St) (c : Nat) : String := (s.names.lookup c).getD "?"

def showPanel (s : St) (side : Side) (readOk : Bool) : String :=
  match (if readOk then s.w.panel side else none) with
  | none => "ERR"
  | some p => "[" ++ ",".intercalate (p.map fun e => s!"{e.1}={nameOf s e.2}#{e.2}") ++ "]"

def showMap : Option KeyMap → String
  | none => "None"
  | some m => "{" ++ ",".intercalate (m.map fun e =>
      match e.2 with
      | .name n => s!"{e.1}>{n}"
      | .disabled k => s!"{e.1}>-{k}"
      | .rawNone => s!"{e.1}>!None") ++ "}"

def showVals (s : St) : String :=
  ",".intercalate ((s.names.mergeSort (fun a b => a.1 ≤ b.1)).map fun e => s!"{e.1}={s.w.val e.1}")

/-- what the harness does after every operation: it reads `wf.inputs`, `wf.outputs` (each calls
the getter of its map, which cleans the stored object in place) and then both maps -/
def settle (s : St) : St × Bool × Bool :=
  let r1 := hget s.hs .wfIn
  let r2 := hget r1.1 .wfOut
  (s.ofHS r2.1, decide (r1.2 = .ok), decide (r2.2 = .ok))

/-- the detached objects as they are (no getter involved) -/
def showObjs (s : St) : String :=
  ";".intercalate (["in.orig", "in.stale", "in.other", "out.orig", "out.stale", "out.other"].filterMap fun k =>
    (s.refs.lookup k).bind fun r => (s.hs.obj r).map fun o => s!"{k}={showMap (some o.items)}")

def obsOf (s : St) (fl : Bool × Bool) : String :=
  s!"in:{showPanel s .inputs fl.1} out:{showPanel s .outputs fl.2} imap:{showMap s.w.imap} omap:{showMap s.w.omap} objs:{showObjs s} vals:{showVals s}"

def showRet (s : St) : String :=
  match runReturn s.w with
  | none => "ERR"
  | some r => "{" ++ ",".intercalate (r.map fun e => s!"{e.1}={e.2}") ++ "}"

/-- hint check of the value setter on tagged tokens `i:… s:… b:… t:…` -/
def tagOk (hint : String) (v : Val) : Bool :=
  match hint with
  | "int" => v.startsWith "i:" || v.startsWith "b:"
  | "str" => v.startsWith "s:"
  | "bool" => v.startsWith "b:"
  | _ => true

def init : St :=
  { w := empty (fun _ _ => true) (fun _ _ => true), names := [], kw := .ok, hp := [], sl := fun _ => none, refs := [] }

def parseChan (w : String) : Option (String × Nat) :=
  match w.splitOn ":" with
  | [l, i] => if l = "" then none else i.toNat?.map fun i => (l, i)
  | _ => none

def parseSide : String → Option Side
  | "in" => some .inputs | "out" => some .outputs | _ => none

/-- `k>v` with `v = -` for `None` -/
def parseEntry (w : String) : Option (String × Option String) :=
  match w.splitOn ">" with
  | [k, v] => if k = "" || v = "" then none else some (k, if v = "-" then none else some v)
  | _ => none

def parseKv (w : String) : Option (String × Val) :=
  match w.splitOn "=" with
  | [k, v] => if k = "" || v = "" then none else some (k, v)
  | _ => none

def parseMap (ws : List String) : Option (Option UserMap) :=
  match ws with
  | ["none"] => some none
  | "dict" :: es =>
    match es.mapM parseEntry with
    | some m => if (m.map Prod.fst).eraseDups.length = m.length then some (some m) else none
    | none => none
  | _ => none

/-- the argument of a whole-map assignment: `none`, or `[shared] dict|bidict k>v …` -/
structure MapArg where
  shared : Bool
  bidict : Bool
  m : Option UserMap

def parseMapArg (ws : List String) : Option MapArg :=
  let (shared, ws) := match ws with
    | "shared" :: rest => (true, rest)
    | _ => (false, ws)
  match ws with
  | ["none"] => if shared then none else some ⟨false, false, none⟩
  | form :: es =>
    if form ≠ "dict" && form ≠ "bidict" then none else
    match es.mapM parseEntry with
    | some m => if (m.map Prod.fst).eraseDups.length = m.length then some ⟨shared, form = "bidict", some m⟩ else none
    | none => none
  | _ => none

/-- `foreign[side]["stale"] = live(side)`: the getter runs, the reference (or its absence) is remembered -/
def noteStale (s : St) (side : Side) : St :=
  let r := hget s.hs (Slot.ofSide side)
  let s1 := s.ofHS r.1
  { s1 with refs := setRef s1.refs (sideWord side ++ ".stale") (if r.2 = .ok then s1.sl (Slot.ofSide side) else none) }

/-- `wf.<side>_map = obj` for every listed side, the way the harness does it: the user builds ONE
object, remembers it (`orig`) and what was stored before (`stale`); a shared object goes to the
second workflow first (whose live map is remembered as `other`); then the assignments, the first
exception ends the statement list -/
def assignMap (s : St) (sides : List Side) (a : MapArg) : St × Res :=
  match a.m with
  | none =>
    sides.foldl (fun (acc : St × Res) side =>
      if acc.2 ≠ .ok then acc else
      let s1 := noteStale acc.1 side
      let s2 := { s1 with refs := setRef s1.refs (sideWord side ++ ".orig") none }
      let r := hassign s2.hs (Slot.ofSide side) none
      (s2.ofHS r.1, r.2)) (s, .ok)
  | some m =>
    let n := hnew s.hs a.bidict m
    if n.2 ≠ .ok then (s, n.2) else
    let ref := s.hp.length
    let s0 := s.ofHS n.1
    -- bookkeeping of all sides first (as the harness does for one object on both sides)
    let s1 := sides.foldl (fun (acc : St) side =>
      let x := noteStale acc side
      { x with refs := setRef x.refs (sideWord side ++ ".orig") (some ref) }) s0
    let s2 := if a.shared then
        sides.foldl (fun (acc : St) side =>
          let r := hassign acc.hs (otherSlot side) (some ref)
          if r.2 ≠ .ok then acc.ofHS r.1 else
          let g := hget r.1 (otherSlot side)
          let x := acc.ofHS g.1
          { x with refs := setRef x.refs (sideWord side ++ ".other") (x.sl (otherSlot side)) }) s1
      else s1
    sides.foldl (fun (acc : St × Res) side =>
      if acc.2 ≠ .ok then acc else
      let r := hassign acc.1.hs (Slot.ofSide side) (some ref)
      (acc.1.ofHS r.1, r.2)) (s2, .ok)

def optStr (v : String) : Option String := if v = "-" then none else some v

/-- one token of a `medit` line -/
inductive Tok | edit (e : Edit) | access

def parseTok (w : String) : Option Tok :=
  match w.splitOn ":" with
  | ["clear"] => some (.edit .clear)
  | ["popitem"] => some (.edit .popitem)
  | ["access"] => some .access
  | ["set", kv] => (parseEntry kv).map fun e => .edit (.put e.1 e.2)
  | ["setdefault", kv] => (parseEntry kv).map fun e => .edit (.setdefault e.1 e.2)
  | ["force", kv] => (parseEntry kv).map fun e => .edit (.force e.1 e.2)
  | ["del", k] => if k = "" then none else some (.edit (.del k))
  | ["pop", k] => if k = "" then none else some (.edit (.pop k))
  | ["popd", k] => if k = "" then none else some (.edit (.popd k))
  | ["invdel", v] => if v = "" then none else some (.edit (.invDel (optStr v)))
  | ["invset", vk] =>
    match vk.splitOn ">" with
    | [v, k] => if k = "" || v = "" then none else some (.edit (.invPut (optStr v) k))
    | _ => none
  | ["upd", kvs] =>
    let es := if kvs = "" then [] else kvs.splitOn ","
    match es.mapM parseEntry with
    | some m => if (m.map Prod.fst).eraseDups.length = m.length then some (.edit (.update m)) else none
    | none => none
  | _ => none

/-- a batch of in-place edits, as a script would run it: `getter` = every edit goes through the
property again (`wf.inputs_map[k] = v`), `held` = the reference is taken once (`m = wf.inputs_map`)
and edited; the first exception ends the batch. `access` reads the panel of that side. -/
def medit (h : HS) (sl : Slot) (everyTime : Bool) : List Tok → Nat → HS × String
  | [], _ => (h, "ok")
  | t :: rest, i =>
    let pre := match t with
      | .access => hget h sl
      | .edit _ => if everyTime then hget h sl else (h, .ok)
    if pre.2 ≠ .ok then (pre.1, s!"{showRes pre.2}@{i}") else
    match t with
    | .access => medit pre.1 sl everyTime rest (i + 1)
    | .edit e =>
      let r := match pre.1.slot sl with
        | some ref => hedit pre.1 ref e
        | none => (pre.1, (editStored none e).2)   -- the getter returned `None`
      if r.2 ≠ .ok then (r.1, s!"{showRes r.2}@{i}") else medit r.1 sl everyTime rest (i + 1)

/-- edits of a detached object: whatever they raise is the user's business -/
def feedit (h : HS) (ref : Nat) : List Tok → HS
  | [] => h
  | .access :: rest => feedit h ref rest
  | .edit e :: rest => feedit (hedit h ref e).1 ref rest

def splitAt (ws : List String) (sep : String) : List String × List String :=
  (ws.takeWhile (· ≠ sep), (ws.dropWhile (· ≠ sep)).drop 1)

/-- one operation; returns the new state and the result word (`none` = malformed) -/
def exec (s : St) (ws : List String) : Option (St × String) :=
  let fin (r : W × Res) : Option (St × String) := some ({ s with w := r.1 }, showRes r.2)
  match ws with
  | "add" :: label :: "in" :: rest =>
    let (ins, outs) := splitAt rest "out"
    if !rest.contains "out" then none else
    match ins.mapM parseChan, outs.mapM parseChan with
    | some ins, some outs =>
      let c : Child := { label, ins, outs }
      let r := step s.w (.add c)
      let mine := (ins ++ outs).map fun lc => (lc.2, s!"{label}.{lc.1}")
      let fresh := mine.filter fun e => (s.names.lookup e.1).isNone
      let names := if r.2 = .ok then
          (s.names.map fun e => (e.1, (mine.lookup e.1).getD e.2)) ++ fresh
        else s.names ++ fresh
      -- a refused node still exists (parentless): its channels can be connected to
      let g2 := registerChans (registerChans r.1.g .dataIn (ins.map Prod.snd)) .dataOut (outs.map Prod.snd)
      some ({ s with w := { r.1 with g := g2 }, names }, showRes r.2)
    | _, _ => none
  | "replace" :: label :: "in" :: rest =>
    -- `wf.replace_child(label, new)`: the new node's channels are declared here
    let (ins, outs) := splitAt rest "out"
    if !rest.contains "out" then none else
    match ins.mapM parseChan, outs.mapM parseChan with
    | some ins, some outs =>
      let r := step s.w (.replace label { label := "?", ins, outs })
      let mine := (ins ++ outs).map fun lc => (lc.2, s!"{label}.{lc.1}")
      let names := if r.2 = .ok then (s.names.filter fun e => (mine.lookup e.1).isNone) ++ mine
        else s.names ++ mine.filter fun e => (s.names.lookup e.1).isNone
      -- a refused replacement still exists (parentless)
      let g2 := registerChans (registerChans r.1.g .dataIn (ins.map Prod.snd)) .dataOut (outs.map Prod.snd)
      some ({ s with w := { r.1 with g := g2 }, names }, showRes r.2)
    | _, _ => none
  | "loadchild" :: label :: "in" :: rest =>
    -- `child.load()` in place: the loaded channels (new ids) are declared here
    let (ins, outs) := splitAt rest "out"
    if !rest.contains "out" then none else
    match ins.mapM parseChan, outs.mapM parseChan with
    | some ins, some outs =>
      let r := step s.w (.load label { label := label, ins, outs })
      let mine := (ins ++ outs).map fun lc => (lc.2, s!"{label}.{lc.1}")
      let names := if r.2 = .ok then (s.names.filter fun e => (mine.lookup e.1).isNone) ++ mine else s.names
      some ({ s with w := r.1, names }, showRes r.2)
    | _, _ => none
  | ["echo", res] => if res = "" then none else some (s, res)
  | ["relabel", old, arg] =>
    -- re-labelling a held child through the workflow: `s:<label>`, `attr:<name>`, `nonstr`
    let la : Option LabelArg := match arg.splitOn ":" with
      | ["s", l] => if l = "" then none else some (.str l)
      | ["attr", l] => if l = "" then none else some (.attr l)
      | ["nonstr"] => some .nonStr
      | _ => none
    la.bind fun la =>
      let r := step s.w (.relabel old la)
      let names := match la, r.2 with
        | .str l, .ok => s.names.map fun e =>
            if e.2.startsWith (old ++ ".") && (r.1.children.any fun c => c.label == l && c.ids.contains e.1)
            then (e.1, l ++ (e.2.drop old.length).toString) else e
        | _, _ => s.names
      some ({ s with w := r.1, names }, showRes r.2)
  | ["pull", label, status] =>
    -- `child.pull()` / `child()`: whether the upstream run raised is what the harness saw (C01/C06)
    if status ≠ "ok" && !status.startsWith "exc:" then none else
    some ({ s with w := (step s.w (.pull label (status ≠ "ok"))).1 }, status)
  | "ext" :: label :: "in" :: rest =>
    -- a node that is nobody's child: its channels exist (for connections and values) only
    let (ins, outs) := splitAt rest "out"
    if !rest.contains "out" then none else
    match ins.mapM parseChan, outs.mapM parseChan with
    | some ins, some outs =>
      let g1 := registerChans s.w.g .dataIn (ins.map Prod.snd)
      let g2 := registerChans g1 .dataOut (outs.map Prod.snd)
      some ({ s with w := { s.w with g := g2 },
                     names := s.names ++ (ins ++ outs).map (fun lc => (lc.2, s!"{label}.{lc.1}")) }, "ok")
    | _, _ => none
  | ["hint", c, h] =>
    match c.toNat? with
    | some c =>
      if h ∈ ["int", "str", "bool"] then
        let old := s.w.admits
        some ({ s with w := { s.w with admits := fun x v => if x = c then tagOk h v else old x v } }, "ok")
      else none
    | none => none
  | ["remove", label] => fin (step s.w (.remove label))
  | ["connect", a, b] =>
    match a.toNat?, b.toNat? with
    | some a, some b => fin (step s.w (.connect a b))
    | _, _ => none
  | ["disconnect", a, b] =>
    match a.toNat?, b.toNat? with
    | some a, some b => fin (step s.w (.disconnect a b))
    | _, _ => none
  | ["disconnectall", a] =>
    match a.toNat? with
    | some a => fin (step s.w (.disconnectAll a))
    | none => none
  | "imap" :: rest => (parseMapArg rest).map fun a => let r := assignMap s [.inputs] a; (r.1, showRes r.2)
  | "omap" :: rest => (parseMapArg rest).map fun a => let r := assignMap s [.outputs] a; (r.1, showRes r.2)
  | "bothmap" :: rest =>
    -- the SAME object assigned to `inputs_map` and then to `outputs_map`
    (parseMapArg rest).bind fun a =>
      if a.shared || a.m.isNone then none else
      let r := assignMap s [.inputs, .outputs] a; some (r.1, showRes r.2)
  | "medit" :: side :: mode :: toks =>
    match parseSide side, toks.mapM parseTok with
    | some side, some toks =>
      if mode = "getter" || mode = "held" then
        -- `m = wf.inputs_map`: the getter runs once in any case
        let r0 := hget s.hs (Slot.ofSide side)
        if r0.2 ≠ .ok then some (s.ofHS r0.1, s!"{showRes r0.2}@0") else
        let r := medit r0.1 (Slot.ofSide side) (mode = "getter") toks 0
        some (s.ofHS r.1, r.2)
      else if mode = "orig" || mode = "stale" || mode = "other" then
        match s.refs.lookup (sideWord side ++ "." ++ mode) with
        | some ref => some (s.ofHS (feedit s.hs ref toks), "ok")
        | none => none
      else none
    | _, _ => none
  | ["reload"] =>
    -- pickle round trip; the objects stored so far stay with the user as `stale`
    let s1 := noteStale (noteStale s .inputs) .outputs
    some (s1.ofHS (hreload s1.hs), "ok")
  | ["noop"] => some (s, "ok")
  | ["assign", side, k, v] =>
    match parseSide side with
    | some side => fin (step s.w (.assign side k v))
    | none => none
  | ["connectvia", side, k, b] =>
    match parseSide side, b.toNat? with
    | some side, some b => fin (step s.w (.connectVia side k b))
    | _, _ => none
  | ["val", c, v] =>
    match c.toNat? with
    | some c => fin (step s.w (.setVal c v))
    | none => none
  | ["clearchildren"] => some ({ s with w := { s.w with children := [] } }, "ok")
  | "setconns" :: c :: l =>
    match c.toNat?, nats l with
    | some c, some l => some ({ s with w := { s.w with g := { s.w.g with conns := updF s.w.g.conns c l } } }, "ok")
    | _, _ => none
  | "kw" :: kvs =>
    match kvs.mapM parseKv with
    | some kvs =>
      let r := setInputValues s.w kvs
      some ({ s with w := r.1, kw := r.2 }, showRes r.2)
    | none => none
  | _ => none

def step' (s : St) (ws : List String) : St × List String :=
  match ws with
  | "q" :: rest =>
    match exec s rest with
    | some (s', _) => (s', [])
    | none => (s, ["bad-op"])
  | ["sync"] => let (s1, fl) := settle s; (s1, ["sync " ++ obsOf s1 fl])
  | ["run", status] =>
    -- `status` is what the harness saw of the run proper (C01's subject); the panel and
    -- keyword failures are the model's own
    let (s1, fl) := settle { s with kw := .ok }
    let obs := obsOf s1 fl
    if s.kw ≠ .ok then (s1, [s!"exc:{showRes s.kw} {obs}"])
    else if (s1.w.panel .inputs).isNone then (s1, [s!"exc:typeErr {obs}"])
    else if status.startsWith "exc:" then (s1, [s!"{status} {obs}"])
    else if status ≠ "ok" then (s, ["bad-op"])
    else if (s1.w.panel .outputs).isNone then (s1, [s!"exc:typeErr {obs}"])
    else (s1, [s!"ok ret:{showRet s1} {obs}"])
  | _ =>
    match exec s ws with
    | some (s', r) => let (s1, fl) := settle s'; (s1, [s!"{r} {obsOf s1 fl}"])
    | none => (s, ["bad-op"])

def main : IO Unit := Proto.run init step'
