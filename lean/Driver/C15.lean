import PwVerif.Model.WfIO
import PwVerif.Model.Proto
open PwVerif PwVerif.WfIO PwVerif.Proto

/-- driver state: the world, every channel id ever created with its printable name, the hint
table behind `admits`, and the outcome of a pending `kw` line -/
structure St where
  w : W
  names : List (Nat × String)     -- id ↦ "child.chan"
  kw : Res

def showRes : Res → String
  | .ok => "ok" | .dupErr => "dupErr" | .typeErr => "typeErr" | .connErr => "connErr"
  | .valueErr => "valueErr" | .refused => "refused"

def nameOf (s : St) (c : Nat) : String := (s.names.lookup c).getD "?"

def showPanel (s : St) (side : Side) : String :=
  match s.w.panel side with
  | none => "ERR"
  | some p => "[" ++ ",".intercalate (p.map fun e => s!"{e.1}={nameOf s e.2}#{e.2}") ++ "]"

def showMap : Option KeyMap → String
  | none => "None"
  | some m => "{" ++ ",".intercalate (m.map fun e =>
      match e.2 with
      | .name n => s!"{e.1}>{n}"
      | .disabled k => s!"{e.1}>-{k}") ++ "}"

def showVals (s : St) : String :=
  ",".intercalate ((s.names.mergeSort (fun a b => a.1 ≤ b.1)).map fun e => s!"{e.1}={s.w.val e.1}")

def obs (s : St) : String :=
  s!"in:{showPanel s .inputs} out:{showPanel s .outputs} imap:{showMap s.w.imap} omap:{showMap s.w.omap} vals:{showVals s}"

def showRet (s : St) : String :=
  match runReturn s.w with
  | none => "ERR"
  | some r => "{" ++ ",".intercalate (r.map fun e => s!"{e.1}={e.2}") ++ "}"

/-- hint check of the value setter on tagged tokens `i:… s:… b:… t:…` -/
def tagOk (hint : String) (v : Val) : Bool :=
  match hint with
  | "int" => v.startsWith "i:" || v.startsWith "b:"
  | "str" => v.startsWith "s:"
  | "bool" => v.startsWith "b:"
  | _ => true

def init : St :=
  { w := empty (fun _ _ => true) (fun _ _ => true), names := [], kw := .ok }

def parseChan (w : String) : Option (String × Nat) :=
  match w.splitOn ":" with
  | [l, i] => if l = "" then none else i.toNat?.map fun i => (l, i)
  | _ => none

def parseSide : String → Option Side
  | "in" => some .inputs | "out" => some .outputs | _ => none

/-- `k>v` with `v = -` for `None` -/
def parseEntry (w : String) : Option (String × Option String) :=
  match w.splitOn ">" with
  | [k, v] => if k = "" || v = "" then none else some (k, if v = "-" then none else some v)
  | _ => none

def parseKv (w : String) : Option (String × Val) :=
  match w.splitOn "=" with
  | [k, v] => if k = "" || v = "" then none else some (k, v)
  | _ => none

def parseMap (ws : List String) : Option (Option UserMap) :=
  match ws with
  | ["none"] => some none
  | "dict" :: es =>
    match es.mapM parseEntry with
    | some m => if (m.map Prod.fst).eraseDups.length = m.length then some (some m) else none
    | none => none
  | _ => none

def splitAt (ws : List String) (sep : String) : List String × List String :=
  (ws.takeWhile (· ≠ sep), (ws.dropWhile (· ≠ sep)).drop 1)

/-- one operation; returns the new state and the result word (`none` = malformed) -/
def exec (s : St) (ws : List String) : Option (St × String) :=
  let fin (r : W × Res) : Option (St × String) := some ({ s with w := r.1 }, showRes r.2)
  match ws with
  | "add" :: label :: "in" :: rest =>
    let (ins, outs) := splitAt rest "out"
    if !rest.contains "out" then none else
    match ins.mapM parseChan, outs.mapM parseChan with
    | some ins, some outs =>
      let c : Child := { label, ins, outs }
      let r := step s.w (.add c)
      let mine := (ins ++ outs).map fun lc => (lc.2, s!"{label}.{lc.1}")
      let fresh := mine.filter fun e => (s.names.lookup e.1).isNone
      let names := if r.2 = .ok then
          (s.names.map fun e => (e.1, (mine.lookup e.1).getD e.2)) ++ fresh
        else s.names ++ fresh
      -- a refused node still exists (parentless): its channels can be connected to
      let g2 := registerChans (registerChans r.1.g .dataIn (ins.map Prod.snd)) .dataOut (outs.map Prod.snd)
      some ({ s with w := { r.1 with g := g2 }, names }, showRes r.2)
    | _, _ => none
  | "ext" :: label :: "in" :: rest =>
    -- a node that is nobody's child: its channels exist (for connections and values) only
    let (ins, outs) := splitAt rest "out"
    if !rest.contains "out" then none else
    match ins.mapM parseChan, outs.mapM parseChan with
    | some ins, some outs =>
      let g1 := registerChans s.w.g .dataIn (ins.map Prod.snd)
      let g2 := registerChans g1 .dataOut (outs.map Prod.snd)
      some ({ s with w := { s.w with g := g2 },
                     names := s.names ++ (ins ++ outs).map (fun lc => (lc.2, s!"{label}.{lc.1}")) }, "ok")
    | _, _ => none
  | ["hint", c, h] =>
    match c.toNat? with
    | some c =>
      if h ∈ ["int", "str", "bool"] then
        let old := s.w.admits
        some ({ s with w := { s.w with admits := fun x v => if x = c then tagOk h v else old x v } }, "ok")
      else none
    | none => none
  | ["remove", label] => fin (step s.w (.remove label))
  | ["connect", a, b] =>
    match a.toNat?, b.toNat? with
    | some a, some b => fin (step s.w (.connect a b))
    | _, _ => none
  | ["disconnect", a, b] =>
    match a.toNat?, b.toNat? with
    | some a, some b => fin (step s.w (.disconnect a b))
    | _, _ => none
  | ["disconnectall", a] =>
    match a.toNat? with
    | some a => fin (step s.w (.disconnectAll a))
    | none => none
  | "imap" :: rest => (parseMap rest).bind fun m => fin (step s.w (.setMap .inputs m))
  | "omap" :: rest => (parseMap rest).bind fun m => fin (step s.w (.setMap .outputs m))
  | ["assign", side, k, v] =>
    match parseSide side with
    | some side => fin (step s.w (.assign side k v))
    | none => none
  | ["connectvia", side, k, b] =>
    match parseSide side, b.toNat? with
    | some side, some b => fin (step s.w (.connectVia side k b))
    | _, _ => none
  | ["val", c, v] =>
    match c.toNat? with
    | some c => fin (step s.w (.setVal c v))
    | none => none
  | ["clearchildren"] => some ({ s with w := { s.w with children := [] } }, "ok")
  | "setconns" :: c :: l =>
    match c.toNat?, nats l with
    | some c, some l => some ({ s with w := { s.w with g := { s.w.g with conns := updF s.w.g.conns c l } } }, "ok")
    | _, _ => none
  | "kw" :: kvs =>
    match kvs.mapM parseKv with
    | some kvs =>
      let r := setInputValues s.w kvs
      some ({ s with w := r.1, kw := r.2 }, showRes r.2)
    | none => none
  | _ => none

def step' (s : St) (ws : List String) : St × List String :=
  match ws with
  | "q" :: rest =>
    match exec s rest with
    | some (s', _) => (s', [])
    | none => (s, ["bad-op"])
  | ["sync"] => (s, ["sync " ++ obs s])
  | ["run", status] =>
    -- `status` is what the harness saw of the run proper (C01's subject); the panel and
    -- keyword failures are the model's own
    let s0 := { s with kw := .ok }
    if s.kw ≠ .ok then (s0, [s!"exc:{showRes s.kw} {obs s0}"])
    else if (s.w.panel .inputs).isNone then (s0, [s!"exc:typeErr {obs s0}"])
    else if status.startsWith "exc:" then (s0, [s!"{status} {obs s0}"])
    else if status ≠ "ok" then (s, ["bad-op"])
    else if (s.w.panel .outputs).isNone then (s0, [s!"exc:typeErr {obs s0}"])
    else (s0, [s!"ok ret:{showRet s0} {obs s0}"])
  | _ =>
    match exec s ws with
    | some (s', r) => (s', [s!"{r} {obs s'}"])
    | none => (s, ["bad-op"])

def main : IO Unit := Proto.run init step'
