import PwVerif.Model.WfIO
import PwVerif.Model.Proto
open PwVerif PwVerif.WfIO PwVerif.Proto

/-- driver state: the world, every channel id ever created with its printable name, the hint
table behind `admits`, and the outcome of a pending `kw` line -/
structure St where
  w : W
  names : List (Nat × String)     -- id ↦ "child.chan"
  kw : Res

def showRes : Res → String
  | .ok => "ok" | .dupErr => "dupErr" | .typeErr => "typeErr" | .connErr => "connErr"
  | .valueErr => "valueErr" | .refused => "refused" | .keyErr => "keyErr" | .kvDupErr => "kvDupErr"

def nameOf (s : St) (c : Nat) : String := (s.names.lookup c).getD "?"

def showPanel (s : St) (side : Side) (readOk : Bool) : String :=
  match (if readOk then s.w.panel side else none) with
  | none => "ERR"
  | some p => "[" ++ ",".intercalate (p.map fun e => s!"{e.1}={nameOf s e.2}#{e.2}") ++ "]"

def showMap : Option KeyMap → String
  | none => "None"
  | some m => "{" ++ ",".intercalate (m.map fun e =>
      match e.2 with
      | .name n => s!"{e.1}>{n}"
      | .disabled k => s!"{e.1}>-{k}"
      | .rawNone => s!"{e.1}>!None") ++ "}"

def showVals (s : St) : String :=
  ",".intercalate ((s.names.mergeSort (fun a b => a.1 ≤ b.1)).map fun e => s!"{e.1}={s.w.val e.1}")

/-- what the harness does after every operation: it reads `wf.inputs`, `wf.outputs` (each calls
the getter of its map, which cleans the stored object in place) and then both maps -/
def settle (s : St) : St × Bool × Bool :=
  let r1 := step s.w (.read .inputs)
  let r2 := step r1.1 (.read .outputs)
  ({ s with w := r2.1 }, decide (r1.2 = .ok), decide (r2.2 = .ok))

def obsOf (s : St) (fl : Bool × Bool) : String :=
  s!"in:{showPanel s .inputs fl.1} out:{showPanel s .outputs fl.2} imap:{showMap s.w.imap} omap:{showMap s.w.omap} vals:{showVals s}"

def showRet (s : St) : String :=
  match runReturn s.w with
  | none => "ERR"
  | some r => "{" ++ ",".intercalate (r.map fun e => s!"{e.1}={e.2}") ++ "}"

/-- hint check of the value setter on tagged tokens `i:… s:… b:… t:…` -/
def tagOk (hint : String) (v : Val) : Bool :=
  match hint with
  | "int" => v.startsWith "i:" || v.startsWith "b:"
  | "str" => v.startsWith "s:"
  | "bool" => v.startsWith "b:"
  | _ => true

def init : St :=
  { w := empty (fun _ _ => true) (fun _ _ => true), names := [], kw := .ok }

def parseChan (w : String) : Option (String × Nat) :=
  match w.splitOn ":" with
  | [l, i] => if l = "" then none else i.toNat?.map fun i => (l, i)
  | _ => none

def parseSide : String → Option Side
  | "in" => some .inputs | "out" => some .outputs | _ => none

/-- `k>v` with `v = -` for `None` -/
def parseEntry (w : String) : Option (String × Option String) :=
  match w.splitOn ">" with
  | [k, v] => if k = "" || v = "" then none else some (k, if v = "-" then none else some v)
  | _ => none

def parseKv (w : String) : Option (String × Val) :=
  match w.splitOn "=" with
  | [k, v] => if k = "" || v = "" then none else some (k, v)
  | _ => none

def parseMap (ws : List String) : Option (Option UserMap) :=
  match ws with
  | ["none"] => some none
  | "dict" :: es =>
    match es.mapM parseEntry with
    | some m => if (m.map Prod.fst).eraseDups.length = m.length then some (some m) else none
    | none => none
  | _ => none

/-- `dict k>v …` / `bidict k>v …` / `none` → the operation on one side -/
def mapOp (side : Side) (ws : List String) : Option Op :=
  match ws with
  | "bidict" :: es =>
    match es.mapM parseEntry with
    | some m => if (m.map Prod.fst).eraseDups.length = m.length then some (.setMapB side m) else none
    | none => none
  | _ => (parseMap ws).map fun m => .setMap side m

def optStr (v : String) : Option String := if v = "-" then none else some v

/-- one token of a `medit` line -/
inductive Tok | edit (e : Edit) | access

def parseTok (w : String) : Option Tok :=
  match w.splitOn ":" with
  | ["clear"] => some (.edit .clear)
  | ["popitem"] => some (.edit .popitem)
  | ["access"] => some .access
  | ["set", kv] => (parseEntry kv).map fun e => .edit (.put e.1 e.2)
  | ["setdefault", kv] => (parseEntry kv).map fun e => .edit (.setdefault e.1 e.2)
  | ["force", kv] => (parseEntry kv).map fun e => .edit (.force e.1 e.2)
  | ["del", k] => if k = "" then none else some (.edit (.del k))
  | ["pop", k] => if k = "" then none else some (.edit (.pop k))
  | ["popd", k] => if k = "" then none else some (.edit (.popd k))
  | ["invdel", v] => if v = "" then none else some (.edit (.invDel (optStr v)))
  | ["invset", vk] =>
    match vk.splitOn ">" with
    | [v, k] => if k = "" || v = "" then none else some (.edit (.invPut (optStr v) k))
    | _ => none
  | ["upd", kvs] =>
    let es := if kvs = "" then [] else kvs.splitOn ","
    match es.mapM parseEntry with
    | some m => if (m.map Prod.fst).eraseDups.length = m.length then some (.edit (.update m)) else none
    | none => none
  | _ => none

/-- a batch of in-place edits, as a script would run it: `getter` = every edit goes through the
property again (`wf.inputs_map[k] = v`), `held` = the reference is taken once (`m = wf.inputs_map`)
and edited; the first exception ends the batch. `access` reads the panel of that side. -/
def medit (w : W) (side : Side) (everyTime : Bool) : List Tok → Nat → W × String
  | [], _ => (w, "ok")
  | t :: rest, i =>
    let pre := match t with
      | .access => step w (.read side)
      | .edit _ => if everyTime then step w (.read side) else (w, .ok)
    if pre.2 ≠ .ok then (pre.1, s!"{showRes pre.2}@{i}") else
    match t with
    | .access => medit pre.1 side everyTime rest (i + 1)
    | .edit e =>
      let r := step pre.1 (.edit side e)
      if r.2 ≠ .ok then (r.1, s!"{showRes r.2}@{i}") else medit r.1 side everyTime rest (i + 1)

def splitAt (ws : List String) (sep : String) : List String × List String :=
  (ws.takeWhile (· ≠ sep), (ws.dropWhile (· ≠ sep)).drop 1)

/-- one operation; returns the new state and the result word (`none` = malformed) -/
def exec (s : St) (ws : List String) : Option (St × String) :=
  let fin (r : W × Res) : Option (St × String) := some ({ s with w := r.1 }, showRes r.2)
  match ws with
  | "add" :: label :: "in" :: rest =>
    let (ins, outs) := splitAt rest "out"
    if !rest.contains "out" then none else
    match ins.mapM parseChan, outs.mapM parseChan with
    | some ins, some outs =>
      let c : Child := { label, ins, outs }
      let r := step s.w (.add c)
      let mine := (ins ++ outs).map fun lc => (lc.2, s!"{label}.{lc.1}")
      let fresh := mine.filter fun e => (s.names.lookup e.1).isNone
      let names := if r.2 = .ok then
          (s.names.map fun e => (e.1, (mine.lookup e.1).getD e.2)) ++ fresh
        else s.names ++ fresh
      -- a refused node still exists (parentless): its channels can be connected to
      let g2 := registerChans (registerChans r.1.g .dataIn (ins.map Prod.snd)) .dataOut (outs.map Prod.snd)
      some ({ s with w := { r.1 with g := g2 }, names }, showRes r.2)
    | _, _ => none
  | "ext" :: label :: "in" :: rest =>
    -- a node that is nobody's child: its channels exist (for connections and values) only
    let (ins, outs) := splitAt rest "out"
    if !rest.contains "out" then none else
    match ins.mapM parseChan, outs.mapM parseChan with
    | some ins, some outs =>
      let g1 := registerChans s.w.g .dataIn (ins.map Prod.snd)
      let g2 := registerChans g1 .dataOut (outs.map Prod.snd)
      some ({ s with w := { s.w with g := g2 },
                     names := s.names ++ (ins ++ outs).map (fun lc => (lc.2, s!"{label}.{lc.1}")) }, "ok")
    | _, _ => none
  | ["hint", c, h] =>
    match c.toNat? with
    | some c =>
      if h ∈ ["int", "str", "bool"] then
        let old := s.w.admits
        some ({ s with w := { s.w with admits := fun x v => if x = c then tagOk h v else old x v } }, "ok")
      else none
    | none => none
  | ["remove", label] => fin (step s.w (.remove label))
  | ["connect", a, b] =>
    match a.toNat?, b.toNat? with
    | some a, some b => fin (step s.w (.connect a b))
    | _, _ => none
  | ["disconnect", a, b] =>
    match a.toNat?, b.toNat? with
    | some a, some b => fin (step s.w (.disconnect a b))
    | _, _ => none
  | ["disconnectall", a] =>
    match a.toNat? with
    | some a => fin (step s.w (.disconnectAll a))
    | none => none
  | "imap" :: rest => (mapOp .inputs rest).bind fun o => fin (step s.w o)
  | "omap" :: rest => (mapOp .outputs rest).bind fun o => fin (step s.w o)
  | "bothmap" :: rest =>
    -- the SAME object assigned to `inputs_map` and then to `outputs_map`
    match mapOp .inputs rest, mapOp .outputs rest with
    | some oi, some oo =>
      let r1 := step s.w oi
      if r1.2 ≠ .ok then fin r1 else fin (step r1.1 oo)
    | _, _ => none
  | "medit" :: side :: mode :: toks =>
    match parseSide side, toks.mapM parseTok with
    | some side, some toks =>
      if mode = "getter" || mode = "held" then
        -- `m = wf.inputs_map`: the getter runs once in any case
        let r0 := step s.w (.read side)
        if r0.2 ≠ .ok then some ({ s with w := r0.1 }, s!"{showRes r0.2}@0") else
        let r := medit r0.1 side (mode = "getter") toks 0
        some ({ s with w := r.1 }, r.2)
      else none
    | _, _ => none
  | ["noop"] => some (s, "ok")
  | ["assign", side, k, v] =>
    match parseSide side with
    | some side => fin (step s.w (.assign side k v))
    | none => none
  | ["connectvia", side, k, b] =>
    match parseSide side, b.toNat? with
    | some side, some b => fin (step s.w (.connectVia side k b))
    | _, _ => none
  | ["val", c, v] =>
    match c.toNat? with
    | some c => fin (step s.w (.setVal c v))
    | none => none
  | ["clearchildren"] => some ({ s with w := { s.w with children := [] } }, "ok")
  | "setconns" :: c :: l =>
    match c.toNat?, nats l with
    | some c, some l => some ({ s with w := { s.w with g := { s.w.g with conns := updF s.w.g.conns c l } } }, "ok")
    | _, _ => none
  | "kw" :: kvs =>
    match kvs.mapM parseKv with
    | some kvs =>
      let r := setInputValues s.w kvs
      some ({ s with w := r.1, kw := r.2 }, showRes r.2)
    | none => none
  | _ => none

def step' (s : St) (ws : List String) : St × List String :=
  match ws with
  | "q" :: rest =>
    match exec s rest with
    | some (s', _) => (s', [])
    | none => (s, ["bad-op"])
  | ["sync"] => let (s1, fl) := settle s; (s1, ["sync " ++ obsOf s1 fl])
  | ["run", status] =>
    -- `status` is what the harness saw of the run proper (C01's subject); the panel and
    -- keyword failures are the model's own
    let (s1, fl) := settle { s with kw := .ok }
    let obs := obsOf s1 fl
    if s.kw ≠ .ok then (s1, [s!"exc:{showRes s.kw} {obs}"])
    else if (s1.w.panel .inputs).isNone then (s1, [s!"exc:typeErr {obs}"])
    else if status.startsWith "exc:" then (s1, [s!"{status} {obs}"])
    else if status ≠ "ok" then (s, ["bad-op"])
    else if (s1.w.panel .outputs).isNone then (s1, [s!"exc:typeErr {obs}"])
    else (s1, [s!"ok ret:{showRet s1} {obs}"])
  | _ =>
    match exec s ws with
    | some (s', r) => let (s1, fl) := settle s'; (s1, [s!"{r} {obsOf s1 fl}"])
    | none => (s, ["bad-op"])

def main : IO Unit := Proto.run init step'
