import PwVerif.Model.ConnOps
import PwVerif.Model.Proto
open PwVerif PwVerif.Conn PwVerif.ConnOps PwVerif.Proto

structure St where
  g : G
  dom : List Nat
  /-- channels whose `connect`/`disconnect` currently refuse (fault injection of the harness; empty on
  every history of the unchanged library) -/
  locked : List Nat
  /-- lists saved by the flow derivation in progress (`t-dagbegin`) -/
  saved : List (Nat × List Nat) := []
  /-- pulls in progress (`t-pullbegin`): the graph at save time and the saved channels, innermost first -/
  pulls : List (G × List Nat) := []

def St.me (s : St) : May := fun c => !s.locked.contains c

def parseKind : String → Option Kind
  | "di" => some .dataIn | "do" => some .dataOut | "si" => some .sigIn | "so" => some .sigOut
  | _ => none

def showRes : Res → String | .ok => "ok" | .typeErr => "typeErr" | .connErr => "connErr"
def showOut : Out → String | .ok => "ok" | .typeErr => "typeErr" | .connErr => "connErr" | .locked => "locked"

def showRep (rep : List (Nat × Nat)) : String :=
  if rep.isEmpty then "-" else ",".intercalate (rep.map fun p => s!"{p.1}>{p.2}")

/-- only the non-empty lists, in the order of declaration -/
def obs (s : St) : String :=
  let toks := (s.dom.filter fun c => !(s.g.conns c).isEmpty).map fun c => s!"{c}:{showNats (s.g.conns c)}"
  if toks.isEmpty then "none" else " ".intercalate toks

def insertSorted (x : Nat) : List Nat → List Nat
  | [] => [x]
  | y :: ys => if x ≤ y then x :: y :: ys else y :: insertSorted x ys

def sortNats (l : List Nat) : List Nat := l.foldl (fun acc x => insertSorted x acc) []

def parseGroup (w : String) : Option (List Nat) :=
  if w = "" then some [] else nats (w.splitOn ",")

/-- same graph, lists stored in an array: keeps the chain of pointwise updates short (run time only) -/
def compact (s : St) : St :=
  let n := s.dom.foldl (fun m c => max m (c + 1)) 0
  let arr : Array (List Nat) := (Array.range n).map s.g.conns
  { s with g := { s.g with conns := fun c => arr.getD c [] } }

def init : St :=
  { g := { kind := fun _ => .dataIn, owner := fun _ => 0, valid := fun _ _ => true, conns := fun _ => [] },
    dom := [], locked := [], saved := [], pulls := [] }

def step (s : St) (ws : List String) : St × List String :=
  match ws with
  | ["chan", c, k, o] =>
    match c.toNat?, parseKind k, o.toNat? with
    | some c, some k, some o =>
      ({ s with g := { s.g with kind := updF s.g.kind c k, owner := updF s.g.owner c o }, dom := s.dom ++ [c] }, [])
    | _, _, _ => (s, ["bad-op"])
  | ["invalid", a, b] =>
    match a.toNat?, b.toNat? with
    | some a, some b =>
      let v := s.g.valid
      ({ s with g := { s.g with valid := fun x y => if (x = a ∧ y = b) ∨ (x = b ∧ y = a) then false else v x y } }, [])
    | _, _ => (s, ["bad-op"])
  | ["lock", c] =>
    match c.toNat? with
    | some c => ({ s with locked := c :: s.locked.erase c }, [])
    | none => (s, ["bad-op"])
  | ["unlock", c] =>
    match c.toNat? with
    | some c => ({ s with locked := s.locked.erase c }, [])
    | none => (s, ["bad-op"])
  | "connect" :: a :: bs =>
    match a.toNat?, nats bs with
    | some a, some bs =>
      let (g, r) := connectG s.me s.g a bs
      let s' := { s with g }
      (s', [showOut r ++ " - " ++ obs s'])
    | _, _ => (s, ["bad-op"])
  | "disconnect" :: a :: bs =>
    match a.toNat?, nats bs with
    | some a, some bs =>
      let (g, rep, raised) := disconnectG s.me s.g a bs
      let s' := { s with g }
      (s', [(if raised then "locked -" else "ok " ++ showRep rep) ++ " " ++ obs s'])
    | _, _ => (s, ["bad-op"])
  | ["disconnectall", a] =>
    match a.toNat? with
    | some a =>
      let (g, rep, raised) := disconnectAllG s.me s.g a
      let s' := { s with g }
      (s', [(if raised then "locked -" else "ok " ++ showRep rep) ++ " " ++ obs s'])
    | _ => (s, ["bad-op"])
  | "disconnectchans" :: cs =>
    match nats cs with
    | some cs =>
      let (g, rep, raised) := disconnectChansG s.me s.g cs []
      let s' := { s with g }
      (s', [(if raised then "locked -" else "ok " ++ showRep rep) ++ " " ++ obs s'])
    | _ => (s, ["bad-op"])
  | "dropchans" :: cs =>
    -- `remove_child`: the node's own `disconnect()`, the report is not returned
    match nats cs with
    | some cs =>
      let (g, _, raised) := disconnectChansG s.me s.g cs []
      let s' := { s with g }
      (s', [(if raised then "locked -" else "ok -") ++ " " ++ obs s'])
    | _ => (s, ["bad-op"])
  | ["flags", groups] =>
    -- `connected` of each panel group and of the owner, `connections` of each group (as a sorted set)
    match (groups.splitOn "|").mapM parseGroup with
    | some gs =>
      let bits := gs.map fun cs => if anyConnected s.g cs then "1" else "0"
      let whole := if anyConnected s.g gs.flatten then "1" else "0"
      let sets := gs.map fun cs => showNats (sortNats (panelConnections s.g cs))
      (s, ["flags " ++ "".intercalate bits ++ whole ++ " " ++ "|".intercalate sets])
    | none => (s, ["bad-op"])
  | ["copyconns", a, b] =>
    match a.toNat?, b.toNat? with
    | some a, some b =>
      let (g, r) := copyConnsN s.g a b
      let s' := { s with g }
      (s', [showRes r ++ " - " ++ obs s'])
    | _, _ => (s, ["bad-op"])
  | "setconns" :: c :: l =>
    -- state observed on the implementation after an operation that is not part of this model
    match c.toNat?, nats l with
    | some c, some l => ({ s with g := { s.g with conns := updF s.g.conns c l } }, [])
    | _, _ => (s, ["bad-op"])
  | ["clearconns"] => ({ s with g := { s.g with conns := fun _ => [] } }, [])
  | "copyio" :: fh :: ps =>
    -- pairs are written  my:other  with my = - when missing
    let parsed : Option (List (Option Nat × Nat)) := ps.mapM fun w =>
      match w.splitOn ":" with
      | [m, o] => match o.toNat? with
        | some o => if m = "-" then some (none, o) else (m.toNat?).map fun m => (some m, o)
        | none => none
      | _ => none
    match parsed, (if fh = "hard" then some true else if fh = "soft" then some false else none) with
    | some pairs, some hard =>
      let (g, r) := copyIoN s.g hard pairs
      let s' := { s with g }
      (s', [showRes r ++ " - " ++ obs s'])
    | _, _ => (s, ["bad-op"])
  -- replay of the primitive calls an operation outside the modelled alphabet was seen to make: silent
  | "t-connect" :: a :: bs =>
    match a.toNat?, nats bs with
    | some a, some bs => ({ s with g := (connectG allow s.g a bs).1 }, [])
    | _, _ => (s, ["bad-op"])
  | "t-disconnect" :: a :: bs =>
    match a.toNat?, nats bs with
    | some a, some bs => ({ s with g := (disconnectR s.g a bs).1 }, [])
    | _, _ => (s, ["bad-op"])
  | "t-order" :: c :: l =>
    match c.toNat?, nats l with
    | some c, some l =>
      let (g, ok) := reorder s.g c l
      ({ s with g }, if ok then [] else ["bad-obs"])
    | _, _ => (s, ["bad-op"])
  | ["t-insert", a, b] =>
    match a.toNat?, b.toNat? with
    | some a, some b =>
      let (g, ok) := restoreInsert s.g a b
      ({ s with g }, if ok then [] else ["bad-obs"])
    | _, _ => (s, ["bad-op"])
  | ["t-move", o, n] =>
    match o.toNat?, n.toNat? with
    | some o, some n =>
      let (g, ok) := moveChan s.g o n
      ({ s with g }, if ok then [] else ["bad-obs"])
    | _, _ => (s, ["bad-op"])
  | "t-pullbegin" :: keys =>
    match nats keys with
    | some keys => ({ s with pulls := (s.g, keys) :: s.pulls }, [])
    | none => (s, ["bad-op"])
  | ["t-pullend"] =>
    match s.pulls with
    | (g0, keys) :: rest =>
      -- `restoreSaved_framed`: the assignment gives `g0` back iff nothing outside the saved channels was written
      if framed g0 s.g keys s.dom then ({ s with g := restoreSaved s.g (savedKeys g0 keys), pulls := rest }, [])
      else ({ s with g := restoreSaved s.g (savedKeys g0 keys), pulls := rest }, ["bad-obs"])
    | [] => (s, ["bad-op"])
  | "t-dagbegin" :: cut =>
    match nats cut with
    | some cut => ({ s with saved := savedOf s.g cut }, [])
    | none => (s, ["bad-op"])
  | ["t-dagfail"] => ({ s with g := restoreSaved s.g s.saved, saved := [] }, [])
  | ["t-show"] => let s' := compact s; (s', ["trace " ++ obs s'])
  | "call" :: known :: items =>
    -- call <known 0|1> <items: a:b (channel keyword) | v (accepted value) | x (refused value)>
    let parsed : Option (List CallItem) := items.mapM fun w =>
      if w = "v" then some .valOk else if w = "x" then some .valBad
      else match w.splitOn ":" with
        | [a, b] => match a.toNat?, b.toNat? with
          | some a, some b => some (.chan a b)
          | _, _ => none
        | _ => none
    match parsed, (if known = "1" then some true else if known = "0" then some false else none) with
    | some items, some known =>
      let (g, r) := callOp s.g known items
      let s' := { s with g }
      (s', [(if known then showRes r else "refused") ++ " - " ++ obs s'])
    | _, _ => (s, ["bad-op"])
  | "replace" :: pre :: oc :: nc :: ps =>
    -- replace <pre 0|1> <old chans a,b,..> <new chans a,b,..> <pairs my:other ...>
    let parsed : Option (List (Option Nat × Nat)) := ps.mapM fun w =>
      match w.splitOn ":" with
      | [m, o] => match o.toNat? with
        | some o => if m = "-" then some (none, o) else (m.toNat?).map fun m => (some m, o)
        | none => none
      | _ => none
    match parsed, parseGroup oc, parseGroup nc, (if pre = "1" then some true else if pre = "0" then some false else none) with
    | some pairs, some oc, some nc, some pre =>
      let (g, r) := replaceConn s.g { oldChans := oc, newChans := nc, pairs } pre
      let s' := { s with g }
      let rs := match r with | .ok => "ok" | .refused => "refused" | .connErr => "connErr" | .badObs => "bad-obs"
      (s', [rs ++ " - " ++ obs s'])
    | _, _, _, _ => (s, ["bad-op"])
  | _ => (s, ["bad-op"])

/-- compaction after every answered operation -/
def step' (s : St) (ws : List String) : St × List String :=
  let (s', out) := step s ws
  if out.isEmpty then (s', out) else (compact s', out)

def main : IO Unit := Proto.run init step'
