import PwVerif.Model.Conn
import PwVerif.Model.Proto
open PwVerif PwVerif.Conn PwVerif.Proto

structure St where
  g : G
  dom : List Nat

def parseKind : String → Option Kind
  | "di" => some .dataIn | "do" => some .dataOut | "si" => some .sigIn | "so" => some .sigOut
  | _ => none

def showRes : Res → String | .ok => "ok" | .typeErr => "typeErr" | .connErr => "connErr"

def obs (s : St) : String :=
  " ".intercalate (s.dom.map fun c => s!"{c}:{showNats (s.g.conns c)}")

def init : St :=
  { g := { kind := fun _ => .dataIn, owner := fun _ => 0, valid := fun _ _ => true, conns := fun _ => [] },
    dom := [] }

def step (s : St) (ws : List String) : St × List String :=
  match ws with
  | ["chan", c, k, o] =>
    match c.toNat?, parseKind k, o.toNat? with
    | some c, some k, some o =>
      ({ g := { s.g with kind := updF s.g.kind c k, owner := updF s.g.owner c o }, dom := s.dom ++ [c] }, [])
    | _, _, _ => (s, ["bad-op"])
  | ["invalid", a, b] =>
    match a.toNat?, b.toNat? with
    | some a, some b =>
      let v := s.g.valid
      ({ s with g := { s.g with valid := fun x y => if (x = a ∧ y = b) ∨ (x = b ∧ y = a) then false else v x y } }, [])
    | _, _ => (s, ["bad-op"])
  | "connect" :: a :: bs =>
    match a.toNat?, nats bs with
    | some a, some bs =>
      let (g, r) := Conn.step s.g (.connect a bs)
      let s' := { s with g }
      (s', [showRes r ++ " " ++ obs s'])
    | _, _ => (s, ["bad-op"])
  | "disconnect" :: a :: bs =>
    match a.toNat?, nats bs with
    | some a, some bs =>
      let s' := { s with g := (Conn.step s.g (.disconnect a bs)).1 }
      (s', ["ok " ++ obs s'])
    | _, _ => (s, ["bad-op"])
  | ["disconnectall", a] =>
    match a.toNat? with
    | some a =>
      let s' := { s with g := (Conn.step s.g (.disconnectAll a)).1 }
      (s', ["ok " ++ obs s'])
    | _ => (s, ["bad-op"])
  | "disconnectchans" :: cs =>
    match nats cs with
    | some cs =>
      let s' := { s with g := (Conn.step s.g (.disconnectChans cs)).1 }
      (s', ["ok " ++ obs s'])
    | _ => (s, ["bad-op"])
  | ["copyconns", a, b] =>
    match a.toNat?, b.toNat? with
    | some a, some b =>
      let (g, r) := Conn.step s.g (.copyConns a b)
      let s' := { s with g }
      (s', [showRes r ++ " " ++ obs s'])
    | _, _ => (s, ["bad-op"])
  | "setconns" :: c :: l =>
    -- state observed on the implementation after an operation that is not part of this model
    match c.toNat?, nats l with
    | some c, some l => ({ s with g := { s.g with conns := updF s.g.conns c l } }, [])
    | _, _ => (s, ["bad-op"])
  | "copyio" :: fh :: ps =>
    -- pairs are written  my:other  with my = - when missing
    let parsed : Option (List (Option Nat × Nat)) := ps.mapM fun w =>
      match w.splitOn ":" with
      | [m, o] => match o.toNat? with
        | some o => if m = "-" then some (none, o) else (m.toNat?).map fun m => (some m, o)
        | none => none
      | _ => none
    match parsed with
    | some pairs =>
      let (g, r) := Conn.step s.g (.copyIo (fh = "hard") pairs)
      let s' := { s with g }
      (s', [showRes r ++ " " ++ obs s'])
    | none => (s, ["bad-op"])
  | _ => (s, ["bad-op"])

def main : IO Unit := Proto.run init step
